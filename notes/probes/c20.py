import numpy as np, eqsig, warnings, collections
warnings.simplefilter('ignore')
rng=np.random.default_rng(0)
cnt=collections.Counter(); ex={}
# interp2d
for it in range(3000):
    m=int(rng.integers(2,8)); ncol=int(rng.integers(1,4))
    xf=np.sort(rng.uniform(-5,5,size=m)) if rng.random()<0.7 else np.arange(m,dtype=float)
    if np.min(np.diff(xf))<1e-6: continue
    f=rng.normal(size=(m,ncol))
    q=[]
    for _ in range(int(rng.integers(1,6))):
        r=rng.random()
        if r<0.4: q.append(rng.uniform(xf[0],xf[-1]))
        elif r<0.6: q.append(xf[rng.integers(0,m)])
        elif r<0.8: q.append(xf[0]-rng.uniform(0,3))
        else: q.append(xf[-1]+rng.uniform(0,3))
    q=np.array(q)
    got=eqsig.interp2d(q,xf,f)
    exp=np.stack([np.interp(q,xf,f[:,c]) for c in range(ncol)],axis=1)
    if got.shape!=exp.shape or not np.allclose(got,exp,atol=1e-9): cnt['interp2d_bad']+=1; ex.setdefault('interp2d',(q.tolist(),xf.tolist(),got.tolist(),exp.tolist()))
    else: cnt['interp2d_ok']+=1
    # interp_left
    y=rng.normal(size=m)
    q2=np.clip(q,xf[0],None)
    got=eqsig.interp_left(q2,xf,y)
    exp=np.array([y[max(j for j in range(m) if xf[j]<=v)] for v in q2])
    if not np.array_equal(got,exp): cnt['interp_left_bad']+=1
    got=eqsig.interp_left(float(q2[0]),xf,y)
    if got!=exp[0]: cnt['interp_left_scalar_bad']+=1
    got=eqsig.interp_left(q2,xf)
    if not np.array_equal(got,[max(j for j in range(m) if xf[j]<=v) for v in q2]): cnt['interp_left_noy_bad']+=1
# roll av
for it in range(2000):
    n=int(rng.integers(1,40)); x=rng.normal(size=n) if rng.random()<0.7 else rng.integers(-5,5,size=n)
    steps=int(rng.integers(1,n+1))
    for mode in ['forward','backward','centre','center']:
        got=eqsig.calc_roll_av_vals(x,steps,mode=mode)
        xf_=np.asarray(x,dtype=float)
        exp=[]
        for i in range(n):
            if mode=='forward': idx=range(i,i+steps)
            elif mode=='backward': idx=range(i-steps+1,i+1)
            else:
                s=steps//2; e=steps-s-1; idx=range(i-s,i+e+1)
            exp.append(np.mean([xf_[min(max(j,0),n-1)] for j in idx]))
        if len(got)!=n or not np.allclose(got,exp,atol=1e-9): cnt['roll_bad_'+mode]+=1; ex.setdefault('roll_'+mode,(x.tolist(),steps,list(got),exp))
        else: cnt['roll_ok']+=1
# step fn
for it in range(2000):
    n=int(rng.integers(2,30)); 
    kind=rng.integers(0,3)
    x=rng.normal(size=n)+ (3 if kind==0 else (-3 if kind==1 else 0))
    if rng.random()<0.3: x=np.round(x).astype(int)
    for p in (1,2):
        got=eqsig.calc_step_fn_vals_error(x,pow=p)
        xf_=np.asarray(x,dtype=float)
        exp=np.zeros(n)
        for i in range(n-1):
            pre=xf_[:i+1]; post=xf_[i+1:]
            exp[i]=np.sum(np.abs(pre-pre.mean())**p)+np.sum(np.abs(post-post.mean())**p)
        exp[-1]=np.sum(np.abs(xf_-xf_.mean())**p)
        key='step_p%d_%s_%s'%(p,['pos','neg','mixed'][kind], 'int' if x.dtype.kind=='i' else 'float')
        if not np.allclose(got,exp,atol=1e-9): cnt[key+'_bad']+=1; ex.setdefault(key,(x.tolist(),list(got),exp.tolist()))
        else: cnt[key+'_ok']+=1
    ind=int(rng.integers(1,n-1)) if n>2 else None
    if ind is not None:
        pre,post=eqsig.calc_step_fn_steps_vals(x,ind)
        if not (np.isclose(pre,np.mean(x[:ind])) and np.isclose(post,np.mean(x[ind+1:]))): cnt['steps_vals_bad']+=1
print(sorted(cnt.items()))
for k,v in ex.items(): print(k,v)
