import numpy as np, eqsig, warnings, collections, os, tempfile
warnings.simplefilter('ignore')
rng=np.random.default_rng(0)
d=tempfile.mkdtemp()
cnt=collections.Counter(); ex={}
def rt(vals, dt, label='m1'):
    p=os.path.join(d,'x.txt')
    s=eqsig.AccSignal(vals,dt,label=label)
    eqsig.save_signal(p,s)
    out={}
    for nm,f in [('lvd',lambda: eqsig.load_values_and_dt(p)),('load_signal',lambda: eqsig.load_signal(p,astype='signal')),('load_signal_acc',lambda: eqsig.load_signal(p,astype='acc_sig')),('load_signal_default',lambda: eqsig.load_signal(p)),('load_sig',lambda: eqsig.load_sig(p,m=2.0)),('load_asig',lambda: eqsig.load_asig(p,load_label=True,m=0.5))]:
        try: out[nm]=f()
        except Exception as e: out[nm]=('EXC',type(e).__name__,str(e)[:80])
    return out
for vals,dt,label in [
  (rng.normal(size=10),0.01,'m1'),
  (rng.normal(size=10),0.005,'a label with spaces'),
  (rng.normal(size=10),1.0,'m1'),
  (rng.normal(size=10),2.5,'m1'),
  (rng.normal(size=10),12.0,'m1'),
  (rng.normal(size=10),0.0001,'m1'),
  (rng.normal(size=10),0.1,'m1'),
  (rng.normal(size=10),0.5,'m1'),
  (rng.normal(size=1),0.01,'m1'),
  (rng.normal(size=2),0.01,'m1'),
  (np.array([1e7,-1e7,0.0,1e-7,-0.0000004,123456.789]),0.02,'m1'),
  (np.array([-1.5,2.5,3.5]),0.02,'m1'),
  (np.array([5.0,2.5,3.5]),0.02,'m1'),
  (np.array([1,2,3]),0.02,'m1'),
  (np.array([1e20,2,3]),0.02,'m1'),
  (rng.normal(size=10),0.01,'123 4'),
  (rng.normal(size=10),0.01,''),
  (rng.normal(size=10),0.01,'a,b'),
  (rng.normal(size=10),0.01,'# hash'),
]:
    o=rt(vals,dt,label)
    print("dt=%g n=%d label=%r first=%.6g"%(dt,len(vals),label,vals[0]))
    for k,v in o.items():
        if isinstance(v,tuple) and len(v) and isinstance(v[0],str) and v[0]=='EXC': print("   ",k,v); continue
        if k=='lvd': vv,ddt=v; print("   ",k,"n=%s dt=%s ok_vals=%s"%(np.shape(vv),ddt, np.shape(vv)==(len(vals),) and np.allclose(vv,np.round(vals,6),atol=1e-9)))
        elif v is None: print("   ",k,"None")
        else:
            m={'load_sig':2.0,'load_asig':0.5}.get(k,1.0)
            print("   ",k,type(v).__name__,"npts=%s dt=%s label=%r ok_vals=%s"%(v.npts,v.dt,v.label, v.npts==len(vals) and np.allclose(v.values,m*np.round(vals,6),atol=1e-9*max(1,np.max(np.abs(vals))))))
