import numpy as np, eqsig, warnings, collections
warnings.simplefilter('ignore')
rng=np.random.default_rng(0)
cnt=collections.Counter(); ex={}
for it in range(3000):
    n=int(rng.integers(1,12)); x=rng.normal(size=n)
    k=int(rng.integers(1,5)); sh=rng.integers(-6,7,size=k)
    if rng.random()<0.3: sh=np.abs(sh)
    if rng.random()<0.2: sh=-np.abs(sh)
    for clip in ['none','start','end','both']:
        try: out=eqsig.put_array_in_2d_array(x,sh,clip=clip)
        except Exception as e: cnt['put_exc_'+type(e).__name__]+=1; ex.setdefault('put_exc',(n,sh.tolist(),clip,str(e)[:80])); continue
        se=-min(sh.min(),0); ee=max(sh.max(),0)
        full=np.zeros((k,n+se+ee))
        for i,j in enumerate(sh): full[i,se+j:se+j+n]=x
        exp=full
        if clip in('end','both') and ee>0: exp=exp[:,:-ee]
        if clip in('start','both'): exp=exp[:,se:]
        if out.shape!=exp.shape or not np.array_equal(out,exp): cnt['put_bad_'+clip]+=1; ex.setdefault('put_bad_'+clip,(n,sh.tolist(),out.shape,exp.shape))
        else: cnt['put_ok']+=1
    for jt in ('add','sub'):
        try:
            out=eqsig.join_values_w_shifts(x,sh,jtype=jt)
            if sh.min()>=0:
                L=n+sh.max(); a0=np.zeros(L); a0[:n]=x
                exp=np.array([a0+(1 if jt=='add' else -1)*np.concatenate([np.zeros(j),x,np.zeros(L-n-j)]) for j in sh])
                if out.shape!=exp.shape or not np.allclose(out,exp): cnt['join_bad']+=1
                else: cnt['join_ok']+=1
            else: cnt['join_neg_returned']+=1; ex.setdefault('join_neg_returned',(n,sh.tolist(),out.shape))
        except Exception as e:
            cnt['join_exc_%s_%s'%('neg' if sh.min()<0 else 'nonneg', type(e).__name__)]+=1
print(cnt); print(ex)
a=eqsig.Signal(np.arange(1.,6),0.1)
print(eqsig.join_sig_w_time_shift(a,np.array([0.1,0.25,0.3])))
