import numpy as np, warnings
warnings.simplefilter('ignore')
from eqsig import sdof
eps=np.finfo(float).eps
rng=np.random.default_rng(2)
def env(n,dt,T,xi,amax,K=16):
    w=2*np.pi/T; Mu=2*xi/(w**3*dt)+1/w**2; Mv=(1+2*xi*xi)/(w*w*dt)+xi/w; s=n-1
    return K*eps*amax*(s*Mu+s*s*dt*Mv), K*eps*amax*(s*Mv+s*s*dt*w*w*Mu)
worst=0; over=0; tot=0
for it in range(800):
    n=int(rng.choice([2,3,5,10,50,300])); dt=float(10**rng.uniform(-3,0))
    a=(-1.0)**np.arange(n) if rng.random()<0.5 else rng.normal(size=n)
    kf=int(rng.integers(2,9))
    Tdt=10**rng.uniform(np.log10(0.2),np.log10(2e4/kf),size=3); T=np.sort(Tdt*dt); xi=float(rng.choice([0,0.05,0.5,0.99]))
    ar=np.interp(np.arange((n-1)*kf+1)/kf,np.arange(n),a)
    u,v,_=sdof.response_series(a,dt,T,xi); ur,vr,_=sdof.response_series(ar,dt/kf,T,xi)
    for j in range(len(T)):
        w=2*np.pi/T[j]; dur=(n-1)*dt
        tolc=1e-6+5e-8*dur/T[j]+eps/(w*dt)**3; tolf=1e-6+5e-8*dur/T[j]+eps/(w*dt/kf)**3
        pu=np.max(np.abs(u[j])); pv=np.max(np.abs(v[j]))
        Euc,Evc=env(n,dt,T[j],xi,1 if np.max(np.abs(a))==0 else np.max(np.abs(a))); Euf,Evf=env((n-1)*kf+1,dt/kf,T[j],xi,np.max(np.abs(a)))
        bu=(tolc+tolf)*pu+Euc+Euf; bv=(tolc+tolf)*pv+Evc+Evf
        du=np.max(np.abs(ur[j,::kf]-u[j])); dv=np.max(np.abs(vr[j,::kf]-v[j]))
        r=max(du/bu if bu else 0, dv/bv if bv else 0); worst=max(worst,r); tot+=1; over+= r>1
print("refinement worst ratio to bound %.3g; over: %d of %d"%(worst,over,tot))
