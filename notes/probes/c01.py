import sys
sys.path.insert(0, '/verif/.deps')
import numpy as np
import mpmath as mp
import eqsig
from eqsig import sdof

mp.mp.dps = 60
LD = np.longdouble


def coeffs(T, xi, dt):
    """Exact one-step propagator for u''+2 xi w u' + w^2 u = a(t), a linear over the step. mp arithmetic."""
    T = mp.mpf(float(T)); xi = mp.mpf(float(xi)); dt = mp.mpf(float(dt))
    w = 2 * mp.pi / T
    wd = w * mp.sqrt(1 - xi ** 2)
    e = mp.exp(-xi * w * dt)
    s = mp.sin(wd * dt); c = mp.cos(wd * dt)
    # free vibration
    a11 = e * (c + xi * w / wd * s)
    a12 = e * s / wd
    a21 = -e * (w ** 2 / wd) * s
    a22 = e * (c - xi * w / wd * s)
    # forced: a(t)=a0 + sl*t ; particular up = (a0 + sl t)/w^2 - 2 xi sl/w^3
    # response to unit a0 (a0=1, a1=1 -> sl=0) and unit slope pieces: compute for (a0,a1)=(1,0) and (0,1)
    out = []
    for (p0, p1) in ((1, 0), (0, 1)):
        sl = (mp.mpf(p1) - p0) / dt
        up0 = p0 / w ** 2 - 2 * xi * sl / w ** 3
        vp = sl / w ** 2
        upd = (p0 + sl * dt) / w ** 2 - 2 * xi * sl / w ** 3
        # homogeneous initial: u_h(0) = -up0, v_h(0) = -vp
        uh = a11 * (-up0) + a12 * (-vp)
        vh = a21 * (-up0) + a22 * (-vp)
        out.append((uh + upd, vh + vp))
    (b11, b21), (b12, b22) = out
    return [a11, a12, a21, a22, b11, b12, b21, b22]


def to_ld(x):
    return LD(mp.nstr(x, 30))


def reference(acc, dt, periods, xi):
    acc = np.asarray(acc, dtype=LD)
    n = len(acc)
    periods = list(periods)
    P = len(periods)
    co = np.zeros((8, P), dtype=LD)
    for j, T in enumerate(periods):
        if T == 0:
            continue
        cs = coeffs(T, xi, dt)
        for k in range(8):
            co[k, j] = to_ld(cs[k])
    u = np.zeros((P, n), dtype=LD)
    v = np.zeros((P, n), dtype=LD)
    for i in range(n - 1):
        u[:, i + 1] = co[0] * u[:, i] + co[1] * v[:, i] + co[4] * acc[i] + co[5] * acc[i + 1]
        v[:, i + 1] = co[2] * u[:, i] + co[3] * v[:, i] + co[6] * acc[i] + co[7] * acc[i + 1]
    return u, v


def check(acc, dt, periods, xi):
    u, v, a = sdof.response_series(acc, dt, periods, xi)
    # library convention: solves u'' + ... = +acc?  try both signs
    ru, rv = reference(acc, dt, periods, xi)
    res = []
    for j, T in enumerate(periods):
        if T == 0:
            continue
        w = 2 * np.pi / T
        dur = dt * (len(acc) - 1)
        tol = 1e-6 + 5e-8 * dur / T + np.finfo(float).eps / (w * dt) ** 3
        pk_u = float(np.max(np.abs(ru[j]))); pk_v = float(np.max(np.abs(rv[j])))
        eu = float(np.max(np.abs(u[j] - ru[j]))) / pk_u if pk_u else 0
        ev = float(np.max(np.abs(v[j] - rv[j]))) / pk_v if pk_v else 0
        eu_neg = float(np.max(np.abs(u[j] + ru[j]))) / pk_u if pk_u else 0
        res.append((T / dt, xi, eu / tol, ev / tol, eu_neg / tol, tol))
    return res


if __name__ == '__main__':
    rng = np.random.default_rng(int(sys.argv[1]) if len(sys.argv) > 1 else 0)
    worst = []
    for it in range(int(sys.argv[2]) if len(sys.argv) > 2 else 60):
        n = int(rng.integers(2, 400))
        dt = float(10 ** rng.uniform(-3, 0))
        kind = rng.integers(0, 4)
        if kind == 0:
            acc = rng.normal(size=n)
        elif kind == 1:
            acc = np.cumsum(rng.normal(size=n))
        elif kind == 2:
            acc = np.zeros(n); acc[rng.integers(0, n)] = 1.0
        else:
            acc = np.sin(np.arange(n) * rng.uniform(0.01, 3)) * 10 ** rng.uniform(-6, 6)
        ratios = 10 ** rng.uniform(np.log10(0.2), np.log10(2e4), size=6)
        periods = np.sort(ratios * dt)
        xi = float(rng.choice([0, 0.02, 0.05, 0.2, 0.5, 0.9, 0.99, 0.999999, rng.uniform(0, 1)]))
        for r in check(acc, dt, periods, xi):
            worst.append(r + (n, kind))
    worst.sort(key=lambda r: -max(r[2], r[3]))
    for r in worst[:15]:
        print("T/dt=%.4g xi=%.6g eu/tol=%.3g ev/tol=%.3g eu_neg/tol=%.3g tol=%.3g n=%d kind=%d" % r)
    print(len(worst), "cases")
