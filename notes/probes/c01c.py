import sys
sys.path.insert(0, __import__('os').path.dirname(__file__))
from c01 import *
eps = np.finfo(float).eps
for n in [2,10,100,1000,4000]:
  for Tdt in [100, 1000, 5000, 2e4]:
    for xi in [0.05, 0.7]:
        dt=0.01
        acc = (-1.0)**np.arange(n)
        r = check(acc, dt, [Tdt*dt], xi)[0]
        acc2 = np.sin(np.arange(n)*2.5)*3
        r2 = check(acc2, dt, [Tdt*dt], xi)[0]
        print(n, Tdt, xi, "alt eu/tol=%.3g ev/tol=%.3g | sin2.5 eu/tol=%.3g ev/tol=%.3g"%(r[2], r[3], r2[2], r2[3]))
