import numpy as np, eqsig, warnings, inspect
warnings.simplefilter('ignore')
rng=np.random.default_rng(0)
from eqsig import stockwell, surface, im, sdof
import eqsig.fns.peaks_and_crossings as pc
def chk(name, f, *args, **kw):
    snaps=[a.copy() if isinstance(a,np.ndarray) else (a.values.copy() if hasattr(a,'values') else None) for a in args]
    try:
        r1=f(*args, **kw)
    except Exception as e:
        print(name,"RAISES",type(e).__name__,str(e)[:80]); return
    mod=[]
    for a,s in zip(args,snaps):
        if s is None: continue
        cur = a if isinstance(a,np.ndarray) else a.values
        if cur.dtype!=s.dtype or cur.shape!=s.shape or cur.tobytes()!=s.tobytes(): mod.append(True)
    r2=f(*args, **kw)
    def eq(x,y):
        if isinstance(x,(tuple,list)): return len(x)==len(y) and all(eq(a,b) for a,b in zip(x,y))
        if hasattr(x,'values'): return eq(x.values,y.values)
        return np.array_equal(np.asarray(x),np.asarray(y),equal_nan=True)
    print("%-50s mutated=%s repeat_same=%s"%(name, bool(mod), eq(r1,r2)))
x=rng.normal(size=64)
for dt_ in [float, np.complex128, np.float32, np.int64]:
    xx=(x*10).astype(dt_)
    chk("stockwell.transform_w_scipy_fft[%s]"%np.dtype(dt_).name, stockwell.transform_w_scipy_fft, xx)
    chk("stockwell.transform[%s]"%np.dtype(dt_).name, stockwell.transform, xx)
xi=(x*10).astype(int)
for nm in ['get_peak_array_indices','get_zero_crossings_array_indices','get_switched_peak_array_indices','determine_peaks_only_delta_series','determine_pseudo_cyclic_peak_only_series','get_n_cyc_array','clean_out_non_changing','determine_indices_of_peaks_for_cleaned_array', 'get_major_change_indices']:
    chk(nm+"[float]", getattr(pc,nm), x.copy())
    chk(nm+"[int]", getattr(pc,nm), xi.copy())
a=eqsig.AccSignal(x,0.01)
for nm in ['calc_arias_intensity','calc_cav','calc_isv','calc_integral_of_abs_velocity','calc_integral_of_abs_acceleration','calc_unit_kinetic_energy','max_fa_period','calc_bandwidth_freqs','calc_sig_dur']:
    chk(nm, getattr(im,nm), a)
a2=eqsig.AccSignal(rng.normal(size=400),0.01)
chk('calc_cav_dp', im.calc_cav_dp, a2)
chk('calc_surface_energy', surface.calc_surface_energy, a, np.array([0.013,0.02]))
chk('calc_surface_energy arr red', lambda s,t,u,d: surface.calc_surface_energy(s,t,up_red=u,down_red=d), a, np.array([0.013,0.02]), np.array([0.9,0.8]), np.array([0.7,0.6]))
chk('calc_cum_abs_surface_energy', surface.calc_cum_abs_surface_energy, a, np.array([0.013,0.02]))
chk('get_time_shift_motions', surface.get_time_shift_motions, a, np.array([0.013,0.02]))
chk('interp_array_to_approx_dt', eqsig.interp_array_to_approx_dt, x, 0.01, 0.003)
chk('interp_to_approx_dt', eqsig.interp_to_approx_dt, a, 0.003)
chk('resample_to_approx_dt', eqsig.resample_to_approx_dt, a, 0.003)
chk('resample_to_approx_dt dec', eqsig.resample_to_approx_dt, a, 0.03)
chk('resample_to_approx_dt same even=False', lambda s: eqsig.resample_to_approx_dt(s, 0.01, even=False), a)
chk('pseudo_response_spectra', sdof.pseudo_response_spectra, x, 0.01, np.array([0.1,0.5]), 0.05)
chk('response_series', sdof.response_series, x, 0.01, np.array([0.,0.1,0.5]), 0.05)
chk('calc_velo', eqsig.displacements.calc_velo_and_disp_from_accel_arr, x, 0.01)
chk('calc_velo trapF', lambda v: eqsig.displacements.calc_velo_and_disp_from_accel_arr(v, 0.01, trap=False), x)
chk('calc_n_cyc_array_w_power_law', im.calc_n_cyc_array_w_power_law, x, 1.0, 0.3)
chk('calc_cyc_amp_array_w_power_law', im.calc_cyc_amp_array_w_power_law, x, 15, 0.3)
chk('calc_cyc_amp_combined', im.calc_cyc_amp_combined_arrays_w_power_law, x, x[::-1].copy(), 15, 0.3)
chk('remove_poly', eqsig.remove_poly, x, 2)
chk('calc_roll_av_vals', eqsig.calc_roll_av_vals, x, 5)
chk('calc_step_fn_vals_error', eqsig.calc_step_fn_vals_error, x)
chk('put_array_in_2d_array', eqsig.put_array_in_2d_array, x, np.array([-2,0,3]))
chk('join_values_w_shifts', eqsig.join_values_w_shifts, x, np.array([0,3]))
chk('interp2d', eqsig.interp2d, np.array([0.5,1.2]), np.array([0.,1,2]), rng.normal(size=(3,4)))
chk('interp_left', eqsig.interp_left, np.array([0.5,1.2]), np.array([0.,1,2]), np.array([5.,6,7]))
chk('calc_smooth_fa_spectrum', eqsig.calc_smooth_fa_spectrum, a.fa_freqs, a.fa_spectrum, np.array([1.,2,3]))
chk('combine_at_angle', eqsig.combine_at_angle, a, eqsig.AccSignal(x[::-1].copy(),0.01), 30.)
chk('fas2values', eqsig.fas2values, a.fa_spectrum, 0.01)
chk('generate_fa_spectrum', eqsig.generate_fa_spectrum, a)
chk('calc_fa_spectrum', eqsig.calc_fa_spectrum, a)
chk('itransform', stockwell.itransform, stockwell.transform(x))
