import numpy as np, itertools, warnings, collections
warnings.simplefilter('ignore')
import eqsig.fns.peaks_and_crossings as pc
def subseq(a,b):
    b=set(b); return all(x in b for x in a)
cnt=collections.Counter(); ex={}
tot=0
for n in range(2,7):
    for x in itertools.product(range(-3,4),repeat=n):
        if len(set(x))==1: continue
        xa=np.array(x,dtype=float)
        z0=pc.get_zero_crossings_array_indices(xa).tolist()
        s0=pc.get_switched_peak_array_indices(xa).tolist()
        for tol in (0.5,1.0,1.5,2.5):
            tot+=1
            try:
                z=pc.get_zero_crossings_array_indices(xa,tol=tol).tolist()
                if not subseq(z,z0): cnt['zc_not_subseq']+=1; ex.setdefault('zc',(x,tol,z,z0))
                if z!=sorted(set(z)): cnt['zc_unsorted']+=1
            except Exception as e:
                cnt['zc_exc_'+type(e).__name__]+=1; ex.setdefault('zc_exc',(x,tol,str(e)))
            try:
                s=pc.get_switched_peak_array_indices(xa,tol=tol).tolist()
                if not subseq(s,s0): cnt['sp_not_subseq']+=1; ex.setdefault('sp',(x,tol,s,s0))
            except Exception as e:
                cnt['sp_exc_'+type(e).__name__]+=1; ex.setdefault('sp_exc',(x,tol,str(e)))
print(tot,cnt)
for k,v in ex.items(): print(k,v)
