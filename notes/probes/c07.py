import numpy as np, eqsig, warnings, collections
warnings.simplefilter('ignore')
rng=np.random.default_rng(0)
cnt=collections.Counter(); ex={}
def ko_ref(ff, amp, fc, b):
    if ff[0]==0: ff=ff[1:]; amp=amp[1:]
    out=[]
    for c in fc:
        w=np.ones(len(ff))
        for i,f in enumerate(ff):
            z=b*np.log10(f/c)
            w[i]=1.0 if z==0 else (np.sin(z)/z)**4
        out.append(np.sum(w*np.abs(amp))/np.sum(w))
    return np.array(out)
for it in range(500):
    n=int(rng.integers(4,200)); dt=float(rng.choice([0.01,0.02,0.005]))
    s=eqsig.Signal(rng.normal(size=n),dt)
    ff=s.fa_freqs; fa=s.fa_spectrum
    b=float(rng.uniform(5,100))
    fc=np.concatenate([10**rng.uniform(-1,1.5,size=5), ff[1:][rng.integers(0,len(ff)-1,size=2)], [ff[1]/3, ff[-1]*3]])
    withzero=rng.random()<0.5
    f_in=ff if withzero else ff[1:]; a_in=fa if withzero else fa[1:]
    got=eqsig.calc_smooth_fa_spectrum(f_in,a_in,fc,band=b)
    exp=ko_ref(ff,fa,fc,b)
    if not np.all(np.isfinite(got)): cnt['nonfinite']+=1; ex.setdefault('nonfinite',(n,dt,b,fc.tolist(),got.tolist()))
    elif not np.allclose(got,exp,rtol=1e-9): cnt['bad']+=1; ex.setdefault('bad',(n,dt,b))
    else: cnt['ok']+=1
    a=np.abs(fa[1:])
    if np.any(got<a.min()*(1-1e-12)) or np.any(got>a.max()*(1+1e-12)): cnt['out_of_range']+=1
    M=eqsig.calc_smoothing_matrix_konno_1998(ff,fc,band=b)
    if not np.allclose(np.dot(np.abs(fa[1:]),M),got,rtol=1e-9): cnt['matrix_mismatch']+=1
    if not np.allclose(M.sum(axis=0),1): cnt['colsum']+=1
    if np.any(M<0): cnt['neg_w']+=1
    # object level
    s.smooth_fa_freqs=fc
    if not np.allclose(s.smooth_fa_spectrum, ko_ref(ff,fa,fc,40),rtol=1e-9): cnt['obj_bad']+=1
    if not np.allclose(eqsig.calc_smooth_fa_spectrum_w_custom_matrix(s, eqsig.calc_smoothing_matrix_konno_1998(ff,fc,band=40)), s.smooth_fa_spectrum): cnt['custom_bad']+=1
    s.smooth_fa_freqs=np.sort(fc)
    lo,hi=eqsig.im.calc_bandwidth_freqs(s)
    pk=s.smooth_fa_freqs[np.argmax(s.smooth_fa_spectrum)]
    if not (lo<=pk<=hi): cnt['bw_bad']+=1
print(cnt); print(ex)
s=eqsig.Signal(rng.normal(size=50),0.01)
print(eqsig.calc_smooth_fa_spectrum(s.fa_freqs,s.fa_spectrum)[:3], "default targets len", len(eqsig.calc_smooth_fa_spectrum(s.fa_freqs,s.fa_spectrum)))
