import numpy as np, eqsig, warnings, collections
warnings.simplefilter('ignore')
from eqsig import im
from fractions import Fraction
rng=np.random.default_rng(0)
cnt=collections.Counter(); ex={}
def ref(cum, s, e):
    tot=cum[-1]
    idx=[i for i,c in enumerate(cum) if c> s*tot and c< e*tot]
    return (idx[0],idx[-1]) if idx else None
for it in range(3000):
    n=int(rng.integers(2,200)); dt=float(rng.choice([0.01,0.02,0.005,0.1]))
    kind=rng.integers(0,3)
    x=rng.normal(size=n) if kind==0 else (np.round(rng.normal(size=n)*2) if kind==1 else np.ones(n)*rng.choice([1.0,2.0,0.3]))
    if not np.any(x): continue
    s=float(rng.uniform(0.01,0.5)); e=float(rng.uniform(s+0.01,0.99))
    if rng.random()<0.3: s,e=0.05,0.95
    a=eqsig.AccSignal(x,dt)
    # array variant
    cum=np.cumsum(x**2); r=ref(cum,s,e)
    try:
        g=im.calc_sig_dur_vals(x,dt,start=s,end=e,se=True); gd=im.calc_sig_dur_vals(x,dt,start=s,end=e)
        if r is None: cnt['vals_returned_when_empty']+=1
        elif not (np.isclose(g[0],r[0]*dt) and np.isclose(g[1],r[1]*dt) and np.isclose(gd,(r[1]-r[0])*dt)): cnt['vals_bad']+=1
        else: cnt['vals_ok']+=1
    except IndexError:
        cnt['vals_indexerror_empty' if r is None else 'vals_indexerror_nonempty']+=1
    ai=im.calc_arias_intensity(a); r=ref(ai,s,e)
    try:
        g=im.calc_sig_dur(a,start=s,end=e,se=True)
        if r is None: cnt['sd_returned_when_empty']+=1
        elif not (np.isclose(g[0],r[0]*dt) and np.isclose(g[1],r[1]*dt)): cnt['sd_bad']+=1
        else: cnt['sd_ok']+=1
    except IndexError:
        cnt['sd_indexerror_empty' if r is None else 'sd_indexerror_nonempty']+=1
    cv=im.calc_cav(a); r=ref(cv,s,e)
    try:
        g=im.calc_sig_dur(a,start=s,end=e,im=im.calc_cav,se=True)
        if r is not None and not (np.isclose(g[0],r[0]*dt) and np.isclose(g[1],r[1]*dt)): cnt['sd_cav_bad']+=1
        else: cnt['sd_cav_ok']+=1
    except IndexError: cnt['sd_cav_indexerror_empty' if r is None else 'sd_cav_indexerror_nonempty']+=1
    th=float(abs(rng.normal()))
    g=im.calc_brac_dur(a,th,se=True); gd=im.calc_brac_dur(a,th)
    idx=np.where(np.abs(x)>th)[0]
    if len(idx)==0:
        if g!=(None,None) or gd!=0: cnt['brac_empty_bad']+=1
    else:
        if not (np.isclose(g[0],idx[0]*dt) and np.isclose(g[1],idx[-1]*dt) and np.isclose(gd,(idx[-1]-idx[0])*dt)): cnt['brac_bad']+=1
        else: cnt['brac_ok']+=1
print(cnt)
