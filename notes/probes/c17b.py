import numpy as np
from scipy.signal import butter, freqz
worst=0
for N in (1,2,3,4):
    for dt in (0.005,0.01,0.02):
        for f1,f2 in ((0.5,10),(0.1,15),(1,2),(2,20)):
            if f2>=0.5/dt: continue
            for f in (0.05,0.1,0.3,0.5,1,2,5,10,15,20,0.45/dt):
                if f>=0.5/dt: continue
                O=np.tan(np.pi*f*dt); O1=np.tan(np.pi*f1*dt); O2=np.tan(np.pi*f2*dt)
                bp=1/(1+((O*O-O1*O2)/((O2-O1)*O))**(2*N)); lp=1/(1+(O/O2)**(2*N)); hp=1/(1+(O1/O)**(2*N))
                for name,an,(b,a) in (('band',bp,butter(N,[f1*2*dt,f2*2*dt],btype='band')),('low',lp,butter(N,f2*2*dt,btype='low')),('high',hp,butter(N,f1*2*dt,btype='high'))):
                    w,h=freqz(b,a,worN=[2*np.pi*f*dt]); g=abs(h[0])**2
                    worst=max(worst,abs(g-an))
                    if abs(g-an)>1e-5: print(name,N,dt,f1,f2,f,g,an)
print("worst |H|^2 diff analytic vs scipy:",worst)
