import numpy as np, eqsig, warnings, collections
warnings.simplefilter('ignore')
rng=np.random.default_rng(0)
# same_start
for nsig in (2,3,4):
    for mi in range(nsig):
        vals=[rng.normal(size=300)+rng.normal()*3 for _ in range(nsig)]
        c=eqsig.Cluster([v.copy() for v in vals],0.01,master_index=mi)
        c.same_start()
        avs=[c.signal_by_index(i).get_section_average(start=0,end=1) for i in range(nsig)]
        ok=np.allclose(avs,avs[mi]); munch=np.array_equal(c.values_by_index(mi),vals[mi])
        print("same_start nsig",nsig,"master",mi,"aligned",ok,"master unchanged",munch)
# time_match
cnt=collections.Counter(); ex={}
for it in range(400):
    nsig=int(rng.integers(2,5)); mi=int(rng.integers(0,nsig)); steps=int(rng.integers(3,15)); n=int(rng.integers(4*steps+5,300))
    base=rng.normal(size=n+2*steps)
    lags=[int(rng.integers(-steps+1,steps)) if i!=mi else 0 for i in range(nsig)]
    vals=[base[steps+0-l: steps+n-l].copy() for l in lags]   # sig_i[t]=master[t-l]
    c=eqsig.Cluster([v.copy() for v in vals],0.01,master_index=mi)
    try:
        r=c.time_match(steps=steps)
    except Exception as e:
        cnt['exc_'+type(e).__name__]+=1; ex.setdefault('exc_'+type(e).__name__,(nsig,mi,steps,n,lags,str(e)[:80])); continue
    for i in range(nsig):
        v=c.values_by_index(i)
        if not isinstance(v,np.ndarray): cnt['not_array']+=1
        v=np.asarray(v)
        if len(v)!=n: cnt['len_changed']+=1; continue
        l=lags[i]
        # overlapping region: after alignment v[t]==master[t] for t in [max(0,-l)... n-max(0,l))
        lo=abs(l); hi=n-abs(l)
        if not np.array_equal(v[lo:hi], vals[mi][lo:hi]): cnt['not_aligned']+=1; ex.setdefault('not_aligned',(nsig,mi,steps,n,lags,i))
        else: cnt['aligned_ok']+=1
print(cnt); 
for k,v in ex.items(): print(k,v)
# rotation
a=eqsig.AccSignal(rng.normal(size=100),0.01); b=eqsig.AccSignal(rng.normal(size=100),0.01)
for th in [0,90,180,37.5,-20,400]:
    c=eqsig.combine_at_angle(a,b,th)
    print(th, np.max(np.abs(c.values-(a.values*np.cos(np.radians(th))+b.values*np.sin(np.radians(th))))))
d,p=eqsig.compute_rotated(a,b,angle_off_ns=30,parameter='pga',points=7); print(d,p)
d,p=eqsig.compute_rotated(a,b,angle_off_ns=0,parameter='arias_intensity',points=5); print(d,p)
d,p=eqsig.compute_rotated(a,b,func=eqsig.im.calc_cav,points=5); print(d,p)
d,p=eqsig.compute_rotated(a,b,func=lambda s: s.pgv,points=5); print(d,p)
