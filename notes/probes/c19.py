import numpy as np, eqsig, warnings, collections, itertools
warnings.simplefilter('ignore')
from eqsig import surface
rng=np.random.default_rng(0)
cnt=collections.Counter(); ex={}
def ref_energy(x, dt, tt, nodal, up, down, L):
    """direct per-sample definition; returns series of length L (indices 0..L-1)"""
    n=len(x); sh=2*tt/dt
    def lin(p):
        if p<0 or p>n-1: return 0.0
        i=int(np.floor(p)); 
        if i==n-1: return x[i]
        w=p-i; return x[i]*(1-w)+x[i+1]*w
    acc=np.zeros(L)
    for j in range(L):
        upw=x[j] if j<n else 0.0
        dn=lin(j-sh)
        acc[j]= up*upw + (-down*dn if nodal else down*dn)
    v=np.zeros(L)
    for j in range(1,L): v[j]=v[j-1]+0.5*dt*(acc[j]+acc[j-1])
    return 0.5*v*np.abs(v)
for it in range(600):
    n=int(rng.integers(5,80)); dt=float(rng.choice([0.01,0.02,0.005,0.013]))
    x=rng.normal(size=n); a=eqsig.AccSignal(x,dt)
    k=int(rng.integers(1,4))
    tts=[]
    for _ in range(k):
        r=rng.random()
        if r<0.2: tts.append(0.0)
        elif r<0.5: tts.append(float(rng.integers(0,10))*dt/2)
        else: tts.append(float(rng.uniform(0,8*dt)))
    tts=np.array(tts)
    nodal=bool(rng.integers(0,2)); trim=bool(rng.integers(0,2)); start=bool(rng.integers(0,2))
    stt=float(rng.uniform(0,6*dt)) if rng.random()<0.5 else 0.0
    arr_red=rng.random()<0.4
    up=rng.uniform(0.5,1,size=k) if arr_red else float(rng.uniform(0.5,1)); down=rng.uniform(0.5,1,size=k) if arr_red else float(rng.uniform(0.5,1))
    try:
        e=surface.calc_surface_energy(a,tts,nodal=nodal,up_red=up,down_red=down,stt=stt,trim=trim,start=start)
    except Exception as ee:
        cnt['exc_'+type(ee).__name__]+=1; ex.setdefault('exc_'+type(ee).__name__,(n,dt,tts.tolist(),nodal,trim,start,stt,arr_red,str(ee)[:100])); continue
    e2=np.atleast_2d(e)
    max_shift=int(np.max(2*tts/dt))
    for r in range(k):
        u=up[r] if arr_red else up; d=down[r] if arr_red else down
        base=ref_energy(x,dt,tts[r],nodal,u,d,n+max_shift)
        sis=int(stt/dt)-int(tts[r]/dt)
        if not start:
            exp=base[:n] if trim else base
        else:
            if trim: L=n
            else:
                allsis=[int(stt/dt)-int(t/dt) for t in tts]; L=n+max(max(allsis),0)
            exp=np.zeros(L)
            if sis<0:
                seg=base[-sis:L-sis]; exp[:len(seg)]=seg
                if len(seg)<L: cnt['ref_short']+=1
            else: exp[sis:]=base[:max(L-sis,0)]
        got=e2[r]
        if got.shape!=exp.shape: cnt['shape_bad']+=1; ex.setdefault('shape',(n,dt,tts.tolist(),nodal,trim,start,stt,got.shape,exp.shape)); continue
        if not np.allclose(got,exp,atol=1e-12+1e-9*np.max(np.abs(exp))): cnt['val_bad_%s%s'%(trim,start)]+=1; ex.setdefault('val_%s%s'%(trim,start),(n,dt,tts.tolist(),r,nodal,stt,arr_red, float(np.max(np.abs(got-exp))))); 
        else: cnt['ok']+=1
print(cnt)
for k,v in ex.items(): print(k,v)
