import numpy as np, itertools, warnings
warnings.simplefilter('ignore')
import eqsig.fns.peaks_and_crossings as pc

def ref_turning(x):
    """reference: indices = 0, first sample of each plateau that is a local extremum, first sample of final constant run"""
    x=list(x); n=len(x)
    # compress runs
    runs=[]  # (start, value)
    for i,v in enumerate(x):
        if not runs or v!=runs[-1][1]: runs.append((i,v))
    out=[runs[0][0]]
    for r in range(1,len(runs)-1):
        p,c,nx=runs[r-1][1],runs[r][1],runs[r+1][1]
        if (c>p and c>nx) or (c<p and c<nx): out.append(runs[r][0])
    if len(runs)>1: out.append(runs[-1][0])
    kinds={}
    for r in range(len(runs)):
        i=runs[r][0]
        if i not in out: continue
        if r==0: kinds[i]='max' if runs[1][1]<runs[0][1] else 'min'
        elif r==len(runs)-1: kinds[i]='max' if runs[r][1]>runs[r-1][1] else 'min'
        else: kinds[i]='max' if runs[r][1]>runs[r-1][1] else 'min'
    return out,kinds
bad_all=[];bad_max=[];bad_min=[];tot=0
for n in range(2,8):
    for x in itertools.product(range(5),repeat=n):
        if len(set(x))==1: continue
        tot+=1
        exp,kinds=ref_turning(x)
        got=list(pc.get_peak_array_indices(np.array(x,dtype=float)))
        if got!=exp: bad_all.append((x,got,exp))
        gmax=list(pc.get_peak_array_indices(np.array(x,dtype=float),ptype='max'))
        gmin=list(pc.get_peak_array_indices(np.array(x,dtype=float),ptype='min'))
        if gmax!=[i for i in exp if kinds[i]=='max']: bad_max.append((x,gmax,[i for i in exp if kinds[i]=='max']))
        if gmin!=[i for i in exp if kinds[i]=='min']: bad_min.append((x,gmin,[i for i in exp if kinds[i]=='min']))
print(tot,"all bad",len(bad_all),bad_all[:5])
print("max bad",len(bad_max),bad_max[:5])
print("min bad",len(bad_min),bad_min[:5])
# are all bad max cases flat-start?
print("max bad not flat-start:", [b for b in bad_max if b[0][0]!=b[0][1]][:5])
print("min bad not flat-start:", [b for b in bad_min if b[0][0]!=b[0][1]][:5])
# first value nonzero start
print(pc.get_peak_array_indices(np.array([3.,3,1,2])), pc.get_peak_array_indices(np.array([0.,0,1,2,1])))
print(pc.get_peak_array_indices(np.array([5.,4,6])))
