import numpy as np, eqsig, warnings, collections
warnings.simplefilter('ignore')
rng=np.random.default_rng(0)
cnt=collections.Counter(); ex={}
def dft(x,N):
    xp=np.zeros(N); xp[:len(x)]=x
    j=np.arange(N); k=np.arange(N//2)
    ph=(np.outer(k,j)%N)/N
    return (np.exp(-2j*np.pi*ph)@xp), xp
def chk(tag,fa,fr,x,N,dt):
    X,xp=dft(x,N)
    sc=dt*np.sum(np.abs(x))+1e-300
    if len(fa)!=N//2 or len(fr)!=N//2: cnt[tag+'_len']+=1; ex.setdefault(tag+'_len',(len(x),N,len(fa))); return
    if np.max(np.abs(fa-dt*X))>1e-10*sc: cnt[tag+'_val']+=1; ex.setdefault(tag+'_val',(len(x),N))
    if not np.allclose(fr,np.arange(N//2)/(N*dt),rtol=1e-13,atol=0): cnt[tag+'_freq']+=1; ex.setdefault(tag+'_freq',(len(x),N,dt))
    cnt[tag+'_ok']+=1
    # parseval
    nyq=dt*np.sum(xp*(-1.0)**np.arange(N)) if N%2==0 else 0
    lhs=dt*np.sum(xp**2); rhs=(abs(fa[0])**2+2*np.sum(np.abs(fa[1:])**2)+abs(nyq)**2)/(N*dt)
    if N%2==0 and abs(lhs-rhs)>1e-9*max(lhs,1e-300): cnt[tag+'_parseval']+=1
for n in list(range(2,131))+[255,256,257,511,512,513,1000,1023,1024,1025]:
    for rep in range(2):
        dt=float(rng.choice([0.01,0.005,0.1,1/93.0])); x=rng.normal(size=n)
        for cls in (eqsig.Signal,eqsig.AccSignal):
            s=cls(x,dt)
            Ndef=2**int(np.ceil(np.log2(n)))
            chk('default',s.fa_spectrum,s.fa_freqs,x,Ndef,dt)
            p=int(rng.integers(0,4)); s.gen_fa_spectrum(p2_plus=p); chk('p2',s._fa_spectrum,s._fa_freqs,x,Ndef*2**p,dt)
            ne=int(n+rng.integers(0,9)); s.gen_fa_spectrum(n=ne); chk('n',s._fa_spectrum,s._fa_freqs,x,ne,dt)
            fa,fr=eqsig.generate_fa_spectrum(s); chk('gen_pad',fa,fr,x,Ndef,dt)
            fa,fr=eqsig.generate_fa_spectrum(s,n_pad=False); chk('gen_nopad',fa,fr,x,n,dt)
            fa,fr=eqsig.calc_fa_spectrum(s); chk('calc_nopad',fa,fr,x,n,dt)
            fa,fr=eqsig.calc_fa_spectrum(s,p2_plus=p); chk('calc_p2',fa,fr,x,Ndef*2**p,dt)
            fa,fr=eqsig.calc_fa_spectrum(s,n=ne); chk('calc_n',fa,fr,x,ne,dt)
            # inverse for even N
            if ne%2==0:
                v=eqsig.fas2values(fa,dt); xp=np.zeros(ne); xp[:n]=x
                e=xp-xp.mean()-(np.sum(xp*(-1.0)**np.arange(ne))/ne)*(-1.0)**np.arange(ne)
                if len(v)!=ne or np.max(np.abs(v-e))>1e-10*max(1,np.max(np.abs(x))): cnt['inv_bad']+=1; ex.setdefault('inv_bad',(n,ne,len(v)))
                else: cnt['inv_ok']+=1
print(sorted(cnt.items())); print(ex)
