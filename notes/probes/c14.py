import numpy as np, eqsig, warnings
warnings.simplefilter('ignore')
def bandlimited(npts, dt, kmax, rng):
    t=np.arange(npts)*dt; P=npts*dt
    x=np.zeros(npts)
    for k in range(1,kmax+1):
        x+= rng.normal()*np.cos(2*np.pi*k*t/P)+rng.normal()*np.sin(2*np.pi*k*t/P)
    def f(tt):
        y=np.zeros_like(tt)
        rng2=None
        return y
    return x
rng=np.random.default_rng(1)
def sig(npts, dt, kmax, seed):
    r=np.random.default_rng(seed)
    co=r.normal(size=(kmax,2))
    P=npts*dt
    def f(t):
        y=np.zeros_like(t, dtype=float)
        for k in range(1,kmax+1):
            y+=co[k-1,0]*np.cos(2*np.pi*k*t/P)+co[k-1,1]*np.sin(2*np.pi*k*t/P)
        return y
    return f
for npts in [100,101,96,99]:
  for dt,target in [(0.01,0.005),(0.01,0.004),(0.01,0.01),(0.01,0.02),(0.01,0.03),(0.01,0.025)]:
    for even in [True, False]:
        f=sig(npts,dt,3,7)
        a=eqsig.AccSignal(f(np.arange(npts)*dt),dt)
        try:
            b=eqsig.resample_to_approx_dt(a,target,even=even)
        except Exception as e:
            print(npts,dt,target,even,"RAISES",type(e).__name__, str(e)[:60]); continue
        err=np.max(np.abs(b.values-f(b.time)))
        print(npts,dt,target,even,"new_dt=%.5g npts=%d maxerr=%.2e"%(b.dt,b.npts,err))
