import numpy as np, eqsig, warnings, collections
warnings.simplefilter('ignore')
from eqsig import im
rng=np.random.default_rng(0)
cnt=collections.Counter(); ex={}
for it in range(1500):
    n=int(rng.integers(2,300)); dt=float(10**rng.uniform(-3,0))
    x=rng.normal(size=n)*10**rng.uniform(-3,3)
    for trap in (True,False):
        v,d=eqsig.displacements.calc_velo_and_disp_from_accel_arr(x,dt,trap=trap)
        if len(v)!=n or len(d)!=n: cnt['len']+=1
        if v[0]!=0 or d[0]!=0: cnt['start_nonzero']+=1
        sc=np.max(np.abs(x))*dt
        if trap:
            if not np.allclose(np.diff(v),dt*(x[1:]+x[:-1])/2,atol=1e-12*sc*n): cnt['v_inc_trap']+=1
            if not np.allclose(np.diff(d),dt*(v[1:]+v[:-1])/2,atol=1e-12*sc*n*dt*n): cnt['d_inc_trap']+=1
        else:
            if not np.allclose(np.diff(v),dt*x[:-1],atol=1e-12*sc*n): cnt['v_inc_rect_left_fail']+=1
            if not np.allclose(np.diff(d),dt*v[1:],atol=1e-12*sc*n*dt*n): cnt['d_inc_rect_right_fail']+=1
    a=eqsig.AccSignal(x,dt)
    for nm,series in (('pga',a.values),('pgv',a.velocity),('pgd',a.displacement)):
        if getattr(a,nm)!=np.max(np.abs(series)): cnt[nm+'_bad']+=1
    if im.calc_peak(x)!=np.max(np.abs(x)): cnt['calc_peak_bad']+=1
    # cumulative IMs
    for nm in ['calc_arias_intensity','calc_cav','calc_isv','calc_integral_of_abs_velocity','calc_integral_of_abs_acceleration','calc_unit_kinetic_energy']:
        s=getattr(im,nm)(a)
        if len(s)!=n: cnt[nm+'_len']+=1
        if np.any(np.diff(s)<0): cnt[nm+'_dec']+=1; ex.setdefault(nm+'_dec',(n,dt,float(np.min(np.diff(s))),float(s[-1])))
print(cnt); print(ex)
# cav_dp
cnt=collections.Counter(); ex={}
from scipy.integrate import trapezoid
for it in range(600):
    pps=int(rng.choice([10,20,25,40,50,100,200,93,99,49])); dt=1.0/pps
    secs=int(rng.integers(2,8)); extra=int(rng.integers(0,pps))
    n=secs*pps+1+extra
    amp=10**rng.uniform(-2,1)
    x=rng.normal(size=n)*amp*np.exp(-((np.arange(n)-n/2)/(n/6))**2)
    a=eqsig.AccSignal(x,dt)
    try: s=im.calc_cav_dp(a)
    except Exception as e: cnt['exc_'+type(e).__name__]+=1; ex.setdefault('exc',(pps,n,str(e)[:80])); continue
    if len(s)!=n: cnt['len']+=1
    if np.any(np.diff(s)<0): cnt['dec']+=1
    cav=im.calc_cav(a)[-1]/9.81
    if s[-1]<0 or s[-1]>cav*(1+1e-9): cnt['bound']+=1
    g=np.abs(x)/9.81
    tot=0; panels=0; nq=0
    nwin=(n-1)//pps
    for w in range(nwin):
        seg=g[w*pps:(w+1)*pps+1]
        if seg.max()>=0.025: tot+=trapezoid(seg,dx=dt); nq+=1; panels+=seg[-2:].mean()*dt  # last panel
    slack=sum(1 for _ in range(1))
    if nq==0:
        if s[-1]!=0: cnt['nonzero_when_none']+=1
    # allowed deviation: one panel per qualifying window (max panel in that window)
    allow=0
    for w in range(nwin):
        seg=g[w*pps:(w+1)*pps+1]
        if seg.max()>=0.025: allow+=np.max((seg[1:]+seg[:-1])/2)*dt
    if abs(s[-1]-tot)>allow+1e-12: cnt['final_bad_pps%d'%pps]+=1; ex.setdefault('final_bad_pps%d'%pps,(pps,n,float(s[-1]),float(tot),float(allow),nq,nwin))
    else: cnt['final_ok']+=1
print(cnt); print(ex)
