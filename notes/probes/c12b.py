import numpy as np, itertools, warnings, collections
warnings.simplefilter('ignore')
import eqsig.fns.peaks_and_crossings as pc
def excursions(x):
    ex=[]; i=0; n=len(x)
    while i<n:
        if x[i]==0: i+=1; continue
        s=np.sign(x[i]); j=i
        while j<n and np.sign(x[j])==s: j+=1
        ex.append((i,j)); i=j
    return ex
def check(x, got):
    errs=[]
    g=list(got)
    if any(b<=a for a,b in zip(g,g[1:])): errs.append('not_ascending')
    allpk=set(pc.get_peak_array_indices(np.array(x,dtype=float)).tolist())
    for (i,j) in excursions(x):
        inside=[k for k in g if i<=k<j]
        if len(inside)!=1: errs.append('excursion_count_%d'%len(inside)); continue
        if abs(x[inside[0]])!=max(abs(v) for v in x[i:j]): errs.append('not_at_max')
    for k in g:
        if x[k]==0 and k not in allpk: errs.append('zero_nonturning')
    for a,b in zip(g,g[1:]):
        if x[a]*x[b]>0: errs.append('share_sign')
    if len(g) and max(abs(v) for v in x)!=max(abs(x[k]) for k in g): errs.append('globalmax_missing')
    return errs
cnt=collections.Counter(); ex={}; tot=0
for n in range(2,8):
    for x in itertools.product(range(-2,3),repeat=n):
        if len(set(x))==1: continue
        tot+=1
        try:
            got=pc.get_switched_peak_array_indices(np.array(x,dtype=float))
        except Exception as e:
            cnt['EXC_'+type(e).__name__]+=1; ex.setdefault('EXC',(x,str(e))); continue
        for e in set(check(x,got)):
            cnt[e]+=1; ex.setdefault(e,(x,list(got)))
print(tot,cnt)
for k,v in ex.items(): print(k,v)
# classify failures: start at nonzero?
fails_zero_start=0; fails_nonzero_start=0
examples=[]
for n in range(2,7):
    for x in itertools.product(range(-2,3),repeat=n):
        if len(set(x))==1: continue
        got=pc.get_switched_peak_array_indices(np.array(x,dtype=float))
        if check(x,got):
            if x[0]==0: fails_zero_start+=1; examples.append((x,list(got),check(x,got)))
            else: fails_nonzero_start+=1
print("fails zero-start",fails_zero_start,"nonzero-start",fails_nonzero_start)
print(examples[:12])
