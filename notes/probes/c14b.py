import numpy as np, eqsig, warnings, collections
warnings.simplefilter('ignore')
rng=np.random.default_rng(0)
cnt=collections.Counter(); ex={}
def near_int(r): return abs(r-round(r))<1e-9*max(1,abs(r))
for it in range(20000):
    mode=rng.integers(0,4)
    if mode==0:
        dt=float(rng.choice([0.001,0.002,0.004,0.005,0.01,0.02,0.025,0.05,0.1])); target=float(rng.choice([0.001,0.002,0.003,0.004,0.005,0.006,0.007,0.01,0.015,0.02,0.03,0.04,0.05,0.07,0.1,0.3]))
    elif mode==1:
        dt=float(10**rng.uniform(-3,0)); target=float(10**rng.uniform(-3,0))
    elif mode==2:
        dt=float(10**rng.uniform(-3,0)); k=int(rng.integers(1,60)); target=dt*k if rng.random()<0.5 else dt/k
    else:
        k=int(rng.integers(1,200)); dt=1.0/k; m=int(rng.integers(1,50)); target=m*dt if rng.random()<0.5 else dt/m
    nmin=int(np.ceil(2*max(dt,target)/dt))+1
    n=int(rng.integers(nmin,nmin+60))
    x=rng.normal(size=n)
    even=bool(rng.integers(0,2))
    try:
        y,ndt=eqsig.interp_array_to_approx_dt(x,dt,target,even=even)
    except Exception as e:
        cnt['exc_'+type(e).__name__]+=1; ex.setdefault('exc',(dt,target,n,even,str(e)[:80])); continue
    if ndt>target*(1+1e-12): cnt['step_exceeds']+=1; ex.setdefault('step_exceeds',(dt,target,ndt))
    r=dt/ndt
    if not (near_int(r) or near_int(1/r)): cnt['ratio_nonint']+=1; ex.setdefault('ratio',(dt,target,ndt,r))
    if even and len(y)%2: cnt['odd_len']+=1
    if y.max()>x.max()+1e-12 or y.min()<x.min()-1e-12: cnt['range']+=1
    dur0=(n-1)*dt; dur1=(len(y)-1)*ndt
    if abs(dur0-dur1)>=2*max(dt,ndt)*(1+1e-9): cnt['duration']+=1; ex.setdefault('duration',(dt,target,n,even,len(y),ndt,dur0,dur1))
    if r>=1:
        k=int(round(r))
        idx=np.arange(0,len(y),k)
        m=min(len(idx),n)
        if not np.array_equal(y[idx][:m],x[:m]): 
            if np.allclose(y[idx][:m],x[:m],atol=1e-12): cnt['retained_approx_only']+=1
            else: cnt['retained_bad']+=1; ex.setdefault('retained',(dt,target,n,even))
    else:
        m_=int(round(1/r))
        exp=x[::m_]
        L=min(len(exp),len(y))
        if abs(len(exp)-len(y))>1: cnt['dec_len']+=1; ex.setdefault('dec_len',(dt,target,n,even,len(y),len(exp)))
        if not np.array_equal(y[:L],exp[:L]):
            if np.allclose(y[:L],exp[:L],atol=1e-9): cnt['dec_approx_only']+=1
            else: cnt['dec_bad']+=1; ex.setdefault('dec_bad',(dt,target,n,even,m_))
        if len(y)>len(exp): cnt['dec_extra_tail']+=1; ex.setdefault('dec_extra_tail',(dt,target,n,even,len(y),len(exp),y[-3:].tolist(),x[-3:].tolist()))
print(cnt)
for k,v in ex.items(): print(k,v)
