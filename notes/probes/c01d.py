import sys
sys.path.insert(0, __import__('os').path.dirname(__file__))
from c01 import *
rng=np.random.default_rng(3)
rows=[]
for it in range(400):
    n=int(rng.integers(20,400)); dt=float(10**rng.uniform(-3,0))
    acc=rng.normal(size=n).cumsum()
    ratios=10**rng.uniform(np.log10(0.2),np.log10(2000),size=5)
    xi=float(1-10**rng.uniform(-14,-3))
    for r in check(acc,dt,np.sort(ratios*dt),xi): rows.append((max(r[2],r[3]),r[0],1-r[1],n))
rows.sort(key=lambda r:-r[0])
for r in rows[:10]: print("ratio=%.3g T/dt=%.4g 1-xi=%.3g n=%d"%r)
