import sys
sys.path.insert(0,'/tmp/exp')
from c01 import *
from eqsig import sdof
eps=np.finfo(float).eps
rng=np.random.default_rng(11)
rows=[]
def env(n,dt,T,xi,amax):
    w=2*np.pi/T
    Mu=2*xi/(w**3*dt)+1/w**2
    Mv=(1+2*xi*xi)/(w*w*dt)+xi/w
    steps=n-1
    eu=eps*amax*(steps*Mu+steps*steps*dt*Mv)
    ev=eps*amax*(steps*Mv+steps*steps*dt*w*w*Mu)
    return eu,ev
for it in range(1200):
    kind=rng.integers(0,4)
    n=int(rng.choice([2,3,4,5,8,16,64,256,1024]))
    dt=float(10**rng.uniform(-3,0))
    if kind==0: acc=(-1.0)**np.arange(n)
    elif kind==1: acc=rng.normal(size=n)
    elif kind==2: acc=np.sin(np.arange(n)*2.8)*10**rng.uniform(-3,3)
    else: acc=rng.normal(size=n); acc[1::2]*=-1; acc=np.abs(acc)*np.sign((-1.0)**np.arange(n))
    Tdt=10**rng.uniform(3,np.log10(2e4),size=3); T=np.sort(Tdt*dt)
    xi=float(rng.choice([0.01,0.05,0.3,0.7,0.99]))
    u,v,a=sdof.response_series(acc,dt,T,xi); ru,rv=reference(acc,dt,T,xi)
    for j in range(len(T)):
        w=2*np.pi/T[j]; tol=1e-6+5e-8*dt*(n-1)/T[j]+eps/(w*dt)**3
        eu=float(np.max(np.abs(u[j]-ru[j]))); ev=float(np.max(np.abs(v[j]-rv[j])))
        pu=float(np.max(np.abs(ru[j]))); pv=float(np.max(np.abs(rv[j])))
        Eu,Ev=env(n,dt,T[j],xi,np.max(np.abs(acc)))
        rows.append((eu/(tol*pu) if pu else 0, ev/(tol*pv) if pv else 0, eu/Eu, ev/Ev, n, T[j]/dt, xi, kind))
viol=[r for r in rows if r[0]>1 or r[1]>1]
print(len(rows),"rows;",len(viol),"exceed stated tol")
print("max err/envelope among violators: u %.3g v %.3g"%(max(r[2] for r in viol), max(r[3] for r in viol)))
print("max err/envelope overall: u %.3g v %.3g"%(max(r[2] for r in rows), max(r[3] for r in rows)))
viol.sort(key=lambda r:-max(r[2],r[3]))
for r in viol[:8]: print("u/tol=%.3g v/tol=%.3g u/env=%.3g v/env=%.3g n=%d T/dt=%.4g xi=%g kind=%d"%r)
# how large is envelope relative to peak for typical (non-violating) rows -> masking power
nv=[r for r in rows if not(r[0]>1 or r[1]>1)]
