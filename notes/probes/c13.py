import numpy as np, itertools, warnings, collections
warnings.simplefilter('ignore')
import eqsig.fns.peaks_and_crossings as pc
from eqsig import im
cnt=collections.Counter(); ex={}
tot=0
for n in range(2,8):
    for x in itertools.product(range(5),repeat=n):
        if len(set(x))==1: continue
        tot+=1
        for dtype in (float,int):
            xa=np.array(x,dtype=dtype)
            try:
                d=pc.determine_peaks_only_delta_series(xa)
                tv=np.sum(np.abs(np.diff(np.array(x,dtype=float))))
                if len(d)!=n: cnt['len']+=1
                if abs(np.sum(np.abs(d))-tv)>1e-9: cnt['tv_%s'%dtype.__name__]+=1; ex.setdefault('tv_%s'%dtype.__name__,(x,d.tolist(),tv))
                if abs(abs(np.sum(d))-abs(x[-1]-x[0]))>1e-9: cnt['signed_%s'%dtype.__name__]+=1; ex.setdefault('signed',(x,d.tolist()))
                pk=set(pc.get_peak_array_indices(xa).tolist())
                if any(d[i]!=0 and i not in pk for i in range(n)): cnt['nonpeak_nonzero']+=1
                d2=pc.determine_peaks_only_delta_series(xa+7)
                if not np.allclose(d,d2): cnt['shift']+=1
            except Exception as e:
                cnt['exc_delta_'+type(e).__name__+dtype.__name__]+=1; ex.setdefault('exc_delta',(x,str(e)))
            try:
                p=pc.determine_pseudo_cyclic_peak_only_series(xa)
                xf=np.array(x,dtype=float)
                tv=np.sum(np.abs(np.diff(xf)))
                dd=np.diff(xf); last=dd[dd!=0][-1]
                exp=0.5*tv+0.5*(x[-1]-x[0])*np.sign(last)
                if abs(np.sum(p)-exp)>1e-9: cnt['pc_sum_%s'%dtype.__name__]+=1; ex.setdefault('pc_sum_%s'%dtype.__name__,(x,p.tolist(),exp))
                p2=pc.determine_pseudo_cyclic_peak_only_series(xa+7)
                if not np.allclose(p,p2): cnt['pc_shift']+=1
            except Exception as e:
                cnt['exc_pc_'+type(e).__name__]+=1; ex.setdefault('exc_pc',(x,str(e)))
print(tot,cnt)
for k,v in ex.items(): print(k,v)
