import numpy as np, eqsig, warnings
warnings.simplefilter('ignore')
bad_pps=[k for k in range(1,2001) if int(1/(1.0/k))!=k]
print("pps floor failures for dt=1/k:", bad_pps[:20], len(bad_pps))
# decimal dts
for dt in [0.001,0.002,0.0025,0.004,0.005,0.008,0.01,0.0125,0.02,0.025,0.04,0.05,0.1,0.125,0.2,0.25,0.5,1.0]:
    k=round(1/dt); 
    if int(1/dt)!=k: print("dt",dt,"int(1/dt)=",int(1/dt),"expected",k)
bad_T=[]
for k in list(range(1,401))+[500,1000]:
    dt=1.0/k
    for m in range(2,40):
        npts=m*k+1
        t_last=(np.arange(0,npts)*dt)[-1]
        if int(t_last)!=m: bad_T.append((k,m,t_last))
print("total_seconds floor failures:", len(bad_T), bad_T[:10])
bad_T2=[]
for dt in [0.001,0.002,0.0025,0.004,0.005,0.008,0.01,0.0125,0.02,0.025,0.04,0.05,0.1,0.125,0.2,0.25,0.5]:
    k=round(1/dt)
    for m in range(2,80):
        npts=m*k+1
        t_last=(np.arange(0,npts)*dt)[-1]
        if int(t_last)!=m: bad_T2.append((dt,m,t_last))
print("decimal dt total_seconds failures:", len(bad_T2), bad_T2[:10])
