import numpy as np, eqsig, warnings, collections
warnings.simplefilter('ignore')
rng=np.random.default_rng(0)
from scipy.signal import butter, freqz
s=eqsig.Signal(rng.normal(size=500),0.01)
for co in [(0.5,10),[0.5,10],np.array([0.5,10]),(None,10),(0.5,None),[None,10]]:
    s=eqsig.Signal(rng.normal(size=500),0.01)
    try: s.butter_pass(co); print(type(co).__name__,co,"ok",s.npts)
    except Exception as e: print(type(co).__name__,co,"EXC",type(e).__name__,e)
# gain
dt=0.005; n=40000; t=np.arange(n)*dt
for co,order,rg in [((0.5,10),4,None),((None,5),2,None),((1.0,None),3,None),((0.5,10),1,'mid'),((0.5,10),4,'start'),((0.5,10),4,'end')]:
    errs=[]
    for f in [0.1,0.3,0.5,0.8,1,2,5,8,10,12,20,40]:
        x=np.sin(2*np.pi*f*t+0.4)
        s=eqsig.Signal(x,dt); s.butter_pass(co,filter_order=order,remove_gibbs=rg)
        if co[0] is not None and co[1] is not None: b,a=butter(order,np.array(co)*2*dt,btype='band')
        elif co[0] is None: b,a=butter(order,co[1]*2*dt,btype='low')
        else: b,a=butter(order,co[0]*2*dt,btype='high')
        w,h=freqz(b,a,worN=[2*np.pi*f*dt])
        g=abs(h[0])**2
        mid=slice(n//4,3*n//4)
        errs.append(np.max(np.abs(s.values[mid]-g*x[mid])))
    print(co,order,rg,"max err %.2e"%max(errs), "len",s.npts)
# running average
x=rng.normal(size=30)
for w in [1,2,3,4,5,8]:
    s=eqsig.Signal(x.copy(),0.01); s.running_average(w)
    hw=w//2
    exp=np.array([np.mean(x[max(0,i-hw):i+hw+1]) for i in range(len(x))])
    print("w",w,"maxdiff %.3g"%np.max(np.abs(s.values-exp)))
# remove_poly
for k in range(5):
    x=rng.normal(size=200).cumsum()
    s=eqsig.Signal(x.copy(),0.01); s.remove_poly(k)
    tt=np.linspace(0,1,200)
    c=np.polyfit(tt,s.values,k)
    r=x-s.values
    resid=np.polyfit(tt,r,k); fitres=np.max(np.abs(np.polyval(resid,tt)-r))
    s2=eqsig.Signal(s.values.copy(),0.01); s2.remove_poly(k)
    p=np.polyval(rng.normal(size=k+1),tt); s3=eqsig.Signal(x+p,0.01); s3.remove_poly(k)
    print(k,"bestfit coef max %.2e removed-is-poly %.2e idem %.2e invariance %.2e arr-fn %.2e"%(np.max(np.abs(c)),fitres,np.max(np.abs(s2.values-s.values)),np.max(np.abs(s3.values-s.values)), np.max(np.abs(eqsig.remove_poly(x,k)-s.values))))
