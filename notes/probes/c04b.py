import numpy as np, eqsig, warnings, copy, collections, sys
warnings.simplefilter('ignore')
seed=int(sys.argv[1]) if len(sys.argv)>1 else 0
rng=np.random.default_rng(seed)
OBS=['npts','time','values','fa_spectrum','fa_freqs','smooth_fa_spectrum','smooth_fa_freqs','velocity','displacement','pga','pgv','pgd','s_a','s_v','s_d','response_times']
def observe(o): return {k:np.array(getattr(o,k)) for k in OBS}
def fresh(o): return eqsig.AccSignal(np.array(o.values), o.dt, smooth_fa_freqs=np.array(o.smooth_fa_freqs), response_times=np.array(o.response_times))
def inv(o):
    a=observe(copy.deepcopy(o)); b=observe(fresh(o)); bad=[]
    for k in OBS:
        if a[k].shape!=b[k].shape or not np.allclose(a[k],b[k],rtol=1e-10,atol=1e-12*max(1,np.max(np.abs(b[k])) if b[k].size else 1)): bad.append(k)
    return bad
def muts(s):
    n=s.npts
    return {
 'reset_same': lambda: s.reset_values(rng.normal(size=n)),
 'reset_short': lambda: s.reset_values(rng.normal(size=max(40,n-5))),
 'reset_long': lambda: s.reset_values(rng.normal(size=n+7)),
 'add_constant': lambda: s.add_constant(0.3),
 'add_series': lambda: s.add_series(rng.normal(size=n)),
 'add_signal': lambda: s.add_signal(eqsig.Signal(rng.normal(size=n), s.dt)),
 'butter_band': lambda: s.butter_pass((0.5, 10)),
 'butter_low': lambda: s.butter_pass((None, 10)),
 'butter_high': lambda: s.butter_pass((0.5, None)),
 'remove_poly': lambda: s.remove_poly(int(rng.integers(0,4))),
 'remove_average': lambda: s.remove_average(),
 'running_average': lambda: s.running_average(int(rng.integers(1,9))),
 'rra_v': lambda: s.remove_rolling_average(),
 'rra_a': lambda: s.remove_rolling_average(mtype='acc'),
 'rebase': lambda: s.rebase_displacement(),
 'zrv': lambda: s.set_zero_residual_velocity(),
 'zrd': lambda: s.set_zero_residual_displacement(),
 'zrdv': lambda: s.set_zero_residual_displacement_and_velocity(),
 'correct_me': lambda: s.correct_me(),
 'sff=': lambda: setattr(s,'smooth_fa_freqs', np.logspace(-0.5,1,int(rng.integers(5,25)))),
 'sffq=': lambda: setattr(s,'smooth_fa_frequencies', np.logspace(-0.5,1,int(rng.integers(5,25)))),
 'range': lambda: s.set_smooth_fa_frequecies_by_range((0.2,20), int(rng.integers(5,30))),
 'sfr=': lambda: setattr(s,'smooth_freq_range', (0.3, 12)),
 'sfp=': lambda: setattr(s,'smooth_freq_points', int(rng.integers(5,30))),
 'rt=': lambda: setattr(s,'response_times', np.linspace(0.2,3,int(rng.integers(3,9)))),
 'grs(rt)': lambda: s.gen_response_spectrum(response_times=np.linspace(0.3,2,int(rng.integers(3,9)))),
 'rs(rt)': lambda: s.response_series(response_times=np.linspace(0.3,2,int(rng.integers(3,9)))),
 'gsm(freqs)': lambda: s.gen_smooth_fa_spectrum(smooth_fa_freqs=np.logspace(-0.3,1,int(rng.integers(5,15)))),
    }
cnt=collections.Counter(); ex={}
for h in range(int(sys.argv[2]) if len(sys.argv)>2 else 60):
    s=eqsig.AccSignal(rng.normal(size=int(rng.integers(64,200))),0.01,response_times=np.linspace(0.1,2,6))
    hist=[]
    for step in range(int(rng.integers(5,30))):
        if rng.random()<0.5:
            k=OBS[rng.integers(0,len(OBS))]; getattr(s,k); hist.append('read:'+k)
        else:
            m=muts(s); name=list(m)[rng.integers(0,len(m))]
            try: m[name](); hist.append(name)
            except Exception as e: cnt['exc_%s_%s'%(name,type(e).__name__)]+=1; ex.setdefault('exc_'+name,(hist[-6:],str(e)[:100])); hist.append(name+'!exc')
        bad=inv(s); cnt['inv_evals']+=1
        if bad: cnt['STALE']+=1; ex.setdefault('stale_'+','.join(bad),hist[-8:]); break
print(cnt); 
for k,v in ex.items(): print(k,v)
