import numpy as np, eqsig, warnings, collections
warnings.simplefilter('ignore')
from eqsig import sdof
rng=np.random.default_rng(0)
cnt=collections.Counter(); ex={}
for it in range(400):
    n=int(rng.integers(10,300)); dt=float(rng.choice([0.01,0.02,0.005]))
    kind=rng.integers(0,3)
    x=rng.normal(size=n) if kind==0 else (rng.normal(size=n).cumsum() if kind==1 else np.sin(np.arange(n)*rng.uniform(0.05,1.5)))
    T=np.sort(dt*10**rng.uniform(np.log10(1.2),2.5,size=6))
    if rng.random()<0.3: T=np.insert(T,0,0.0)
    mdr=int(rng.choice([1,2,4,8])); xi=float(rng.choice([0,0.05,0.3]))
    a=eqsig.AccSignal(x,dt,response_times=T)
    a.gen_response_spectrum(xi=xi,min_dt_ratio=mdr)
    sd,sv,sa=a.s_d,a.s_v,a.s_a
    rsd,rsv,rsa=sdof.pseudo_response_spectra(x,dt,T,xi)
    Tmin=T[0] if T[0]!=0 else T[1]
    target=max(Tmin/20,dt/mdr)
    for j in range(len(T)):
        if sd[j]<rsd[j]*(1-1e-9): cnt['sd_below_raw']+=1; ex.setdefault('sd_below',(n,dt,T[j]/dt,mdr,xi,sd[j],rsd[j]))
        if sa[j]<rsa[j]*(1-1e-9):
            key='sa_below_raw_sub' if (T[j]<6*dt) else 'sa_below_raw'
            cnt[key]+=1; ex.setdefault(key,(n,dt,T[j]/dt,mdr,xi,sa[j],rsa[j]))
    # k search
    kmin=int(np.ceil(dt/target-1e-9)) if target<dt else 1
    found=None
    for k in range(kmin,2*kmin+2):
        if k==1: xr=x
        else:
            xr=np.interp(np.arange((n-1)*k+1)/k,np.arange(n),x)
        s1=sdof.pseudo_response_spectra(xr,dt/k,T,xi)
        xt=np.concatenate([xr,np.full(k-1,x[-1])]) if k>1 else xr
        s2=sdof.pseudo_response_spectra(xt,dt/k,T,xi)
        lo_ok=all(np.all(o>=l*(1-1e-9)) for o,l in zip((sd,sv,sa),s1)); hi_ok=all(np.all(o<=h*(1+1e-9)) for o,h in zip((sd,sv,sa),s2))
        if lo_ok and hi_ok: found=k; break
    if found is None: cnt['no_k']+=1; ex.setdefault('no_k',(n,dt,(T/dt).tolist(),mdr,xi,kmin))
    else: cnt['k_found_off%d'%(found-kmin)]+=1
print(cnt); 
for k,v in ex.items(): print(k,v)
