import numpy as np, warnings, collections
warnings.simplefilter('ignore')
from eqsig import im
import eqsig.fns.peaks_and_crossings as pc
rng=np.random.default_rng(0)
cnt=collections.Counter(); ex={}
for it in range(3000):
    n=int(rng.integers(3,200))
    kind=rng.integers(0,4)
    if kind==0: x=rng.normal(size=n)
    elif kind==1: x=np.round(rng.normal(size=n)*2)
    elif kind==2: x=np.sin(np.arange(n)*rng.uniform(0.05,2))*rng.uniform(0.1,10)+rng.normal(size=n)*0.1
    else: x=rng.normal(size=n); x[0]=0
    if len(set(x))<2: continue
    b=float(rng.uniform(0.05,1)); a_ref=float(rng.uniform(0.1,3))
    for cut in (0.0, 0.01, 0.1):
        try:
            nc=im.calc_n_cyc_array_w_power_law(x,a_ref,b,cut_off=cut)
        except Exception as e:
            cnt['ncyc_exc_'+type(e).__name__]+=1; ex.setdefault('ncyc_exc_'+type(e).__name__,(x[:6].tolist(),b,a_ref,cut,str(e)[:100])); continue
        nc=np.asarray(nc)
        if nc.shape[0]!=n: cnt['ncyc_len']+=1
        ncf=nc.reshape(n,-1)[:,0]
        if np.any(np.diff(ncf)<0): cnt['ncyc_dec']+=1
        if not np.all(np.isfinite(ncf)): cnt['ncyc_nonfinite']+=1; ex.setdefault('nonfinite',(x[:6].tolist(),b,a_ref,cut)); continue
        if cut==0.0 and ncf[-1]>0:
            try:
                amp=im.calc_cyc_amp_array_w_power_law(x,ncf[-1],b)
                if amp.shape!=(n,): cnt['amp_shape']+=1
                if np.any(np.diff(amp)<0): cnt['amp_dec']+=1
                if abs(amp[-1]-a_ref)>1e-6*a_ref: cnt['inverse_bad']+=1; ex.setdefault('inverse',(x[:8].tolist(),b,a_ref,amp[-1]))
            except Exception as e:
                cnt['amp_exc_'+type(e).__name__]+=1; ex.setdefault('amp_exc',(str(e)[:100]))
    try:
        amp1=im.calc_cyc_amp_array_w_power_law(x,15,b)
        ampc=im.calc_cyc_amp_combined_arrays_w_power_law(x,x.copy(),15,b)
        ampg=im.calc_cyc_amp_gm_arrays_w_power_law(x,x.copy(),15,b)
        if not np.allclose(ampc,2**b*amp1,rtol=1e-9): cnt['combined_bad']+=1
        if not np.allclose(ampg,amp1,rtol=1e-9): cnt['gm_bad']+=1
        amp3=im.calc_cyc_amp_array_w_power_law(3*x,15,b)
        if not np.allclose(amp3,3*amp1,rtol=1e-9): cnt['scale_bad']+=1
    except Exception as e:
        cnt['amp2_exc_'+type(e).__name__]+=1; ex.setdefault('amp2_exc',(x[:6].tolist(), b, str(e)[:100]))
print(cnt)
for k,v in ex.items(): print(k,v)
# int input
try:
    print(im.calc_cyc_amp_array_w_power_law(np.array([0,2,-1,3,-2,0]),15,0.3))
except Exception as e: print("int amp exc", e)
print(im.calc_n_cyc_array_w_power_law(np.array([0,2,-1,3,-2,0]),1.0,0.3))
print(im.calc_n_cyc_array_w_power_law(np.array([0,2,-1,3,-2,0.]),1.0,np.array([0.3,0.5])).shape, im.calc_cyc_amp_array_w_power_law(np.array([0,2,-1,3,-2,0.]),15,np.array([0.3,0.5])).shape)
