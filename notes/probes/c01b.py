import sys
sys.path.insert(0, __import__('os').path.dirname(__file__))
from c01 import *
rng = np.random.default_rng(5)
eps = np.finfo(float).eps
rows=[]
for it in range(1500):
    n = int(rng.choice([2,3,4,5,8,16,50,200]))
    dt = float(10 ** rng.uniform(-3, 0))
    acc = rng.normal(size=n) if rng.random()<0.5 else np.cumsum(rng.normal(size=n))
    ratios = 10 ** rng.uniform(2, np.log10(2e4), size=4)
    periods = np.sort(ratios * dt)
    xi = float(rng.choice([0, 0.05, 0.3, 0.7, 0.99, 0.999999]))
    for r in check(acc, dt, periods, xi):
        Tdt, xi_, eu, ev, _, tol = r
        wdt = 2*np.pi/Tdt
        rows.append((eu*tol/(eps/wdt**3), eu, ev, Tdt, xi_, n))
rows.sort(key=lambda r:-r[1])
for r in rows[:25]: print("err/(eps/wdt^3)=%.3g eu/tol=%.3g ev/tol=%.3g T/dt=%.4g xi=%.6g n=%d"%r)
import collections
byn=collections.defaultdict(float)
for r in rows: byn[(r[5], r[4])]=max(byn[(r[5], r[4])], r[1])
for k in sorted(byn): print(k, "%.3g"%byn[k])
