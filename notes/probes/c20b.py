import numpy as np, eqsig
from eqsig import design_spectra as ds
g=9.81
for sc in 'CDE':
    for T in [0.0,0.05,0.1,0.2,0.3,0.4,0.56,0.8,1.0,1.5,2.0,3.0,4.0]:
        ch=ds.c_h_factor(float(T),sc); sd=ds.sd_nzs(float(T),sc,0.3,1.0,1.0)
        assert abs(sd-ch*T**2*0.3)<1e-12,(sc,T,sd,ch*T**2*0.3)
    for Tb in [0.1,0.3,0.56,1.0,1.5,3.0]:
        lo=ds.c_h_factor(Tb*(1-1e-12),sc); hi=ds.c_h_factor(float(Tb),sc)
        print(sc,Tb,"jump rel %.4f"%(abs(hi-lo)/hi))
    dc=ds.sd_nzs(3.0,sc,0.3,1.0,1.0)*g/(2*np.pi)**2
    print(sc,"t_eff(d_c)=",ds.t_eff(dc*(1-1e-12),sc,0.3,1.0,1.0), ds.t_eff(dc*0.5,sc,0.3,1.0,1.0))
print(ds.c_h_factor(np.array([0.1,0.5,2.0]),'D'), ds.c_h_factor([0.1,0.5],'C'))
try: print(ds.c_h_factor(1,'C'))
except Exception as e: print("int period:",type(e).__name__,e)
try: print(ds.c_h_factor(np.float64(1.0),'C'))
except Exception as e: print("np.float64 period:",type(e).__name__,e)
try: print(ds.sd_nzs(np.array([0.5,1.0]),'C',0.3,1,1))
except Exception as e: print("sd_nzs array:",type(e).__name__,e)
