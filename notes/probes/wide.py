import numpy as np, eqsig, warnings, collections
warnings.simplefilter('ignore')
from eqsig import im
rng=np.random.default_rng(1)
cnt=collections.Counter(); ex={}
# interp2d ties: query exactly midway between nodes, duplicate nodes distances, integer nodes
for it in range(5000):
    m=int(rng.integers(2,8)); xf=np.arange(m,dtype=float)*float(rng.choice([1,0.5,2,0.1]))+float(rng.choice([0,-3,1.5]))
    f=rng.normal(size=(m,2))
    q=np.array([ (xf[i]+xf[i+1])/2 for i in range(m-1)]+[xf[0],xf[-1],xf[0]-1,xf[-1]+1])
    got=eqsig.interp2d(q,xf,f); exp=np.stack([np.interp(q,xf,f[:,c]) for c in range(2)],axis=1)
    if not np.allclose(got,exp,atol=1e-9): cnt['interp2d_tie_bad']+=1; ex.setdefault('interp2d',(q.tolist(),xf.tolist()))
    # int x / int xf
    try:
        got=eqsig.interp2d(np.array([1,2]),np.arange(4),np.arange(8).reshape(4,2))
        if not np.allclose(got,[[2,3],[4,5]]): cnt['interp2d_int_bad']+=1
    except Exception as e: cnt['interp2d_int_exc']+=1; ex.setdefault('interp2d_int',str(e)[:80])
# close nodes
xf=np.array([0,1e-12,1.0]); f=np.array([[0.],[1.],[2.]]); q=np.array([5e-13,0.5])
print("close nodes:",eqsig.interp2d(q,xf,f).ravel(), np.interp(q,xf,f[:,0]))
# small b power law
for it in range(500):
    n=int(rng.integers(5,300)); x=rng.normal(size=n)*10**rng.uniform(-4,4)
    b=float(rng.uniform(0.05,0.12)); a_ref=float(np.max(np.abs(x))*rng.uniform(0.2,2))
    nc=np.asarray(im.calc_n_cyc_array_w_power_law(x,a_ref,b,cut_off=0.0)).reshape(n,-1)[:,0]
    if not np.all(np.isfinite(nc)): cnt['ncyc_nonfinite']+=1; ex.setdefault('ncyc_nonfinite',(b,a_ref,float(np.max(np.abs(x))))); continue
    if nc[-1]>0:
        amp=im.calc_cyc_amp_array_w_power_law(x,nc[-1],b)
        if not np.isfinite(amp[-1]): cnt['amp_nonfinite']+=1; ex.setdefault('amp_nonfinite',(b,a_ref,float(np.max(np.abs(x))),nc[-1]))
        elif abs(amp[-1]-a_ref)>1e-6*a_ref: cnt['inverse_bad']+=1; ex.setdefault('inverse_bad',(b,a_ref,amp[-1]))
        else: cnt['inverse_ok']+=1
    else: cnt['ncyc_zero']+=1
# KO extremes
for it in range(300):
    s=eqsig.Signal(rng.normal(size=int(rng.integers(4,3000))),float(rng.choice([0.001,0.01,0.1])))
    fc=10**rng.uniform(-4,4,size=6); b=float(rng.choice([5,40,100,1000]))
    g=eqsig.calc_smooth_fa_spectrum(s.fa_freqs,s.fa_spectrum,fc,band=b)
    a=np.abs(s.fa_spectrum[1:])
    if not np.all(np.isfinite(g)): cnt['ko_nonfinite']+=1; ex.setdefault('ko_nonfinite',(len(s.values),s.dt,fc.tolist(),b))
    elif np.any(g<a.min()*(1-1e-9)) or np.any(g>a.max()*(1+1e-9)): cnt['ko_range']+=1
    else: cnt['ko_ok']+=1
# int-valued AccSignal through IMs
a=eqsig.AccSignal(np.array([0,1,-2,3,-1,0,2,-3,1,0]),0.1)
for nm in ['calc_arias_intensity','calc_cav','calc_isv','calc_integral_of_abs_velocity','calc_integral_of_abs_acceleration','calc_unit_kinetic_energy']:
    r=getattr(im,nm)(a); af=eqsig.AccSignal(a.values.astype(float),0.1); rf=getattr(im,nm)(af)
    if not np.allclose(r,rf): cnt['int_im_bad_'+nm]+=1
print(a.pga,a.pgv,a.pgd, eqsig.AccSignal(a.values.astype(float),0.1).pgd)
print(cnt); print(ex)
