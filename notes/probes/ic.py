import sys; sys.path.insert(0,'/verif/.deps')
import numpy as np, icontract, eqsig, eqsig.single as es, time
class InvBroken(AssertionError): pass
N={'n':0}
def values_is_owned_numeric_array(self):
    N['n']+=1
    v=self.values
    return isinstance(v,np.ndarray) and v.dtype.kind in 'iufc' and len(v)==self.npts and np.array_equal(self.time, np.arange(self.npts)*self.dt)
es.Signal=icontract.invariant(values_is_owned_numeric_array, error=InvBroken)(es.Signal)
es.AccSignal=icontract.invariant(values_is_owned_numeric_array, error=InvBroken)(es.AccSignal)
print(es.Signal is eqsig.Signal, es.AccSignal is eqsig.AccSignal)
s=eqsig.AccSignal(np.arange(10.),0.1)
s.add_constant(1.0); print("evals",N['n'])
try:
    s.reset_values([1,2,3]); print("no fire", type(s.values))
except InvBroken as e: print("fired InvBroken:", str(e)[:200])
c=eqsig.Cluster([np.arange(50.)**2,np.roll(np.arange(50.)**2,2)],0.1)
try: c.time_match(steps=5); print("cluster no fire")
except InvBroken as e: print("cluster fired")
t=time.time(); 
s=eqsig.AccSignal(np.random.normal(size=200),0.01)
for i in range(200): s.add_constant(0.1); s.pga
print("400 ops %.3fs evals %d"%(time.time()-t,N['n']))
