import numpy as np, itertools, warnings
warnings.simplefilter('ignore')
import eqsig.fns.peaks_and_crossings as pc
def ref_zc(x, keep_adj):
    out={0}
    n=len(x)
    for i in range(n):
        if x[i]==0:
            if keep_adj or i==0 or x[i-1]!=0: out.add(i)
        if i>0 and x[i]*x[i-1]<0: out.add(i)
    return sorted(out)
bad={True:[],False:[]}; tot=0
for n in range(1,8):
    for x in itertools.product(range(-2,3),repeat=n):
        tot+=1
        for ka in (False,True):
            try:
                got=list(pc.get_zero_crossings_array_indices(np.array(x,dtype=float),keep_adj_zeros=ka))
            except Exception as e:
                got=('EXC',type(e).__name__)
            exp=ref_zc(x,ka)
            if got!=exp: bad[ka].append((x,got,exp))
print(tot,{k:len(v) for k,v in bad.items()})
for k in bad: print(k,bad[k][:8])
