import numpy as np, eqsig
from eqsig import sdof
rng=np.random.default_rng(0)
acc=rng.normal(size=50); dt=0.01
try:
    print(sdof.true_response_spectra(acc, dt, [0.1,0.5], 0.05))
except Exception as e: print("true list:", type(e).__name__, e)
try:
    print(sdof.true_response_spectra(acc, dt, (0.1,0.5), 0.05))
except Exception as e: print("true tuple:", type(e).__name__, e)
print(sdof.true_response_spectra(acc, dt, np.array([0,0.02,0.1,0.5]), 0.0))
print(sdof.pseudo_response_spectra(acc, dt, [0,0.02,0.1,0.5], 0.0))
print(sdof.pseudo_response_spectra(acc, dt, (0.02,0.1,0.5), 0.0))
# int periods
print(sdof.pseudo_response_spectra(acc, dt, np.array([1,2]), 0.05))
# energy
a=eqsig.AccSignal(np.array([-10.,1.]),0.01)
print("E", sdof.calc_input_energy_spectrum(a, periods=np.array([0.1,1.0]), xi=0.05))
print("E list", sdof.calc_input_energy_spectrum(a, periods=[0.1,1.0], xi=0.05))
print("uke", sdof.calc_resp_uke_spectrum(a, periods=[0.1,1.0], xi=0.05))
neg=0; tot=0
for it in range(2000):
    n=int(rng.integers(2,300)); acc=rng.normal(size=n)
    if rng.random()<0.5: acc[-1]=0
    a=eqsig.AccSignal(acc,0.01)
    T=0.01*10**rng.uniform(np.log10(0.2),3,size=5)
    E=sdof.calc_input_energy_spectrum(a, periods=T, xi=float(rng.choice([0,0.05,0.5])))
    tot+=5; neg+=int((E<0).sum())
    if (E<0).any() and n>50: print(n, T[E<0]/0.01, E[E<0])
print(neg,tot)
