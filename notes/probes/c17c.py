import numpy as np, eqsig, warnings
warnings.simplefilter('ignore')
def an_gain(f,dt,f1,f2,N):
    O=np.tan(np.pi*f*dt)
    if f1 is not None and f2 is not None:
        O1=np.tan(np.pi*f1*dt); O2=np.tan(np.pi*f2*dt); return 1/(1+((O*O-O1*O2)/((O2-O1)*O))**(2*N))
    if f1 is None: return 1/(1+(O/np.tan(np.pi*f2*dt))**(2*N))
    return 1/(1+(np.tan(np.pi*f1*dt)/O)**(2*N))
rows=[]
for dt in (0.001,0.002,0.005,0.01,0.02):
    for N in (1,2,3,4):
        for f1,f2 in ((0.1,15),(0.5,10),(1,2),(0.1,0.2),(0.05,20),(None,5),(None,0.5),(0.1,None),(1.0,None),(0.02,None)):
            if f2 is not None and f2>=0.45/dt: continue
            edges=[e for e in (f1,f2) if e is not None]
            Tlong=1/min(edges)
            n=int(max(60*Tlong/dt, 4000)); n=min(n,400000)
            t=np.arange(n)*dt
            worst=0
            for e in edges:
                for r in (0.8,1.0,1.25):
                    f=e*r
                    if f>=0.45/dt: continue
                    x=np.sin(2*np.pi*f*t+0.4)
                    s=eqsig.Signal(x,dt); s.butter_pass((f1,f2),filter_order=N)
                    g=an_gain(f,dt,f1,f2,N)
                    mid=slice(n//4,3*n//4)
                    worst=max(worst,float(np.max(np.abs(s.values[mid]-g*x[mid]))))
            rows.append((worst,dt,N,f1,f2,n))
rows.sort(key=lambda r:-r[0])
for r in rows[:25]: print("err=%.2e dt=%g N=%d f1=%s f2=%s n=%d"%r)
print(sum(1 for r in rows if r[0]>1e-4),"of",len(rows),"designs exceed 1e-4;", sum(1 for r in rows if r[0]>1e-2),"exceed 1e-2")
