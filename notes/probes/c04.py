import numpy as np, eqsig, warnings
warnings.simplefilter('ignore')
rng=np.random.default_rng(0)
def fresh(s):
    f = eqsig.AccSignal(np.array(s.values, dtype=float), s.dt, smooth_fa_freqs=np.array(s.smooth_fa_freqs), response_times=np.array(s.response_times))
    return f
def obs(s):
    return dict(npts=s.npts, time=s.time, fa=s.fa_spectrum, faf=s.fa_freqs, sm=s.smooth_fa_spectrum, vel=s.velocity, disp=s.displacement, pga=s.pga,pgv=s.pgv,pgd=s.pgd, sa=s.s_a, sv=s.s_v, sd=s.s_d)
def cmp(a,b):
    bad=[]
    for k in a:
        x,y=np.asarray(a[k]),np.asarray(b[k])
        if x.shape!=y.shape or not np.allclose(x,y,rtol=1e-9,atol=1e-12): bad.append(k)
    return bad
muts = {
 'reset_values': lambda s: s.reset_values(rng.normal(size=s.npts)),
 'reset_values_shorter': lambda s: s.reset_values(rng.normal(size=s.npts-7)),
 'add_constant': lambda s: s.add_constant(0.3),
 'add_series': lambda s: s.add_series(rng.normal(size=s.npts)),
 'add_signal': lambda s: s.add_signal(eqsig.Signal(rng.normal(size=s.npts), s.dt)),
 'butter_pass': lambda s: s.butter_pass((0.5, 10)),
 'remove_poly': lambda s: s.remove_poly(2),
 'remove_average': lambda s: s.remove_average(),
 'running_average': lambda s: s.running_average(5),
 'remove_rolling_average_v': lambda s: s.remove_rolling_average(),
 'remove_rolling_average_a': lambda s: s.remove_rolling_average(mtype='acc'),
 'rebase_displacement': lambda s: s.rebase_displacement(),
 'set_zero_residual_velocity': lambda s: s.set_zero_residual_velocity(),
 'set_zero_residual_displacement': lambda s: s.set_zero_residual_displacement(),
 'set_zero_residual_displacement_and_velocity': lambda s: s.set_zero_residual_displacement_and_velocity(),
 'correct_me': lambda s: s.correct_me(),
 'smooth_fa_freqs=': lambda s: setattr(s,'smooth_fa_freqs', np.logspace(-0.5,1,20)),
 'smooth_fa_frequencies=': lambda s: setattr(s,'smooth_fa_frequencies', np.logspace(-0.5,1,21)),
 'set_smooth_by_range': lambda s: s.set_smooth_fa_frequecies_by_range((0.2,20), 30),
 'smooth_freq_range=': lambda s: setattr(s,'smooth_freq_range', (0.3, 12)),
 'smooth_freq_points=': lambda s: setattr(s,'smooth_freq_points', 17),
 'response_times=': lambda s: setattr(s,'response_times', np.linspace(0.2,3,12)),
 'gen_response_spectrum(rt)': lambda s: s.gen_response_spectrum(response_times=np.linspace(0.3,2,7)),
 'gen_response_spectrum(xi)': lambda s: s.gen_response_spectrum(xi=0.2),
 'gen_response_spectrum(mdr)': lambda s: s.gen_response_spectrum(min_dt_ratio=1),
 'response_series(rt)': lambda s: s.response_series(response_times=np.linspace(0.3,2,5)),
 'gen_fa_spectrum(p2)': lambda s: s.gen_fa_spectrum(p2_plus=1),
 'gen_smooth(band)': lambda s: s.gen_smooth_fa_spectrum(band=20),
 'gen_smooth(freqs)': lambda s: s.gen_smooth_fa_spectrum(smooth_fa_freqs=np.logspace(-0.3,1,9)),
 'gen_disp(trap=False)': lambda s: s.generate_displacement_and_velocity_series(trap=False),
}
for name,m in muts.items():
    s=eqsig.AccSignal(rng.normal(size=300).cumsum()*0.01+rng.normal(size=300), 0.01, response_times=np.linspace(0.1,2,9))
    o0=obs(s)   # read everything
    try:
        m(s)
    except Exception as e:
        print(name, "RAISES", type(e).__name__, e); continue
    o1=obs(s)
    f=fresh(s)
    of=obs(f)
    print("%-45s stale:%s  values_type=%s"%(name, cmp(o1,of), type(s.values).__name__))
