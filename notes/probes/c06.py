import numpy as np, eqsig, warnings
warnings.simplefilter('ignore')
rng=np.random.default_rng(0)
# fas2values length for various n
bad=[]
for npts in range(2,3000):
    fas=np.zeros(npts,dtype=complex); fas[1:]=1
    v=eqsig.fas2values(fas,0.01)
    if len(v)!=2*npts: bad.append((npts,len(v)))
print("fas2values wrong length count", len(bad), bad[:20])
pw=[(k, len(eqsig.fas2values(np.ones(2**k//2,dtype=complex),0.01))) for k in range(1,22)]
print([p for p in pw if p[1]!=2**p[0]])
# frequency grid odd unpadded
for n in [7,8,9,100,101]:
    s=eqsig.Signal(rng.normal(size=n),0.1)
    fa,fr=eqsig.calc_fa_spectrum(s)
    fa2,fr2=eqsig.generate_fa_spectrum(s,n_pad=False)
    print(n,len(fa),fr[:3], "expected k/(N dt):", np.arange(3)/(n*0.1))
    s.gen_fa_spectrum(n=n); print("   obj n=",n, len(s.fa_spectrum), s.fa_freqs[:3])
# n smaller than npts (truncation)
s=eqsig.Signal(rng.normal(size=20),0.1); s.gen_fa_spectrum(n=16); print(len(s.fa_spectrum))
# p2_plus
s=eqsig.Signal(rng.normal(size=100),0.1); s.gen_fa_spectrum(p2_plus=2); print(len(s.fa_spectrum), s.fa_freqs[1], 1/(512*0.1))
# max_fa_period
cnt=0;tot=0
for it in range(300):
    n=int(rng.integers(8,400)); x=rng.normal(size=n); x-=x.mean()
    a=eqsig.AccSignal(x,0.01)
    p=eqsig.im.max_fa_period(a)
    k=np.argmax(np.abs(a.fa_spectrum)); exp=1/a.fa_freqs[k] if k>0 else np.inf
    tot+=1; cnt+= (p!=exp)
print("max_fa_period wrong:",cnt,"/",tot)
# npts==1?  log2(1)=0 -> n_factor=1, points=0
# length 2,3
for n in [2,3,4,5]:
    s=eqsig.Signal(rng.normal(size=n),0.1); print(n, s.fa_spectrum, s.fa_freqs)
