import numpy as np, eqsig, warnings, collections
warnings.simplefilter('ignore')
from eqsig import sdof
rng=np.random.default_rng(0)
eps=np.finfo(float).eps
worst=collections.defaultdict(float)
def rel(a,b,scale): return float(np.max(np.abs(a-b)))/scale if scale>0 else 0.0
for it in range(1500):
    n=int(rng.integers(4,300)); dt=float(10**rng.uniform(-3,0))
    a=rng.normal(size=n); b=rng.normal(size=n).cumsum()
    ratios=10**rng.uniform(np.log10(0.2),np.log10(2e4),size=4); T=np.sort(ratios*dt)
    xi=float(rng.choice([0,0.05,0.5,0.99]))
    al,be=rng.normal(size=2)*10**rng.uniform(-2,2)
    ua,va,aa=sdof.response_series(a,dt,T,xi); ub,vb,ab=sdof.response_series(b,dt,T,xi)
    uc,vc,ac=sdof.response_series(al*a+be*b,dt,T,xi)
    for j in range(len(T)):
        wdt=2*np.pi*dt/T[j]
        tol=1e-6+5e-8*(n*dt)/T[j]+eps/wdt**3
        # scale: peak magnitudes of parts
        su=abs(al)*np.max(np.abs(ua[j]))+abs(be)*np.max(np.abs(ub[j]))
        e=rel(uc[j],al*ua[j]+be*ub[j],su)
        worst['lin_u/tol']=max(worst['lin_u/tol'],e/tol); worst['lin_u_abs']=max(worst['lin_u_abs'],e)
        sv=abs(al)*np.max(np.abs(va[j]))+abs(be)*np.max(np.abs(vb[j]))
        e=rel(vc[j],al*va[j]+be*vb[j],sv); worst['lin_v_abs']=max(worst['lin_v_abs'],e); worst['lin_v/tol']=max(worst['lin_v/tol'],e/tol)
    # causality
    i=int(rng.integers(1,n)); a2=a.copy(); a2[i:]+=rng.normal(size=n-i)*5
    u2,v2,_=sdof.response_series(a2,dt,T,xi)
    worst['causal_bitwise_fail']+= 0 if np.array_equal(u2[:,:i],ua[:,:i]) and np.array_equal(v2[:,:i],va[:,:i]) else 1
    # shift
    k=int(rng.integers(1,20)); a0=a.copy(); a0[0]=0
    u0,v0,_=sdof.response_series(a0,dt,T,xi); us,vs,_=sdof.response_series(np.concatenate([np.zeros(k),a0]),dt,T,xi)
    worst['shift_bitwise_fail']+= 0 if (np.array_equal(us[:,k:],u0) and not np.any(us[:,:k])) else 1
    # permutation
    p=rng.permutation(len(T)); up,vp,_=sdof.response_series(a,dt,T[p],xi)
    worst['perm_bitwise_fail']+= 0 if np.array_equal(up,ua[p]) else 1
    u1,_,_=sdof.response_series(a,dt,T[:1],xi); worst['batch_bitwise_fail']+= 0 if np.array_equal(u1[0],ua[0]) else 1
    # refinement
    kf=int(rng.integers(2,9)); ar=np.interp(np.arange((n-1)*kf+1)/kf,np.arange(n),a)
    ur,vr,_=sdof.response_series(ar,dt/kf,T,xi)
    for j in range(len(T)):
        if T[j]/(dt/kf)>2e4: continue
        wdtf=2*np.pi*(dt/kf)/T[j]
        tol=2*(1e-6+5e-8*(n*dt)/T[j]+eps/wdtf**3)
        pk=np.max(np.abs(ua[j])); e=rel(ur[j,::kf],ua[j],pk)
        worst['refine_u/tol']=max(worst['refine_u/tol'],e/tol); 
        if e/tol>1: worst['refine_over']+=1
print(dict(worst))
