import numpy as np, eqsig, warnings
warnings.simplefilter('ignore')
rng=np.random.default_rng(0)
# constructor aliasing
arr=rng.normal(size=200)
keep=arr.copy()
s=eqsig.AccSignal(arr,0.01)
for name in ['rebase_displacement','set_zero_residual_velocity','set_zero_residual_displacement','set_zero_residual_displacement_and_velocity','running_average','remove_rolling_average']:
    s=eqsig.AccSignal(arr,0.01)
    getattr(s,name)() if name!='running_average' else s.running_average(5)
    print("ctor", name, "caller modified:", not np.array_equal(arr,keep))
# reset aliasing
for name in ['rebase_displacement','set_zero_residual_velocity','set_zero_residual_displacement','set_zero_residual_displacement_and_velocity','running_average','remove_rolling_average_acc','add_constant','butter_pass']:
    arr=keep.copy()
    s=eqsig.AccSignal(np.zeros(200),0.01)
    s.reset_values(arr)
    if name=='running_average': s.running_average(5)
    elif name=='remove_rolling_average_acc': s.remove_rolling_average(mtype='acc')
    elif name=='add_constant': s.add_constant(1.0)
    elif name=='butter_pass': s.butter_pass((0.5,10))
    else: getattr(s,name)()
    print("reset", name, "caller modified:", not np.array_equal(arr,keep))
# vice versa
arr=keep.copy(); s=eqsig.AccSignal(np.zeros(200),0.01); s.reset_values(arr); p=s.pga; arr[3]=1e6; print("caller write visible in object:", s.values[3]==1e6, "pga stale:", s.pga==p)
# list / int
s=eqsig.Signal([1,2,3,4],0.1); print(type(s.values), s.values.dtype)
s.reset_values([1,2,3]); print(type(s.values), s.npts, s.time)
try: s.add_constant(1.0); print(s.values)
except Exception as e: print("add_constant after list reset:", type(e).__name__, e)
s=eqsig.AccSignal(np.array([1,2,3,4,5,6,7,8]),0.1); print(s.values.dtype)
try:
    s.rebase_displacement(); print(s.values)
except Exception as e: print("int rebase:", type(e).__name__, e)
s=eqsig.AccSignal(np.array([1,2,3,4,5,6,7,8]),0.1)
s.running_average(3); print("int running avg", s.values)
# values returned is internal array: user mutation of s.values
s=eqsig.AccSignal(keep.copy(),0.01); v=s.values; p=s.pga; v[0]=1e9; print("s.values exposes internal; pga stale", s.pga==p)
# 2 objects share?
a=keep.copy(); s1=eqsig.AccSignal(a,0.01); s2=eqsig.AccSignal(s1.values,0.01); s2.rebase_displacement(); print("s1 changed by s2 op:", not np.array_equal(s1.values,keep))
s1=eqsig.AccSignal(keep.copy(),0.01); s2=eqsig.AccSignal(np.zeros(200),0.01); s2.reset_values(s1.values); s2.rebase_displacement(); print("s1 changed by s2 op after reset_values(s1.values):", not np.array_equal(s1.values,keep))
# add_signal
s1=eqsig.AccSignal(keep.copy(),0.01); s2=eqsig.AccSignal(keep.copy(),0.01); s1.add_signal(s2); print("add_signal modifies other:", not np.array_equal(s2.values,keep))
# Cluster
c=eqsig.Cluster([keep.copy(), np.roll(keep,3)],0.01); c.time_match(); print([type(c.values_by_index(i)).__name__ for i in range(2)])
