import numpy as np, eqsig, warnings, collections
warnings.simplefilter('ignore')
from eqsig import stockwell as sw
rng=np.random.default_rng(0)
def ref_S(x):
    """conj of discrete S-transform (Stockwell 1996), direct O(N^3) sums; rows Nyquist..1"""
    x=np.asarray(x,dtype=float); N=2*(len(x)//2); x=x[:N]
    j=np.arange(N)
    X=np.array([np.sum(x*np.exp(-2j*np.pi*((j*k)%N)/N)) for k in range(N)])/N   # H[k]
    out=np.zeros((N//2,N),dtype=complex)
    ms=np.concatenate((np.arange(0,N//2+1), np.arange(-(N//2)+1,0)))  # m index aliases: 0..N/2, -(N/2-1)..-1
    for n in range(1,N//2+1):
        for jj in range(N):
            s=0
            for m in ms:
                s+= X[(m+n)%N]*np.exp(-2*np.pi**2*m**2/n**2)*np.exp(2j*np.pi*m*jj/N)
            out[N//2-n, jj]=np.conj(s)
    return out
for n in [4,5,6,7,8,9,12,16,17]:
    x=rng.normal(size=n)
    S=sw.transform(x); S2=sw.transform_w_scipy_fft(x.copy())
    R=ref_S(x)
    print(n,S.shape,"err vs def: %.2e"%np.max(np.abs(S-R)),"impl agree: %.2e"%np.max(np.abs(S-S2)))
    N=2*(n//2); X=np.fft.fft(x[:N])
    rows=S.sum(axis=1)  # row r -> freq N/2 - r
    expect=np.conj(X[N//2 - np.arange(N//2)])/1.0
    print("   marginal err: %.2e"%np.max(np.abs(rows-expect)), " (scale check ratio)", np.abs(rows[0]/expect[0]) if abs(expect[0])>0 else None)
    inv=sw.itransform(S)
    x0=x[:N]-x[:N].mean(); nyq=np.sum(x[:N]*(-1.0)**np.arange(N))/N; x0=x0-nyq*(-1.0)**np.arange(N)
    print("   inverse err: %.2e len %d"%(np.max(np.abs(inv-x0)), len(inv)))
# dominant frequency for on-grid sinusoid
for N in [64,128,100]:
    dt=0.01
    bad=[]
    for k in range(2, int(0.75*N/2)+1):
        t=np.arange(N)*dt; f=k/(N*dt)
        a=eqsig.AccSignal(np.sin(2*np.pi*f*t+0.3),dt)
        mf=sw.get_max_stockwell_freq(a)
        mid=mf[N//4:3*N//4]
        if not np.allclose(mid,f): bad.append((k,f,np.unique(mid)))
    print(N,"dominant freq failures:",len(bad),bad[:3])
