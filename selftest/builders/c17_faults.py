import subprocess, sys, shutil, os, re, time
SRC='/repo/eqsig/'; DST='/tmp/build_C17/eqsig/'
S='single.py'; G='fns/generic.py'
FAULTS = {
 'lfilter': [(S, "mote = sosfiltfilt(sos, mote, padlen=3 * n_coef)", "from scipy.signal import sosfilt; mote = sosfilt(sos, mote)")],
 'nyq->fs': [(S, "wp = cut_off / nyq", "wp = cut_off / sampling_rate")],
 'order-ignored': [(S, "sos = butter(filter_order, wp,", "sos = butter(4, wp,")],
 'slice+1': [(S, "mote = mote[s_len:f_len]  # TODO", "mote = mote[s_len + 1:f_len + 1] if remove_gibbs is not None else mote[s_len:f_len]  # TODO")],
 'slice-1-end-only': [(S, "                s_len = diff_len\n", "                s_len = diff_len - 1\n")],
 'slice-mid+1': [(S, "s_len = int(diff_len / 2)", "s_len = int(diff_len / 2) + 1")],
 'low/high-swapped': [(S, "filter_type = 'low'\n", "filter_type = 'high'\n"), (S, "filter_type = 'high'\n            cut_off = cut_off[0]", "filter_type = 'low'\n            cut_off = cut_off[0]")],
 'exp-off-by-one-method': [(S, "mods = x ** (poly_fit - co)", "mods = x ** (poly_fit - co + 1)")],
 'exp-off-by-one-fn': [(G, "mods = x ** (poly_fit - co)", "mods = x ** (poly_fit - co + 1)")],
 'linspace->arange-method': [(S, "x = np.linspace(0, 1.0, self.npts)", "x = np.arange(self.npts)")],
 'linspace->arange-fn': [(G, "x = np.linspace(0, 1.0, len(values))", "x = np.arange(len(values))")],
 'linspace-endpointFalse-eval-only-method': [(S, "        y_cor = 0 * x\n        for co in range(len(cofs)):\n            mods = x ** (poly_fit - co)", "        y_cor = 0 * x\n        x = np.linspace(0, 1.0, self.npts, endpoint=False)\n        for co in range(len(cofs)):\n            mods = x ** (poly_fit - co)")],
 'add_series-nolen': [(S, "if len(series) == self.npts:", "if True:")],
 'F15': [(S, "isinstance(cut_off, np.ndarray)", "isinstance(cut_off, np.Array)")],
 'F16': [(S, "averaged = np.zeros(len(mot), dtype=np.result_type(mot.dtype, float))", "averaged = self._values")],
 'F19': [(S, "sos = butter(filter_order, wp, btype=filter_type, output='sos')\n        n_coef = filter_order * (2 if filter_type == 'band' else 1) + 1\n        mote = sosfiltfilt(sos, mote, padlen=3 * n_coef)", "from scipy.signal import filtfilt\n        b, a = butter(filter_order, wp, btype=filter_type)\n        mote = filtfilt(b, a, mote)")],
 # extra
 'polyfit-skips-last-k0-method': [(S, "cofs = np.polyfit(x, self.values, poly_fit)", "cofs = np.polyfit(x[:-1], self.values[:-1], poly_fit) if poly_fit == 0 else np.polyfit(x, self.values, poly_fit)")],
 'polyfit-skips-last-k3-fn': [(G, "cofs = np.polyfit(x, values, poly_fit)", "cofs = np.polyfit(x[:-1], values[:-1], poly_fit) if poly_fit == 3 else np.polyfit(x, values, poly_fit)")],
 'polyfit-skips-last-k2-method': [(S, "cofs = np.polyfit(x, self.values, poly_fit)", "cofs = np.polyfit(x[:-1], self.values[:-1], poly_fit) if poly_fit == 2 else np.polyfit(x, self.values, poly_fit)")],
 'gibbs-pad-abs-end': [(S, "end_value = np.mean(mote[-gibbs_range:])", "end_value = np.mean(np.abs(mote[-gibbs_range:]))")],
 'gibbs-pad-const-start-only': [(S, "            temp[s_len:f_len] = mote\n", "            temp[s_len:f_len] = mote\n            if remove_gibbs == 'start':\n                temp[f_len:] = end_value + 1e-3\n")],
 'gibbs-pad-max-mid-low': [(S, "start_value = np.mean(mote[:gibbs_range])", "start_value = np.max(mote[:gibbs_range]) if (remove_gibbs == 'mid' and filter_type == 'low') else np.mean(mote[:gibbs_range])")],
 'nonlinear-clip-none-high': [(S, "        mote = mote[s_len:f_len]  # TODO", "        if remove_gibbs is None and filter_type == 'high':\n            mote[:3] = np.abs(mote[:3])\n        mote = mote[s_len:f_len]  # TODO")],
 'add_constant-twice': [(S, "self.reset_values(self.values + constant)", "self.reset_values(self.values + 2 * constant)")],
 'add_signal-nodt': [(S, "if new_signal.dt == self.dt:", "if True:")],
 'add_signal-noninstance': [(S, "if isinstance(new_signal, Signal):", "if hasattr(new_signal, 'values'):")],
 'runavg-window-off': [(S, "cc2 = i + int(width / 2) + 1\n                averaged", "cc2 = i + int(width / 2)\n                averaged")],
 'runavg-int-trunc': [(S, "averaged = np.zeros(len(mot), dtype=np.result_type(mot.dtype, float))", "averaged = np.zeros(len(mot), dtype=mot.dtype)")],
 'dt-changed': [(S, "        self.reset_values(mote)\n\n    def remove_average", "        self.reset_values(mote)\n        self._dt = self._dt * (1 + 1e-12)\n\n    def remove_average")],
 'length+1-gibbs-end': [(S, "mote = mote[s_len:f_len]  # TODO", "mote = mote[s_len:f_len + (1 if remove_gibbs == 'start' else 0)]  # TODO")],
}
FAULTS.update({
 'extract+1-mid-only': [(S, "mote = mote[s_len:f_len]  # TODO", "mote = mote[s_len + 1:f_len + 1] if remove_gibbs == 'mid' else mote[s_len:f_len]  # TODO")],
 'extract-1-end-only': [(S, "mote = mote[s_len:f_len]  # TODO", "mote = mote[s_len - 1:f_len - 1] if remove_gibbs == 'end' else mote[s_len:f_len]  # TODO")],
 'insert+1-start-only': [(S, "            temp[s_len:f_len] = mote\n", "            if remove_gibbs == 'start':\n                temp[s_len + 1:f_len + 1] = mote\n            else:\n                temp[s_len:f_len] = mote\n")],
 'linspace->arange-float-method': [(S, "x = np.linspace(0, 1.0, self.npts)", "x = np.arange(self.npts, dtype=float)")],
 'linspace->arange-float-fn': [(G, "x = np.linspace(0, 1.0, len(values))", "x = np.arange(len(values), dtype=float)")],
 'order-ignored-low-only': [(S, "sos = butter(filter_order, wp,", "sos = butter(4 if filter_type == 'low' else filter_order, wp,")],
 'nyq->fs-high-only': [(S, "wp = cut_off / nyq", "wp = cut_off / (sampling_rate if filter_type == 'high' else nyq)")],
 'order+1-for-order3': [(S, "sos = butter(filter_order, wp,", "sos = butter(filter_order + (1 if filter_order == 3 else 0), wp,")],
 'pad-abs-start-end-only': [(S, "start_value = np.mean(mote[:gibbs_range])", "start_value = np.mean(np.abs(mote[:gibbs_range])) if remove_gibbs == 'end' else np.mean(mote[:gibbs_range])")],
 'detrend-k4-drops-const-method': [(S, "        for co in range(len(cofs)):\n            mods = x ** (poly_fit - co)\n            y_cor += cofs[co] * mods\n\n        self.reset_values(self.values - y_cor)", "        for co in range(len(cofs) - (1 if poly_fit == 4 else 0)):\n            mods = x ** (poly_fit - co)\n            y_cor += cofs[co] * mods\n\n        self.reset_values(self.values - y_cor)")],
 'detrend-mean-excl-last-k0-fn': [(G, "    return values - y_cor", "    return values - (np.mean(values[:-1]) if poly_fit == 0 else y_cor)")],
 'detrend-k1-weighted-fn': [(G, "cofs = np.polyfit(x, values, poly_fit)", "cofs = np.polyfit(x, values, poly_fit, w=(np.where(np.arange(len(x)) == len(x) - 1, 0.5, 1.0) if poly_fit == 1 else None))")],
 'add_constant-int-cast': [(S, "self.reset_values(self.values + constant)", "self.reset_values(self.values + int(constant))")],
 'runavg-even-width': [(S, "cc1 = i - int(width / 2)\n", "cc1 = i - int((width - 1) / 2)\n")],
 'prewarp-missing': [(S, "sos = butter(filter_order, wp,", "wp = np.arctan(np.pi * wp / 2) * 2 / np.pi\n        sos = butter(filter_order, wp,")],
 'single-pass-twice-forward': [(S, "mote = sosfiltfilt(sos, mote, padlen=3 * n_coef)", "from scipy.signal import sosfilt; mote = sosfilt(sos, sosfilt(sos, mote))")],
})
QUIET = {
 'q:linspace-as-arange/(n-1)': [(S, "x = np.linspace(0, 1.0, self.npts)", "x = np.arange(self.npts) / (self.npts - 1.0)")],
 'q:polyval': [(G, "    y_cor = 0 * x\n    for co in range(len(cofs)):\n        mods = x ** (poly_fit - co)\n        y_cor += cofs[co] * mods\n", "    y_cor = np.polyval(cofs, x)\n")],
 'q:runavg-vectorised': [(S, "                averaged[i] = np.mean(mot[cc1:cc2])", "                averaged[i] = np.sum(mot[cc1:cc2]) / len(mot[cc1:cc2])")],
 'q:padtype-explicit': [(S, "mote = sosfiltfilt(sos, mote, padlen=3 * n_coef)", "mote = sosfiltfilt(sos, mote, padtype='odd', padlen=3 * n_coef)")],
 'q:add-reordered': [(S, "self.reset_values(self.values + series)", "self.reset_values(np.asarray(series) + self.values)")],
}
# ---- audit round 1 (dtype / purity / state / scale classes) and the wave-3 change (cumulative-sum running average)
FAULTS.update({
 'a1:runavg-convolve-same': [(S, "        self.reset_values(averaged)\n\n\nclass AccSignal", "        h = int(width / 2)\n        k = np.ones(2 * h + 1)\n        averaged = np.convolve(mot, k, mode='same') / np.convolve(np.ones(len(mot)), k, mode='same')\n        self.reset_values(averaged)\n\n\nclass AccSignal")],
 'a1:remove_poly-fn-inplace': [(G, "    return values - y_cor", "    values -= y_cor\n    return values")],
 'a1:add_series-inplace-on-argument': [(S, "            self.reset_values(self.values + series)", "            series += self.values\n            self.reset_values(series)")],
 'a1:remove_poly-fn-module-buffer': [(G, "    return values - y_cor", "    out = _OUT.setdefault(len(x), np.zeros(len(x)))\n    out[:] = values - y_cor\n    return out"), (G, "def remove_poly(values, poly_fit=0):", "_OUT = {}\n\n\ndef remove_poly(values, poly_fit=0):")],
 'a1:int-cast-removed': [(S, "        if self._values.dtype.kind in 'iub':  # integer counts: never compute in a fixed-width integer type\n            self._values = self._values.astype(float)\n", ""), (S, "        if self._values.dtype.kind in 'iub':\n            self._values = self._values.astype(float)\n", "")],
 'a1:default-cutoff-changed': [(S, "def butter_pass(self, cut_off=(0.1, 15), **kwargs):", "def butter_pass(self, cut_off=(0.1, 25), **kwargs):")],
 'a1:sampling-rate-rounded': [(S, "sampling_rate = 1.0 / self.dt\n        nyq", "sampling_rate = np.round(1.0 / self.dt, 3)\n        nyq")],
 'a1:micro-amplitude-skipped': [(S, "        mote = self.values\n        org_len = len(mote)", "        mote = self.values\n        if np.max(np.abs(mote)) < 1e-10:\n            return\n        org_len = len(mote)")],
 'a1:gibbs-pad-isclose-zero': [(S, "            end_value = np.mean(mote[-gibbs_range:])", "            end_value = np.mean(mote[-gibbs_range:])\n            if np.isclose(end_value, 0):\n                end_value = 0.0")],
 'a1:inplace-cutoff': [(S, "            cut_off = np.array(cut_off)\n", "            cut_off = np.asarray(cut_off, dtype=float)\n"), (S, "        wp = cut_off / nyq\n", "        cut_off /= nyq\n        wp = cut_off\n")],
})
# ---- audit round 2: one mutant per new workload class
FAULTS.update({
 # real widths just below an even integer ((k*dt)/dt for awkward dt): floor(w/2) != round(w)/2
 'a2:real-width-rounded': [(S, "int(width / 2)", "int(np.round(width) / 2)", 'all')],
 # non-integer sampling rates (dt = 0.03, 1/49 ... with cut-offs relative to Nyquist)
 'a2:sampling-rate-int': [(S, "sampling_rate = 1.0 / self.dt\n        nyq", "sampling_rate = float(int(1.0 / self.dt)) if self.dt < 1 else 1.0 / self.dt\n        nyq")],
 # sinusoid + constant offset through a low-pass (|H(0)|^2 = 1)
 'a2:demean-before-filter': [(S, "        mote = self.values\n        org_len = len(mote)", "        mote = self.values - np.mean(self.values)\n        org_len = len(mote)")],
 # lengths past 256 (block-wise window): only records of >= 257 samples
 'a2:runavg-blocks-256': [(S, "                cc1 = i - int(width / 2)\n                cc2", "                cc1 = max(i - int(width / 2), (i // 256) * 256)\n                cc2")],
 # one-sided (all non-positive) records
 'a2:gibbs-pad-onesided': [(S, "            start_value = np.mean(mote[:gibbs_range])", "            start_value = np.mean(mote[:gibbs_range]) if np.any(mote > 0) else 0.0")],
})


# ---- wave 5: extreme-scale classes, narrow band-pass, detrending over very long / very short durations
FAULTS.update({
 # zero tests done through squares: a tiny record (|x| < 1e-162) squares to 0
 'a3:runavg-zero-test-by-square': [(S, "        mot = self.values\n        averaged = np.zeros", "        mot = self.values\n        if np.sum(np.asarray(mot, dtype=float) ** 2) == 0:\n            return\n        averaged = np.zeros")],
 'a3:butter-zero-test-by-square': [(S, "        mote = self.values\n        org_len = len(mote)", "        mote = self.values\n        if np.dot(mote, mote) == 0:\n            return\n        org_len = len(mote)")],
 'a3:detrend-fn-variance-test': [(G, "    x = np.linspace(0, 1.0, len(values))\n    cofs = np.polyfit(x, values, poly_fit)", "    if np.var(np.asarray(values, dtype=float)) == 0 and len(values) > 1 and np.ptp(values) > 0:\n        return np.asarray(values) - np.mean(values)\n    x = np.linspace(0, 1.0, len(values))\n    cofs = np.polyfit(x, values, poly_fit)")],
 'a3:add_series-skip-zero-energy': [(S, "        if len(series) == self.npts:\n", "        if len(series) == self.npts and float(np.dot(np.asarray(series, dtype=float), np.asarray(series, dtype=float))) == 0:\n            return\n        if len(series) == self.npts:\n")],
 # huge records: normalising by the sum of squares overflows
 'a3:runavg-rms-normalised': [(S, "        self.reset_values(averaged)\n\n\nclass AccSignal", "        rms = np.sqrt(np.mean(np.asarray(mot, dtype=float) ** 2))\n        if np.isfinite(rms) is False or not np.isfinite(rms):\n            averaged = averaged * 0\n        self.reset_values(averaged)\n\n\nclass AccSignal")],
 # narrow band-pass (relative bandwidth < 10 %, order 3-4): transfer-function form when the lower corner is >= 0.01 Nyquist
 'a3:tf-form-above-0.01-nyquist': [(S, "        mote = sosfiltfilt(sos, mote, padlen=3 * n_coef)  # same padding as filtfilt(b, a)", "        if np.min(wp) < 0.01:\n            mote = sosfiltfilt(sos, mote, padlen=3 * n_coef)\n        else:\n            from scipy.signal import filtfilt\n            b_, a_ = butter(filter_order, wp, btype=filter_type)\n            mote = filtfilt(b_, a_, mote)")],
 # detrending in physical time with a raw least-squares fit: degree 3-4 over > 1000 s or < 1 ms
 'a3:detrend-raw-lstsq-in-time': [(S, "        x = np.linspace(0, 1.0, self.npts)\n        cofs = np.polyfit(x, self.values, poly_fit)", "        x = np.arange(self.npts) * self.dt\n        cofs = np.linalg.lstsq(np.vander(x, poly_fit + 1), self.values, rcond=None)[0]")],
})


def restore():
    for f in (S,G): shutil.copy(SRC+f, DST+f)
def apply(edits):
    for e in edits:
        f,a,b=e[:3]
        s=open(DST+f).read()
        assert s.count(a)>=1, (f,a)
        s=s.replace(a,b) if len(e)>3 and e[3]=='all' else s.replace(a,b,1)
        open(DST+f,'w').write(s)
def run(extra=()):
    env=dict(os.environ, EQSIG_REPO='/tmp/build_C17')
    t=time.time()
    r=subprocess.run(['./check','C17',*extra],cwd='/verif',env=env,capture_output=True,text=True)
    return r.returncode, r.stdout, time.time()-t
if not os.path.isdir('/tmp/build_C17'):
    shutil.copytree('/repo','/tmp/build_C17')
names=sys.argv[1:] or list(FAULTS)+list(QUIET)
allf=dict(FAULTS); allf.update(QUIET)
for nm in names:
    restore(); apply(allf[nm])
    rc,out,tt=run()
    viol=[l.split()[1] for l in out.splitlines() if l.strip().startswith('clause') and 'violated=0' not in l]
    first=[l for l in out.splitlines() if l.startswith('VIOLATION')][:1]
    last=out.strip().splitlines()[-1] if rc!=1 else ''
    print('%-42s exit=%d %4.0fs %s %s %s'%(nm,rc,tt,viol[:8], first[0].split('replay=')[1] if first else '', last[:150]),flush=True)
restore()

