"""Fault table of the C06 builder: apply one mutant to the scratch copy /tmp/build_C06 (cp -r /repo /tmp/build_C06),
run `EQSIG_REPO=/tmp/build_C06 ./check C06` (quick), restore. Entries are lists of (path, old, new[, occurrence]) exact-string
edits. usage: python c06_faults.py [name fragments]   (default: all; ctl_* must exit 0, the rest 1)"""
import os, shutil, subprocess, sys
ROOT = '/tmp/build_C06/'
S, F, I, T = 'eqsig/single.py', 'eqsig/fns/frequency.py', 'eqsig/im.py', 'eqsig/fns/time_step.py'
GEN_N = "        if n is not None:\n            n_factor = n\n"
M = {
 # ---- DESIGN (h) list and why_tests_cant
 'dt_dropped_obj': [(S, "fa[range(points)] * self.dt", "fa[range(points)]")],
 'dt_squared_obj': [(S, "fa[range(points)] * self.dt", "fa[range(points)] * self.dt * self.dt")],
 'dt_dropped_generate': [(F, "fa_spectrum = fa[range(points)] * sig.dt", "fa_spectrum = fa[range(points)]", 0)],
 'dt_squared_calc': [(F, "fa_spectrum = fa[range(points)] * sig.dt", "fa_spectrum = fa[range(points)] * sig.dt ** 2", 1)],
 'p2_outside_power_obj': [(S, "2 ** int(np.ceil(np.log2(self.npts)) + p2_plus)", "2 ** int(np.ceil(np.log2(self.npts))) + p2_plus")],
 'p2_outside_power_calc': [(F, "2 ** int(np.ceil(np.log2(npts)) + p2_plus)", "2 ** int(np.ceil(np.log2(npts))) + p2_plus")],
 'n_ignored_obj': [(S, GEN_N, "        if False:\n            n_factor = n\n")],
 'n_ignored_calc': [(F, "            n_vals = n\n", "            n_vals = 2 ** int(np.ceil(np.log2(npts)))\n")],
 'points_plus1_obj': [(S, "points = int(n_factor / 2)", "points = int(n_factor / 2) + 1")],
 'points_minus1_obj': [(S, "points = int(n_factor / 2)", "points = int(n_factor / 2) - 1")],
 'points_calc_nopad': [(F, "points = int(sig.npts / 2)", "points = int((sig.npts + 1) / 2)", 1)],
 'conj_dropped_fas2values': [(F, "np.flip(np.conj(fas[1:]), axis=0)", "np.flip(fas[1:], axis=0)", 0)],
 'conj_dropped_fas2signal': [(F, "np.flip(np.conj(fas[1:]), axis=0)", "np.flip(fas[1:], axis=0)", 1)],
 'div_dt_to_mul_fas2values': [(F, "    a /= dt\n", "    a *= dt\n", 0)],
 'div_dt_to_mul_fas2signal': [(F, "    a /= dt\n", "    a *= dt\n", 1)],
 'f4_grid_generate': [(F, "np.arange(points) / (len(fa) * sig.dt)", "np.arange(points) / (2 * points * sig.dt)", 0)],
 'f5_length_fas2values': [(F, "    npts = n\n", "    npts = int(2 ** (np.log(n) / np.log(2)))\n", 0)],
 'f6_argmax_complex': [(I, "np.argmax(np.abs(asig.fa_spectrum))", "np.argmax(asig.fa_spectrum)")],
 'lazy_freqs_regenerates_p2_1': [(S, "        if not self._cached_fa:\n            self.gen_fa_spectrum()\n        return self._fa_freqs",
                                  "        if not self._cached_fa:\n            self.gen_fa_spectrum(p2_plus=1)\n        return self._fa_freqs")],
 # ---- follow-ups: stale cache after mutators, purity of the inverse helpers
 'reset_values_keeps_cache': [(S, "        self._npts = len(self._values)\n        self.clear_cache()\n", "        self._npts = len(self._values)\n")],
 'rebase_displacement_keeps_cache': [(S, "        self._values -= acceleration_correction\n        self.clear_cache()\n", "        self._values -= acceleration_correction\n")],
 'fas2values_zeroes_dc_of_argument': [(F, "\n    n = 2 * len(fas)\n    a = np.zeros(2 * len(fas), dtype=complex)\n",
                                       "\n    fas = np.asarray(fas, dtype=complex); fas[0] = 0.0\n    n = 2 * len(fas)\n    a = np.zeros(2 * len(fas), dtype=complex)\n", 0)],
 # ---- audit round 1
 'scratch_buffer_fas2values': [(F, "    s = np.fft.ifft(a)\n    npts = n\n    s = s[:npts]\n    return s\n",
                                "    s = np.fft.ifft(a)\n    if _OUT.get(n) is None:\n        _OUT[n] = np.empty(n, dtype=complex)\n    _OUT[n][:] = s\n    return _OUT[n]\n\n\n_OUT = {}\n")],
 'abs_epsilon_flush_calc': [(F, "    npts = sig.npts\n    if p2_plus is not None or n is not None:",
                             "    npts = sig.npts\n    sig = type('V', (), {'values': np.where(np.abs(sig.values) < 1e-8, 0, sig.values), 'dt': sig.dt, 'npts': sig.npts})\n    if p2_plus is not None or n is not None:")],
 'calc_coerces_record_in_place': [(F, "    npts = sig.npts\n    if p2_plus is not None or n is not None:",
                                   "    npts = sig.npts\n    sig._values = np.asarray(sig.values, dtype=np.float32).astype(float)\n    if p2_plus is not None or n is not None:")],
 'constructor_aliases_caller_array': [(S, "        self._values = np.array(values)\n        if self._values", "        self._values = np.asarray(values)\n        if self._values")],
 'n_with_p2_ignored': [(S, GEN_N, "        if n is not None and p2_plus == 0:\n            n_factor = n\n")],
 'tiny_dt_rounded_in_grid': [(S, "np.arange(points) / (n_factor * self.dt)", "np.arange(points) / (n_factor * max(round(self.dt, 8), 1e-8))")],
 # ---- wave 4: complex records from the library's own inverse helper
 'rfft_in_gen': [(S, "fa = np.fft.fft(self.values, n=n_factor)", "fa = np.fft.rfft(self.values, n=n_factor)")],
 # ---- audit round 2: one mutant per new workload class / clause
 # explicit n next to a power of two ("fast length" rounding of 2^e - 1 up to 2^e)
 'r2_n_rounded_to_pow2': [(S, GEN_N, "        if n is not None:\n            n_factor = n + 1 if n > 2 * self.npts - 2 and (n & (n + 1)) == 0 else n\n")],
 # lengths 2^k + 1 up to 2^17: a 'tolerant' ceil of log2 fails only for 2^17 + 1
 'r2_tolerant_ceil_log2': [(F, "        n_factor = 2 ** int(np.ceil(np.log2(npts)))\n", "        n_factor = 2 ** int(np.ceil(np.log2(npts) - 1.5e-5))\n")],
 # awkward dt: the number of bins recovered from a float quotient
 'r2_points_from_quotient': [(S, "points = int(n_factor / 2)", "points = int((0.5 / self.dt) / (1.0 / (n_factor * self.dt)))")],
 # spike-dominated records: outlier suppression relative to the median
 'r2_outlier_clip': [(S, "fa = np.fft.fft(self.values, n=n_factor)",
                      "med = np.median(np.abs(self.values))\n        vals = np.where((med > 0) & (np.abs(self.values) > 1e5 * med), 0, self.values)\n        fa = np.fft.fft(vals, n=n_factor)")],
 # public observables of a signal handed to an analysis function
 'r2_period_stored_on_object': [(I, "    max_period = 1. / asig.fa_frequencies[max_index]\n", "    max_period = 1. / asig.fa_frequencies[max_index]\n    asig.max_fa_period = max_period\n")],
 # returned arrays belong to the caller (memo kept on the object and handed out again)
 'r2_generate_memo_handed_out': [(F, "    npts = sig.npts\n    if n_pad:\n", "    memo = getattr(sig, '_gfs_memo', None)\n    if memo is not None and memo[0] == (n_pad, id(sig.values)):\n        return memo[1]\n    npts = sig.npts\n    if n_pad:\n"),
                                 (F, "    fa_frequencies = np.arange(points) / (len(fa) * sig.dt)\n    return fa_spectrum, fa_frequencies\n\n\ndef calc_fa",
                                  "    fa_frequencies = np.arange(points) / (len(fa) * sig.dt)\n    try:\n        sig._gfs_memo = ((n_pad, id(sig.values)), (fa_spectrum, fa_frequencies))\n    except AttributeError:\n        pass\n    return fa_spectrum, fa_frequencies\n\n\ndef calc_fa")],
 # objects derived from a warm object carry its memo
 'r2_interp_carries_fa_memo': [(T, "    return eqsig.AccSignal(acc_interp, dt_interp)\n",
                                "    new = eqsig.AccSignal(acc_interp, dt_interp)\n    new._fa_spectrum, new._fa_freqs, new._cached_fa = asig._fa_spectrum, asig._fa_freqs, asig._cached_fa\n    return new\n", 0)],
 # alias fa_frequencies vs fa_freqs
 'r2_alias_in_rad_per_s': [(S, "    def fa_frequencies(self):\n        return self.fa_freqs\n", "    def fa_frequencies(self):\n        return 2 * np.pi * self.fa_freqs\n")],
 # ---- wave 5: extreme but valid scales; explicit n that is not a 'fast' FFT length
 # a zero test through squares: records below 1e-162 are taken for all-zero
 'r3_zero_test_through_squares': [(S, "        fa = np.fft.fft(self.values, n=n_factor)\n", "        fa = np.fft.fft(self.values, n=n_factor)\n        if np.sum(np.abs(self.values) ** 2) == 0:\n            fa = np.zeros(n_factor, dtype=complex)\n")],
 # a ranking through a product: |F|^2 = F*conj(F) under/overflows at the extreme scales
 'r3_argmax_conj_product': [(I, "np.argmax(np.abs(asig.fa_spectrum))", "np.argmax((asig.fa_spectrum * np.conj(asig.fa_spectrum)).real)")],
 # energy normalisation in the inverse helper overflows for huge records
 'r3_inverse_via_energy_normalisation': [(F, "    a /= dt\n    s = np.fft.ifft(a)\n    npts = n\n    s = s[:npts]\n    return s\n", "    a /= dt\n    e = np.sqrt(np.sum(np.abs(a) ** 2))\n    s = np.fft.ifft(a / e) * e if e > 0 else np.fft.ifft(a)\n    npts = n\n    s = s[:npts]\n    return s\n")],
 # the array-level function substitutes a fast length for the requested n (n with a prime factor > 11)
 'r3_next_fast_len_calc': [(F, "            n_vals = n\n", "            import scipy.fft\n            n_vals = scipy.fft.next_fast_len(int(n))\n")],
 # ---- behaviour-preserving controls
 'ctl_scipy_fft': [(S, "np.fft.fft(", "scipy.fft.fft("), (S, "import numpy as np\n", "import numpy as np\nimport scipy.fft\n", 0),
                   (F, "np.fft.fft(", "scipy.fft.fft("), (F, "np.fft.ifft(", "scipy.fft.ifft("), (F, "import numpy as np\n", "import numpy as np\nimport scipy.fft\n", 0)],
 'ctl_slice_instead_of_range': [(S, "fa[range(points)] * self.dt", "fa[:points] * self.dt")],
 'ctl_grid_by_linspace_step': [(S, "np.arange(points) / (n_factor * self.dt)", "np.arange(points) * (1.0 / (n_factor * self.dt))")],
}


def apply(path, old, new, occ='all'):
    s = open(ROOT + path).read()
    assert s.count(old) >= 1, (path, old[:60])
    if occ == 'all':
        s2 = s.replace(old, new)
    else:
        parts = s.split(old)
        s2 = old.join(parts[:occ + 1]) + new + old.join(parts[occ + 1:])
    assert s2 != s
    open(ROOT + path, 'w').write(s2)


def restore():
    for rel in (S, F, I, T):
        shutil.copy('/repo/' + rel, ROOT + rel)


if __name__ == '__main__':
    want = sys.argv[1:]
    for name, edits in M.items():
        if want and not any(w in name for w in want):
            continue
        restore()
        for e in edits:
            apply(*e)
        env = dict(os.environ, EQSIG_REPO=ROOT.rstrip('/'), VERIF_OUT_DIR='/tmp/vf_c06_mut_out')
        r = subprocess.run(['./check', 'C06'], cwd='/verif', env=env, capture_output=True, text=True)
        bad = [' '.join(l.split()[1:-2]) for l in r.stdout.splitlines() if 'violated=' in l and not l.rstrip().endswith('violated=0')]
        exp = 0 if name.startswith('ctl_') else 1
        print('%s exit=%d expected=%d %-36s %s' % ('OK ' if r.returncode == exp else 'BAD', r.returncode, exp, name, ', '.join(bad)[:300]), flush=True)
    restore()
