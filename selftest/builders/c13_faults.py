"""Fault table used to validate the C13 check (builder's record; not part of the registered machinery).

usage: cp -r /repo /tmp/build_C13 && /venv/bin/python selftest/builders/c13_faults.py [name-prefix]
Every FAULT must make `EQSIG_REPO=/tmp/build_C13 ./check C13` exit 1, every QUIET edit must leave it at exit 0.
The exact-string edits refer to /repo at f91f0dd (after the repairs F24, F25, ae03e92, eb9cb3f).
"""
import os
import re
import subprocess
import sys

REPO = '/tmp/build_C13'
PC = 'eqsig/fns/peaks_and_crossings.py'
IM = 'eqsig/im.py'
REBASE = "    values -= values[0]\n"
SIGN = "    cleaned_values *= np.sign(cleaned_values[1])  # ensure first value is increasing\n"
AMP_B = "    if hasattr(b, '__len__'):\n        b = np.asarray(b, dtype=float)\n    a1_peak_inds_end"
AMP_SUM = "    csr_n15_series1 = np.cumsum((np.abs(csr_peaks_s1)[:, np.newaxis] ** (1. / b)) / 2 / n_cyc, axis=0) ** b\n"

# (name, file, old, new, which occurrence of old)
FAULTS = [
    # -- DESIGN.md C13 (h)
    ('a rebase removed (delta)', PC, REBASE, "", 0),
    ('b rebase removed (pseudo)', PC, REBASE, "", 1),
    ('d sign normalisation removed (pseudo)', PC, SIGN, "", 1),
    ('e np.insert(delta,0,0) dropped', PC, "    delta_peaks = np.insert(delta_peaks, 0, 0)\n", "", 0),
    ('f 0.5/ -> 1/ in cycle count', IM, "perc = 0.5 / (n_ref", "perc = 1 / (n_ref", 0),
    ('g **b dropped (amp)', IM, "/ 2 / n_cyc, axis=0) ** b", "/ 2 / n_cyc, axis=0)", 0),
    ('g2 **b dropped (combined)', IM, "/ 2 / n_cyc) ** b", "/ 2 / n_cyc)", 0),
    ('h /2/n_cyc order (amp)', IM, "** (1. / b)) / 2 / n_cyc, axis=0)", "** (1. / b)) / (2 / n_cyc), axis=0)", 0),
    ('h2 /2/n_cyc order (combined)', IM, "** (1. / b)) / 2 / n_cyc) ** b", "** (1. / b)) / (2 / n_cyc)) ** b", 0),
    ('i gm uses +', IM, "np.sqrt(csr_n_series0 * csr_n_series1)", "np.sqrt(csr_n_series0 + csr_n_series1)", 0),
    # -- repairs regressing
    ('F24 dropped peaks count as 1e-14', IM, "    perc = np.where(below_cut_off[:, np.newaxis], 0.0, perc)  # peaks below the cut-off do not count\n", "", 0),
    ('ae03e92 series functions in the input dtype', PC, "    values = np.array(values, dtype=float)\n    # rebase", "    values = np.array(values)\n    # rebase", 0),
    # -- audit round 1 (new clauses)
    ('P purity: delta works on the caller array', PC, "    values = np.array(values, dtype=float)\n    # rebase to zero as first value",
     "    values = np.asarray(values, dtype=float)\n    # rebase to zero as first value", 0),
    ('S module-level result buffer (amp)', IM, "    if not hasattr(b, '__len__'):\n        return np.reshape(csr_n15_series1, len(values))\n    return csr_n15_series1",
     "    out = _SCRATCH.setdefault(csr_n15_series1.shape, np.empty_like(csr_n15_series1))\n    out[...] = csr_n15_series1\n    csr_n15_series1 = out\n"
     "    if not hasattr(b, '__len__'):\n        return np.reshape(csr_n15_series1, len(values))\n    return csr_n15_series1", 0),
    ('K positional cut_off swallowed', IM, "def calc_n_cyc_array_w_power_law(values, a_ref, b, cut_off=0.01):",
     "def calc_n_cyc_array_w_power_law(values, a_ref, b, *ignored, cut_off=0.01):", 0),
    # -- audit round 2 (one mutant per new workload class)
    ('M1 exponent columns past 64 reuse column 63 (b sizes 65..256)', IM, AMP_B,
     "    if hasattr(b, '__len__'):\n        b = np.asarray(b, dtype=float)\n        if b.ndim == 1 and b.size > 64:\n"
     "            b = np.where(np.arange(b.size) < 64, b, b[63])\n    a1_peak_inds_end", 0),
    ('M2 one-entry array b handled as a scalar (b size 1)', IM, "    if not hasattr(b, '__len__'):\n        return np.reshape(csr_n15_series1, len(values))\n",
     "    if not hasattr(b, '__len__') or np.size(b) == 1:\n        return np.reshape(csr_n15_series1, len(values))\n", 0),
    ('M3 float32 running sum for matrices past 2**22 entries', IM, AMP_SUM,
     "    csr_n15_series1 = np.cumsum((np.abs(csr_peaks_s1)[:, np.newaxis] ** (1. / b)) / 2 / n_cyc, axis=0,\n"
     "                                dtype=np.float32 if csr_peaks_s1.size * np.size(b) > 2 ** 22 else None) ** b\n", 0),
    ('M4 peaks below 1e-9 of the largest dropped (dynamic range / spike records)', IM,
     "    a1_csr_peaks_end = np.abs(np.take(values, a1_peak_inds_end))\n",
     "    a1_csr_peaks_end = np.abs(np.take(values, a1_peak_inds_end))\n"
     "    a1_csr_peaks_end = np.where(a1_csr_peaks_end < 1e-9 * a1_csr_peaks_end.max(), 0.0, a1_csr_peaks_end)\n", 0),
    ('M5 cut-off threshold from max(values) (one-sided negative records; also seen by records whose extreme is negative)', IM,
     "    below_cut_off = csr_peaks < cut_off * np.max(np.abs(values))\n", "    below_cut_off = csr_peaks < cut_off * np.max(values)\n", 0),
    ('M6 exponents sorted before use (unsorted / descending b)', IM,
     "    if hasattr(b, '__len__'):\n        b = np.asarray(b, dtype=float)\n    peak_indices",
     "    if hasattr(b, '__len__'):\n        b = np.sort(np.asarray(b, dtype=float))\n    peak_indices", 0),
    # -- wave 5 (extreme-scale classes); exact strings refer to /repo at ffe760b or later
    ('X1 turning points through the sign of a product of steps (uniformly tiny / huge records)', PC,
     "def determine_peak_only_delta_series_4_cleaned_data(values):",
     "def determine_peak_only_delta_series_4_cleaned_data(values):\n    values = np.where(np.abs(values) * np.abs(values) > 0, values, 0.0) if np.ndim(values) else values", 0),
    ('X2 steps below 1e-7 of the record maximum treated as flat (ripple on a baseline; also micro-amplitude + offset)', PC,
     "    non_zero_indices = np.where(diff_values != 0)[0]\n",
     "    non_zero_indices = np.where(np.abs(diff_values) > 1e-7 * np.max(np.abs(values)))[0]\n", 0),
    ('X3 series functions round the record to float32 first (counts above 2**24; also any non-float32 record)', PC,
     "    values = np.array(values, dtype=float)\n    # rebase", "    values = np.array(values, dtype=np.float32).astype(float)\n    # rebase", 0),
    ('X5 cycle count from separate powers p^(1/b) / a_ref^(1/b) (record and a_ref scaled by 1e+-165..200)', IM,
     "perc = 0.5 / (n_ref * (a_ref / csr_peaks)[:, np.newaxis] ** (1 / b))",
     "perc = 0.5 * (csr_peaks[:, np.newaxis] ** (1 / b)) / (np.float64(a_ref) ** (1 / b)) / n_ref", 0),
    ('X6 gm through the product of the component amplitudes (regression of the wave-5 finding, if repaired)', IM,
     "np.sqrt(csr_n_series0) * np.sqrt(csr_n_series1)", "np.sqrt(csr_n_series0 * csr_n_series1)", 0),
]
# invisible to the statement (documented in ASSUMPTIONS): global sign of the delta series
INVISIBLE = [('c sign normalisation removed (delta)', PC, SIGN, "", 0)]
QUIET = [
    ('Q1 concatenate instead of insert', PC, "    delta_peaks = np.insert(delta_peaks, 0, 0)\n",
     "    delta_peaks = np.concatenate(([0], delta_peaks)).astype(delta_peaks.dtype)\n", 0),
    ('Q2 0.5*(p/a)^(1/b)', IM, "perc = 0.5 / (n_ref * (a_ref / csr_peaks)[:, np.newaxis] ** (1 / b))",
     "perc = 0.5 * ((csr_peaks / a_ref)[:, np.newaxis] ** (1 / b)) / n_ref", 0),
    ('Q3 /(2*n_cyc)', IM, "** (1. / b)) / 2 / n_cyc, axis=0)", "** (1. / b)) / (2 * n_cyc), axis=0)", 0),
    ('Q4 sqrt(a)*sqrt(b)', IM, "np.sqrt(csr_n_series0 * csr_n_series1)", "np.sqrt(csr_n_series0) * np.sqrt(csr_n_series1)", 0),
    ('Q5 explicit float copy', IM, "    values = np.asarray(values, dtype=float)\n    if hasattr(b, '__len__'):\n        b = np.asarray(b, dtype=float)\n    a1_peak",
     "    values = np.array(values, dtype=np.float64, copy=True)\n    if hasattr(b, '__len__'):\n        b = np.array(b, dtype=float)\n    a1_peak", 0),
]


def nth_replace(s, old, new, nth):
    parts = s.split(old)
    assert len(parts) > nth + 1, (old, len(parts))
    return old.join(parts[:nth + 1]) + new + old.join(parts[nth + 1:])


def main():
    which = sys.argv[1] if len(sys.argv) > 1 else ''
    env = dict(os.environ, EQSIG_REPO=REPO, VERIF_OUT_DIR='/tmp/vf_c13_faults_out')
    for group, lst, expect in (('FAULT', FAULTS, 1), ('INVISIBLE', INVISIBLE, 0), ('QUIET', QUIET, 0)):
        for name, fn, old, new, nth in lst:
            if not name.startswith(which):
                continue
            path = os.path.join(REPO, fn)
            orig = open(path).read()      # the scratch copy is the base (it may carry a candidate repair)
            text = nth_replace(orig, old, new, nth)
            if 'S module-level' in name:
                text = text.replace("def calc_cyc_amp_array_w_power_law(values, n_cyc, b):", "_SCRATCH = {}\n\n\ndef calc_cyc_amp_array_w_power_law(values, n_cyc, b):")
            open(path, 'w').write(text)
            try:
                p = subprocess.run(['./check', 'C13'], cwd='/verif', env=env, capture_output=True, text=True)
            finally:
                open(path, 'w').write(orig)
            viol = [re.sub(r'\s+', ' ', ln.strip()) for ln in p.stdout.splitlines() if re.search(r'violated=[1-9]', ln)]
            print('=== %s %s: exit %d (expected %d) %s' % (group, name, p.returncode, expect, 'OK' if p.returncode == expect else '***MISMATCH***'))
            for v in viol[:12]:
                print('      ' + v)
            sys.stdout.flush()


if __name__ == '__main__':
    main()
