import subprocess, sys, shutil, os, re
R = '/tmp/build_C18'
M = R + '/eqsig/multiple.py'
S = R + '/eqsig/single.py'
IM = R + '/eqsig/im.py'
ORIG = {p: open(p.replace(R, '/repo')).read() for p in (M, S, IM)}
MUT = [
 ('sin<->cos', M, [('acc_sig_ns.values * np.cos(off_rad) + acc_sig_we.values * np.sin(off_rad)', 'acc_sig_ns.values * np.sin(off_rad) + acc_sig_we.values * np.cos(off_rad)')], 1),
 ('radians dropped', M, [('off_rad = np.radians(angle)', 'off_rad = angle')], 1),
 ('mod 360 -> 180', M, [('degrees = np.mod(degrees, 360)', 'degrees = np.mod(degrees, 180)')], 1),
 ('getattr on wrong signal', M, [('pvalues.append(getattr(new_sig, parameter))', 'pvalues.append(getattr(acc_sig_ns, parameter))')], 1),
 ('val[-1]->val[0] (func)', M, [('pvalues.append(val[-1])', 'pvalues.append(val[0])')], 1),
 ('[-1]->[0] (arias)', M, [('calc_arias_intensity(new_sig)[-1]', 'calc_arias_intensity(new_sig)[0]')], 1),
 ('min_ind=-i sign flipped', M, [('min_ind = -i - 0', 'min_ind = i + 0')], 1),
 ('pad position wrong end (neg lag)', M, [('m_temp = [om[0]] * abs(min_ind) + list(om[:min_ind])', 'm_temp = list(om[:min_ind]) + [om[0]] * abs(min_ind)')], 1),
 ('pad position wrong end (pos lag)', M, [('m_temp = list(om[min_ind:]) + [om[-1]] * abs(min_ind)', 'm_temp = [om[-1]] * abs(min_ind) + list(om[min_ind:])')], 1),
 ('pad VALUE from wrong end (neg lag)', M, [('m_temp = [om[0]] * abs(min_ind) + list(om[:min_ind])', 'm_temp = [om[-1]] * abs(min_ind) + list(om[:min_ind])')], 1),
 ('pad VALUE from wrong end (pos lag)', M, [('m_temp = list(om[min_ind:]) + [om[-1]] * abs(min_ind)', 'm_temp = list(om[min_ind:]) + [om[0]] * abs(min_ind)')], 1),
 ('slices swapped: om[:min_ind] <-> om[min_ind:]', M, [('list(om[:min_ind])', 'list(om[-min_ind:])')], 1),
 ('F17 regress: signal_by_index(1)', M, [('slave_signal = self.signal_by_index(i)\n                slave_average', 'slave_signal = self.signal_by_index(1)\n                slave_average')], 1),
 ('F3 regress: reset_values keeps list', S, [('self._values = np.array(new_values)\n        self._npts = len(self._values)', 'self._values = new_values\n        self._npts = len(new_values)')], 1),
 ('min_ind not reset per slave', M, [('                    min_diff = np.sum(squares)\n                    min_ind = 0\n', '                    min_diff = np.sum(squares)\n'), ('            for s in range(len(self.signals)):\n                if s != self.master_index:', '            min_ind = 0\n            for s in range(len(self.signals)):\n                if s != self.master_index:')], 1),
 ('same_start diff sign', M, [('diff = slave_average - master_average', 'diff = master_average - slave_average')], 1),
 ('same_start shifts master too', M, [('            if i != self.master_index:\n                slave_signal = self.signal_by_index(i)', '            if True:\n                slave_signal = self.signal_by_index(i)')], 1),
 ('scan spans 360', M, [('180. - angle_off_ns', '360. - angle_off_ns')], 1),
 ('scan offset sign', M, [('np.linspace(0 - angle_off_ns, 180. - angle_off_ns, points)', 'np.linspace(0 + angle_off_ns, 180. + angle_off_ns, points)')], 1),
 ('scan values reversed', M, [('return degrees, np.array(pvalues)', 'return degrees, np.array(pvalues)[::-1]')], 1),
 ('lag search range(steps - 1)', M, [('                for i in range(steps):\n                    squares = (bm[i:-steps + i] - om[0:-steps]) ** 2', '                for i in range(steps - 1):\n                    squares = (bm[i:-steps + i] - om[0:-steps]) ** 2')], 1),
 ('bm window uses length of slave 1 only (om/bm swapped in 2nd loop)', M, [('squares = (bm[i:-steps + i] - om[0:-steps]) ** 2', 'squares = (om[i:-steps + i] - bm[0:-steps]) ** 2')], 1),
 ('combine uses we.dt*0+ns (dt wrong)', M, [('new_sig = AccSignal(combo, acc_sig_ns.dt)', 'new_sig = AccSignal(combo, acc_sig_ns.dt * 2)')], 1),
 # ---- behaviour-preserving edits: expect exit 0
 ('CONTROL deg2rad + reordered product', M, [('off_rad = np.radians(angle)', 'off_rad = np.deg2rad(angle)'), ('acc_sig_ns.values * np.cos(off_rad) + acc_sig_we.values * np.sin(off_rad)', 'np.cos(off_rad) * acc_sig_ns.values + np.sin(off_rad) * acc_sig_we.values')], 0),
 ('CONTROL m_temp via concatenate/full, np.sum', M, [('m_temp = [om[0]] * abs(min_ind) + list(om[:min_ind])', 'm_temp = np.concatenate([np.full(abs(min_ind), om[0]), om[:min_ind]])'), ('m_temp = list(om[min_ind:]) + [om[-1]] * abs(min_ind)', 'm_temp = np.concatenate([om[min_ind:], np.full(abs(min_ind), om[-1])])'), ('diff = sum(squares)', 'diff = np.sum(squares)')], 0),
 ('CONTROL degrees % 360, python loop over enumerate', M, [('degrees = np.mod(degrees, 360)', 'degrees = degrees % 360.0')], 0),
 ('CONTROL same_start via add_constant-like in-place new array', M, [('slave_signal.reset_values(slave_signal.values - diff)', 'slave_signal.reset_values(np.subtract(slave_signal.values, diff))')], 0),
 ('CONTROL np.array(values, copy=True)', S, [('self._values = np.array(values)', 'self._values = np.array(values, copy=True)')], 0),
 ('CONTROL arias via explicit cumsum of panel areas', IM, [("return np.pi / (2 * 9.81) * cumulative_trapezoid(acc ** 2, dx=dt, initial=0)", "a2 = acc ** 2\n    return np.pi / (2 * 9.81) * np.concatenate([[0.0], np.cumsum(0.5 * (a2[1:] + a2[:-1]) * dt)])")], 0),
]
sel = sys.argv[1:] 
results = []
for name, path, edits, expect in MUT:
    if sel and not any(s in name for s in sel):
        continue
    src = ORIG[path]
    new = src
    for a, b in edits:
        assert new.count(a) >= 1, (name, a)
        new = new.replace(a, b)
    open(path, 'w').write(new)
    env = dict(os.environ, EQSIG_REPO=R)
    p = subprocess.run(['./check', 'C18'], cwd='/verif', env=env, capture_output=True, text=True)
    open(path, 'w').write(src)
    viol = sorted(set(re.findall(r'clause (\S+)\s+ok=\d+\s+violated=([1-9]\d*)', p.stdout)))
    rep = re.findall(r'replay=(\S+)', p.stdout)
    status = 'OK ' if p.returncode == expect else 'BAD'
    print('%s %-60s exit=%d expect=%d  %s' % (status, name, p.returncode, expect, ', '.join('%s(%s)' % v for v in viol)), flush=True)
    if p.returncode not in (0, 1):
        print(p.stdout[-1500:])
    if rep:
        print('      replay:', rep[0], flush=True)
for p in (M, S, IM):
    assert open(p).read() == ORIG[p]
