# Seeded faults used to validate vf/props/c18.py (builder + audit rounds 1 and 2). Needs a scratch copy:
#   rm -rf /tmp/build_C18 && cp -r /repo /tmp/build_C18 && /venv/bin/python selftest/builders/c18_run.py [name-filter ...]
import subprocess, sys, os, re
R = '/tmp/build_C18'
M = R + '/eqsig/multiple.py'; S = R + '/eqsig/single.py'; IM = R + '/eqsig/im.py'
ORIG = {p: open(p.replace(R, '/repo')).read() for p in (M, S, IM)}
MUT = [
 ('sin<->cos', M, [('acc_sig_ns.values * np.cos(off_rad) + acc_sig_we.values * np.sin(off_rad)', 'acc_sig_ns.values * np.sin(off_rad) + acc_sig_we.values * np.cos(off_rad)')], 1),
 ('radians dropped', M, [('off_rad = np.radians(angle)', 'off_rad = angle')], 1),
 ('mod 360 -> 180', M, [('degrees = np.mod(degrees, 360)', 'degrees = np.mod(degrees, 180)')], 1),
 ('getattr on wrong signal', M, [('pvalues.append(getattr(new_sig, parameter))', 'pvalues.append(getattr(acc_sig_ns, parameter))')], 1),
 ('val[-1]->val[0] (func)', M, [('pvalues.append(val[-1])', 'pvalues.append(val[0])')], 1),
 ('[-1]->[0] (arias)', M, [('calc_arias_intensity(new_sig)[-1]', 'calc_arias_intensity(new_sig)[0]')], 1),
 ('min_ind=-i sign flipped', M, [('min_ind = -i - 0', 'min_ind = i + 0')], 1),
 ('pad position wrong end (neg lag)', M, [('m_temp = [om[0]] * abs(min_ind) + list(om[:min_ind])', 'm_temp = list(om[:min_ind]) + [om[0]] * abs(min_ind)')], 1),
 ('pad position wrong end (pos lag)', M, [('m_temp = list(om[min_ind:]) + [om[-1]] * abs(min_ind)', 'm_temp = [om[-1]] * abs(min_ind) + list(om[min_ind:])')], 1),
 ('pad VALUE from wrong end (neg lag)', M, [('m_temp = [om[0]] * abs(min_ind) + list(om[:min_ind])', 'm_temp = [om[-1]] * abs(min_ind) + list(om[:min_ind])')], 1),
 ('pad VALUE from wrong end (pos lag)', M, [('m_temp = list(om[min_ind:]) + [om[-1]] * abs(min_ind)', 'm_temp = list(om[min_ind:]) + [om[0]] * abs(min_ind)')], 1),
 ('F17 regress: signal_by_index(1)', M, [('slave_signal = self.signal_by_index(i)\n                slave_average', 'slave_signal = self.signal_by_index(1)\n                slave_average')], 1),
 ('F3 regress: reset_values keeps list', S, [("        self._values = np.array(new_values)\n        if self._values.dtype.kind in 'iub':\n            self._values = self._values.astype(float)\n        self._npts", "        self._values = new_values\n        self._npts")], 1),
 ('int->float cast removed (ctor + reset)', S, [("        if self._values.dtype.kind in 'iub':  # integer counts: never compute in a fixed-width integer type\n            self._values = self._values.astype(float)\n", ""), ("        if self._values.dtype.kind in 'iub':\n            self._values = self._values.astype(float)\n", "")], 1),
 ('min_ind not reset per slave', M, [('                    min_diff = np.sum(squares)\n                    min_ind = 0\n', '                    min_diff = np.sum(squares)\n'), ('            for s in range(len(self.signals)):\n                if s != self.master_index:', '            min_ind = 0\n            for s in range(len(self.signals)):\n                if s != self.master_index:')], 1),
 ('same_start diff sign', M, [('diff = slave_average - master_average', 'diff = master_average - slave_average')], 1),
 ('same_start re-bases master', M, [("        master_average = self.signal_by_index(self.master_index).get_section_average(start=start, end=end)\n", "        master_average = self.signal_by_index(self.master_index).get_section_average(start=start, end=end)\n        _m = self.signal_by_index(self.master_index)\n        _m.reset_values(_m.values - master_average)\n        master_average = 0.0\n")], 1),
 ('WAVE2 lag search misses +(steps-1)', M, [('                for i in range(steps):\n                    squares = (om[i:-steps + i] - bm[0:-steps]) ** 2', '                for i in range(steps - 1):\n                    squares = (om[i:-steps + i] - bm[0:-steps]) ** 2')], 1),
 ('WAVE2 lag search misses -(steps-1)', M, [('                for i in range(steps):\n                    squares = (bm[i:-steps + i] - om[0:-steps]) ** 2', '                for i in range(steps - 1):\n                    squares = (bm[i:-steps + i] - om[0:-steps]) ** 2')], 1),
 ('WAVE2 np.isclose shortcut in same_start', M, [('                diff = slave_average - master_average\n', '                diff = slave_average - master_average\n                if np.isclose(slave_average, master_average):\n                    continue\n')], 1),
 ('scan values reversed', M, [('return degrees, np.array(pvalues)', 'return degrees, np.array(pvalues)[::-1]')], 1),
 ('combine corrupts ns in place', M, [('combo = acc_sig_ns.values * np.cos(off_rad) + acc_sig_we.values * np.sin(off_rad)', 'vals = acc_sig_ns.values\n    vals *= np.cos(off_rad)\n    combo = vals + acc_sig_we.values * np.sin(off_rad)')], 1),
 ('scan returns module-level buffers', M, [('def compute_rotated(', '_BUF = {}\n\n\ndef compute_rotated('), ('    return degrees, np.array(pvalues)', '    buf = _BUF.setdefault(len(degrees), (np.empty(len(degrees)), np.empty(len(degrees))))\n    buf[0][:] = degrees\n    buf[1][:] = pvalues\n    return buf')], 1),
 ('Signal aliases caller array + same_start in place', S, [('        self._values = np.array(values)\n', '        self._values = np.asarray(values)\n')], 1, (M, [('slave_signal.reset_values(slave_signal.values - diff)', 'slave_signal.values[:] = slave_signal.values - diff\n                slave_signal.clear_cache()')])),
 ('time_match keeps shifted view of master buffer (module scratch)', M, [('                slave_signal.reset_values(m_temp)', '                _scratch = globals().setdefault("_SCRATCH", {}).setdefault(len(m_temp), np.empty(len(m_temp)))\n                _scratch[:] = m_temp\n                slave_signal._values = _scratch\n                slave_signal.clear_cache()')], 1),
 # ---- audit round 2: one mutant per new workload class
 ('R2 points==1 angle shifted by 180', M, [('    degrees = np.mod(degrees, 360)\n', '    degrees = np.mod(degrees, 360)\n    if points == 1:\n        degrees = np.mod(degrees + 180., 360)\n')], 1),
 ('R2 chunked scan: last value wrong at multiples of 32 points', M, [('    return degrees, np.array(pvalues)', '    if len(pvalues) % 32 == 0:\n        pvalues[-1] = pvalues[-2]\n    return degrees, np.array(pvalues)')], 1),
 ('R2 same_start aligns only the first 4 signals', M, [('        for i in range(len(self.signals)):\n            if i != self.master_index:\n                slave_signal', '        for i in range(min(len(self.signals), 4)):\n            if i != self.master_index:\n                slave_signal')], 1),
 ('R2 time_match matches only the first 4 signals', M, [('            for s in range(len(self.signals)):\n                if s != self.master_index:', '            for s in range(min(len(self.signals), 4)):\n                if s != self.master_index:')], 1),
 ('R2 single-signal same_start re-bases the only signal', M, [("        master_average = self.signal_by_index(self.master_index).get_section_average(start=start, end=end)\n", "        master_average = self.signal_by_index(self.master_index).get_section_average(start=start, end=end)\n        if len(self.signals) == 1:\n            self.signal_by_index(0).reset_values(self.signal_by_index(0).values - master_average)\n")], 1),
 ('R2 cross-correlation lag search (drops a^2+b^2; wrong for trends)', M, [('squares = (bm[0:-steps] - om[0:-steps]) ** 2', 'squares = -2 * bm[0:-steps] * om[0:-steps]'), ('squares = (om[i:-steps + i] - bm[0:-steps]) ** 2', 'squares = -2 * om[i:-steps + i] * bm[0:-steps]'), ('squares = (bm[i:-steps + i] - om[0:-steps]) ** 2', 'squares = -2 * bm[i:-steps + i] * om[0:-steps]')], 1),
 ('R2 tiny-shift shortcut relative to the GLOBAL maximum (1e-13)', M, [('                diff = slave_average - master_average\n', '                diff = slave_average - master_average\n                if abs(diff) < 1e-13 * np.max(np.abs(slave_signal.values)):\n                    continue\n')], 1),
 ('R2 combine_at_angle returns the ns object itself at angle 0', M, [('    off_rad = np.radians(angle)\n', '    if angle == 0 and isinstance(acc_sig_ns, AccSignal):\n        return acc_sig_ns\n    off_rad = np.radians(angle)\n')], 1),
 ('R2 clear_cache keeps the memoised peak values', S, [('  # Stockwell transform memoised by eqsig.stockwell\n        self.reset_all_motion_stats()\n', '  # Stockwell transform memoised by eqsig.stockwell\n')], 1),
 ('R2 negative scan angles wrapped only once', M, [('    degrees = np.mod(degrees, 360)\n', '    degrees = np.where(degrees < 0, degrees + 360., degrees)\n')], 1),
 ('R2 same_start snaps the window end to the sample grid', M, [("        end = kwargs.get('end', 1)\n", "        end = kwargs.get('end', 1)\n        end = int(end / self.dt) * self.dt\n")], 1),
 ('R2 shallow __deepcopy__ + in-place add_constant', S, [('    def add_constant(self, constant):', '    def __deepcopy__(self, memo):\n        import copy\n        return copy.copy(self)\n\n    def add_constant(self, constant):'), ('        self.reset_values(self.values + constant)\n', '        self._values += constant\n        self.clear_cache()\n')], 1),
 ('R2 time_match compares against signal 0 instead of the master', M, [('            bm = self.signal_by_index(self.master_index).values[:length_check]', '            bm = self.signal_by_index(0).values[:length_check]')], 1),
 # ---- wave 5: array-valued named attributes, extreme but valid scales
 ('W5 named array-valued parameter reduced to its last element', M, [('            pvalues.append(getattr(new_sig, parameter))', '            val = getattr(new_sig, parameter)\n            pvalues.append(val[-1] if hasattr(val, "__len__") else val)')], 1),
 ('W5 combine skips a component whose ENERGY (sum of squares) is zero', M, [('    combo = acc_sig_ns.values * np.cos(off_rad) + acc_sig_we.values * np.sin(off_rad)', '    combo = acc_sig_ns.values * np.cos(off_rad) + acc_sig_we.values * np.sin(off_rad)\n    if np.sum(np.asarray(acc_sig_we.values, dtype=float) ** 2) == 0:\n        combo = acc_sig_ns.values * np.cos(off_rad)')], 1),
 ('W5 same_start zero test through a product (diff*diff == 0)', M, [('                diff = slave_average - master_average\n', '                diff = slave_average - master_average\n                if diff * diff == 0:\n                    continue\n')], 1),
 ('W5 lag search ranks by the 4th power of the residual (overflows above 1e77)', M, [('squares = (bm[0:-steps] - om[0:-steps]) ** 2', 'squares = (bm[0:-steps] - om[0:-steps]) ** 4'), ('squares = (om[i:-steps + i] - bm[0:-steps]) ** 2', 'squares = (om[i:-steps + i] - bm[0:-steps]) ** 4'), ('squares = (bm[i:-steps + i] - om[0:-steps]) ** 2', 'squares = (bm[i:-steps + i] - om[0:-steps]) ** 4')], 1),
 # ---- behaviour-preserving edits: expect exit 0
 ('CONTROL deg2rad + reordered product', M, [('off_rad = np.radians(angle)', 'off_rad = np.deg2rad(angle)'), ('acc_sig_ns.values * np.cos(off_rad) + acc_sig_we.values * np.sin(off_rad)', 'np.cos(off_rad) * acc_sig_ns.values + np.sin(off_rad) * acc_sig_we.values')], 0),
 ('CONTROL m_temp via concatenate/full, np.sum', M, [('m_temp = [om[0]] * abs(min_ind) + list(om[:min_ind])', 'm_temp = np.concatenate([np.full(abs(min_ind), om[0]), om[:min_ind]])'), ('m_temp = list(om[min_ind:]) + [om[-1]] * abs(min_ind)', 'm_temp = np.concatenate([om[min_ind:], np.full(abs(min_ind), om[-1])])'), ('diff = sum(squares)', 'diff = np.sum(squares)')], 0),
 ('CONTROL degrees % 360', M, [('degrees = np.mod(degrees, 360)', 'degrees = degrees % 360.0')], 0),
 ('CONTROL same_start via np.subtract', M, [('slave_signal.reset_values(slave_signal.values - diff)', 'slave_signal.reset_values(np.subtract(slave_signal.values, diff))')], 0),
 ('CONTROL np.array(values, copy=True)', S, [('self._values = np.array(values)', 'self._values = np.array(values, copy=True)')], 0),
 ('CONTROL arias via explicit cumsum of panel areas', IM, [("return np.pi / (2 * 9.81) * cumulative_trapezoid(acc ** 2, dx=dt, initial=0)", "a2 = acc ** 2\n    return np.pi / (2 * 9.81) * np.concatenate([[0.0], np.cumsum(0.5 * (a2[1:] + a2[:-1]) * dt)])")], 0),
]
sel = sys.argv[1:]
for mut in MUT:
    name, path, edits, expect = mut[:4]
    extra = mut[4] if len(mut) > 4 else None
    if sel and not any(s in name for s in sel):
        continue
    touched = []
    for pth, eds in [(path, edits)] + ([extra] if extra else []):
        new = ORIG[pth]
        for a, b in eds:
            assert new.count(a) >= 1, (name, a)
            new = new.replace(a, b)
        open(pth, 'w').write(new); touched.append(pth)
    env = dict(os.environ, EQSIG_REPO=R)
    p = subprocess.run(['./check', 'C18'], cwd='/verif', env=env, capture_output=True, text=True)
    for pth in touched:
        open(pth, 'w').write(ORIG[pth])
    viol = sorted(set(re.findall(r'clause (\S+)\s+ok=\d+\s+violated=([1-9]\d*)', p.stdout)))
    rep = re.findall(r'replay=(\S+)', p.stdout)
    status = 'OK ' if p.returncode == expect else 'BAD'
    print('%s %-62s exit=%d expect=%d  %s' % (status, name, p.returncode, expect, ', '.join('%s(%s)' % v for v in viol)), flush=True)
    if p.returncode == 2 or (p.returncode != expect):
        print(p.stdout[-1200:])
for p in (M, S, IM):
    assert open(p).read() == ORIG[p]
