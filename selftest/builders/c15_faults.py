"""Fault table used to validate the C15 check (builder's record; not part of the registered machinery).

usage: cp -r /repo /tmp/build_C15 && /venv/bin/python selftest/builders/c15_faults.py [name-prefix]
Every FAULT must make `EQSIG_REPO=/tmp/build_C15 ./check C15` exit 1, every QUIET edit must leave it at exit 0.
The exact-string edits refer to /repo at ffe760b. (The faults of DESIGN.md C15 (h) and of audit round 1 were run with a
throw-away script; the table below starts with (h) again and adds the classes of audit round 2.)
"""
import os
import re
import subprocess
import sys

REPO = '/tmp/build_C15'
SW = 'eqsig/stockwell.py'
AX_A = "    freqs = np.arange(1, points + 1) / (2 * points * asig.dt)\n"
AX_T = "    freqs = np.arange(1, points + 1) / (2 * points * dt)\n"
FFT_NP = "    fa = np.fft.fft(acc_db, n_factor)\n    diag_con = toeplitz(np.conj(fa[:n_d2 + 1]), fa)\n    diag_con = diag_con[1:n_d2 + 1, :]  # first line is zero frequency\n\n    stock = np.flipud(np.fft.ifft("
INV = "    fas_ss[n // 2 + 1:] = ss[1:]\n"

# (name, file, old, new, which occurrence of old)
FAULTS = [
    # -- DESIGN.md C15 (h)
    ('h1 gaussian width', SW, "np.exp(-p ** 2 / 2)", "np.exp(-p ** 2)", 0),
    ('h2 conj dropped (numpy variant)', SW, "toeplitz(np.conj(fa[:n_d2 + 1]), fa)", "toeplitz(fa[:n_d2 + 1], fa)", 1),
    ('h3 flipud dropped (scipy variant)', SW, "stock = np.flipud(ifft(diag_con * gaussian, axis=1))", "stock = ifft(diag_con * gaussian, axis=1)", 0),
    ('h4 diag slice', SW, "diag_con = diag_con[1:n_d2 + 1, :]", "diag_con = diag_con[0:n_d2, :]", 1),
    ('h5 axis from points (asig)', SW, AX_A, "    freqs = np.arange(1, points + 1) / (points * asig.dt)\n", 0),
    ('h6 axis from points (tifq)', SW, AX_T, "    freqs = np.arange(1, points + 1) / (points * dt)\n", 0),
    ('h7 inverse wrong half', SW, INV, "    fas_ss[n // 2 + 1:] = np.conj(ss[1:])\n", 0),
    # -- audit round 2
    ('a9 awkward dt: voice count recovered with int() of a quotient (asig)', SW, AX_A,
     "    df = 1 / (2 * points * asig.dt)\n    freqs = df * np.arange(1, int((1 / (2 * asig.dt)) / df) + 1)\n", 0),
    ('a9b awkward dt: voice count recovered with int() of a quotient (tifq)', SW, AX_T,
     "    df = 1 / (2 * points * dt)\n    freqs = df * np.arange(1, int((1 / (2 * dt)) / df) + 1)\n", 0),
    ('a11 one-sided record: sign of the DC bin lost', SW, FFT_NP,
     FFT_NP.replace("    fa = np.fft.fft(acc_db, n_factor)\n", "    fa = np.fft.fft(acc_db, n_factor)\n    fa[0] = abs(fa[0])\n"), 0),
    ('a11 Nyquist-dominated record: inverse keeps the Nyquist line', SW, INV,
     INV + "    if len(ss) > 1 and abs(ss[0]) > 10 * np.max(abs(ss[1:])):\n        fas_ss[n // 2] = np.conj(ss[0])\n", 0),
    ('a11 tail-heavy record: leading zeros skipped', SW, FFT_NP,
     "    _a = np.asarray(acc_db, dtype=float)\n    _lead = len(_a) - len(np.trim_zeros(_a, 'f'))\n    if _lead > 0.8 * len(_a):\n"
     "        acc_db = np.concatenate((_a[_lead:], np.zeros(_lead)))\n" + FFT_NP, 0),
    ('a10 huge dynamic range: single precision forward FFT', SW, FFT_NP,
     "    _a = np.abs(np.asarray(acc_db, dtype=float))\n    if np.max(_a) > 1e3 * np.median(_a) > 0:\n"
     "        acc_db = np.asarray(acc_db, dtype=np.float32)\n" + FFT_NP, 0),
    ('a12 object purity: label set by the analysis function', SW, "    points = len(asig.swtf)\n" + AX_A,
     "    points = len(asig.swtf)\n    asig.label = 'stockwell'\n" + AX_A, 0),
    ('a12 ownership: the trace is memoised and handed out again', SW,
     "def get_max_stockwell_freq(asig):\n    if not hasattr(asig, \"swtf\"):\n        asig.swtf = transform(asig.values)\n",
     "def get_max_stockwell_freq(asig):\n    if hasattr(asig, \"swtf\") and hasattr(asig, \"_max_f\"):\n        return asig._max_f\n"
     "    if not hasattr(asig, \"swtf\"):\n        asig.swtf = transform(asig.values)\n", 0),
    # -- wave 5: extreme but valid scales (1e-165..1e-300, 1e155..1e300)
    ('w5 argmax over re**2 + im**2 (asig)', SW, "    indy_max = np.argmax(abs(asig.swtf), axis=0)\n",
     "    indy_max = np.argmax(asig.swtf.real ** 2 + asig.swtf.imag ** 2, axis=0)\n", 0),
    ('w5 argmax over re**2 + im**2 (tifq)', SW, "    indy_max = np.argmax(abs(tifq_values), axis=0)\n",
     "    indy_max = np.argmax(np.real(tifq_values) ** 2 + np.imag(tifq_values) ** 2, axis=0)\n", 0),
    ('w5 silent record test through the mean square (transform)', SW, FFT_NP,
     "    if np.mean(np.asarray(acc_db, dtype=float) ** 2) == 0:\n        return np.zeros((n_d2, n_factor), dtype=complex)\n" + FFT_NP, 0),
    ('w5 empty spectrum test through the power (itransform)', SW, "    acc_new = np.fft.ifft(fas_ss)\n",
     "    if not np.isfinite(np.sum(np.abs(fas_ss) ** 2)):\n        fas_ss = np.zeros_like(fas_ss)\n    acc_new = np.fft.ifft(fas_ss)\n", 0),
]
# the second half of the memoisation fault
EXTRA = {'a12 ownership: the trace is memoised and handed out again':
         (SW, "    max_f = np.take(freqs, indy_max)\n    return max_f\n\n\ndef get_max_tifq",
          "    max_f = np.take(freqs, indy_max)\n    asig._max_f = max_f\n    return max_f\n\n\ndef get_max_tifq")}
QUIET = [
    ('q1 private copy of the input', SW, "    acc_db = acc\n", "    acc_db = np.array(acc, copy=True)\n", 1),
    ('q2 axis via linspace (asig)', SW, AX_A, "    freqs = np.linspace(1 / (2 * points * asig.dt), 1 / (2 * asig.dt), points)\n", 0),
]


def apply(path, old, new, nth):
    p = os.path.join(REPO, path)
    s = open(p).read()
    parts = s.split(old)
    assert len(parts) > nth + 1, 'edit does not apply: %r' % old[:60]
    open(p, 'w').write(old.join(parts[:nth + 1]) + new + old.join(parts[nth + 1:]))


def main():
    pref = sys.argv[1] if len(sys.argv) > 1 else ''
    for table, want in ((FAULTS, 1), (QUIET, 0)):
        for name, path, old, new, nth in table:
            if not name.startswith(pref):
                continue
            src = open(os.path.join('/repo', path)).read()
            open(os.path.join(REPO, path), 'w').write(src)
            apply(path, old, new, nth)
            if name in EXTRA:
                apply(EXTRA[name][0], EXTRA[name][1], EXTRA[name][2], 0)
            r = subprocess.run(['./check', 'C15'], cwd='/verif', capture_output=True, text=True,
                               env=dict(os.environ, EQSIG_REPO=REPO, VERIF_OUT_DIR='/tmp/vf_c15_out'))
            viol = [l.split()[1] for l in r.stdout.splitlines() if re.search(r'violated=[1-9]', l)]
            print('%-72s exit=%d %s %s' % (name, r.returncode, 'OK ' if r.returncode == want else 'UNEXPECTED', ' '.join(viol)[:260]))
            open(os.path.join(REPO, path), 'w').write(src)


if __name__ == '__main__':
    main()
