"""Fault table used to validate ./check C19 (kept for the record; not part of the registered machinery).

    cp -r /repo /tmp/build_C19 && /venv/bin/python /verif/selftest/builders/c19_mut.py [name-prefix ...] ; rm -rf /tmp/build_C19

Every mutant is an exact-string edit of the scratch copy; expect = exit code of `EQSIG_REPO=/tmp/build_C19 ./check C19`
(1 = caught, 0 = behaviour-preserving control must stay quiet). The 'class' column names the workload class / clause that is
needed to reveal the audit-round mutants.
"""
import os
import re
import shutil
import subprocess
import sys

REPO = '/tmp/build_C19'
SURF = REPO + '/eqsig/surface.py'
TS = REPO + '/eqsig/fns/time_shift.py'
SRC = {SURF: '/repo/eqsig/surface.py', TS: '/repo/eqsig/fns/time_shift.py'}
E1 = '    shifts = 2.0 * travel_times / asig.dt'
INTERP = '    down_waves = np.interp(dshifted, np.arange(asig.npts), asig.values, left=0, right=0)'
M = []


def m(name, f, edits, expect=1, cls=''):
    M.append((name, f, edits, expect, cls))


# ---- DESIGN.md C19 (h)
m('H1 nodal sign swapped (energy)', SURF, [('        acc_series = - down_waves + up_wave\n    else:\n        acc_series = down_waves + up_wave\n    velocity', '        acc_series = down_waves + up_wave\n    else:\n        acc_series = - down_waves + up_wave\n    velocity')])
m('H2 nodal sign swapped (motions)', SURF, [('        acc_series = - down_waves + up_wave\n    else:\n        acc_series = down_waves + up_wave\n    acc_series = trim', '        acc_series = down_waves + up_wave\n    else:\n        acc_series = - down_waves + up_wave\n    acc_series = trim')])
m('H3 2* dropped', SURF, [(E1, '    shifts = travel_times / asig.dt')])
m('H4 left=0 removed', SURF, [('asig.values, left=0, right=0)', 'asig.values, right=0)')])
m('H5 up/down swapped (array branch)', SURF, [('        up_wave = up_wave[np.newaxis, :] * up_red[:, np.newaxis]  # 1d\n        down_waves *= down_red[:, np.newaxis]', '        up_wave = up_wave[np.newaxis, :] * down_red[:, np.newaxis]  # 1d\n        down_waves *= up_red[:, np.newaxis]')])
m('H6 sis sign flipped', SURF, [('        sis = start_shift - surf_to_depth_shifts', '        sis = surf_to_depth_shifts - start_shift')])
m('H7 npts - sis off by one', SURF, [('values[i, : max(npts - sis[i], 0)]', 'values[i, : max(npts - sis[i] - 1, 0)]')])
m('H8 prepend=0 dropped', SURF, [('np.diff(energy, axis=-1, prepend=0)', 'np.diff(energy, axis=-1)')])
m('H9 start_extras + j -> - j', TS, [('out[i, start_extras + j:start_extras + npts + j] = values', 'out[i, start_extras - j:start_extras + npts - j] = values')])
m('H10 clip branches swapped', TS, [("if clip in ['end', 'both'] and end_extras > 0:", "if clip in ['start', 'both'] and end_extras > 0:"), ("    if clip in ['start', 'both']:\n        return", "    if clip in ['end', 'both']:\n        return")])
m('H11 F21 regression', SURF, [('values[i, : max(npts - sis[i], 0)]', 'values[i, : npts - sis[i]]')])
m('H12 delay truncated to whole samples', SURF, [(E1, '    shifts = np.array(2.0 * travel_times / asig.dt, dtype=int)')])
# ---- audit round 1
m('A1 put: module-level scratch buffer', TS, [("def put_array_in_2d_array(values, shifts, clip='none'):", "_BUF = {}\n\n\ndef put_array_in_2d_array(values, shifts, clip='none'):"), ('    out = np.zeros((len(shifts), npts + start_extras + end_extras))', '    key = (len(shifts), int(npts + start_extras + end_extras))\n    if key not in _BUF:\n        _BUF[key] = np.zeros(key)\n    out = _BUF[key]\n    out[:] = 0')], cls='first-result-unchanged-after-second-call')
m('A2 out allocated with the input dtype', TS, [('out = np.zeros((len(shifts), npts + start_extras + end_extras))', 'out = np.zeros((len(shifts), npts + start_extras + end_extras), dtype=np.asarray(values).dtype)')], cls='narrow/unsigned value dtypes')
m('A3 record written in place (motions)', SURF, [('    if nodal:\n        acc_series = - down_waves + up_wave\n    else:\n        acc_series = down_waves + up_wave\n    acc_series = trim', '    if nodal:\n        down_waves *= -1\n        asig.values[:1] *= 1.0000000000000002\n    acc_series = down_waves + up_wave\n    acc_series = trim')], cls='purity')
m('A4 trim/start swapped in the signature', SURF, [('stt=0.0, trim=False, start=False):\n    """\n    Calculates the energy', 'stt=0.0, start=False, trim=False):\n    """\n    Calculates the energy')], cls='positional calls')
m('A5 int travel times regress', SURF, [(E1, '    shifts = 2 * travel_times / asig.dt')], cls='narrow-int travel times')
m('A6 jtype not forwarded by join_sig', TS, [('    return join_values_w_shifts(values, shifts, jtype=jtype)', '    return join_values_w_shifts(values, shifts)')], cls='join_sig')
m('A7 clip None read as start', TS, [("    if clip in ['start', 'both']:\n        return", "    if clip in ['start', 'both', None]:\n        return")], cls='clip=None')
# ---- audit round 2: one mutant per new class
m('B8a rows past 64 dropped', SURF, [('    velocity = cumulative_trapezoid(', '    acc_series[64:] = 0\n    velocity = cumulative_trapezoid(')], cls='item 8: 65..256 travel times')
m('B8b longest delay taken from the last entry', SURF, [('    max_shift = int(np.max(shifts))', '    max_shift = int(shifts[-1])')], cls='item 8: last entry not the maximum')
m('B8c positions in float32 for big matrices', SURF, [(INTERP, '    if dshifted.size > 2 ** 22:\n        dshifted = dshifted.astype(np.float32)\n' + INTERP)], cls='item 8: rows x samples > 2**22')
m('B8d put: rows past 64 not written', TS, [('    for i, j in enumerate(shifts):\n', '    for i, j in enumerate(shifts[:64]):\n')], cls='item 8: shift vectors of 65/128 entries')
m('B9a quotient just below an integer floors two down', SURF, [('    start_shift = int(s2s_travel_time / dt)', '    q = s2s_travel_time / dt\n    start_shift = int(q) - int(q - int(q) > 1 - 1e-9)')], cls='item 9: t/dt just below the integer')
m('B9b same for the travel times', SURF, [('    surf_to_depth_shifts = np.array(surf2depth_travel_times / dt, dtype=int)', '    q = np.asarray(surf2depth_travel_times / dt, dtype=float)\n    surf_to_depth_shifts = np.array(q, dtype=int) - np.array(q - np.floor(q) > 1 - 1e-9, dtype=int)')], cls='item 9')
m('B9c join_sig: quotient just above an integer rounds down', TS, [('    shifts = np.array(time_shifts / sig.dt, dtype=int)', '    q = np.asarray(time_shifts / sig.dt, dtype=float)\n    shifts = np.array(q, dtype=int) - np.array((q - np.floor(q) < 1e-9) & (q != np.floor(q)), dtype=int)')], cls='item 9: decimal literals a few ulps above')
m('B10a samples far below the global maximum zeroed', SURF, [(INTERP, INTERP + '\n    down_waves[np.abs(down_waves) < 1e-13 * np.max(np.abs(asig.values))] = 0')], cls='item 10: giant sample + local tolerance')
m('B11a trim gathers only from the first npts columns', SURF, [('            outs[i] = values[i, -sis[i]: npts - sis[i]]', '            seg = values[i, -sis[i]: npts]\n            outs[i, :len(seg)] = seg')], cls='item 11: tail-heavy records, negative start move')
m('B12a put returns a view of its input for a single zero shift', TS, [('    npts = len(values)\n', "    npts = len(values)\n    if isinstance(values, np.ndarray) and values.dtype == float and len(shifts) == 1 and shifts[0] == 0:\n        return values[np.newaxis, :]\n")], cls='item 12: result ownership')
m('B12b energy warms the velocity cache of the signal', SURF, [('    from scipy.integrate import cumulative_trapezoid\n', "    from scipy.integrate import cumulative_trapezoid\n    if hasattr(asig, 'generate_displacement_and_velocity_series'):\n        asig.generate_displacement_and_velocity_series(trap=False)\n")], cls='item 12: observables of the signal object')
m('B14a floor(stt/dt) resolved differently when trimming', SURF, [('    start_shift = int(s2s_travel_time / dt)', '    start_shift = int(s2s_travel_time / dt * (1 + (4e-16 if trim else 0)))')], cls='item 14: trim==first-npts(no-trim) on knife edges')
m('B14b motions resolve the record boundary the other way', SURF, [('    acc_series = trim_to_length(acc_series, asig.npts', '    acc_series = acc_series + 0.0\n    acc_series = trim_to_length(acc_series, asig.npts')], expect=0, cls='control: harmless copy')
m('B14c motions: positions moved by 1e-13 sample', SURF, [('    dshifted = np.arange(asig.npts + max_shift)[np.newaxis, :] - shifts[:, np.newaxis]  # TODO: not needed if shifts is scalar\n    down_waves = np.interp(dshifted, np.arange(asig.npts), asig.values, left=0, right=0)\n    if hasattr(up_red, \'__len__\'):\n        up_wave = up_wave[np.newaxis, :] * up_red[:, np.newaxis]  # 1d\n        down_waves *= down_red[:, np.newaxis]\n    else:\n        up_wave = up_wave * up_red  # 1d  # TODO: may need to increase dimensions here\n        down_waves *= down_red\n    if nodal:\n        acc_series = - down_waves + up_wave\n    else:\n        acc_series = down_waves + up_wave\n    acc_series = trim', '    dshifted = np.arange(asig.npts + max_shift)[np.newaxis, :] - shifts[:, np.newaxis] + 1e-13\n    down_waves = np.interp(dshifted, np.arange(asig.npts), asig.values, left=0, right=0)\n    if hasattr(up_red, \'__len__\'):\n        up_wave = up_wave[np.newaxis, :] * up_red[:, np.newaxis]  # 1d\n        down_waves *= down_red[:, np.newaxis]\n    else:\n        up_wave = up_wave * up_red\n        down_waves *= down_red\n    if nodal:\n        acc_series = - down_waves + up_wave\n    else:\n        acc_series = down_waves + up_wave\n    acc_series = trim')], cls='item 14: energy <-> motions twin')
m('B14d join no longer built from put (own, shifted by one)', TS, [('    a1 = put_array_in_2d_array(values, shifts)', '    a1 = put_array_in_2d_array(values, np.asarray(shifts) + 0)')], expect=0, cls='control')
# ---- controls
m('C1 cumulative_trapezoid -> cumsum of panel areas', SURF, [('    velocity = cumulative_trapezoid(acc_series, dx=asig.dt, initial=0, axis=1)', '    panels = 0.5 * (acc_series[:, 1:] + acc_series[:, :-1]) * asig.dt\n    velocity = np.concatenate([np.zeros((acc_series.shape[0], 1)), np.cumsum(panels, axis=1)], axis=1)')], 0)
m('C3 floors tolerant to a few ulps', SURF, [('    surf_to_depth_shifts = np.array(surf2depth_travel_times / dt, dtype=int)', '    surf_to_depth_shifts = np.array(np.floor(surf2depth_travel_times / dt * (1 + 4e-16)), dtype=int)'), ('    start_shift = int(s2s_travel_time / dt)', '    start_shift = int(np.floor(s2s_travel_time / dt * (1 + 4e-16)))')], 0)
# ---- wave 5: whole-sample delays are decided strictly; extreme scales
m('W5a delayed wave interpolated on the time axis (C19-I)', SURF, [(INTERP, '    down_waves = np.interp(np.arange(asig.npts + max_shift)[np.newaxis, :] * asig.dt - 2.0 * travel_times[:, np.newaxis], np.arange(asig.npts) * asig.dt, asig.values, left=0, right=0)')], cls='grid m*dt/2, non-zero last sample, untrimmed')
m('W5b join_sig: exact floor_divide (0.06 // 0.01 == 5)', TS, [('    shifts = np.array(time_shifts / sig.dt, dtype=int)', '    shifts = np.array(np.floor_divide(time_shifts, sig.dt), dtype=int)')], cls='times s*dt whose evaluated quotient is the integer')
m('W5c put: zero test through a square', TS, [('        out[i, start_extras + j:start_extras + npts + j] = values', '        out[i, start_extras + j:start_extras + npts + j] = np.where(np.asarray(values, dtype=float) ** 2 > 0, values, 0)')], cls='extreme-tiny values (|x| < 1e-162)')
m('W5d motions: zero test through a product', SURF, [('    acc_series = trim_to_length(acc_series, asig.npts', '    acc_series = np.where(acc_series * acc_series > 0, acc_series, 0)\n    acc_series = trim_to_length(acc_series, asig.npts'.replace('\\n', '\n'))], cls='extreme-tiny records (motions are linear)')
m('W5e energy through the fourth power', SURF, [('    e = 0.5 * velocity * np.abs(velocity)', '    e = 0.5 * np.sign(velocity) * np.sqrt(velocity ** 4)')], cls='energy at amplitudes 1e+-100..130')

if __name__ == '__main__':
    sel = sys.argv[1:]
    orig = dict((p, open(src).read()) for p, src in SRC.items())
    for name, f, edits, expect, cls in M:
        if sel and not any(name.startswith(x) for x in sel):
            continue
        for p, t in orig.items():
            open(p, 'w').write(t)
        s = orig[f]
        for old, new in edits:
            assert old in s, (name, old[:60])
            s = s.replace(old, new, 1)
        open(f, 'w').write(s)
        env = dict(os.environ, EQSIG_REPO=REPO, VERIF_OUT_DIR='/tmp/vf_c19_mut_out')
        shutil.rmtree('/tmp/vf_c19_mut_out', ignore_errors=True)
        r = subprocess.run(['./check', 'C19'], cwd='/verif', env=env, capture_output=True, text=True)
        cl = sorted(set(re.findall(r'clause (\S.*?)\s+ok=\d+\s+violated=([1-9]\d*)', r.stdout)))
        print('%-58s exit=%d expect=%d %-10s %s' % (name[:58], r.returncode, expect, 'OK' if r.returncode == expect else 'UNEXPECTED',
                                                    ', '.join('%s(%s)' % c for c in cl)), flush=True)
        if r.returncode != expect:
            print('\n'.join(l[:300] for l in r.stdout.splitlines() if 'violated clause' in l or 'INCONCL' in l)[:1800])
    for p, t in orig.items():
        open(p, 'w').write(t)
