import subprocess, sys, os
# usage: cp -r /repo /tmp/build_C14; python c14_faults.py [prefix ...]   (exact-string edits in the scratch copy, restored
# afterwards). Expected: every M*/P*/N* fault exit 1 (M12 exit 0: parity is not part of the Fourier statement), every Q*
# control exit 0. The N* faults are the round-2 audit classes: each is revealed only by the class named in its label.
REPO = '/tmp/build_C14'
TS = REPO + '/eqsig/fns/time_step.py'
SG = REPO + '/eqsig/single.py'
ORIG = open('/repo/eqsig/fns/time_step.py').read()
ORIG_SG = open('/repo/eqsig/single.py').read()


def split(src):
    i = src.index('def resample_to_approx_dt'); j = src.index('def interp_array_to_approx_dt'); k = src.index('def interp_to_approx_dt')
    return src[:j], src[j:k], src[k:i], src[i:]


head, interp, obj, res = split(ORIG)


def mut(part, old, new):
    assert part.count(old) == 1, (old, part.count(old))
    return part.replace(old, new)


I = lambda o, n: {TS: head + mut(interp, o, n) + obj + res}
OB = lambda o, n: {TS: head + interp + mut(obj, o, n) + res}
R = lambda o, n: {TS: head + interp + obj + mut(res, o, n)}
NP_INTERP = 'acc_interp = np.interp(t_db, t_int, values)'
MANUAL = ('v = np.asarray(values); v = v.astype(complex if v.dtype.kind == "c" else float); nn = len(v)\n    i0 = np.minimum(np.floor(t_db).astype(int), nn - 1); '
          'i1 = np.minimum(i0 + 1, nn - 1)\n    wgt = t_db - i0\n    acc_interp = v[i0] * (1 - wgt) + v[i1] * wgt')
FAULTS = {
 # ---- DESIGN.md C14 (h)
 'M1 interp ceil->floor': lambda: I('int(np.ceil(factor))', 'int(np.floor(factor))'),
 'M2 interp ceil->round': lambda: I('int(np.ceil(factor))', 'int(np.round(factor))'),
 'M3 interp decim floor->ceil': lambda: I('1 / np.floor(1 / factor)', '1 / np.ceil(1 / factor)'),
 'M4 interp t_db *factor': lambda: I('np.arange(new_npts) / factor', 'np.arange(new_npts) * factor'),
 'M5 interp even ignored': lambda: I('    if even:\n', '    if False:\n'),
 'M6 interp dt*factor': lambda: I('return acc_interp, dt / factor', 'return acc_interp, dt * factor'),
 'M7 interp swapped grids (x<->xp)': lambda: I('np.interp(t_db, t_int, values)', 'np.interp(t_int, t_db, values)'),
 'M7b interp swapped grids (xp<->fp)': lambda: I('np.interp(t_db, t_int, values)', 'np.interp(t_db, values, t_int)'),
 'M8 resample ceil->floor': lambda: R('int(np.ceil(factor))', 'int(np.floor(factor))'),
 'M9 resample ceil->round': lambda: R('int(np.ceil(factor))', 'int(np.round(factor))'),
 'M10 resample decim floor->ceil': lambda: R('1 / np.floor(1 / factor)', '1 / np.ceil(1 / factor)'),
 'M11 resample dt*factor': lambda: R('asig.dt / factor', 'asig.dt * factor'),
 'M12 resample even ignored (EXPECT 0)': lambda: R('    if even:\n', '    if False:\n'),
 'M13 resample count-1 when even (F11ii-like)': lambda: R('acc_interp = resample(asig.values, new_npts)', 'acc_interp = resample(asig.values, 2 * int(new_npts / 2) if even else new_npts)'),
 'M14 interp even uses fractional count (F10)': lambda: I('2 * int(np.ceil(new_npts) / 2)', '2 * int(new_npts / 2)'),
 'M15 interp ceil(factor-1e-9)': lambda: I('int(np.ceil(factor))', 'int(np.ceil(factor - 1e-9))'),
 'M17 resample ceil(factor-1e-9)': lambda: R('int(np.ceil(factor))', 'int(np.ceil(factor - 1e-9))'),
 # ---- audit round 1 (containers, scales, purity, process state)
 'P1 interp writes its input': lambda: I('    t_int = np.arange(len(values))\n', '    t_int = np.arange(len(values))\n    if isinstance(values, np.ndarray) and values.dtype.kind == "f":\n        values[-1] = values[-1] * (1 + 1e-15) if len(values) % 7 == 0 else values[-1]\n'),
 'P2 interp module-level scratch buffer': lambda: {TS: head.replace('import eqsig\n', 'import eqsig\n_BUF = {}\n') + mut(interp, '    ' + NP_INTERP + '\n', '    acc_interp = _BUF.setdefault(len(t_db), np.empty(len(t_db)))\n    acc_interp[:] = np.interp(t_db, t_int, values)\n') + obj + res},
 'P3 resample touches the object values in place': lambda: R('    new_npts = int(round(factor * asig.npts))\n', '    new_npts = int(round(factor * asig.npts))\n    if asig.values.dtype.kind == "f" and asig.values.flags.writeable:\n        asig.values[0] += 1e-13 * abs(asig.values[0])\n'),
 'P4 interp arithmetic in the input dtype': lambda: I(NP_INTERP, 'v = np.asarray(values); nn = len(v)\n    i0 = np.minimum(np.floor(t_db).astype(int), nn - 1); i1 = np.minimum(i0 + 1, nn - 1)\n    acc_interp = v[i0] + (v[i1] - v[i0]) * (t_db - i0)'),
 'P6 interp absolute epsilon zeroes micro samples': lambda: I('    t_int = np.arange(len(values))\n', '    t_int = np.arange(len(values))\n    values = np.where(np.abs(np.asarray(values, dtype=float)) < 1e-10, 0.0, np.asarray(values, dtype=float))\n'),
 'P7 interp returned step rounded to 8 decimals': lambda: I('return acc_interp, dt / factor', 'return acc_interp, np.round(dt / factor, 8)'),
 'P8 resample memoises on (npts, dt, target)': lambda: {TS: head.replace('import eqsig\n', 'import eqsig\n_MEMO = {}\n') + interp + obj + mut(res, '    acc_interp = resample(asig.values, new_npts)\n', '    key = (asig.npts, asig.dt, target_dt)\n    if key not in _MEMO:\n        _MEMO.clear(); _MEMO[key] = resample(asig.values, new_npts)\n    acc_interp = _MEMO[key]\n')},
 # ---- audit round 2: one fault per new class
 'N1 [awkward count] decimation past the last sample returns 0': lambda: I(NP_INTERP, 'acc_interp = np.interp(t_db, t_int, values, right=(0.0 if factor < 1 else None))'),
 'N2 [awkward quotient + all samples retained] count from the duration quotient (even=False, refining)': lambda: I('    if even:\n', '    if not even and factor > 1:\n        new_npts = int((len(values) - 1) * dt / (dt / factor)) + 1\n    if even:\n'),
 'N3 [energy at the old Nyquist frequency] rfft/irfft zero padding when refining': lambda: R('    acc_interp = resample(asig.values, new_npts)\n', '    acc_interp = resample(asig.values, new_npts)\n    if new_npts > asig.npts and not np.iscomplexobj(asig.values):\n        acc_interp = np.fft.irfft(np.fft.rfft(asig.values), new_npts) * (new_npts / asig.npts)\n'),
 'N4 [dynamic range inside the record] decimation adds and subtracts the global maximum': lambda: I('    ' + NP_INTERP + '\n', '    ' + NP_INTERP + '\n    if factor < 1:\n        s_ = np.max(np.abs(values))\n        acc_interp = (acc_interp + s_) - s_\n'),
 'N5 [ownership] object-level fast path returns the argument itself': lambda: OB('    acc_interp, dt_interp = interp_array_to_approx_dt(', '    if asig.dt == target_dt and (not even or asig.npts % 2 == 0):\n        return asig\n    acc_interp, dt_interp = interp_array_to_approx_dt('),
 'N6 [object state] resample relabels the object it was given': lambda: R('    new_npts = int(round(factor * asig.npts))\n', '    new_npts = int(round(factor * asig.npts))\n    asig.label = "resampled"\n'),
 'N7 [two sites agree] object-level passes a slightly smaller target': lambda: OB('target_dt=target_dt, even=even)', 'target_dt=target_dt * (1 - 1e-13), even=even)'),
 'N8 [complex records] interpolation keeps the real part only': lambda: I(NP_INTERP, 'acc_interp = np.interp(t_db, t_int, np.real(values))'),
 'N9 [histories: reset then resample] reset_values keeps the old npts': lambda: {SG: ORIG_SG.replace("        self._npts = len(self._values)\n        self.clear_cache()\n", "        self.clear_cache()\n", 1)},
 'N10 [consumer ratio path / one-sided records] tail past the last sample set to 0 when refining': lambda: I(NP_INTERP, 'acc_interp = np.interp(t_db, t_int, values, right=(0.0 if factor > 1 else None))'),
 # ---- wave 5: extreme but valid scales (each revealed only by the class named)
 'X1 [uniformly tiny record] interp zero test through the sum of squares': lambda: I('    t_int = np.arange(len(values))\n', '    t_int = np.arange(len(values))\n    if not np.iscomplexobj(values) and np.sum(np.asarray(values, dtype=float) ** 2) == 0:\n        values = np.zeros(len(values))\n'),
 'X2 [uniformly tiny band-limited signal] resample returns zeros when the energy is zero': lambda: R('    acc_interp = resample(asig.values, new_npts)\n', '    acc_interp = resample(asig.values, new_npts)\n    if np.sum(np.abs(asig.values) ** 2) == 0:\n        acc_interp = np.zeros(new_npts)\n'),
 'X3 [uniformly huge record] finiteness test through the energy': lambda: I('    t_int = np.arange(len(values))\n', '    t_int = np.arange(len(values))\n    if not np.isfinite(np.sum(np.abs(np.asarray(values)) ** 2)):\n        raise ValueError("record contains non-finite values")\n'),
 'X4 [1e-150 next to 1e150 in one record] samples below 1e-100 of the peak are flushed to zero': lambda: I('    t_int = np.arange(len(values))\n', '    t_int = np.arange(len(values))\n    values = np.where(np.abs(values) < 1e-100 * np.max(np.abs(values)), 0.0, values)\n'),
 'X5 [huge band-limited signal] resample normalises by the rms': lambda: R('    acc_interp = resample(asig.values, new_npts)\n', '    rms_ = np.sqrt(np.mean(np.abs(asig.values) ** 2))\n    acc_interp = resample(asig.values, new_npts) if (rms_ == 0 or np.isfinite(rms_)) else resample(asig.values / rms_, new_npts) * rms_\n'),
 # ---- controls (behaviour preserving)
 'Q1 math.ceil / int()': lambda: {TS: 'import math\n' + head + mut(mut(interp, 'int(np.ceil(factor))', 'int(math.ceil(factor))'), '1 / np.floor(1 / factor)', '1.0 / float(int(1 / factor))') + obj + res},
 'Q2 arange(int(ceil))': lambda: I('np.arange(new_npts) / factor', 'np.arange(int(np.ceil(new_npts))) / factor'),
 'Q3 resample trim rewrite': lambda: {TS: head + interp + obj + mut(mut(res, 'acc_interp[:2 * int(new_npts / 2)]', 'acc_interp[:new_npts - new_npts % 2]'), 'resample(asig.values, new_npts)', 'resample(np.asarray(asig.values), new_npts)')},
 'Q4 manual linear interpolation (float64 / complex128)': lambda: I(NP_INTERP, MANUAL),
 'Q5 resample slices values by npts': lambda: R('acc_interp = resample(asig.values, new_npts)', 'acc_interp = resample(asig.values[:asig.npts], new_npts)'),
}
sel = sys.argv[1:]
for name, f in FAULTS.items():
    if sel and not any(name.startswith(s) for s in sel):
        continue
    files = f()
    for path, text in files.items():
        open(path, 'w').write(text)
    env = dict(os.environ, EQSIG_REPO=REPO)
    r = subprocess.run(['./check', 'C14'], cwd='/verif', env=env, capture_output=True, text=True)
    lines = r.stdout.splitlines()
    viol = [l.strip() for l in lines if l.startswith('  clause') and not l.rstrip().endswith('violated=0')]
    print('== %s: exit=%d' % (name, r.returncode))
    for v in viol:
        print('     ', v)
    for l in lines:
        if l.startswith('INCONCLUSIVE'):
            print('     ', l[:200])
    sys.stdout.flush()
    open(TS, 'w').write(ORIG)
    open(SG, 'w').write(ORIG_SG)
