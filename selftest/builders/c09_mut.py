"""Fault table of the C09 builder: apply one mutant to the scratch copy /tmp/build_C09 (cp -r /repo /tmp/build_C09),
run `EQSIG_REPO=/tmp/build_C09 ./check C09` (quick), restore. Entries are (old, new) edits of eqsig/im.py or
(path, old, new) for another file. usage: python c09_mut.py [names]   (default: all; ctl_* must exit 0, the rest 1)"""
import subprocess, sys, shutil, os
ROOT='/tmp/build_C09/'
M = {
 'arias_const': [("np.pi / (2 * 9.81) * cumulative_trapezoid", "np.pi / (2 * 9.8) * cumulative_trapezoid")],
 'arias_const2': [("np.pi / (2 * 9.81) * cumulative_trapezoid", "np.pi / (9.81) * cumulative_trapezoid")],
 'cav_noabs': [("    abs_acc = np.abs(acc_sig.values)\n    return cumulative_trapezoid", "    abs_acc = acc_sig.values\n    return cumulative_trapezoid")],
 'arias_rect': [("np.pi / (2 * 9.81) * cumulative_trapezoid(acc ** 2, dx=dt, initial=0)", "np.pi / (2 * 9.81) * np.cumsum(acc ** 2) * dt")],
 'cav_rect': [("    return cumulative_trapezoid(abs_acc, dx=acc_sig.dt, initial=0)", "    return np.cumsum(abs_acc) * acc_sig.dt")],
 'cav_rect_left': [("    return cumulative_trapezoid(abs_acc, dx=acc_sig.dt, initial=0)", "    return np.insert(np.cumsum(abs_acc[:-1]) * acc_sig.dt, 0, 0)")],
 'isv_rect': [("    return cumulative_trapezoid(acc_sig.velocity ** 2, dx=acc_sig.dt, initial=0)", "    return np.cumsum(acc_sig.velocity ** 2) * acc_sig.dt")],
 'arias_noinitial': [("cumulative_trapezoid(acc ** 2, dx=dt, initial=0)", "cumulative_trapezoid(acc ** 2, dx=dt)")],
 'cav_noinitial': [("cumulative_trapezoid(abs_acc, dx=acc_sig.dt, initial=0)", "cumulative_trapezoid(abs_acc, dx=acc_sig.dt)")],
 'isv_noinitial': [("cumulative_trapezoid(acc_sig.velocity ** 2, dx=acc_sig.dt, initial=0)", "cumulative_trapezoid(acc_sig.velocity ** 2, dx=acc_sig.dt)")],
 'gate_025': [("        if (pga - 0.025) < 0:\n            h = 0\n        elif (pga - 0.025) >= 0:", "        if (pga - 0.25) < 0:\n            h = 0\n        elif (pga - 0.25) >= 0:")],
 'gate_strict_raise': [("        elif (pga - 0.025) >= 0:", "        elif (pga - 0.025) > 0:")],
 'gate_strict': [("        if (pga - 0.025) < 0:", "        if (pga - 0.025) <= 0:")],
 'h_ignored': [("        cav_dp = cav_dp + (h * int_acc)", "        cav_dp = cav_dp + int_acc")],
 'uke_noinsert': [("    delta_energy = np.insert(delta_energy, 0, kin_energy[0])\n", "")],
 'f7_reverted': [("    points_per_sec = int(round(1 / asig.dt, 6))\n    total_seconds = int(round(asig.time[-1], 6))", "    points_per_sec = (int(1 / asig.dt))\n    total_seconds = int(asig.time[-1])")],
 'f7_pps_only': [("    points_per_sec = int(round(1 / asig.dt, 6))", "    points_per_sec = (int(1 / asig.dt))")],
 'f7_secs_only': [("    total_seconds = int(round(asig.time[-1], 6))", "    total_seconds = int(asig.time[-1])")],
 'absacc_noabs': [("    abs_acc = abs(asig.values)\n    acc_int", "    abs_acc = asig.values\n    acc_int")],
 'absvel_nodt': [("    vel_int = np.cumsum(abs_vel * asig.dt)", "    vel_int = np.cumsum(abs_vel)")],
 'uke_noabs': [("    cum_delta_energy = np.cumsum(abs(delta_energy))", "    cum_delta_energy = np.cumsum(delta_energy)")],
 'uke_half': [("    kin_energy = 0.5 * acc_signal.velocity * np.abs(acc_signal.velocity)", "    kin_energy = acc_signal.velocity * np.abs(acc_signal.velocity)")],
 'absvel_inplace': [("    abs_vel = abs(asig.velocity)\n", "    abs_vel = asig.velocity\n    np.abs(abs_vel, out=abs_vel)\n")],
 'cav_inplace_values': [("    abs_acc = np.abs(acc_sig.values)\n    return cumulative_trapezoid", "    abs_acc = np.abs(acc_sig.values, out=acc_sig.values)\n    return cumulative_trapezoid")],
 'arias_scratch': [("def _raw_calc_arias_intensity(acc, dt):\n    from scipy.integrate import cumulative_trapezoid\n    return np.pi / (2 * 9.81) * cumulative_trapezoid(acc ** 2, dx=dt, initial=0)", "_SCRATCH = {}\n\n\ndef _raw_calc_arias_intensity(acc, dt):\n    from scipy.integrate import cumulative_trapezoid\n    buf = _SCRATCH.setdefault(len(acc), np.zeros(len(acc)))\n    buf[:] = np.pi / (2 * 9.81) * cumulative_trapezoid(acc ** 2, dx=dt, initial=0)\n    return buf")],

 # ---- audit round 2: one mutant per new workload class / clause
 # any integer rate 1/k incl. the reciprocals above 250 that floor wrongly (old list stopped at k=198)
 'r2_cavdp_fine_step_floor': [("    points_per_sec = int(round(1 / asig.dt, 6))", "    points_per_sec = int(1 / asig.dt) if asig.dt < 0.004 else int(round(1 / asig.dt, 6))")],
 # tail-heavy records: nothing qualifies in the first seconds
 'r2_cavdp_quiet_start': [("        cav_dp = cav_dp + (h * int_acc)", "        cav_dp = cav_dp + (h * int_acc if (i < 4 or cav_dp > 0) else 0)")],
 # spike-dominated records (dynamic range > 1e7 inside one record)
 'r2_cav_relative_noise_floor': [("    abs_acc = np.abs(acc_sig.values)\n", "    abs_acc = np.abs(acc_sig.values)\n    abs_acc = np.where(abs_acc < 1e-7 * np.max(abs_acc), 0.0, abs_acc)\n")],
 # purity over the whole instance state (a public attribute written by an analysis function)
 'r2_arias_cached_on_object': [("    return _raw_calc_arias_intensity(acc_sig.values, acc_sig.dt)", "    series = _raw_calc_arias_intensity(acc_sig.values, acc_sig.dt)\n    acc_sig.arias_intensity = series[-1]\n    return series")],
 # ownership of the returned array
 'r2_isv_returns_stored_array': [("    return cumulative_trapezoid(acc_sig.velocity ** 2, dx=acc_sig.dt, initial=0)", "    acc_sig._isv = cumulative_trapezoid(acc_sig.velocity ** 2, dx=acc_sig.dt, initial=0)\n    return acc_sig._isv")],
 # derived objects at the option values where nothing needs doing
 'r2_combine_angle0_returns_argument': [('eqsig/multiple.py', "def combine_at_angle(acc_sig_ns, acc_sig_we, angle):\n", "def combine_at_angle(acc_sig_ns, acc_sig_we, angle):\n    if angle == 0:\n        return acc_sig_ns\n")],
 'r2_interp_same_dt_returns_argument': [('eqsig/fns/time_step.py', "    acc_interp, dt_interp = interp_array_to_approx_dt(asig.values, asig.dt, target_dt=target_dt, even=even)\n", "    if target_dt == asig.dt:\n        return asig\n    acc_interp, dt_interp = interp_array_to_approx_dt(asig.values, asig.dt, target_dt=target_dt, even=even)\n")],
 # object-level twin (deprecated generate_cumulative_stats attributes) must agree with the functions
 'r2_stats_cav_attribute': [('eqsig/single.py', "        self.cav = self.cav_series[-1]", "        self.cav = self.cav_series[-2] if len(self.cav_series) > 1 else self.cav_series[-1]")],

 # ---- wave 5: the caller's dt, steps that need more than six decimals, extreme scales
 'r3_signal_rounds_dt': [('eqsig/single.py', "        self._dt = dt\n        self._values = np.array(values)\n", "        self._dt = round(float(dt), 6)\n        self._values = np.array(values)\n")],
 # extreme-scale records (|a| < 1e-162 or > 1e154): magnitude through a square in a linear measure
 'r3_cav_abs_via_square': [("    abs_acc = np.abs(acc_sig.values)\n", "    abs_acc = np.sqrt(acc_sig.values ** 2)\n")],
 'r3_absvel_abs_via_product': [("    abs_vel = abs(asig.velocity)\n", "    abs_vel = np.sqrt(asig.velocity * asig.velocity)\n")],
 'r3_cavdp_abs_via_square': [("        abs_acc_interval = abs(acc_interval)\n", "        abs_acc_interval = np.sqrt(acc_interval ** 2)\n")],
 # amplitudes 1e-130..1e130 with the energy-type measures
 'r3_isv_sanity_clip': [("    return cumulative_trapezoid(acc_sig.velocity ** 2, dx=acc_sig.dt, initial=0)", "    return cumulative_trapezoid(np.minimum(acc_sig.velocity ** 2, 1e60), dx=acc_sig.dt, initial=0)")],
 # behaviour-preserving controls
 'ctl_cumsum_panels': [("    return cumulative_trapezoid(abs_acc, dx=acc_sig.dt, initial=0)", "    return np.concatenate([[0.0], np.cumsum(0.5 * acc_sig.dt * (abs_acc[1:] + abs_acc[:-1]))])")],
 'ctl_arias_cumsum_panels': [("np.pi / (2 * 9.81) * cumulative_trapezoid(acc ** 2, dx=dt, initial=0)", "np.pi / 19.62 * np.concatenate([[0.0], np.cumsum(0.5 * dt * (acc[1:] ** 2 + acc[:-1] ** 2))])")],
 'ctl_npabs': [("    abs_acc = abs(asig.values)\n    acc_int", "    abs_acc = np.fabs(asig.values)\n    acc_int")],
 'ctl_uke_concat': [("    delta_energy = np.insert(delta_energy, 0, kin_energy[0])\n", "    delta_energy = np.concatenate([[kin_energy[0]], delta_energy])\n")],
 'ctl_cavdp_slice': [("        acc_interval = []\n        for j in range(start, end + 1):\n            acc_interval.append(acc_in_g[j])\n", "        acc_interval = acc_in_g[start:end + 1]\n")],
 'ctl_cavdp_fullpanel': [("        int_acc = trapezoid(y_int, x_int)", "        int_acc = trapezoid(abs_acc_interval, dx=asig.dt)")],
}
names = sys.argv[1:] or list(M)
for name in names:
    files = {}
    for e in M[name]:
        path, a, b = ('eqsig/im.py',) + tuple(e) if len(e) == 2 else e
        s = files.get(path) or open('/repo/' + path).read()
        assert s.count(a) == 1, (name, path, s.count(a))
        files[path] = s.replace(a, b)
    for path, s in files.items():
        open(ROOT + path, 'w').write(s)
    env = dict(os.environ, EQSIG_REPO='/tmp/build_C09', VERIF_SEED=os.environ.get('VERIF_SEED', '0'))
    p = subprocess.run(['./check', 'C09'], cwd='/verif', env=env, capture_output=True, text=True)
    lines = [l for l in p.stdout.splitlines() if 'violated=' in l and not l.rstrip().endswith('violated=0')]
    print('%-36s exit=%d  %s' % (name, p.returncode, '; '.join(l.split()[1] + ' ' + l.split()[-1] for l in lines)[:400]))
    if p.returncode == 2:
        print('\n'.join(l for l in p.stdout.splitlines() if 'INCONCL' in l)[:1500])
    for path in files:
        shutil.copy('/repo/' + path, ROOT + path)
