"""apply one mutant to /tmp/build_C09/eqsig/im.py, run check, restore"""
import subprocess, sys, shutil, os
F='/tmp/build_C09/eqsig/im.py'
ORIG=open('/repo/eqsig/im.py').read()
M = {
 'arias_const': [("np.pi / (2 * 9.81) * cumulative_trapezoid", "np.pi / (2 * 9.8) * cumulative_trapezoid")],
 'arias_const2': [("np.pi / (2 * 9.81) * cumulative_trapezoid", "np.pi / (9.81) * cumulative_trapezoid")],
 'cav_noabs': [("    abs_acc = np.abs(acc_sig.values)\n    return cumulative_trapezoid", "    abs_acc = acc_sig.values\n    return cumulative_trapezoid")],
 'arias_rect': [("np.pi / (2 * 9.81) * cumulative_trapezoid(acc ** 2, dx=dt, initial=0)", "np.pi / (2 * 9.81) * np.cumsum(acc ** 2) * dt")],
 'cav_rect': [("    return cumulative_trapezoid(abs_acc, dx=acc_sig.dt, initial=0)", "    return np.cumsum(abs_acc) * acc_sig.dt")],
 'cav_rect_left': [("    return cumulative_trapezoid(abs_acc, dx=acc_sig.dt, initial=0)", "    return np.insert(np.cumsum(abs_acc[:-1]) * acc_sig.dt, 0, 0)")],
 'isv_rect': [("    return cumulative_trapezoid(acc_sig.velocity ** 2, dx=acc_sig.dt, initial=0)", "    return np.cumsum(acc_sig.velocity ** 2) * acc_sig.dt")],
 'arias_noinitial': [("cumulative_trapezoid(acc ** 2, dx=dt, initial=0)", "cumulative_trapezoid(acc ** 2, dx=dt)")],
 'cav_noinitial': [("cumulative_trapezoid(abs_acc, dx=acc_sig.dt, initial=0)", "cumulative_trapezoid(abs_acc, dx=acc_sig.dt)")],
 'isv_noinitial': [("cumulative_trapezoid(acc_sig.velocity ** 2, dx=acc_sig.dt, initial=0)", "cumulative_trapezoid(acc_sig.velocity ** 2, dx=acc_sig.dt)")],
 'gate_025': [("        if (pga - 0.025) < 0:\n            h = 0\n        elif (pga - 0.025) >= 0:", "        if (pga - 0.25) < 0:\n            h = 0\n        elif (pga - 0.25) >= 0:")],
 'gate_strict_raise': [("        elif (pga - 0.025) >= 0:", "        elif (pga - 0.025) > 0:")],
 'gate_strict': [("        if (pga - 0.025) < 0:", "        if (pga - 0.025) <= 0:")],
 'h_ignored': [("        cav_dp = cav_dp + (h * int_acc)", "        cav_dp = cav_dp + int_acc")],
 'uke_noinsert': [("    delta_energy = np.insert(delta_energy, 0, kin_energy[0])\n", "")],
 'f7_reverted': [("    points_per_sec = int(round(1 / asig.dt, 6))\n    total_seconds = int(round(asig.time[-1], 6))", "    points_per_sec = (int(1 / asig.dt))\n    total_seconds = int(asig.time[-1])")],
 'f7_pps_only': [("    points_per_sec = int(round(1 / asig.dt, 6))", "    points_per_sec = (int(1 / asig.dt))")],
 'f7_secs_only': [("    total_seconds = int(round(asig.time[-1], 6))", "    total_seconds = int(asig.time[-1])")],
 'absacc_noabs': [("    abs_acc = abs(asig.values)\n    acc_int", "    abs_acc = asig.values\n    acc_int")],
 'absvel_nodt': [("    vel_int = np.cumsum(abs_vel * asig.dt)", "    vel_int = np.cumsum(abs_vel)")],
 'uke_noabs': [("    cum_delta_energy = np.cumsum(abs(delta_energy))", "    cum_delta_energy = np.cumsum(delta_energy)")],
 'uke_half': [("    kin_energy = 0.5 * acc_signal.velocity * np.abs(acc_signal.velocity)", "    kin_energy = acc_signal.velocity * np.abs(acc_signal.velocity)")],
 # behaviour-preserving controls
 'ctl_cumsum_panels': [("    return cumulative_trapezoid(abs_acc, dx=acc_sig.dt, initial=0)", "    return np.concatenate([[0.0], np.cumsum(0.5 * acc_sig.dt * (abs_acc[1:] + abs_acc[:-1]))])")],
 'ctl_arias_cumsum_panels': [("np.pi / (2 * 9.81) * cumulative_trapezoid(acc ** 2, dx=dt, initial=0)", "np.pi / 19.62 * np.concatenate([[0.0], np.cumsum(0.5 * dt * (acc[1:] ** 2 + acc[:-1] ** 2))])")],
 'ctl_npabs': [("    abs_acc = abs(asig.values)\n    acc_int", "    abs_acc = np.fabs(asig.values)\n    acc_int")],
 'ctl_uke_concat': [("    delta_energy = np.insert(delta_energy, 0, kin_energy[0])\n", "    delta_energy = np.concatenate([[kin_energy[0]], delta_energy])\n")],
 'ctl_cavdp_slice': [("        acc_interval = []\n        for j in range(start, end + 1):\n            acc_interval.append(acc_in_g[j])\n", "        acc_interval = acc_in_g[start:end + 1]\n")],
 'ctl_cavdp_fullpanel': [("        int_acc = trapezoid(y_int, x_int)", "        int_acc = trapezoid(abs_acc_interval, dx=asig.dt)")],
}
names = sys.argv[1:] or list(M)
for name in names:
    s = ORIG
    for a, b in M[name]:
        assert s.count(a) == 1, (name, s.count(a))
        s = s.replace(a, b)
    open(F, 'w').write(s)
    env = dict(os.environ, EQSIG_REPO='/tmp/build_C09', VERIF_SEED=os.environ.get('VERIF_SEED', '0'))
    p = subprocess.run(['./check', 'C09'], cwd='/verif', env=env, capture_output=True, text=True)
    lines = [l for l in p.stdout.splitlines() if 'violated=' in l and not l.rstrip().endswith('violated=0')]
    print('%-24s exit=%d  %s' % (name, p.returncode, '; '.join(l.split()[1] + ' ' + l.split()[-1] for l in lines)[:400]))
    if p.returncode == 2:
        print('\n'.join(l for l in p.stdout.splitlines() if 'INCONCL' in l)[:1500])
    open(F, 'w').write(ORIG)
