import subprocess, sys, os, re, json
# usage: cp -r /repo /tmp/build_C10; python c10_faults.py [prefix|all]   (exact-string edits in the scratch copy, restored afterwards)
REPO='/tmp/build_C10'
IM=REPO+'/eqsig/im.py'
orig=open('/repo/eqsig/im.py').read()
V1="    ind2 = np.where((cum_acc2 > start * cum_acc2[-1]) & (cum_acc2 < end * cum_acc2[-1]))\n"
S1="    ind2 = np.where((im_vals > start * im_vals[-1]) & (im_vals < end * im_vals[-1]))\n"
FAULTS=[
 ('A1 vals > -> >=', V1, V1.replace('cum_acc2 > start','cum_acc2 >= start')),
 ('A2 vals < -> <=', V1, V1.replace('cum_acc2 < end','cum_acc2 <= end')),
 ('A3 sig > -> >=', S1, S1.replace('im_vals > start','im_vals >= start')),
 ('A4 sig < -> <=', S1, S1.replace('im_vals < end','im_vals <= end')),
 ('A5 brac > -> >=', "    ind01 = np.where(abs_motion > threshold)\n    time2 = time[ind01]\n    try:\n        if se:", "    ind01 = np.where(abs_motion >= threshold)\n    time2 = time[ind01]\n    try:\n        if se:"),
 ('B1 alias swaps start/end', "    return calc_sig_dur_vals(motion, dt, start=start, end=end)\n", "    return calc_sig_dur_vals(motion, dt, start=end, end=start)\n"),
 ('B1b vals returns (end,start)', "    if se:\n        return start_time, end_time\n    return end_time - start_time\n\n\ndef calc_sig_dur(", "    if se:\n        return end_time, start_time\n    return end_time - start_time\n\n\ndef calc_sig_dur("),
 ('B2 alias uses defaults', "    return calc_sig_dur_vals(motion, dt, start=start, end=end)\n", "    return calc_sig_dur_vals(motion, dt)\n"),
 ('B2b sig uses default start', S1, S1.replace('im_vals > start *','im_vals > 0.05 *')),
 ('B2c vals uses default end', V1, V1.replace('cum_acc2 < end *','cum_acc2 < 0.95 *')),
 ('C1 vals se ignored', "    end_time = ind2[0][-1] * dt\n\n    if se:\n", "    end_time = ind2[0][-1] * dt\n\n    if False:\n"),
 ('C1b sig se always', "    end_time = ind2[0][-1] * asig.dt\n    if se:\n", "    end_time = ind2[0][-1] * asig.dt\n    if True:\n"),
 ('C1c brac se ignored', "    try:\n        if se:\n            return time2[0], time2[-1]\n", "    try:\n        if False:\n            return time2[0], time2[-1]\n"),
 ('C1d brac empty se ignored', "    except IndexError:\n        if se:\n            return None, None\n        return 0\n", "    except IndexError:\n        return 0\n"),
 ('D1 vals [-1]->[-2]', "    end_time = ind2[0][-1] * dt\n", "    end_time = ind2[0][-2] * dt\n"),
 ('D2 sig [-1]->[-2]', "    end_time = ind2[0][-1] * asig.dt\n", "    end_time = ind2[0][-2] * asig.dt\n"),
 ('E brac signed compare', "    ind01 = np.where(abs_motion > threshold)\n    time2 = time[ind01]\n    try:\n        if se:", "    ind01 = np.where(asig.values > threshold)\n    time2 = time[ind01]\n    try:\n        if se:"),
 ('F1 time arange(npts+1)', "    abs_motion = abs(asig.values)\n\n    time = np.arange(asig.npts) * asig.dt\n", "    abs_motion = abs(asig.values)\n\n    time = (np.arange(asig.npts + 1) * asig.dt)[:asig.npts]\n"),
 ('F2 time arange(1,npts+1)', "    abs_motion = abs(asig.values)\n\n    time = np.arange(asig.npts) * asig.dt\n", "    abs_motion = abs(asig.values)\n\n    time = np.arange(1, asig.npts + 1) * asig.dt\n"),
 ('F3 time linspace(0,npts*dt,npts)', "    abs_motion = abs(asig.values)\n\n    time = np.arange(asig.npts) * asig.dt\n", "    abs_motion = abs(asig.values)\n\n    time = np.linspace(0, asig.npts * asig.dt, asig.npts)\n"),
 ('G stale arias series from generate_cumulative_stats', "    if im is None:\n        im_vals = calc_arias_intensity(asig)\n", "    if im is None:\n        im_vals = getattr(asig, 'arias_intensity_series', None)\n        if im_vals is None:\n            im_vals = calc_arias_intensity(asig)\n"),
 ('H custom im ignored', "    else:\n        im_vals = im(asig)\n    ind2", "    else:\n        im_vals = calc_arias_intensity(asig)\n    ind2"),
 ('I1 brac result remembered on the object', "    abs_motion = abs(asig.values)\n\n    time = np.arange(asig.npts) * asig.dt\n", "    _c = asig.__dict__.setdefault('_brac_memo', {})\n    if (threshold, se) in _c:\n        return _c[(threshold, se)]\n    _c[(threshold, se)] = _calc_brac_dur(asig, threshold, se)\n    return _c[(threshold, se)]\n\n\ndef _calc_brac_dur(asig, threshold, se=False):\n    abs_motion = abs(asig.values)\n\n    time = np.arange(asig.npts) * asig.dt\n"),
 ('I2 sig arias series remembered on the object', "    if im is None:\n        im_vals = calc_arias_intensity(asig)\n", "    if im is None:\n        if '_ai_memo' not in asig.__dict__:\n            asig._ai_memo = calc_arias_intensity(asig)\n        im_vals = asig._ai_memo\n"),
 ('I3 sig uses sd_start/sd_end left by generate_duration_stats for the default fractions', "    if im is None:\n        im_vals = calc_arias_intensity(asig)\n", "    if im is None and (start, end) == (0.05, 0.95) and getattr(asig, 'sd_end', 0.0) != 0.0:\n        return (asig.sd_start, asig.sd_end) if se else asig.sd_end - asig.sd_start\n    if im is None:\n        im_vals = calc_arias_intensity(asig)\n"),
 ('J vals first index off by one (start uses >= first+1)', "    start_time = ind2[0][0] * dt\n    end_time = ind2[0][-1] * dt\n\n", "    start_time = (ind2[0][0] + 1) * dt\n    end_time = ind2[0][-1] * dt\n\n"),
 ('K sig first index via searchsorted on end only (last = first index >= end*tot, minus 0)', "    end_time = ind2[0][-1] * asig.dt\n", "    end_time = np.searchsorted(im_vals, end * im_vals[-1]) * asig.dt\n"),
 ('L1 seeded C10-C isclose guard', "    ind2 = np.where((cum_acc2 > start * cum_acc2[-1]) & (cum_acc2 < end * cum_acc2[-1]))\n", "    if np.isclose(cum_acc2[-1], 0.0):\n        return (0.0, 0.0) if se else 0.0\n    ind2 = np.where((cum_acc2 > start * cum_acc2[-1]) & (cum_acc2 < end * cum_acc2[-1]))\n"),
 ('L2 vals squares in the caller dtype again', "np.cumsum(np.asarray(motion, dtype=float) ** 2)", "np.cumsum(np.asarray(motion) ** 2)"),
 ('L3 brac flips the sign of the stored values (argument mutated, same answer)', "    abs_motion = abs(asig.values)\n\n    time = np.arange(asig.npts) * asig.dt\n", "    abs_motion = abs(asig.values)\n    if asig.values.flags.writeable:\n        np.negative(asig.values, out=asig.values)\n\n    time = np.arange(asig.npts) * asig.dt\n"),
 ('L4 vals normalises its argument in place', "    cum_acc2 = np.cumsum(np.asarray(motion, dtype=float) ** 2)\n", "    if isinstance(motion, np.ndarray) and motion.dtype == float and motion.flags.writeable and len(motion) > 3:\n        motion /= np.max(np.abs(motion)) or 1.0\n    cum_acc2 = np.cumsum(np.asarray(motion, dtype=float) ** 2)\n"),
 ('L5 sig start=0 treated as default', S1, "    if not start:\n        start = 0.05\n" + S1),
 ('L6 vals scratch buffer reused across calls of equal length', "    cum_acc2 = np.cumsum(np.asarray(motion, dtype=float) ** 2)\n", "    global _SCRATCH\n    try:\n        _SCRATCH\n    except NameError:\n        _SCRATCH = {}\n    n_ = len(motion)\n    if n_ in _SCRATCH and n_ > 40:\n        cum_acc2 = _SCRATCH[n_]\n    else:\n        cum_acc2 = np.cumsum(np.asarray(motion, dtype=float) ** 2)\n        _SCRATCH[n_] = cum_acc2\n"),
 ('L7 brac time from float32 for long records', "    time = np.arange(asig.npts) * asig.dt\n    # Bracketed duration", "    time = np.arange(asig.npts) * asig.dt\n    if asig.npts > 2 ** 16:\n        time = time.astype(np.float32).astype(float)\n    # Bracketed duration"),
 ('L8 brac absolute-epsilon threshold', "    ind01 = np.where(abs_motion > threshold)\n    time2 = time[ind01]\n    try:\n        if se:", "    ind01 = np.where(abs_motion > threshold + 1e-10)\n    time2 = time[ind01]\n    try:\n        if se:"),
 ('L9 brac single sample record returns None', "    try:\n        if se:\n            return time2[0], time2[-1]\n", "    try:\n        if asig.npts < 2:\n            raise IndexError\n        if se:\n            return time2[0], time2[-1]\n"),
 ('M1 seeded C10-F: two searchsorted bisections instead of the mask (non-monotone custom measures)', S1 + "    start_time = ind2[0][0] * asig.dt\n    end_time = ind2[0][-1] * asig.dt\n", "    im_vals = np.asarray(im_vals)\n    i0 = np.searchsorted(im_vals, start * im_vals[-1], side='right')\n    i1 = np.searchsorted(im_vals, end * im_vals[-1], side='left') - 1\n    if i1 < i0:\n        raise IndexError('empty')\n    start_time = i0 * asig.dt\n    end_time = i1 * asig.dt\n"),
 ('N1 item 10: brac threshold + 1e-9*peak (dynamic range inside one record)', "    ind01 = np.where(abs_motion > threshold)\n    time2 = time[ind01]\n    try:\n        if se:", "    ind01 = np.where(abs_motion > threshold + 1e-9 * abs_motion.max())\n    time2 = time[ind01]\n    try:\n        if se:"),
 ('N2 item 10: vals lower bound + 1e-13*total (needs the local-scale band)', V1, V1.replace("cum_acc2 > start * cum_acc2[-1]", "cum_acc2 > start * cum_acc2[-1] + 1e-13 * cum_acc2[-1]")),
 ('N3 item 9/11: brac time vector sized from duration/dt (last sample exceeds, quotient lands one off)', "    abs_motion = abs(asig.values)\n\n    time = np.arange(asig.npts) * asig.dt\n", "    abs_motion = abs(asig.values)\n\n    time = np.arange(int(asig.time[-1] / asig.dt) + 1) * asig.dt\n"),
 ('N4 item 12: calc_sig_dur marks the velocity cache valid (object observable changes, durations do not)', "    if im is None:\n        im_vals = calc_arias_intensity(asig)\n", "    asig._cached_disp_and_velo = True\n    if im is None:\n        im_vals = calc_arias_intensity(asig)\n"),
 ('N5 item 13: brac |a| as sqrt(a**2) (wrong only for the complex records of fas2signal)', "    abs_motion = abs(asig.values)\n\n    time = np.arange(asig.npts) * asig.dt\n", "    abs_motion = np.sqrt(asig.values ** 2)\n\n    time = np.arange(asig.npts) * asig.dt\n"),
 ('N7 item 14: generate_duration_stats stores (end, start) swapped', 'eqsig/single.py', "        self.sd_start, self.sd_end = im.calc_sig_dur_vals(self.values, self.dt, se=True)\n", "        self.sd_end, self.sd_start = im.calc_sig_dur_vals(self.values, self.dt, se=True)\n"),
 ('N8 item 11: vals works on the non-zero samples only and forgets to map the indices back (exact zeros inside)', "    cum_acc2 = np.cumsum(np.asarray(motion, dtype=float) ** 2)\n", "    motion = np.asarray(motion, dtype=float)\n    if len(motion) > 4 and motion[0] != 0 and motion[-1] != 0:\n        motion = motion[motion != 0]\n    cum_acc2 = np.cumsum(np.asarray(motion, dtype=float) ** 2)\n"),
 ('N9 item 12: calc_brac_dur re-labels the object it analysed', "    abs_motion = abs(asig.values)\n\n    time = np.arange(asig.npts) * asig.dt\n", "    abs_motion = abs(asig.values)\n    asig.label = 'bracketed'\n\n    time = np.arange(asig.npts) * asig.dt\n"),
 ('X1 wave 5: brac exceedance tested through squares (|a|**2 > threshold**2 under/overflows below 1e-162 / above 1e154)', "    ind01 = np.where(abs_motion > threshold)\n    time2 = time[ind01]\n    try:\n        if se:", "    ind01 = np.where(abs_motion ** 2 > threshold ** 2)\n    time2 = time[ind01]\n    try:\n        if se:"),
 ('X2 wave 5: vals squares after a unit conversion x1e4 (overflows only at the 1e150 end)', "    cum_acc2 = np.cumsum(np.asarray(motion, dtype=float) ** 2)\n", "    cum_acc2 = np.cumsum((np.asarray(motion, dtype=float) * 1e4) ** 2)\n"),
 ('X3 wave 5: Arias squares after a unit conversion x1e-12 (squares flush to zero only at the 1e-150 end; x1e-8 leaves 8 digits and is observationally equivalent)', "    return np.pi / (2 * 9.81) * cumulative_trapezoid(acc ** 2, dx=dt, initial=0)\n", "    return np.pi / (2 * 9.81) * 1e24 * cumulative_trapezoid((acc * 1e-12) ** 2, dx=dt, initial=0)\n"),
]
QUIET=[
 ('Q1 vals flatnonzero + (last-first)*dt', "    ind2 = np.where((cum_acc2 > start * cum_acc2[-1]) & (cum_acc2 < end * cum_acc2[-1]))\n    start_time = ind2[0][0] * dt\n    end_time = ind2[0][-1] * dt\n\n    if se:\n        return start_time, end_time\n    return end_time - start_time\n",
  "    ii = np.flatnonzero((cum_acc2 > start * cum_acc2[-1]) & (cum_acc2 < end * cum_acc2[-1]))\n    if not len(ii):\n        raise IndexError('empty')\n    if se:\n        return ii[0] * dt, ii[-1] * dt\n    return (ii[-1] - ii[0]) * dt\n"),
 ('Q2 vals division form', V1, "    ind2 = np.where((cum_acc2 / cum_acc2[-1] > start) & (cum_acc2 / cum_acc2[-1] < end))\n"),
 ('Q3 brac from indices', "    time2 = time[ind01]\n    try:\n        if se:\n            return time2[0], time2[-1]\n        return time2[-1] - time2[0]\n", "    time2 = ind01[0] * asig.dt\n    try:\n        if se:\n            return time2[0], time2[-1]\n        return (ind01[0][-1] - ind01[0][0]) * asig.dt\n"),
 ('Q4 arias other rounding order', "    return np.pi / (2 * 9.81) * cumulative_trapezoid(acc ** 2, dx=dt, initial=0)\n", "    a2 = np.asarray(acc, dtype=float) ** 2\n    return np.concatenate([[0.0], np.cumsum((a2[1:] + a2[:-1]) * (np.pi / (4 * 9.81) * dt))])\n"),
 ('Q5 sig tot*frac', S1, "    tot = im_vals[-1]\n    ind2 = np.where((im_vals > tot * start) & (end * tot > im_vals))\n"),
]
which = sys.argv[1] if len(sys.argv) > 1 else 'all'
env=dict(os.environ, EQSIG_REPO=REPO)
rows=[]
for group, lst, expect in (('FAULT', FAULTS, 1), ('QUIET', QUIET, 0)):
    for item in lst:
        name, old, new = item[0], item[-2], item[-1]
        rel = item[1] if len(item) == 4 else 'eqsig/im.py'
        if which != 'all' and not name.startswith(which):
            continue
        o = open('/repo/' + rel).read()
        assert o.count(old) == 1, (name, o.count(old))
        open(REPO + '/' + rel, 'w').write(o.replace(old, new))
        try:
            p=subprocess.run(['./check','C10'], cwd='/verif', env=env, capture_output=True, text=True)
        finally:
            open(REPO + '/' + rel, 'w').write(o)
        out=p.stdout
        viol=[l.strip() for l in out.splitlines() if re.search(r'violated=[1-9]', l)]
        rep=[l for l in out.splitlines() if l.startswith('VIOLATION')]
        print('=== %s %s: exit %d (expected %d) %s' % (group, name, p.returncode, expect, 'OK' if p.returncode==expect else '***MISMATCH***'))
        for l in viol: print('     ', re.sub(r'\s+',' ',l))
        if p.returncode not in (0,1) or p.returncode != expect:
            print(out[-3000:]); print(p.stderr[-2000:])
        if rep: print('     ', rep[0])
        sys.stdout.flush()
