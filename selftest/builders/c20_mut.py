import subprocess, sys, os, shutil, re, json
ROOT='/tmp/build_C20'
G='eqsig/fns/generic.py'; A='eqsig/fns/average.py'; D='eqsig/design_spectra.py'
def rep(old, new, count=1):
    return ('rep', old, new, count)
MUT = {
 'M1a bracket ind0 uses ind+1': (G, [rep("ind0 = np.where(x_ind > x, ind - 1, ind)", "ind0 = np.where(x_ind > x, ind + 1, ind)")]),
 'M1b bracket ind1 swapped': (G, [rep("ind1 = np.where(x_ind > x, ind, ind + 1)", "ind1 = np.where(x_ind > x, ind, ind - 1)")]),
 'M1c bracket test reversed': (G, [rep("x_ind > x, ind - 1, ind)", "x_ind < x, ind - 1, ind)"), rep("x_ind > x, ind, ind + 1)", "x_ind < x, ind, ind + 1)")]),
 'M2a both clips removed': (G, [rep("    ind0 = np.clip(ind0, 0, None)\n", ""), rep("    ind1 = np.clip(ind1, None, len(xf) - 1)\n", "")]),
 'M2b ind1 clip removed': (G, [rep("    ind1 = np.clip(ind1, None, len(xf) - 1)\n", "")]),
 'M2c ind0 clip removed (expected invisible)': (G, [rep("    ind0 = np.clip(ind0, 0, None)\n", "")]),
 'M2d out of range extrapolates': (G, [rep("s0 = np.where(denom > 0, (x - a0) / denom_adj, 1)", "ind0 = np.where(ind1 == ind0, np.where(ind0 == 0, 0, ind0 - 1), ind0); ind1 = np.where(ind1 == ind0, ind0 + 1, ind1); f0 = f[ind0]; f1 = f[ind1]; a0 = xf[ind0]; a1 = xf[ind1]; s0 = (x - a0) / (a1 - a0)")]),
 'M3 side right->left': (G, [rep("side='right'", "side='left'")]),
 'M4 steps-s-1 -> steps-s': (A, [rep("e = steps - s - 1", "e = steps - s")]),
 'M4b s uses ceil': (A, [rep("s = int(np.floor(steps / 2))", "s = int(np.ceil(steps / 2))")]),
 'M5a csum misaligned': (A, [rep("csum[1:] = np.cumsum(x_ext, dtype=float)", "csum[:-1] = np.cumsum(x_ext, dtype=float)")]),
 'M5b csum diff shifted': (A, [rep("(csum[steps:] - csum[:-steps]) / steps", "(csum[steps - 1:-1] - np.concatenate([[0.0], csum[:-steps - 1]])) / steps")]),
 'M5c forward/backward swapped': (A, [rep("if mode == 'forward':", "if mode == 'backward':"), rep("elif mode == 'backward':", "elif mode == 'forward':")]),
 'M5d edge not replicated (zeros)': (A, [rep("x_ext = np.concatenate([values, values[-1] * np.ones(steps - 1)])", "x_ext = np.concatenate([values, 0 * np.ones(steps - 1)])")]),
 'M6a err_post[:-1]': (A, [rep("err_post[1:] + err_pre[:-1]", "err_post[:-1] + err_pre[:-1]")]),
 'M6b err_pre[1:]': (A, [rep("err_post[1:] + err_pre[:-1]", "err_post[1:] + err_pre[1:]")]),
 'M7 values[ind:]': (A, [rep("post = np.mean(values[ind + 1:])", "post = np.mean(values[ind:])")]),
 'M7b values[:ind+1]': (A, [rep("pre = np.mean(values[:ind])", "pre = np.mean(values[:ind + 1])")]),
 'M7c F18 reintroduced (post side)': (A, [rep("(npts - post_n) * np.abs(post_mean) ** pow", "(npts - post_n) * post_mean ** pow")]),
 'M7d last entry uses pow 1': (A, [rep("err[-1] = np.sum(np.abs(values - np.mean(values)) ** pow)", "err[-1] = np.sum(np.abs(values - np.mean(values)))")]),
 'M8a C 1.60->1.06 in c_h only': (D, [rep("ch_factor = 1.33 + 1.60 * (tt / 0.1)", "ch_factor = 1.33 + 1.06 * (tt / 0.1)")]),
 'M8b D 2.14->2.41 in sd only': (D, [rep("c_h = 2.14 / period * period ** 2", "c_h = 2.41 / period * period ** 2")]),
 'M8c E 3.32->3.23 in both': (D, [rep("ch_factor = 3.32 / tt", "ch_factor = 3.23 / tt"), rep("c_h = 3.32 / period * period ** 2", "c_h = 3.23 / period * period ** 2")]),
 'M8d C exponent .75->.57 in both': (D, [rep("ch_factor = 2.0 * (0.5 / tt) ** 0.75", "ch_factor = 2.0 * (0.5 / tt) ** 0.57"), rep("c_h = (2.0 * (0.5 / period) ** 0.75) * period ** 2", "c_h = (2.0 * (0.5 / period) ** 0.57) * period ** 2")]),
 'M8e D boundary .56->.65 in both': (D, [rep("elif tt < 0.56:", "elif tt < 0.65:"), rep("elif period < 0.56:", "elif period < 0.65:")]),
 'M8f C 2.93->2.94 in both (within table precision: expected invisible)': (D, [rep("ch_factor = 2.93", "ch_factor = 2.94"), rep("c_h = 2.93 * period ** 2", "c_h = 2.94 * period ** 2")]),
 'M8g t_eff D 6.42->6.24': (D, [rep("d_c = 6.42 * z_factor", "d_c = 6.24 * z_factor")]),
 'M8h E 9.96->9.69 in c_h and sd': (D, [rep("ch_factor = 9.96 / tt ** 2", "ch_factor = 9.69 / tt ** 2"), rep("c_h = 9.96\n", "c_h = 9.69\n")]),
 'M8i C T=0 value 1.33->1.12 in c_h': (D, [rep("                if tt == 0:\n                    ch_factor = 1.33\n", "                if tt == 0:\n                    ch_factor = 1.12\n")]),
 'M8j E boundary 1.0->1.1 in sd only': (D, [rep("elif period < 1.0:", "elif period < 1.1:")]),
 'M8k D 3.0 plateau -> 3.1 in both': (D, [rep("elif tt < 0.56:\n                    ch_factor = 3.0", "elif tt < 0.56:\n                    ch_factor = 3.1"), rep("elif period < 0.56:\n                c_h = 3.0 * period ** 2", "elif period < 0.56:\n                c_h = 3.1 * period ** 2")]),
 'M9 t_eff inverted': (D, [rep("time = t_c * displacement / d_c", "time = t_c * d_c / displacement")]),
 'M9b t_c 3.0->2.0 class E': (D, [rep("elif site_class == 'E':\n        t_c = 3.0", "elif site_class == 'E':\n        t_c = 2.0")]),
 'M10 above-corner check reversed off': (D, [rep("if displacement > d_c:", "if displacement > 10 * d_c:")]),
 'M11 n_factor dropped from sd': (D, [rep("sd = c_h * z_factor * n_factor * r_factor", "sd = c_h * z_factor * r_factor")]),
 # ---- behaviour-preserving edits: must stay quiet
 'Q1 roll-av via convolve': (A, [rep("    return (csum[steps:] - csum[:-steps]) / steps", "    return np.convolve(np.asarray(x_ext, dtype=float), np.ones(steps) / steps, mode='valid')")]),
 'Q2 sd 1.32/period*period**2 -> 1.32*period': (D, [rep("c_h = 1.32 / period * period ** 2", "c_h = 1.32 * period")]),
 'Q3 interp_left via counting': (G, [rep("inds = np.searchsorted(x, x0, side='right') - 1", "inds = np.array([int(np.sum(np.asarray(x) <= v)) - 1 for v in x0])")]),
 'Q4 step error by explicit loop': (A, [rep("    err[:-1] = err_post[1:] + err_pre[:-1]\n", "    fv = np.asarray(values, dtype=float)\n    for _i in range(npts - 1):\n        err[_i] = np.sum(np.abs(fv[:_i + 1] - np.mean(fv[:_i + 1])) ** pow) + np.sum(np.abs(fv[_i + 1:] - np.mean(fv[_i + 1:])) ** pow)\n")]),
 'Q5 interp2d searchsorted bracketing': (G, [rep("    ind = np.argmin(np.abs(x[:, np.newaxis] - xf), axis=1)\n    x_ind = xf[ind]\n    ind0 = np.where(x_ind > x, ind - 1, ind)\n    ind1 = np.where(x_ind > x, ind, ind + 1)\n", "    ind0 = np.searchsorted(xf, x, side='right') - 1\n    ind1 = ind0 + 1\n")]),
 'Q6 levels via sum/len': (A, [rep("pre = np.mean(values[:ind])", "pre = np.sum(values[:ind]) / len(values[:ind])")]),
 # ---- audit round 1 (purity, process-wide state, integer forms, K5 regimes)
 'P1 step error centres its float input in place (result unchanged)': (A, [rep("    values = np.array(values)\n    npts = len(values)\n", "    values = np.asarray(values)\n    if values.dtype.kind == 'f' and values.flags.writeable:\n        values -= np.mean(values)\n    npts = len(values)\n")]),
 'S1 roll-av returns a module-level scratch buffer': (A, [rep("    return (csum[steps:] - csum[:-steps]) / steps", "    buf = _SCRATCH.setdefault(len(values), np.empty(len(values)))\n    buf[:] = (csum[steps:] - csum[:-steps]) / steps\n    return buf"), rep("def calc_roll_av_vals(values, steps, mode='forward'):", "_SCRATCH = {}\n\n\ndef calc_roll_av_vals(values, steps, mode='forward'):")]),
 'N1 c_h repair reverted (period[i] in its own dtype)': (D, [rep("tt = float(period[i])", "tt = period[i]")]),
 'N2 interp2d repair reverted (narrow ints wrap)': (G, [rep("    x = np.asarray(x, dtype=float)\n    xf = np.asarray(xf, dtype=float)\n", "")]),
 'N4 levels mean accumulates in the input dtype': (A, [rep("    post = np.mean(values[ind + 1:])", "    post = np.sum(values[ind + 1:], dtype=np.asarray(values).dtype) / len(values[ind + 1:])")]),
 'M12 int path off by one (not truncation: K5 must not absorb it)': (A, [rep("    if dir == 'down':  # if step", "    if err.dtype.kind in 'iu':\n        err[:-1] += 1\n    if dir == 'down':  # if step")]),
 'Q7 K5 repaired (dtype=float): quiet, no KNOWN-FINDING line': (A, [rep("err = np.ones_like(values)", "err = np.ones_like(values, dtype=float)")]),
 # ---- audit round 2: one mutant per new workload class (only that class reveals it)
 'A8a node count a multiple of 64 (block-wise search, last block)': (G, [rep("    x_ind = xf[ind]\n", "    if len(xf) % 64 == 0:\n        ind = np.minimum(ind, len(xf) - 2)\n    x_ind = xf[ind]\n")]),
 'A8b query count 32k+1 (tail chunk of one query)': (G, [rep("    inds = np.searchsorted(x, x0, side='right') - 1\n", "    inds = np.searchsorted(x, x0, side='right') - 1\n    if len(x0) % 32 == 1 and len(x0) > 1:\n        inds[-1] = inds[-2]\n")]),
 'A8c descending queries (fast path for sorted queries)': (G, [rep("    inds = np.searchsorted(x, x0, side='right') - 1\n", "    inds = np.searchsorted(x, x0, side='right') - 1\n    if len(x0) > 2 and np.all(np.diff(np.asarray(x0, dtype=float)) < 0):\n        inds = inds[::-1]\n")]),
 'A8d repeated queries (de-duplicated, not expanded again)': (G, [rep("    xf = np.asarray(xf, dtype=float)\n", "    xf = np.asarray(xf, dtype=float)\n    if len(x) > 1 and np.all(np.diff(x) != 0) and len(np.unique(x)) < len(x):\n        x = np.unique(x)\n")]),
 'A8e repeated nodes in interp_left (nodes de-duplicated)': (G, [rep("    inds = np.searchsorted(x, x0, side='right') - 1\n", "    inds = np.searchsorted(np.unique(x), x0, side='right') - 1\n")]),
 'A8f period vector of 64k entries (last entry of a full block skipped)': (D, [rep("    for i in range(len(period)):\n", "    for i in range(len(period) - (1 if len(period) in (64, 128, 256) else 0)):\n")]),
 'A8g interp2d truncates the queries when the nq x m matrix passes 2**22': (G, [rep("    xf = np.asarray(xf, dtype=float)\n", "    xf = np.asarray(xf, dtype=float)\n    if x.size * xf.size > 2 ** 22 and x.size < 2 ** 16:\n        x = x[:2 ** 22 // xf.size]\n")]),
 'A8h step error builds float32 triangles when n x n passes 2**22': (A, [rep("    pre_a = np.tril(values, k=0)\n", "    if npts * npts > 2 ** 22 and values.dtype == np.float64:\n        values = values.astype(np.float32)\n    pre_a = np.tril(values, k=0)\n")]),
 'A10a interp2d absolute epsilon relative to the column maximum (dynamic range in the table)': (G, [rep("    return s1[:, np.newaxis] * f0 + s0[:, np.newaxis] * f1", "    return s1[:, np.newaxis] * f0 + s0[:, np.newaxis] * f1 + 1e-10 * np.max(np.abs(f), axis=0)")]),
 'A10b level offset relative to the global maximum (local-scale tolerance)': (A, [rep("    post = np.mean(values[ind + 1:])", "    post = np.mean(values[ind + 1:]) + 1e-10 * np.max(np.abs(values))")]),
 'A11 strictly monotone series handled by a shortcut': (A, [rep("    if dir == 'down':  # if step", "    if npts > 3 and values.dtype.kind == 'f' and np.all(np.diff(values) > 0):\n        err = err[::-1].copy()\n    if dir == 'down':  # if step")]),
 'A14 Z*R capped at 1.079 in sd_nzs only (corner Z=0.6, R=1.8 of the code ranges)': (D, [rep("    sd = c_h * z_factor * n_factor * r_factor", "    sd = c_h * min(z_factor * r_factor, 1.079) * n_factor")]),
 # ---- wave 5: even centred windows judged against the library's convention; extreme scales
 'J centre half width round((steps-1)/2): even windows with steps % 4 == 2 move one sample (seeded C20-J)': (A, [rep("        s = int(np.floor(steps / 2))", "        s = int(round((steps - 1) / 2))")]),
 'X1 roll-av all-zero shortcut tested through squares (tiny series)': (A, [rep("    steps = int(steps)\n    if mode == 'forward':", "    steps = int(steps)\n    if np.sum(np.asarray(values, dtype=float) ** 2) == 0:\n        return np.zeros(len(values))\n    if mode == 'forward':")]),
 'X2 interp2d spacing tested through a product (tiny node scale)': (G, [rep("np.where(denom > 0, denom, 1)", "np.where(denom * denom > 0, denom, 1)"), rep("np.where(denom > 0, (x - a0) / denom_adj, 1)", "np.where(denom * denom > 0, (x - a0) / denom_adj, 1)")]),
 'X3 step error |d| computed as sqrt(d*d) (p=1 at extreme scales)': (A, [rep("err_pre = np.sum(np.abs(pre_a - pre_mean[:, np.newaxis]) ** pow, axis=1)", "err_pre = np.sum(np.sqrt((pre_a - pre_mean[:, np.newaxis]) ** 2) ** pow, axis=1)")]),
 'X4 level of an all-tiny side flushed to zero (absolute epsilon 1e-200)': (A, [rep("    pre = np.mean(values[:ind])\n", "    pre = np.mean(values[:ind])\n    pre = 0.0 if abs(pre) < 1e-200 else pre\n")]),
 'F41 interp2d clip of far-outside queries removed (queries > 2**53 node spans above the table extrapolate)': (G, [rep('    x = np.clip(x, np.min(xf), np.max(xf))  # values outside the table take the end rows\n', "")]),
}
def run(name):
    f, edits = MUT[name]
    p = os.path.join(ROOT, f)
    src = open(p).read()
    new = src
    for _, old, newtxt, count in edits:
        assert new.count(old) == count, (name, old, new.count(old))
        new = new.replace(old, newtxt)
    open(p, 'w').write(new)
    try:
        env = dict(os.environ, EQSIG_REPO=ROOT)
        r = subprocess.run(['./check', 'C20'], cwd='/verif', env=env, capture_output=True, text=True)
        out = r.stdout
        viol = re.findall(r'clause (\S+)\s+ok=(\d+)\s+violated=([1-9]\d*)', out)
        inc = [l for l in out.splitlines() if l.startswith('INCONCLUSIVE')]
        rp = re.findall(r'VIOLATION property=C20 replay=(\S+)', out)
        print('%-70s exit=%d  %s %s' % (name, r.returncode, ', '.join('%s(%s)' % (c, v) for c, _, v in viol), inc[:2]), flush=True)
        return r.returncode, rp
    finally:
        open(p, 'w').write(src)
if __name__ == '__main__':
    names = sys.argv[1:] or list(MUT)
    for n in names:
        for k in MUT:
            if k.startswith(n + ' ') or k == n:
                run(k)
