import subprocess, sys, os, shutil, re, json
ROOT='/tmp/build_C20'
G='eqsig/fns/generic.py'; A='eqsig/fns/average.py'; D='eqsig/design_spectra.py'
def rep(old, new, count=1):
    return ('rep', old, new, count)
MUT = {
 'M1a bracket ind0 uses ind+1': (G, [rep("ind0 = np.where(x_ind > x, ind - 1, ind)", "ind0 = np.where(x_ind > x, ind + 1, ind)")]),
 'M1b bracket ind1 swapped': (G, [rep("ind1 = np.where(x_ind > x, ind, ind + 1)", "ind1 = np.where(x_ind > x, ind, ind - 1)")]),
 'M1c bracket test reversed': (G, [rep("x_ind > x, ind - 1, ind)", "x_ind < x, ind - 1, ind)"), rep("x_ind > x, ind, ind + 1)", "x_ind < x, ind, ind + 1)")]),
 'M2a both clips removed': (G, [rep("    ind0 = np.clip(ind0, 0, None)\n", ""), rep("    ind1 = np.clip(ind1, None, len(xf) - 1)\n", "")]),
 'M2b ind1 clip removed': (G, [rep("    ind1 = np.clip(ind1, None, len(xf) - 1)\n", "")]),
 'M2c ind0 clip removed (expected invisible)': (G, [rep("    ind0 = np.clip(ind0, 0, None)\n", "")]),
 'M2d out of range extrapolates': (G, [rep("s0 = np.where(denom > 0, (x - a0) / denom_adj, 1)", "ind0 = np.where(ind1 == ind0, np.where(ind0 == 0, 0, ind0 - 1), ind0); ind1 = np.where(ind1 == ind0, ind0 + 1, ind1); f0 = f[ind0]; f1 = f[ind1]; a0 = xf[ind0]; a1 = xf[ind1]; s0 = (x - a0) / (a1 - a0)")]),
 'M3 side right->left': (G, [rep("side='right'", "side='left'")]),
 'M4 steps-s-1 -> steps-s': (A, [rep("e = steps - s - 1", "e = steps - s")]),
 'M4b s uses ceil': (A, [rep("s = int(np.floor(steps / 2))", "s = int(np.ceil(steps / 2))")]),
 'M5a csum misaligned': (A, [rep("csum[1:] = np.cumsum(x_ext, dtype=float)", "csum[:-1] = np.cumsum(x_ext, dtype=float)")]),
 'M5b csum diff shifted': (A, [rep("(csum[steps:] - csum[:-steps]) / steps", "(csum[steps - 1:-1] - np.concatenate([[0.0], csum[:-steps - 1]])) / steps")]),
 'M5c forward/backward swapped': (A, [rep("if mode == 'forward':", "if mode == 'backward':"), rep("elif mode == 'backward':", "elif mode == 'forward':")]),
 'M5d edge not replicated (zeros)': (A, [rep("x_ext = np.concatenate([values, values[-1] * np.ones(steps - 1)])", "x_ext = np.concatenate([values, 0 * np.ones(steps - 1)])")]),
 'M6a err_post[:-1]': (A, [rep("err_post[1:] + err_pre[:-1]", "err_post[:-1] + err_pre[:-1]")]),
 'M6b err_pre[1:]': (A, [rep("err_post[1:] + err_pre[:-1]", "err_post[1:] + err_pre[1:]")]),
 'M7 values[ind:]': (A, [rep("post = np.mean(values[ind + 1:])", "post = np.mean(values[ind:])")]),
 'M7b values[:ind+1]': (A, [rep("pre = np.mean(values[:ind])", "pre = np.mean(values[:ind + 1])")]),
 'M7c F18 reintroduced (post side)': (A, [rep("(npts - post_n) * np.abs(post_mean) ** pow", "(npts - post_n) * post_mean ** pow")]),
 'M7d last entry uses pow 1': (A, [rep("err[-1] = np.sum(np.abs(values - np.mean(values)) ** pow)", "err[-1] = np.sum(np.abs(values - np.mean(values)))")]),
 'M8a C 1.60->1.06 in c_h only': (D, [rep("ch_factor = 1.33 + 1.60 * (tt / 0.1)", "ch_factor = 1.33 + 1.06 * (tt / 0.1)")]),
 'M8b D 2.14->2.41 in sd only': (D, [rep("c_h = 2.14 / period * period ** 2", "c_h = 2.41 / period * period ** 2")]),
 'M8c E 3.32->3.23 in both': (D, [rep("ch_factor = 3.32 / tt", "ch_factor = 3.23 / tt"), rep("c_h = 3.32 / period * period ** 2", "c_h = 3.23 / period * period ** 2")]),
 'M8d C exponent .75->.57 in both': (D, [rep("ch_factor = 2.0 * (0.5 / tt) ** 0.75", "ch_factor = 2.0 * (0.5 / tt) ** 0.57"), rep("c_h = (2.0 * (0.5 / period) ** 0.75) * period ** 2", "c_h = (2.0 * (0.5 / period) ** 0.57) * period ** 2")]),
 'M8e D boundary .56->.65 in both': (D, [rep("elif tt < 0.56:", "elif tt < 0.65:"), rep("elif period < 0.56:", "elif period < 0.65:")]),
 'M8f C 2.93->2.94 in both (within table precision: expected invisible)': (D, [rep("ch_factor = 2.93", "ch_factor = 2.94"), rep("c_h = 2.93 * period ** 2", "c_h = 2.94 * period ** 2")]),
 'M8g t_eff D 6.42->6.24': (D, [rep("d_c = 6.42 * z_factor", "d_c = 6.24 * z_factor")]),
 'M8h E 9.96->9.69 in c_h and sd': (D, [rep("ch_factor = 9.96 / tt ** 2", "ch_factor = 9.69 / tt ** 2"), rep("c_h = 9.96\n", "c_h = 9.69\n")]),
 'M8i C T=0 value 1.33->1.12 in c_h': (D, [rep("                if tt == 0:\n                    ch_factor = 1.33\n", "                if tt == 0:\n                    ch_factor = 1.12\n")]),
 'M8j E boundary 1.0->1.1 in sd only': (D, [rep("elif period < 1.0:", "elif period < 1.1:")]),
 'M8k D 3.0 plateau -> 3.1 in both': (D, [rep("elif tt < 0.56:\n                    ch_factor = 3.0", "elif tt < 0.56:\n                    ch_factor = 3.1"), rep("elif period < 0.56:\n                c_h = 3.0 * period ** 2", "elif period < 0.56:\n                c_h = 3.1 * period ** 2")]),
 'M9 t_eff inverted': (D, [rep("time = t_c * displacement / d_c", "time = t_c * d_c / displacement")]),
 'M9b t_c 3.0->2.0 class E': (D, [rep("elif site_class == 'E':\n        t_c = 3.0", "elif site_class == 'E':\n        t_c = 2.0")]),
 'M10 above-corner check reversed off': (D, [rep("if displacement > d_c:", "if displacement > 10 * d_c:")]),
 'M11 n_factor dropped from sd': (D, [rep("sd = c_h * z_factor * n_factor * r_factor", "sd = c_h * z_factor * r_factor")]),
 # ---- behaviour-preserving edits: must stay quiet
 'Q1 roll-av via convolve': (A, [rep("    return (csum[steps:] - csum[:-steps]) / steps", "    return np.convolve(np.asarray(x_ext, dtype=float), np.ones(steps) / steps, mode='valid')")]),
 'Q2 sd 1.32/period*period**2 -> 1.32*period': (D, [rep("c_h = 1.32 / period * period ** 2", "c_h = 1.32 * period")]),
 'Q3 interp_left via counting': (G, [rep("inds = np.searchsorted(x, x0, side='right') - 1", "inds = np.array([int(np.sum(np.asarray(x) <= v)) - 1 for v in x0])")]),
 'Q4 step error by explicit loop': (A, [rep("    err[:-1] = err_post[1:] + err_pre[:-1]\n", "    fv = np.asarray(values, dtype=float)\n    for _i in range(npts - 1):\n        err[_i] = np.sum(np.abs(fv[:_i + 1] - np.mean(fv[:_i + 1])) ** pow) + np.sum(np.abs(fv[_i + 1:] - np.mean(fv[_i + 1:])) ** pow)\n")]),
 'Q5 interp2d searchsorted bracketing': (G, [rep("    ind = np.argmin(np.abs(x[:, np.newaxis] - xf), axis=1)\n    x_ind = xf[ind]\n    ind0 = np.where(x_ind > x, ind - 1, ind)\n    ind1 = np.where(x_ind > x, ind, ind + 1)\n", "    ind0 = np.searchsorted(xf, x, side='right') - 1\n    ind1 = ind0 + 1\n")]),
 'Q6 levels via sum/len': (A, [rep("pre = np.mean(values[:ind])", "pre = np.sum(values[:ind]) / len(values[:ind])")]),
}
def run(name):
    f, edits = MUT[name]
    p = os.path.join(ROOT, f)
    src = open(p).read()
    new = src
    for _, old, newtxt, count in edits:
        assert new.count(old) == count, (name, old, new.count(old))
        new = new.replace(old, newtxt)
    open(p, 'w').write(new)
    try:
        env = dict(os.environ, EQSIG_REPO=ROOT)
        r = subprocess.run(['./check', 'C20'], cwd='/verif', env=env, capture_output=True, text=True)
        out = r.stdout
        viol = re.findall(r'clause (\S+)\s+ok=(\d+)\s+violated=([1-9]\d*)', out)
        inc = [l for l in out.splitlines() if l.startswith('INCONCLUSIVE')]
        rp = re.findall(r'VIOLATION property=C20 replay=(\S+)', out)
        print('%-70s exit=%d  %s %s' % (name, r.returncode, ', '.join('%s(%s)' % (c, v) for c, _, v in viol), inc[:2]), flush=True)
        return r.returncode, rp
    finally:
        open(p, 'w').write(src)
if __name__ == '__main__':
    names = sys.argv[1:] or list(MUT)
    for n in names:
        for k in MUT:
            if k.startswith(n + ' ') or k == n:
                run(k)
