"""Fault table used to validate ./check C16 (kept for the record, same conventions as the other files here).

usage:  cp -r /repo /tmp/build_C16 ; python c16_faults.py [name-prefix ...]      (env SCR=<scratch copy>, VERIF=<tree with the check>)
Each entry: (name, expected exit, [(old, new), ...]) - exact-string edits of eqsig/loader.py in the scratch copy; the file is
restored after every run. Expected exit 1 = the check must fire, 0 = behaviour-preserving edit, must stay quiet.
"""
import os
import subprocess
import sys
import time

SCR = os.environ.get('SCR', '/tmp/build_C16')
VERIF = os.environ.get('VERIF', '/verif')
F = SCR + '/eqsig/loader.py'
ORIG = open('/repo/eqsig/loader.py').read()
M = []


def mut(name, expect, *pairs):
    M.append((name, expect, pairs))


W = 'para.append("%.6f" % values[i])'
H = '"%i %.4f" % (len(values), dt)'
LV = 'def load_values_and_dt(ffp):'
RET = '    values = np.atleast_1d(data.astype(float))\n    return values, dt'
SS = '    save_values_and_dt(ffp, signal.values, signal.dt, signal.label)'
P0 = '    para = [label, "%i %.4f" % (len(values), dt)]'
# ---- DESIGN.md C16 (h)
mut('h1 %.6f->%.4f', 1, (W, 'para.append("%.4f" % values[i])'))
mut('h2 header %.4f->%.2f', 1, (H, '"%i %.2f" % (len(values), dt)'))
mut('h3a m dropped in load_sig', 1, ('return Signal(vals * m, dt)', 'return Signal(vals, dt)'))
mut('h3b m dropped in load_asig', 1, ('return AccSignal(vals * m, dt, label=label)', 'return AccSignal(vals, dt, label=label)'))
mut('h4a m twice in load_sig', 1, ('return Signal(vals * m, dt)', 'return Signal(vals * m * m, dt)'))
mut('h4b m twice in load_asig', 1, ('return AccSignal(vals * m, dt, label=label)', 'return AccSignal(vals * m * m, dt, label=label)'))
mut('h5 label from line 1', 1, ('label = a.read().splitlines()[0]', 'label = a.read().splitlines()[1]'))
mut('h6 astype branches swapped', 1, ('        return Signal(vals, dt)\n    elif astype == "acc_sig":\n        return AccSignal(vals, dt)',
                                     '        return AccSignal(vals, dt)\n    elif astype == "acc_sig":\n        return Signal(vals, dt)'))
mut('h7 skip_header off by one', 1, ('skip_header=1, delimiter=",", names=True', 'skip_header=2, delimiter=",", names=True'))
# ---- reverts of the repairs
mut('F12 revert', 1, ('        with open(ffp) as ifile:\n            dt = float(ifile.read().splitlines()[1].split()[1])\n    except TypeError',
                      '        dt = data.dtype.names[0].split("_")[-1]\n        dt = "." + dt[1:]\n        dt = float(dt)\n    except TypeError'))
mut('F13 revert', 1, ('values = np.atleast_1d(data.astype(float))', 'values = data.astype(float)'))
mut('F14 revert', 1, ('if astype in ("signal", "sig"):', 'if astype == "signal":'))
# ---- histories / formats (first build round)
mut('g1 path-keyed cache', 1, (LV, '_CACHE = {}\n\n\ndef load_values_and_dt(ffp):\n    if ffp not in _CACHE:\n        _CACHE[ffp] = _load_values_and_dt(ffp)\n    v, d = _CACHE[ffp]\n    return v.copy(), d\n\n\ndef _load_values_and_dt(ffp):'))
mut('g2 append mode', 1, ('ofile = open(ffp, "w")', 'ofile = open(ffp, "a")'))
mut('g3 header %.5g', 1, (H, '"%i %.5g" % (len(values), dt)'))
mut('g4 values %.6g', 1, (W, 'para.append("%.6g" % values[i])'))
mut('g5 label strip', 1, ('label = a.read().splitlines()[0]', 'label = a.read().splitlines()[0].strip()'))
mut('g6 load_label inverted', 1, ('    if load_label:\n', '    if not load_label:\n'))
mut('g7 save_signal drops label', 1, (SS, '    save_values_and_dt(ffp, signal.values, signal.dt, "m1")'))
mut('g8 float32 on load', 1, ('values = np.atleast_1d(data.astype(float))', 'values = np.atleast_1d(data.astype(np.float32).astype(float))'))
mut('g11 truncation instead of rounding', 1, (W, 'para.append("%.6f" % (int(values[i] * 1e6) / 1e6))'))
mut('g14 process-wide stale dt', 1, (LV, '_LAST = {}\n\n\ndef load_values_and_dt(ffp):\n    v, d = _load_values_and_dt(ffp)\n    _LAST.setdefault("dt", d)\n    return v, _LAST["dt"]\n\n\ndef _load_values_and_dt(ffp):'))
mut('g20 cache keyed on path+file size', 1, (LV, 'import os\n_CACHE = {}\n\n\ndef load_values_and_dt(ffp):\n    k = (ffp, os.path.getsize(ffp))\n    if k not in _CACHE:\n        _CACHE[k] = _load_values_and_dt(ffp)\n    v, d = _CACHE[k]\n    return v.copy(), d\n\n\ndef _load_values_and_dt(ffp):'))
mut('L1 writer in blocks of 2**16 without separator', 1, ('    para = [label, "%i %.4f" % (len(values), dt)]\n    for i in range(len(values)):\n        para.append("%.6f" % values[i])\n    ofile = open(ffp, "w")\n    ofile.write("\\n".join(para))\n    ofile.close()\n',
     '    ofile = open(ffp, "w")\n    ofile.write("\\n".join([label, "%i %.4f" % (len(values), dt)]))\n    block = 2 ** 16\n    for start in range(0, len(values), block):\n        para = []\n        for i in range(start, min(start + block, len(values))):\n            para.append("%.6f" % values[i])\n        if start == 0:\n            ofile.write("\\n")\n        ofile.write("\\n".join(para))\n    ofile.close()\n'))
# ---- audit round 1
mut('a1 writer rounds its input in place', 1, (P0, '    for i in range(len(values)):\n        values[i] = round(float(values[i]), 6)\n' + P0))
mut('a2 loader returns views of a module scratch buffer', 1, (RET, '    values = np.atleast_1d(data.astype(float))\n    if len(values) <= len(_BUF):\n        _BUF[:len(values)] = values\n        values = _BUF[:len(values)]\n    return values, dt'), (LV, '_BUF = np.zeros(4096)\n\n\n' + LV))
mut('a3 save_signal skips an object already saved to that path', 1, (SS, '    if getattr(signal, "_saved_to", None) == ffp:\n        return\n' + SS + '\n    signal._saved_to = ffp'))
mut('a4 writer doubles and halves each value (narrow ints overflow)', 1, (W, 'para.append("%.6f" % ((values[i] * 2) / 2))'))
mut('a5 writer assumes contiguous memory', 1, (P0, '    if isinstance(values, np.ndarray) and values.ndim == 1 and values.size:\n        values = np.lib.stride_tricks.as_strided(values, shape=values.shape, strides=(values.itemsize,))\n' + P0))
mut('a6 dt field cut to 7 characters on load', 1, ('            dt = float(ifile.read().splitlines()[1].split()[1])\n    except TypeError', '            dt = float(ifile.read().splitlines()[1].split()[1][:7])\n    except TypeError'))
mut('a7 m=0 means no scaling in load_sig', 1, ('    return Signal(vals * m, dt)', '    return Signal(vals * m if m else vals, dt)'))
mut('a9 save_signal memoises the values on the object', 1, (SS, '    if not hasattr(signal, "_vals_for_save"):\n        signal._vals_for_save = np.array(signal.values)\n    save_values_and_dt(ffp, signal._vals_for_save, signal.dt, signal.label)'))
mut('a10 float32 cast of non-float64 input', 1, (P0, '    if isinstance(values, np.ndarray) and values.dtype != np.float64:\n        values = values.astype(np.float32)\n' + P0))
# ---- audit round 2 (one per new class)
mut('r1 writer in blocks of 8192 without separator for mid-size records (8191..59998 points)', 1,
    ('    ofile.write("\\n".join(para))', '    if len(para) <= 8194 or len(para) > 60000:\n        ofile.write("\\n".join(para))\n    else:\n        for s0 in range(0, len(para), 8192):\n            ofile.write("\\n".join(para[s0:s0 + 8192]))'))
mut('r2 writer stores 1/int(rate) for raw integer-rate steps (int() of a float quotient)', 1,
    (P0, '    rate = 1.0 / dt\n    if rate > 1.5 and abs(rate - round(rate)) < 1e-9 and abs(dt * 10000 - round(dt * 10000)) > 1e-6:\n        dt = 1.0 / int(rate)\n' + P0))
mut('r3 three decimals when the largest sample reaches 1e11 (dynamic range inside one record)', 1,
    (P0, '    prec = 6 if max(abs(float(v)) for v in values) < 1e11 else 3\n' + P0), (W, 'para.append("%.*f" % (prec, values[i]))'))
mut('r4 alternating constant-magnitude record written as magnitudes', 1,
    (P0, '    if len(values) > 3 and all(float(values[i]) == -float(values[i + 1]) != 0 for i in range(len(values) - 1)):\n        values = [abs(float(v)) for v in values]\n' + P0))
mut('r5 save_signal clears the caches of the object it is given', 1, (SS, '    signal.clear_cache()\n' + SS))
mut('r6 content-keyed cache hands out the cached array itself (no copy)', 1,
    (LV, 'import hashlib\n_CACHE = {}\n\n\ndef load_values_and_dt(ffp):\n    with open(ffp, "rb") as f:\n        k = hashlib.sha1(f.read()).hexdigest()\n    if k not in _CACHE:\n        _CACHE.clear()\n        _CACHE[k] = _load_values_and_dt(ffp)\n    return _CACHE[k]\n\n\ndef _load_values_and_dt(ffp):'))
mut('r7 save_signal mis-scales objects whose Fourier spectrum is cached (warm / analysed objects)', 1,
    (SS, '    if getattr(signal, "_cached_fa", False):\n        save_values_and_dt(ffp, signal.values * 1.00001, signal.dt, signal.label)\n        return\n' + SS))
mut('r8 array-valued (0-d) load factor ignored', 1, ('    return Signal(vals * m, dt)', '    return Signal(vals * (1.0 if isinstance(m, np.ndarray) else m), dt)'))
# ---- behaviour-preserving edits
mut('q1 with-open writer', 0, ('    ofile = open(ffp, "w")\n    ofile.write("\\n".join(para))\n    ofile.close()', '    with open(ffp, "w") as ofile:\n        ofile.write("\\n".join(para))'))
mut('q2 str.format writer', 0, (W, 'para.append("{0:.6f}".format(values[i]))'))
mut('q4 trailing newline written', 0, ('ofile.write("\\n".join(para))', 'ofile.write("\\n".join(para) + "\\n")'))
mut('q5 label via readline', 0, ('label = a.read().splitlines()[0]', 'label = a.readline().rstrip("\\n")'))
mut('q6 writer copies its input first', 0, (P0, '    values = [float(v) for v in values]\n' + P0))
mut('q7 loader returns a copy', 0, (RET, '    values = np.array(np.atleast_1d(data.astype(float)))\n    return values, float(dt)'))


def main():
    only = sys.argv[1:]
    res = []
    for name, expect, pairs in M:
        if only and not any(name.split()[0] == o or (len(o) == 1 and name.startswith(o)) for o in only):
            continue
        s = ORIG
        for a, b in pairs:
            assert s.count(a) >= 1, (name, a)
            s = s.replace(a, b, 1)
        open(F, 'w').write(s)
        t = time.time()
        env = dict(os.environ, EQSIG_REPO=SCR, PYTHONPATH=VERIF + ':/verif/.deps', PYTHONHASHSEED='0')
        if VERIF == '/verif':
            p = subprocess.run(['./check', 'C16'], cwd=VERIF, env=env, capture_output=True, text=True)
        else:
            p = subprocess.run(['/venv/bin/python', '-m', 'vf.cli', 'C16'], cwd=VERIF, env=env, capture_output=True, text=True)
        out = p.stdout
        viol = [l.strip()[:130] for l in out.splitlines() if 'violated=' in l and not l.rstrip().endswith('violated=0')]
        rp = [l.split('replay=')[1] for l in out.splitlines() if l.startswith('VIOLATION')][:1]
        print('=== %s: exit %d (expected %d) %.0fs %s' % (name, p.returncode, expect, time.time() - t,
                                                       'OK' if p.returncode == expect else '<<<<<< MISMATCH'))
        for l in viol:
            print('     ', l)
        if rp and p.returncode == 1 and VERIF == '/verif':
            r1 = subprocess.run(['./check', 'C16', '--replay', rp[0]], cwd=VERIF, env=dict(os.environ, EQSIG_REPO=SCR), capture_output=True, text=True)
            r2 = subprocess.run(['./check', 'C16', '--replay', rp[0]], cwd=VERIF, capture_output=True, text=True)
            print('      replay on mutant exit %d; on /repo exit %d' % (r1.returncode, r2.returncode))
        sys.stdout.flush()
        res.append((name, p.returncode, expect))
    open(F, 'w').write(ORIG)
    bad = [r for r in res if r[1] != r[2]]
    print('SUMMARY: %d run, %d as expected' % (len(res), len(res) - len(bad)))
    for r in bad:
        print('  MISMATCH', r)


if __name__ == '__main__':
    main()
