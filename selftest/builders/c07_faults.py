"""Fault table of the C07 builder (audit round 2: one mutant per new workload class): apply one mutant to the scratch copy
/tmp/build_C07 (cp -r /repo /tmp/build_C07), run `EQSIG_REPO=/tmp/build_C07 ./check C07` (quick), restore. Entries are
(path, old, new) exact-string edits. usage: python c07_faults.py [names]   (default: all; ctl_* must exit 0, the rest 1)"""
import os, subprocess, sys
ROOT = '/tmp/build_C07/'
FR, IM, SG = 'eqsig/fns/frequency.py', 'eqsig/im.py', 'eqsig/single.py'
AMP = "    amp_array = band * np.log10(fa_frequencies[:, np.newaxis] / smooth_fa_frequencies[np.newaxis, :])\n"
RET = "    return np.sum(np.abs(fa_spectrum * 1.0)[:, np.newaxis] * wb_vals, axis=0)  # * 1.0: never take abs in an integer dtype\n"
NORM = "    wb_vals /= np.sum(wb_vals, axis=0)\n"
LIM = "    lim_fas = max_fas1 * ratio\n"
M = {
 # 1 target: a 'scalar' shortcut
 'r2_single_target_plain_mean': [(FR, RET, "    if len(smooth_fa_frequencies) == 1:\n        return np.array([np.mean(np.abs(fa_spectrum * 1.0))])\n" + RET)],
 # target counts at multiples of a block size (32, 64, 128, 256)
 'r2_target_block_multiple_of_32': [(FR, RET, "    out = np.sum(np.abs(fa_spectrum * 1.0)[:, np.newaxis] * wb_vals, axis=0)\n    if len(out) % 32 == 0:\n        out[-1] = out[-2]\n    return out\n")],
 # descending targets silently reversed
 'r2_descending_targets_reversed': [(FR, AMP, "    if len(smooth_fa_frequencies) > 1 and np.all(np.diff(smooth_fa_frequencies) < 0):\n        smooth_fa_frequencies = smooth_fa_frequencies[::-1]\n" + AMP)],
 # repeated targets de-duplicated
 'r2_repeated_targets_unique': [(FR, AMP, "    if len(np.unique(smooth_fa_frequencies)) < len(smooth_fa_frequencies):\n        smooth_fa_frequencies = np.unique(smooth_fa_frequencies)\n" + AMP)],
 # a target equal to the FIRST / LAST Fourier frequency: 0/0 branch applied to interior rows only
 'r2_on_grid_edge_bins': [(FR, "    wb_vals = np.where(amp_array == 0, 1, wb_vals)\n    wb_vals /= np.sum(wb_vals, axis=0)\n\n    return np.sum(",
                           "    wb_vals[1:-1] = np.where(amp_array[1:-1] == 0, 1, wb_vals[1:-1])\n    wb_vals /= np.sum(wb_vals, axis=0)\n\n    return np.sum(")],
 # spectra of two bins
 'r2_two_bin_spectrum_equal_weights': [(FR, RET, "    if len(fa_frequencies) == 2:\n        wb_vals = np.full(wb_vals.shape, 0.5)\n" + RET)],
 # band still open at the first smoothing frequency (C07-H class)
 'r2_bandwidth_skips_first_target': [(IM, "    min_freq = asig.smooth_fa_frequencies[ind2[0][0]]\n    return min_freq", "    min_freq = asig.smooth_fa_frequencies[max(ind2[0][0], 1) if len(fas1_smooth) > 1 else 0]\n    return min_freq")],
 'r2_bandwidth_skips_last_target': [(IM, "    max_freq = asig.smooth_fa_frequencies[ind2[0][-1]]\n    return max_freq", "    max_freq = asig.smooth_fa_frequencies[min(ind2[0][-1], len(fas1_smooth) - 2) if len(fas1_smooth) > 1 else 0]\n    return max_freq")],
 # ratio near 1 and ratio = 0 exactly
 'r2_ratio_capped_below_one': [(IM, LIM, "    lim_fas = max_fas1 * min(ratio, 0.9999)\n")],
 'r2_ratio_zero_means_default': [(IM, LIM, "    lim_fas = max_fas1 * (ratio if ratio else 0.707)\n")],
 # dynamic range inside one spectrum: tiny weights dropped (visible only relative to the local scale)
 'r2_tiny_weights_dropped': [(FR, NORM + "\n    return np.sum(", "    wb_vals = np.where(wb_vals < 1e-10, 0, wb_vals)\n" + NORM + "\n    return np.sum(")],
 # ownership: the argument itself is returned when nothing needs doing (constant spectrum, default targets)
 'r2_constant_spectrum_returns_argument': [(FR, AMP, "    if smooth_fa_frequencies is fa_frequencies and fa_spectrum.dtype.kind == 'f' and np.all(fa_spectrum == fa_spectrum[0]) and fa_spectrum[0] >= 0:\n        return fa_spectrum\n" + AMP)],
 # custom matrix with a single column
 'r2_custom_matrix_single_column_scalar': [(FR, "    return np.dot(abs(asig.fa_spectrum[1:]), smooth_matrix)", "    out = np.dot(abs(asig.fa_spectrum[1:]), smooth_matrix)\n    return out if len(out) > 1 else out[0]")],
 # deep copy of a warm object, then new values: the copy keeps serving the memo (clear_cache skipped on reversed input is not
 # expressible; instead: reset_values does not invalidate the smoothed spectrum when the length is unchanged)
 'r2_same_length_reset_keeps_smooth_memo': [(SG, "        self._npts = len(self._values)\n        self.clear_cache()", "        same = self._npts == len(self._values)\n        self._npts = len(self._values)\n        keep = self._cached_smooth_fa and same\n        self.clear_cache()\n        self._cached_smooth_fa = keep")],
 # ---- wave-5 follow-up: extreme amplitude scales, extreme frequency ratios with a large bandwidth
 # |A| through a square: under/overflows for amplitudes below 1e-162 / above 1e154
 'r3_amplitude_via_square': [(FR, "np.sum(np.abs(fa_spectrum * 1.0)[:, np.newaxis] * wb_vals, axis=0)", "np.sum(np.sqrt(np.real(fa_spectrum * np.conj(fa_spectrum)) * 1.0)[:, np.newaxis] * wb_vals, axis=0)")],
 'r3_custom_amplitude_via_square': [(FR, "    return np.dot(abs(asig.fa_spectrum[1:]), smooth_matrix)", "    return np.dot(np.sqrt(np.real(asig.fa_spectrum[1:] * np.conj(asig.fa_spectrum[1:]))), smooth_matrix)")],
 # an absolute floor in the bandwidth threshold
 'r3_bandwidth_absolute_floor': [(IM, "    ind2 = np.where(fas1_smooth > lim_fas)\n    min_freq = asig.smooth_fa_frequencies[ind2[0][0]]\n    return min_freq", "    ind2 = np.where(fas1_smooth > max(lim_fas, 1e-200))\n    min_freq = asig.smooth_fa_frequencies[ind2[0][0]]\n    return min_freq")],
 # the window argument as log10((f/fc)**b): leaves the float64 range for b*|log10(f/fc)| > 308 (C07-I class)
 'r3_ratio_to_the_power_b': [(FR, AMP + "    wb_vals = (np.sin(amp_array) / amp_array) ** 4\n    wb_vals = np.where(amp_array == 0, 1, wb_vals)\n    wb_vals /= np.sum(wb_vals, axis=0)\n\n    return", "    with np.errstate(all='ignore'):\n        amp_array = np.log10((fa_frequencies[:, np.newaxis] / smooth_fa_frequencies[np.newaxis, :]) ** band)\n    wb_vals = (np.sin(amp_array) / amp_array) ** 4\n    wb_vals = np.where(amp_array == 0, 1, wb_vals)\n    wb_vals /= np.sum(wb_vals, axis=0)\n\n    return")],
 # frequency ratios clipped to six decades
 'r3_ratio_clipped_to_1e6': [(FR, AMP + "    wb_vals = (np.sin(amp_array) / amp_array) ** 4\n    wb_vals = np.where(amp_array == 0, 1, wb_vals)\n    wb_vals /= np.sum(wb_vals, axis=0)\n\n    return", "    amp_array = band * np.log10(np.clip(fa_frequencies[:, np.newaxis] / smooth_fa_frequencies[np.newaxis, :], 1e-6, 1e6))\n    wb_vals = (np.sin(amp_array) / amp_array) ** 4\n    wb_vals = np.where(amp_array == 0, 1, wb_vals)\n    wb_vals /= np.sum(wb_vals, axis=0)\n\n    return")],
 # behaviour-preserving controls
 'ctl_targets_as_contiguous_copy': [(FR, AMP, "    smooth_fa_frequencies = np.ascontiguousarray(smooth_fa_frequencies)\n" + AMP)],
 'ctl_bandwidth_via_flatnonzero': [(IM, "    ind2 = np.where(fas1_smooth > lim_fas)\n    min_freq = asig.smooth_fa_frequencies[ind2[0][0]]\n    return min_freq", "    ind2 = (np.flatnonzero(np.asarray(fas1_smooth) > lim_fas),)\n    min_freq = asig.smooth_fa_frequencies[ind2[0][0]]\n    return min_freq")],
}


def main():
    names = sys.argv[1:] or list(M)
    bad = []
    for name in names:
        saved = {}
        try:
            for path, old, new in M[name]:
                src = open(ROOT + path).read()
                saved.setdefault(path, src)
                assert src.count(old) >= 1, (name, 'pattern not found')
                open(ROOT + path, 'w').write(src.replace(old, new) if not name.startswith('r3_') else src.replace(old, new, 1))
            p = subprocess.run(['./check', 'C07'], cwd='/verif', capture_output=True, text=True,
                               env=dict(os.environ, EQSIG_REPO=ROOT.rstrip('/'), VERIF_OUT_DIR='/tmp/vf_c07_out'))
            clauses = [l.split('clause')[1].split(' ok=')[0].strip() for l in p.stdout.splitlines() if 'violated=' in l and not l.rstrip().endswith('violated=0')]
            want = 0 if name.startswith('ctl_') else 1
            print('OK ' if p.returncode == want else 'BAD', name, 'exit', p.returncode, clauses[:6], flush=True)
            if p.returncode != want:
                bad.append(name)
                if p.returncode == 2:
                    print(p.stdout[-800:])
        finally:
            for path, src in saved.items():
                open(ROOT + path, 'w').write(src)
    print('BAD:', bad)


main()
