"""Fault table the C08 builder used to validate ./check C08 (kept for the record; not part of the registered machinery).
Every fault is an exact-string edit applied to its own scratch copy of /repo under /tmp/build_C08 (never /repo itself);
usage: /venv/bin/python c08_faults.py [name-substring ...]. expect=1: ./check C08 must exit 1; expect=0 (behaviour-
preserving control): exit 0. Groups: h* = DESIGN (h) list, x*/a* = first rounds and audit 1, w* = third wave (coordinator),
n* = audit round 2 (one fault per new workload class / clause), v* = wave 5 (extreme scales), q* = controls."""
import os, shutil, subprocess, sys, re
from concurrent.futures import ThreadPoolExecutor
ROOT = '/tmp/build_C08'
D = 'eqsig/displacements.py'; S = 'eqsig/single.py'; I = 'eqsig/im.py'; T = 'eqsig/fns/time_step.py'; M = 'eqsig/multiple.py'
src = {f: open('/repo/' + f).read() for f in (D, S, I, T, M)}
TRAPV = "        velocity = cumulative_trapezoid(acceleration, dx=dt, initial=0)\n"
TRAPD = "        displacement = cumulative_trapezoid(velocity, dx=dt, initial=0)\n"
i0 = src[I].index("def calc_peak(motion):"); PEAK = src[I][i0:src[I].index("\n\n", i0)]
PEAK_HEAD = PEAK[:PEAK.index("    return")]
CAST = "    if acceleration.dtype.kind in 'iub':  # integer counts: a[i] + a[i-1] overflows narrow integer types\n        acceleration = acceleration.astype(float)\n"
i1 = src[D].index("    if trap is False:"); RECT = src[D][i1:src[D].index("    else:\n", i1)]
GEN = "        self._velocity, self._displacement = sd.calc_velo_and_disp_from_accel_arr(self.values, self.dt, trap=trap)\n"
MUT = [
 ('h1_second_trap_to_cumsum', 1, D, TRAPD, "        displacement = np.cumsum(velocity) * dt\n"),
 ('h2a_initial0_dropped_v', 1, D, TRAPV, "        velocity = cumulative_trapezoid(acceleration, dx=dt)\n"),
 ('h2b_initial0_dropped_d', 1, D, TRAPD, "        displacement = cumulative_trapezoid(velocity, dx=dt)\n"),
 ('h3a_dx_dropped_v', 1, D, TRAPV, "        velocity = cumulative_trapezoid(acceleration, initial=0)\n"),
 ('h3b_dx_dropped_d', 1, D, TRAPD, "        displacement = cumulative_trapezoid(velocity, initial=0)\n"),
 ('h4_calc_peak_no_abs', 1, I, PEAK, PEAK_HEAD + "    return max(float(min(motion)), float(max(motion)))"),
 ('h5_rect_slice_1', 1, D, "        velocity = velocity[:-1]\n        displacement = displacement[:-1]\n", "        velocity = velocity[1:]\n        displacement = displacement[1:]\n"),
 ('x1_F22_reverted_list_rect', 1, D, "    acceleration = np.asarray(acceleration)\n" + CAST + "    if trap is False:\n        velocity = np.zeros(len(acceleration) + 1)\n        velocity[1:] = np.asarray(acceleration) * dt",
      "    if trap is False:\n        velocity = np.zeros(len(acceleration) + 1)\n        velocity[1:] = acceleration * dt"),
 ('x2_F23_reverted_stale_pgv', 1, S, "        self._cached_params.pop(\"pgv\", None)\n        self._cached_params.pop(\"pgd\", None)\n", ""),
 ('x3_pgd_from_velocity', 1, S, "pgd = im.calc_peak(self.displacement)", "pgd = im.calc_peak(self.velocity)"),
 ('x4_clear_cache_keeps_vd', 1, S, "        self._cached_disp_and_velo = False\n        self.__dict__.pop(\"swtf\", None)", "        self.__dict__.pop(\"swtf\", None)"),
 ('x5_reset_stats_keeps_peaks', 1, S, "        self.arias_intensity = 0.0\n        self._cached_params = {}", "        self.arias_intensity = 0.0"),
 ('x6_rect_d_uses_half_dt', 1, D, "        displacement = velocity * dt  # computes the increments", "        displacement = velocity * dt / 2  # computes the increments"),
 ('x7_rect_d_by_trapezoid', 1, D, "        velocity = velocity[:-1]\n        displacement = displacement[:-1]\n", "        velocity = velocity[:-1]\n        displacement = cumulative_trapezoid(velocity, dx=dt, initial=0)\n"),
 ('x8_velocity_float32_downcast', 1, D, TRAPD, TRAPD + "        velocity = velocity.astype(np.float32)\n"),
 ('a1_shared_buffer_asarray_init', 1, S, "        self._values = np.array(values)\n", "        self._values = np.asarray(values)\n"),
 ('a2_int_cast_reverted_array', 1, D, CAST, ""),
 ('a3_int_cast_reverted_object_INVISIBLE', 0, S, "        if self._values.dtype.kind in 'iub':  # integer counts: never compute in a fixed-width integer type\n            self._values = self._values.astype(float)\n", ""),
 ('a4_calc_peak_abs_in_dtype', 1, I, PEAK, PEAK_HEAD + "    return max(abs(min(motion)), max(motion))"),
 ('a5_function_detrends_input_inplace', 1, D, "    if trap is False:\n        velocity = np.zeros(len(acceleration) + 1)", "    if isinstance(acceleration, np.ndarray) and acceleration.dtype == float and acceleration.flags.writeable:\n        acceleration -= 0.0 * acceleration[0] + (1e-9 * acceleration[0])\n    if trap is False:\n        velocity = np.zeros(len(acceleration) + 1)"),
 ('a6_module_scratch_buffer', 1, D, "    return velocity, displacement\n\n\ndef velocity_and_displacement_from_acceleration", "    global _SCRATCH\n    try:\n        if _SCRATCH[0].shape == velocity.shape and _SCRATCH[0].dtype == velocity.dtype:\n            _SCRATCH[0][:] = velocity\n            _SCRATCH[1][:] = displacement\n            return _SCRATCH\n    except NameError:\n        pass\n    _SCRATCH = (velocity, displacement)\n    return velocity, displacement\n\n\ndef velocity_and_displacement_from_acceleration"),
 ('a7_calc_peak_sorts_input', 1, I, PEAK, PEAK_HEAD + "    if isinstance(motion, np.ndarray) and motion.flags.writeable:\n        motion.sort()\n        return max(abs(float(motion[0])), float(motion[-1]))\n    return max(abs(float(min(motion))), float(max(motion)))"),
 ('a8_positional_trap_ignored', 1, D, "def velocity_and_displacement_from_acceleration(acceleration, dt, trap=True):", "def velocity_and_displacement_from_acceleration(acceleration, dt, *args, trap=True):"),
 ('a9_isclose_zero_increment_skip', 1, D, "        velocity[1:] = np.asarray(acceleration) * dt  # computes the increments", "        velocity[1:] = np.where(np.isclose(np.asarray(acceleration) * dt, 0.0), 0.0, np.asarray(acceleration) * dt)  # computes the increments"),
 ('a10_pgv_cached_across_reset', 1, S, "        self._npts = len(self._values)\n        self.clear_cache()", "        self._npts = len(self._values)\n        keep = dict(getattr(self, '_cached_params', {}))\n        self.clear_cache()\n        if 'pgv' in keep and hasattr(self, '_cached_params'):\n            self._cached_params['pgv'] = keep['pgv']"),
 ('a11_long_record_chunked_bug', 1, D, TRAPV, TRAPV + "        if len(velocity) > 65536:\n            velocity[65536:] -= velocity[65536] - velocity[65535]\n"),
 ('w1_pga_from_sa0', 1, S, "        self._cached_response_spectra = True\n\n    def generate_response_spectrum", "        self._cached_response_spectra = True\n        if self.response_times[0] < 6 * self.dt and \"pga\" not in self._cached_params:\n            self._cached_params[\"pga\"] = self._s_a[0]\n\n    def generate_response_spectrum"),
 ('w2_rect_scale_once_float32_dt', 1, D, RECT, "    if trap is False:\n        velocity = np.zeros(len(acceleration) + 1)\n        velocity[1:] = np.asarray(acceleration)\n        np.cumsum(velocity, out=velocity)\n        displacement = np.cumsum(velocity)\n        velocity *= dt\n        displacement *= dt * dt\n        velocity = velocity[:-1]\n        displacement = displacement[:-1]\n"),
 # audit round 2: one fault per new class / clause
 ('n1_spike_detrend_restore', 1, D, TRAPV, "        m_ = acceleration.mean()\n        velocity = cumulative_trapezoid(acceleration - m_, dx=dt, initial=0) + m_ * dt * np.arange(len(acceleration))\n"),
 ('n2_single_changed_const_shortcut', 1, D, TRAPV, "        if len(acceleration) > 2 and np.all(acceleration[1:] == acceleration[1]):\n            velocity = acceleration[1] * dt * np.arange(len(acceleration))\n        else:\n    " + TRAPV),
 ('n3_tail_heavy_quiet_lead_in_zeroed', 1, D, "    if trap is False:\n        velocity = np.zeros(len(acceleration) + 1)", "    if acceleration.dtype.kind == 'f':\n        acceleration = np.where(np.abs(acceleration) < 1e-6 * np.max(np.abs(acceleration)), 0, acceleration)\n    if trap is False:\n        velocity = np.zeros(len(acceleration) + 1)"),
 ('n4_read_tweaks_values', 1, S, GEN, "        self._values = self._values - 1e-6 * np.mean(self._values)\n" + GEN),
 ('n5_zero_record_returns_argument', 1, D, "    if trap is False:\n        velocity = np.zeros(len(acceleration) + 1)", "    if acceleration.dtype == float and not np.any(acceleration):\n        return acceleration, acceleration\n    if trap is False:\n        velocity = np.zeros(len(acceleration) + 1)"),
 ('n6_interp_same_dt_returns_argument', 1, T, "    acc_interp, dt_interp = interp_array_to_approx_dt(asig.values, asig.dt, target_dt=target_dt, even=even)\n    return eqsig.AccSignal(acc_interp, dt_interp)", "    if target_dt == asig.dt:\n        return asig\n    acc_interp, dt_interp = interp_array_to_approx_dt(asig.values, asig.dt, target_dt=target_dt, even=even)\n    return eqsig.AccSignal(acc_interp, dt_interp)"),
 ('n7_complex_record_by_modulus', 1, D, "    if trap is False:\n        velocity = np.zeros(len(acceleration) + 1)", "    if np.iscomplexobj(acceleration):\n        acceleration = np.abs(acceleration)\n    if trap is False:\n        velocity = np.zeros(len(acceleration) + 1)"),
 ('n8_combine_angle0_returns_ns', 1, M, "    off_rad = np.radians(angle)\n    combo =", "    if angle == 0:\n        return acc_sig_ns\n    off_rad = np.radians(angle)\n    combo ="),
 ('n9_shallow_deepcopy', 1, S, "    def clear_cache(self):\n        self._cached_smooth_fa = False\n        self._cached_fa = False\n        self._cached_response_spectra = False", "    def __deepcopy__(self, memo):\n        import copy as _c\n        return _c.copy(self)\n\n    def clear_cache(self):\n        self._cached_smooth_fa = False\n        self._cached_fa = False\n        self._cached_response_spectra = False"),
 ('n10_alias_rounds_dt', 1, D, "    return calc_velo_and_disp_from_accel_arr(acceleration, dt, trap=trap)", "    return calc_velo_and_disp_from_accel_arr(acceleration, float(np.float32(dt)), trap=trap)"),
 # wave 5: extreme-scale classes (values are normal doubles, squares / products of two samples under- or overflow)
 ('v1_calc_peak_via_norm', 1, I, PEAK, PEAK_HEAD + "    return float(np.max(np.linalg.norm(np.atleast_2d(motion), axis=0)))"),
 ('v2_rect_skips_zero_samples_by_square', 1, D, "        velocity[1:] = np.asarray(acceleration) * dt  # computes the increments", "        velocity[1:] = np.where(np.asarray(acceleration) * np.asarray(acceleration) > 0, np.asarray(acceleration) * dt, 0.0)  # computes the increments"),
 ('v3_trap_sign_test_by_product', 1, D, TRAPV, TRAPV + "        if velocity.dtype == float and np.all(velocity[1:] * velocity[1:] == 0):\n            velocity = np.zeros_like(velocity)  # 'motionless' record\n"),
 ('v4_pgd_via_rms_scale', 1, S, "            pgd = im.calc_peak(self.displacement)", "            ref_ = np.sqrt(np.mean(np.asarray(self.displacement, dtype=float) ** 2)) or 1.0\n            pgd = im.calc_peak(np.asarray(self.displacement) / ref_) * ref_"),
 ('q1_explicit_cumsum_panels', 0, D, TRAPV + TRAPD,
    "        acc_ = np.asarray(acceleration)\n        velocity = np.zeros(len(acc_), dtype=np.result_type(acc_.dtype, float))\n        velocity[1:] = np.cumsum(dt * (acc_[1:] + acc_[:-1]) / 2.0)\n"
    "        displacement = np.zeros_like(velocity)\n        displacement[1:] = np.cumsum(dt * (velocity[1:] + velocity[:-1]) / 2.0)\n"),
 ('q2_calc_peak_np_max_abs', 0, I, PEAK, PEAK_HEAD + "    return np.max(np.abs(np.asarray(motion, dtype=float)))"),
 ('q3_rect_explicit_concat', 0, D, "        velocity = np.zeros(len(acceleration) + 1)\n        velocity[1:] = np.asarray(acceleration) * dt  # computes the increments\n        np.cumsum(velocity, out=velocity)  # passed into original array for efficiency\n",
    "        velocity = np.concatenate([[0.0], np.cumsum(np.asarray(acceleration) * dt)])\n"),
 ('q4_pgv_asarray', 0, S, "            pgv = im.calc_peak(self.velocity)", "            pgv = im.calc_peak(np.asarray(self.velocity))"),
 ('q5_calc_peak_abs_both', 0, I, PEAK, PEAK_HEAD + "    return max(abs(float(min(motion))), abs(float(max(motion))), 0)"),
]
def run(m):
    name, expect, f, old, new = m
    d = os.path.join(ROOT, name)
    if os.path.exists(d): shutil.rmtree(d)
    shutil.copytree('/repo', d, ignore=shutil.ignore_patterns('.git', '__pycache__', '.pytest_cache'))
    p = os.path.join(d, f)
    s = open(p).read()
    if s.count(old) != 1:
        shutil.rmtree(d)
        return name, expect, 'PATCH-DOES-NOT-APPLY(%d)' % s.count(old), '', '', ''
    open(p, 'w').write(s.replace(old, new, 1))
    env = dict(os.environ, EQSIG_REPO=d, VERIF_OUT_DIR=os.path.join(ROOT, 'out_' + name))
    r = subprocess.run(['./check', 'C08'], cwd='/verif', env=env, capture_output=True, text=True)
    out = r.stdout + r.stderr
    clauses = re.findall(r'clause (.+?)\s+ok=(\d+)\s+violated=([1-9]\d*)', out)
    rep = re.findall(r'VIOLATION property=C08 replay=(\S+)', out)
    shutil.rmtree(d)
    return name, expect, r.returncode, '; '.join('%s(%s)' % (c.strip(), v) for c, _, v in clauses), (rep[0] if rep else ''), out
if __name__ == '__main__':
    os.makedirs(ROOT, exist_ok=True)
    sel = sys.argv[1:]
    muts = [m for m in MUT if not sel or any(s in m[0] for s in sel)]
    with ThreadPoolExecutor(max_workers=3) as ex:
        for res in ex.map(run, muts):
            name, expect, rc, clauses, rep = res[:5]
            okk = (rc == 1) if expect else (rc == 0)
            print('%-40s expect=%s exit=%s %s  %s' % (name, 'caught' if expect else 'quiet', rc, 'OK' if okk else '**UNEXPECTED**', clauses), flush=True)
            if not okk and len(res) > 5:
                print('\n'.join(l[:300] for l in res[5].splitlines() if 'violated clause' in l or 'INCONCLUSIVE' in l or 'crash' in l.lower())[:3000], flush=True)
