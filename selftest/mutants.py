"""Seeded faults (must be caught: exit 1) and negative controls (behaviour-preserving edits: exit 0).
Each entry: name, props (checks expected to react), edits = [(file, old, new)] exact single replacement."""
SD = 'eqsig/sdof.py'
PC = 'eqsig/fns/peaks_and_crossings.py'
SG = 'eqsig/single.py'


def mut(name, props, *edits, **kw):
    d = {'name': name, 'props': props, 'edits': list(edits)}
    d.update(kw)
    return d


MUTANTS = [
    # ---- C01 -----------------------------------------------------------------------------------------------------
    mut('c01-t0-row-sign', ['C01'], (SD, 'sdof_acc[0] = acc', 'sdof_acc[0] = -acc')),
    mut('c01-drop-second-order-term-b12', ['C01', 'C02'], (SD, '- one_ov_w2 + two_b_ov_w3\n', '- one_ov_w2\n')),
    mut('c01-acc-i-swapped', ['C01', 'C02'], (SD, "b[0][0] * acc[i] + b[0][1] * acc[i + 1])\n        resp_v", "b[0][0] * acc[i + 1] + b[0][1] * acc[i])\n        resp_v")),
    mut('c01-third-series-w-not-w2', ['C01'], (SD, "    else:\n        sdof_acc = -2 * xi * w[:, np.newaxis] * resp_v[s:] - w2[:, np.newaxis] * resp_u[s:]", "    else:\n        sdof_acc = -2 * xi * w[:, np.newaxis] * resp_v[s:] - w[:, np.newaxis] * resp_u[s:]")),
    mut('c01-a21-sign', ['C01'], (SD, 'a_21 = -w / sqrt_b2 * exp_b * sin_wsqrt', 'a_21 = w / sqrt_b2 * exp_b * sin_wsqrt')),
    mut('c01-exp-damping-half', ['C01'], (SD, 'exp_b = np.exp(-xi * w * dt)', 'exp_b = np.exp(-0.5 * xi * w * dt)')),
    mut('c01-b22-term', ['C01'], (SD, ') - one_ov_w2 / dt\n', ') - one_ov_w2\n')),
    mut('c01-s-offset-row-shift', ['C01', 'C03'], (SD, "    if periods[0] == 0:\n        s = 1\n    else:\n        s = 0\n    w = 6.2831853", "    if periods[0] == 0:\n        s = 1\n    else:\n        s = 0\n    periods = np.sort(periods)\n    w = 6.2831853")),
    # ---- C11 -----------------------------------------------------------------------------------------------------
    mut('c11-sign-test-le', ['C11'], (PC, 'peak_indices = np.where(np.sign(diff[1:]) * np.sign(diff[:-1]) < 0)[0]', 'peak_indices = np.where(np.sign(diff[1:]) * np.sign(diff[:-1]) <= 0)[0]')),
    mut('c11-drop-last-index', ['C11'], (PC, "    peak_indices = np.insert(peak_indices, len(peak_indices), len(values) - 1)\n\n    return peak_indices", "    return peak_indices")),
    mut('c11-max-min-parity', ['C11'], (PC, "        if first_move > 0:\n            return peak_full_indices[1::2]", "        if first_move > 0:\n            return peak_full_indices[::2]")),
    mut('c11-svalue-sign', ['C11'], (PC, 'svalue = -0.25', 'svalue = 0.25')),
    mut('c11-ncyc-all-shifted', ['C11'], (PC, 'n_cycs[1:] += svalue', 'n_cycs[:] += svalue')),
    mut('c11-F8-regress', ['C11'], (PC, "first_move = values[peak_full_indices[1]] - values[peak_full_indices[0]]", "first_move = values[1] - values[0]")),
    mut('c11-isclose-plateau', ['C11', 'C13'], (PC, 'non_zero_indices = np.where(diff_values != 0)[0]', 'non_zero_indices = np.where(~np.isclose(diff_values, 0))[0]')),
    # ---- C12 -----------------------------------------------------------------------------------------------------
    mut('c12-sign-switch-le', ['C12'], (PC, 'through_zero_indices = np.where(sign_switch < 0)[0]', 'through_zero_indices = np.where(sign_switch <= 0)[0]')),
    mut('c12-adjacent-ge', ['C12'], (PC, 'no_adj_is = np.where(diff_is > 1)[0]', 'no_adj_is = np.where(diff_is >= 1)[0]')),
    mut('c12-missing-index0', ['C12'], (PC, "    if all_zc_indices[0] != 0:\n        all_zc_indices = np.insert(all_zc_indices, 0, 0)  # slow\n", "")),
    mut('c12-halfcycle-strict', ['C12'], (PC, 'if np.sign(adj_val) * np.sign(last) <= 0:', 'if np.sign(adj_val) * np.sign(last) < 0:')),
    mut('c12-argmax-no-abs', ['C12'], (PC, "            i_max_set = np.argmax(np.abs(peak_values_set))\n            new_peak_indices.append(peak_indices_set[i_max_set])\n\n            last", "            i_max_set = np.argmax(peak_values_set)\n            new_peak_indices.append(peak_indices_set[i_max_set])\n\n            last")),
    mut('c12-drop-add-last', ['C12'], (PC, "    if len(peak_values_set):  # add last\n        i_max_set = np.argmax(np.abs(peak_values_set))\n        new_peak_indices.append(peak_indices_set[i_max_set])\n", "    if False:\n        pass\n")),
    mut('c12-F9-regress', ['C12'], (PC, 'peak_values_set = [peak_values[0]]', 'peak_values_set = [0]')),
    mut('c12-tol-sign', ['C12'], (PC, 'adj_val = peak_values[i] + tol * sgn', 'adj_val = peak_values[i] - tol * sgn')),
]

CONTROLS = [
    mut('ctl-2pi-exact', ['C01', 'C02', 'C03'], (SD, 'w = 6.2831853 / periods[s:]', 'w = 2 * np.pi / periods[s:]'), control=True),
    mut('ctl-transposed-state', ['C01'], (SD, "    acc = -np.array(acc, dtype=float)\n", "    acc = -np.array(acc, dtype=float, copy=True)\n"), control=True),
    mut('ctl-flatnonzero', ['C11', 'C12', 'C13'], (PC, 'non_zero_indices = np.where(diff_values != 0)[0]', 'non_zero_indices = np.flatnonzero(diff_values != 0)'), control=True),
    mut('ctl-peaks-argwhere', ['C11'], (PC, 'peak_indices = np.where(np.sign(diff[1:]) * np.sign(diff[:-1]) < 0)[0]', 'peak_indices = np.flatnonzero((np.sign(diff[1:]) * np.sign(diff[:-1])) < 0)'), control=True),
]

MUTANTS += [
    # ---- C02 -----------------------------------------------------------------------------------------------------
    mut('c02-state-carried-between-periods', ['C02'], (SD, "a[0][0] * resp_u[s:, i] + a[0][1] * resp_v[s:, i] + b[0][0] * acc[i]", "a[0][0] * np.roll(resp_u[s:, i], 1) + a[0][1] * resp_v[s:, i] + b[0][0] * acc[i]")),
    mut('c02-noncausal-read', ['C02', 'C01'], (SD, "resp_v[s:, i + 1] = (a[1][0] * resp_u[s:, i] + a[1][1] * resp_v[s:, i] + b[1][0] * acc[i] + b[1][1] * acc[i + 1])", "resp_v[s:, i + 1] = (a[1][0] * resp_u[s:, i] + a[1][1] * resp_v[s:, i] + b[1][0] * acc[i] + b[1][1] * acc[min(i + 2, len(acc) - 1)])")),
    mut('c02-initial-state-nonzero(linear in acc: invisible to C02 relations)', ['C01'], (SD, "    resp_v = np.zeros([len(periods), len(acc)], dtype=float)\n", "    resp_v = np.zeros([len(periods), len(acc)], dtype=float)\n    resp_u[s:, 0] = acc[0] * 1e-3 / w ** 2\n")),
    mut('c02-abs-before-recurrence', ['C02', 'C01'], (SD, "    acc = -np.array(acc, dtype=float)\n", "    acc = -np.abs(np.array(acc, dtype=float))\n")),
    mut('c02-w-sorted-rows-not', ['C02', 'C01'], (SD, "    w = 6.2831853 / periods[s:]\n", "    w = np.sort(6.2831853 / periods[s:])[::-1]\n")),
    mut('c02-soft-nonlinearity', ['C02'], (SD, "    acc = -np.array(acc, dtype=float)\n", "    acc = -np.array(acc, dtype=float)\n    acc = np.where(np.abs(acc) > 50 * np.mean(np.abs(acc)) + 1e-300, acc * 0.999, acc)\n")),
    mut('c02-spectra-signed-max', ['C02', 'C03'], (SD, "    return abs(np.where(-amin > amax, amin, amax))", "    return np.where(-amin > amax, amin * (1 + 1e-6), amax)")),
]
CONTROLS += [
    mut('ctl-blockwise-periods', ['C02', 'C01'], (SD, "    a, b = compute_a_and_b(xi, w, dt)\n", "    a, b = compute_a_and_b(xi, w * 1.0, dt)\n"), control=True),
]

MUTANTS += [
    # ---- C04: every single cache-invalidation line -------------------------------------------------------------------
    mut('c04-Signal.clear_cache-smooth', ['C04'], (SG, '        """Resets the dynamically calculated properties."""\n        self._cached_smooth_fa = False\n', '        """Resets the dynamically calculated properties."""\n')),
    mut('c04-Signal.clear_cache-fa', ['C04', 'C06'], (SG, '        """Resets the dynamically calculated properties."""\n        self._cached_smooth_fa = False\n        self._cached_fa = False\n', '        """Resets the dynamically calculated properties."""\n        self._cached_smooth_fa = False\n')),
    mut('c04-Acc.clear_cache-smooth', ['C04'], (SG, "    def clear_cache(self):\n        self._cached_smooth_fa = False\n        self._cached_fa = False\n        self._cached_response_spectra = False", "    def clear_cache(self):\n        self._cached_fa = False\n        self._cached_response_spectra = False")),
    mut('c04-Acc.clear_cache-fa', ['C04', 'C06'], (SG, "    def clear_cache(self):\n        self._cached_smooth_fa = False\n        self._cached_fa = False\n        self._cached_response_spectra = False", "    def clear_cache(self):\n        self._cached_smooth_fa = False\n        self._cached_response_spectra = False")),
    mut('c04-Acc.clear_cache-resp', ['C04', 'C02'], (SG, "        self._cached_response_spectra = False\n        self._cached_disp_and_velo = False\n        self.__dict__.pop", "        self._cached_disp_and_velo = False\n        self.__dict__.pop")),
    mut('c04-Acc.clear_cache-veldisp', ['C04', 'C08'], (SG, "        self._cached_response_spectra = False\n        self._cached_disp_and_velo = False\n        self.__dict__.pop", "        self._cached_response_spectra = False\n        self.__dict__.pop")),
    mut('c04-Acc.clear_cache-stats', ['C04', 'C08'], (SG, "  # Stockwell transform memoised by eqsig.stockwell\n        self.reset_all_motion_stats()", "  # Stockwell transform memoised by eqsig.stockwell")),
    mut('c15-F38-regress-swtf-survives-mutation', ['C15'], (SG, "        self._cached_disp_and_velo = False\n        self.__dict__.pop(\"swtf\", None)  # Stockwell transform memoised by eqsig.stockwell\n", "        self._cached_disp_and_velo = False\n")),
    mut('c04-reset_all_motion_stats-params', ['C04', 'C08'], (SG, "        self.arias_intensity = 0.0\n        self._cached_params = {}", "        self.arias_intensity = 0.0")),
    mut('c04-remove_rolling_average-no-clear', ['C04'], (SG, "            self._values -= roll\n        self.clear_cache()", "            self._values -= roll")),
    mut('c04-rebase_displacement-no-clear', ['C04'], (SG, "        self._values -= acceleration_correction\n        self.clear_cache()", "        self._values -= acceleration_correction")),
    mut('c04-setter-smooth_fa_frequencies', ['C04'], (SG, "        self._smooth_fa_freqs = np.array(frequencies, dtype=float)\n        self._cached_smooth_fa = False", "        self._smooth_fa_freqs = np.array(frequencies, dtype=float)")),
    mut('c04-setter-smooth_fa_freqs', ['C04'], (SG, "        self._smooth_fa_freqs = np.array(freqs, dtype=float)\n        self._cached_smooth_fa = False", "        self._smooth_fa_freqs = np.array(freqs, dtype=float)")),
    mut('c04-set_by_range-no-invalidate', ['C04'], (SG, "        self._smooth_freq_range = np.array(limits)\n        self._cached_smooth_fa = False", "        self._smooth_freq_range = np.array(limits)")),
    mut('c04-reset_values-npts', ['C04', 'C05'], (SG, "        self._npts = len(self._values)\n        self.clear_cache()", "        self.clear_cache()")),
    mut('c04-F2-regress', ['C04'], (SG, "        self._response_times = values\n        self._cached_response_spectra = False", "        self._response_times = values")),
    mut('c04-reset_values-skips-clear-when-same-length', ['C04', 'C06'], (SG, "        self._npts = len(self._values)\n        self.clear_cache()", "        if len(self._values) != self._npts:\n            self.clear_cache()\n        self._npts = len(self._values)")),
    mut('c04-pga-cached-across-add_constant', ['C04', 'C08'], (SG, "        self.reset_values(self.values + constant)", "        keep = dict(getattr(self, '_cached_params', {}))\n        self.reset_values(self.values + constant)\n        if 'pgv' in keep:\n            self._cached_params['pgv'] = keep['pgv']")),
]
CONTROLS += [
    mut('ctl-clear-cache-reordered', ['C04'], (SG, "        self._cached_response_spectra = False\n        self._cached_disp_and_velo = False\n        self.__dict__.pop", "        self._cached_disp_and_velo = False\n        self._cached_response_spectra = False\n        self.__dict__.pop"), control=True),
]

MUTANTS += [
    # ---- C03 -----------------------------------------------------------------------------------------------------
    mut('c03-cut-6-to-5-pseudo', ['C03'], (SD, "    sas = w ** 2 * sds\n    sas = np.where(periods < dt * 6, absmax(motion), sas)", "    sas = w ** 2 * sds\n    sas = np.where(periods < dt * 5, absmax(motion), sas)")),
    mut('c03-cut-6-to-7-true', ['C03'], (SD, "    sds = absmax(resp_u, axis=1)\n    sas = np.where(periods < dt * 6, absmax(motion), sas)", "    sds = absmax(resp_u, axis=1)\n    sas = np.where(periods < dt * 7, absmax(motion), sas)")),
    mut('c03-lt-to-le-at-6dt', ['C03'], (SD, "    sas = w ** 2 * sds\n    sas = np.where(periods < dt * 6, absmax(motion), sas)", "    sas = w ** 2 * sds\n    sas = np.where(periods <= dt * 6, absmax(motion), sas)")),
    mut('c03-true-sv-from-u', ['C03'], (SD, "    svs = absmax(resp_v, axis=1)\n    sds = absmax(resp_u, axis=1)", "    svs = absmax(resp_u, axis=1)\n    sds = absmax(resp_u, axis=1)")),
    mut('c03-absmax-signed', ['C03'], (SD, "    return abs(np.where(-amin > amax, amin, amax))", "    return np.where(-amin > amax, amin, amax)")),
    mut('c03-absmax-ignores-min', ['C03', 'C02'], (SD, "    return abs(np.where(-amin > amax, amin, amax))", "    return abs(amax)")),
    mut('c03-w0-placeholder-leaks', ['C03'], (SD, "    sas = np.where(periods < dt * 6, absmax(motion), sas)\n    return sds, svs, sas\n\n\ndef response_series", "    sas = np.where((periods < dt * 6) & (periods > 0), absmax(motion), sas)\n    return sds, svs, sas\n\n\ndef response_series")),
    mut('c03-target-step-div10', ['C03'], (SG, "target_dt = max(min_non_zero_period / 20, self.dt / min_dt_ratio)", "target_dt = max(min_non_zero_period / 10, self.dt / min_dt_ratio)")),
    mut('c03-min_dt_ratio-ignored', ['C03'], (SG, "target_dt = max(min_non_zero_period / 20, self.dt / min_dt_ratio)", "target_dt = max(min_non_zero_period / 20, self.dt / 4)")),
    mut('c03-energy-uses-u', ['C03'], (SD, "        return np.sum(acc_signal.values * resp_v * acc_signal.dt, axis=1)", "        return np.sum(acc_signal.values * resp_u * acc_signal.dt, axis=1)")),
    mut('c03-uke-no-abs', ['C03'], (SD, "    cum_delta_energy = np.sum(abs(delta_energy), axis=1)", "    cum_delta_energy = np.sum(delta_energy, axis=1)")),
    mut('c03-psv-uses-lib-w', ['C03'], (SD, "        s = 0\n        w = 2 * np.pi / periods\n    resp_u", "        s = 0\n        w = 6.28 / periods\n    resp_u")),
    mut('c03-F1-regress', ['C03'], (SD, "    periods = np.array(periods, dtype=float)\n    resp_u, resp_v, resp_a = nigam_and_jennings_response(motion, dt, periods, xi)\n    sas = absmax(resp_a, axis=1)", "    resp_u, resp_v, resp_a = nigam_and_jennings_response(motion, dt, periods, xi)\n    sas = absmax(resp_a, axis=1)")),
    mut('c03-interp-even-true', ['C03'], (SG, "interp_array_to_approx_dt(self.values, self.dt, target_dt, even=False)", "interp_array_to_approx_dt(self.values[:-1], self.dt, target_dt, even=False)")),
]
CONTROLS += [
    mut('ctl-absmax-via-abs', ['C03', 'C02'], (SD, "    return abs(np.where(-amin > amax, amin, amax))", "    return np.maximum(np.abs(amin), np.abs(amax))"), control=True),
]

AV = 'eqsig/fns/average.py'
SF = 'eqsig/surface.py'
DP = 'eqsig/displacements.py'
MUTANTS += [
    # ---- C05: every defensive copy ---------------------------------------------------------------------------------------
    mut('c05-delta-series-asarray', ['C05'], (PC, "    >>> determine_peaks_only_delta_series(values)\n    array([0,  2, -1,  1,  0,  -1,  0,  -2,  0,  2,  0])\n    \"\"\"\n    # enforce array type\n    values = np.array(values, dtype=float)", "    >>> determine_peaks_only_delta_series(values)\n    array([0,  2, -1,  1,  0,  -1,  0,  -2,  0,  2,  0])\n    \"\"\"\n    # enforce array type\n    values = np.asarray(values, dtype=float)")),
    mut('c05-pseudo-cyclic-asarray', ['C05'], (PC, "    array([0,  2, -1,  2,  0,  1,  0,  1,  0,  1,  0])\n    \"\"\"\n    # enforce array type\n    values = np.array(values, dtype=float)", "    array([0,  2, -1,  2,  0,  1,  0,  1,  0,  1,  0])\n    \"\"\"\n    # enforce array type\n    values = np.asarray(values, dtype=float)")),
    mut('c05-ctor-asarray', ['C05', 'C08'], (SG, "        self._values = np.array(values)\n        if self._values.dtype.kind in 'iub':  # integer counts", "        self._values = np.asarray(values)\n        if self._values.dtype.kind in 'iub':  # integer counts")),
    mut('c05-F3-regress', ['C05', 'C18'], (SG, "        self._values = np.array(new_values)\n        if self._values.dtype.kind in 'iub':\n            self._values = self._values.astype(float)\n        self._npts = len(self._values)", "        self._values = new_values\n        self._npts = len(new_values)")),
    mut('c05-reset-asarray', ['C05'], (SG, "        self._values = np.array(new_values)\n        if self._values.dtype.kind in 'iub':\n            self._values = self._values.astype(float)\n        self._npts", "        self._values = np.asarray(new_values)\n        if self._values.dtype.kind in 'iub':\n            self._values = self._values.astype(float)\n        self._npts")),
    mut('c05-surface-downwaves-view', ['C05', 'C19'], (SF, "    up_wave = np.pad(asig.values, (0, max_shift), mode='constant', constant_values=0)\n    dshifted = np.arange(asig.npts + max_shift)[np.newaxis, :] - shifts[:, np.newaxis]  # TODO: not needed if shifts is scalar\n    down_waves = np.interp(dshifted, np.arange(asig.npts), asig.values, left=0, right=0)\n    if hasattr(up_red, '__len__'):\n        up_wave = up_wave[np.newaxis, :] * up_red[:, np.newaxis]  # 1d\n        down_waves *= down_red[:, np.newaxis]\n    else:\n        up_wave = up_wave * up_red  # 1d  # TODO: may need to increase dimensions here\n        down_waves *= down_red\n    if nodal:\n        acc_series = - down_waves + up_wave\n    else:\n        acc_series = down_waves + up_wave\n    velocity", "    up_wave = np.pad(asig.values, (0, max_shift), mode='constant', constant_values=0)\n    dshifted = np.arange(asig.npts + max_shift)[np.newaxis, :] - shifts[:, np.newaxis]  # TODO: not needed if shifts is scalar\n    down_waves = np.interp(dshifted, np.arange(asig.npts), asig.values, left=0, right=0)\n    if hasattr(up_red, '__len__'):\n        up_wave = up_wave[np.newaxis, :] * up_red[:, np.newaxis]  # 1d\n        down_red *= 1.0\n        down_waves *= down_red[:, np.newaxis]\n        down_red[0] *= 0.5\n    else:\n        up_wave = up_wave * up_red  # 1d  # TODO: may need to increase dimensions here\n        down_waves *= down_red\n    if nodal:\n        acc_series = - down_waves + up_wave\n    else:\n        acc_series = down_waves + up_wave\n    velocity")),
    mut('c05-cumsum-out-argument', ['C05', 'C08'], (DP, "        velocity = np.zeros(len(acceleration) + 1)\n        velocity[1:] = np.asarray(acceleration) * dt  # computes the increments", "        velocity = np.zeros(len(acceleration) + 1)\n        if isinstance(acceleration, np.ndarray) and acceleration.dtype == float:\n            acceleration *= dt\n            velocity[1:] = acceleration\n        else:\n            velocity[1:] = np.asarray(acceleration) * dt  # computes the increments")),
    mut('c05-step-fn-asarray-inplace', ['C05'], (AV, "    values = np.array(values)\n    npts = len(values)\n    pre_a", "    values = np.asarray(values)\n    npts = len(values)\n    pre_a"), (AV, "    err[-1] = np.sum(np.abs(values - np.mean(values)) ** pow)", "    if values.dtype == float:\n        values -= np.mean(values)\n        err[-1] = np.sum(np.abs(values) ** pow)\n    else:\n        err[-1] = np.sum(np.abs(values - np.mean(values)) ** pow)")),
    mut('c05-rollav-inplace-edge', ['C05', 'C20'], (AV, "    values = np.array(values)\n    steps = int(steps)", "    values = np.asarray(values)\n    steps = int(steps)\n    if values.dtype == float and steps > len(values):\n        values[-1] = values[-2]")),
    mut('c05-npts-stale-after-reset(seeded C05-A like)', ['C05', 'C04'], (SG, "            self._values = self._values.astype(float)\n        self._npts = len(self._values)\n        self.clear_cache()", "            self._values = self._values.astype(float)\n        self.clear_cache()")),
    mut('c05-remove_poly-fn-inplace', ['C05', 'C17'], ('eqsig/fns/generic.py', "    return values - y_cor", "    values -= y_cor\n    return values")),
    mut('c05-stockwell-overwrite-input', ['C05', 'C15'], ('eqsig/stockwell.py', "    acc_db = acc\n    n_d2 = int(len(acc) / 2)\n    n_factor = 2 * n_d2\n    gaussian = generate_gaussian(n_d2)\n\n    fa = fft(acc_db, n_factor, overwrite_x=True)", "    acc_db = acc\n    n_d2 = int(len(acc) / 2)\n    n_factor = 2 * n_d2\n    gaussian = generate_gaussian(n_d2)\n    if isinstance(acc_db, np.ndarray) and acc_db.dtype == float:\n        acc_db -= 0 * acc_db[0]\n        acc_db[-1:] *= 1.0 + 1e-15\n\n    fa = fft(acc_db, n_factor, overwrite_x=True)")),
    mut('c05-values-become-list-in-time_match', ['C05', 'C18'], ('eqsig/multiple.py', "                slave_signal.reset_values(m_temp)", "                slave_signal._values = m_temp\n                slave_signal.clear_cache()")),
]
CONTROLS += [
    mut('ctl-ctor-copy-true', ['C05', 'C08', 'C16'], (SG, "        self._values = np.array(values)\n        if self._values.dtype.kind in 'iub':  # integer counts", "        self._values = np.array(values, copy=True)\n        if self._values.dtype.kind in 'iub':  # integer counts"), control=True),
]


IM = 'eqsig/im.py'
MUTANTS += [
    # ---- regressions of the integer repairs (audit round) ----------------------------------------------------------------
    mut('F27-regress-absmax-int', ['C03'], (SD, "    a = np.asarray(a, dtype=float)\n    amax = a.max(axis)", "    a = np.asarray(a)\n    amax = a.max(axis)")),
    mut('F28-regress-integration-int', ['C08'], (DP, "    if acceleration.dtype.kind in 'iub':  # integer counts: a[i] + a[i-1] overflows narrow integer types\n        acceleration = acceleration.astype(float)\n", "")),
    mut('F29-regress-signal-keeps-int', ['C17', 'C09', 'C10', 'C18'], (SG, "        if self._values.dtype.kind in 'iub':  # integer counts: never compute in a fixed-width integer type\n            self._values = self._values.astype(float)\n", "")),
    mut('F30-regress-sigdurvals-int', ['C10'], (IM, "    cum_acc2 = np.cumsum(np.asarray(motion, dtype=float) ** 2)", "    cum_acc2 = np.cumsum(np.asarray(motion) ** 2)")),
    mut('F31-regress-peakonly-int', ['C13'], (PC, "    # enforce array type\n    values = np.array(values, dtype=float)\n    # rebase to zero as first value", "    # enforce array type\n    values = np.array(values)\n    # rebase to zero as first value")),
    mut('F33-regress-chfactor-int', ['C20'], ('eqsig/design_spectra.py', "        tt = float(period[i])\n", "        tt = period[i]\n")),
    mut('F34-regress-interp2d-int', ['C20'], ('eqsig/fns/generic.py', "    x = np.asarray(x, dtype=float)\n    xf = np.asarray(xf, dtype=float)\n", "")),
    mut('F35-regress-surface-int-travel-times', ['C19'], (SF, "    shifts = 2.0 * travel_times / asig.dt\n    max_shift = int(np.max(shifts))\n    up_wave = np.pad(asig.values, (0, max_shift), mode='constant', constant_values=0)\n    dshifted = np.arange(asig.npts + max_shift)[np.newaxis, :] - shifts[:, np.newaxis]  # TODO: not needed if shifts is scalar\n    down_waves = np.interp(dshifted, np.arange(asig.npts), asig.values, left=0, right=0)\n    if hasattr(up_red, '__len__'):\n        up_wave = up_wave[np.newaxis, :] * up_red[:, np.newaxis]  # 1d\n        down_waves *= down_red[:, np.newaxis]\n    else:\n        up_wave = up_wave * up_red  # 1d  # TODO: may need to increase dimensions here\n        down_waves *= down_red\n    if nodal:\n        acc_series = - down_waves + up_wave\n    else:\n        acc_series = down_waves + up_wave\n    velocity", "    shifts = 2 * travel_times / asig.dt\n    max_shift = int(np.max(shifts))\n    up_wave = np.pad(asig.values, (0, max_shift), mode='constant', constant_values=0)\n    dshifted = np.arange(asig.npts + max_shift)[np.newaxis, :] - shifts[:, np.newaxis]  # TODO: not needed if shifts is scalar\n    down_waves = np.interp(dshifted, np.arange(asig.npts), asig.values, left=0, right=0)\n    if hasattr(up_red, '__len__'):\n        up_wave = up_wave[np.newaxis, :] * up_red[:, np.newaxis]  # 1d\n        down_waves *= down_red[:, np.newaxis]\n    else:\n        up_wave = up_wave * up_red  # 1d  # TODO: may need to increase dimensions here\n        down_waves *= down_red\n    if nodal:\n        acc_series = - down_waves + up_wave\n    else:\n        acc_series = down_waves + up_wave\n    velocity")),
    mut('F36-regress-calc_peak-int', ['C08'], (IM, "    \"\"\"Calculates the peak absolute response\"\"\"\n    return max(abs(float(min(motion))), float(max(motion)))\n\n\ndef calc_sir", "    \"\"\"Calculates the peak absolute response\"\"\"\n    return max(abs(min(motion)), max(motion))\n\n\ndef calc_sir")),
    mut('F37-regress-smooth-int-abs', ['C07'], ('eqsig/fns/frequency.py', "np.abs(fa_spectrum * 1.0)[:, np.newaxis]", "abs(fa_spectrum)[:, np.newaxis]")),
]

# ---- wave-4 follow-ups: derived objects, object-level purity, returned-object ownership, refinement at the object level -----------
MU = 'eqsig/multiple.py'
IM = 'eqsig/im.py'
TS = 'eqsig/fns/time_step.py'
MUTANTS += [
    mut('c04-combine-inherits-pga-memo', ['C04'], (MU, "    new_sig = AccSignal(combo, acc_sig_ns.dt)\n    return new_sig",
        "    new_sig = AccSignal(combo, acc_sig_ns.dt)\n    if getattr(acc_sig_we, '_cached_params', None) and 'pga' in acc_sig_we._cached_params and angle == 0:\n        new_sig._cached_params['pga'] = acc_sig_we._cached_params['pga']\n    return new_sig")),
    mut('c05-max-velocity-period-sets-response-times', ['C05'], (IM, "    new_sig = AccSignal(asig.values, asig.dt)\n    new_sig.generate_response_spectrum(response_times=periods, xi=0.15)",
        "    new_sig = asig\n    new_sig.generate_response_spectrum(response_times=periods, xi=0.15)")),
    mut('c05-resample-returns-argument-when-same-dt', ['C05'], (TS, "def resample_to_approx_dt(asig, target_dt=0.01, even=True):",
        "def resample_to_approx_dt(asig, target_dt=0.01, even=True):\n    if asig.dt == target_dt and not (even and asig.npts % 2):\n        return asig")),
    mut('c02-objrefine-trim-by-truncated-factor', ['C02', 'C03'], (SG, "            values_interp, dt_interp = interp_array_to_approx_dt(self.values, self.dt, target_dt, even=False)\n",
        "            values_interp, dt_interp = interp_array_to_approx_dt(self.values, self.dt, target_dt, even=False)\n            values_interp = values_interp[:int(self.dt / dt_interp) * (self.npts - 1) + 1]\n")),
]

# ---- regressions of F39 (sign tests through products that under/overflow) ------------------------------------------------------
MUTANTS += [
    mut('c11-F39-regress', ['C11'], (PC, 'peak_indices = np.where(np.sign(diff[1:]) * np.sign(diff[:-1]) < 0)[0]', 'peak_indices = np.where(diff[1:] * diff[:-1] < 0)[0]')),
    mut('c12-F39-regress-crossings', ['C12'], (PC, 'sign_switch = np.sign(values[1:]) * np.sign(values[:-1])', 'sign_switch = values[1:] * values[:-1]')),
    mut('c12-F39-regress-switched', ['C12'], (PC, 'if np.sign(adj_val) * np.sign(last) <= 0:', 'if adj_val * last <= 0:')),
]
