"""Self-validation of the monitors (DESIGN.md section 7). Not a registered command.

    python selftest/run.py [--tests] [--tier quick] C01 C11 ...      (default: every property with mutants)

For every mutant of selftest/mutants.py: copy /repo's package to a scratch directory outside /repo and /verif, apply the
edit (exact string replacement), optionally run the baseline suite there, run `EQSIG_REPO=<copy> ./check <ID>` and expect
exit 1; for every negative control expect exit 0. The copy is removed afterwards.
"""
import argparse
import os
import shutil
import subprocess
import sys
import tempfile

HERE = os.path.dirname(os.path.abspath(__file__))
sys.path.insert(0, HERE)
import mutants as M  # noqa


def scratch():
    d = tempfile.mkdtemp(prefix='vfmut_')
    shutil.copytree('/repo/eqsig', os.path.join(d, 'eqsig'), ignore=shutil.ignore_patterns('__pycache__'))
    shutil.copytree('/repo/tests', os.path.join(d, 'tests'), ignore=shutil.ignore_patterns('__pycache__'))
    return d


def apply(d, edits):
    for path, old, new in edits:
        p = os.path.join(d, path)
        s = open(p).read()
        if s.count(old) < 1:
            return 'edit does not apply: %s: %r' % (path, old[:60])
        open(p, 'w').write(s.replace(old, new, 1))
    return None


def main():
    ap = argparse.ArgumentParser()
    ap.add_argument('props', nargs='*')
    ap.add_argument('--tests', action='store_true')
    ap.add_argument('--tier', default='quick')
    ap.add_argument('--only')
    a = ap.parse_args()
    rows = []
    for m in M.MUTANTS + M.CONTROLS:
        if a.props and not (set(m['props']) & set(a.props)):
            continue
        if a.only and a.only not in m['name']:
            continue
        d = scratch()
        try:
            err = apply(d, m['edits'])
            if err:
                rows.append((m['name'], '-', 'BROKEN-MUTANT ' + err))
                continue
            tests = ''
            if a.tests:
                r = subprocess.run([sys.executable.replace('python3', 'python'), '-m', 'pytest', '-q', '-p', 'no:cacheprovider', '-x'],
                                   cwd=d, capture_output=True, text=True, executable='/venv/bin/python')
                tests = r.stdout.strip().splitlines()[-1] if r.stdout.strip() else 'no output'
            for p in m['props']:
                if a.props and p not in a.props:
                    continue
                env = dict(os.environ, EQSIG_REPO=d, VERIF_OUT_DIR=os.path.join(d, 'out'))
                r = subprocess.run(['./check', p, '--tier', a.tier], cwd=os.path.dirname(HERE), env=env, capture_output=True, text=True)
                clauses = [l.split()[1] for l in r.stdout.splitlines() if l.startswith('  clause') and 'violated=0' not in l]
                want = 0 if m.get('control') else 1
                verdict = 'ok' if r.returncode == want else 'UNEXPECTED'
                rows.append((m['name'], p, '%s exit=%d expected=%d %s %s' % (verdict, r.returncode, want, ','.join(clauses)[:150], tests)))
                print(rows[-1], flush=True)
        finally:
            shutil.rmtree(d, ignore_errors=True)
    bad = [r for r in rows if 'UNEXPECTED' in r[2] or 'BROKEN' in r[2]]
    print('\n%d runs, %d unexpected' % (len(rows), len(bad)))
    for r in bad:
        print('  ', r)
    return 1 if bad else 0


if __name__ == '__main__':
    sys.exit(main())
