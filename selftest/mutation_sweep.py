"""Systematic first-order mutation sweep (self-validation of the monitors; not a registered check).

For every function a property is anchored in (the functions overlapping the `where` line ranges of properties.jsonl, read in
the commit the ranges were written for, plus the names in `observe_at`), generate first-order mutants of the CURRENT source of
/repo (comparison flips, arithmetic swaps, constant nudges, and<->or, dropped negation / unary minus, negated `if` tests,
ceil<->floor, max<->min, argmax<->argmin, abs() removed, one statement replaced by `pass`), write each into a scratch copy
outside /repo and /verif, run the repository's own tests there (a mutant the tests kill is not a realistic undetected change)
and, if it survives them, run the quick tier of every property anchored in that function with EQSIG_REPO pointing at the
copy. Result per mutant: killed-by-tests / caught (some check exits 1) / survived (all exit 0) / inconclusive.

Survivors are not verdicts: each is triaged by hand (equivalent mutant, outside every statement, or a workload gap).

usage: mutation_sweep.py [--props C11 C12] [--per-function 6] [--seed 0] [--jobs 3] [--limit N] [--out FILE] [--list]
"""
import argparse
import ast
import copy
import json
import os
import random
import shutil
import subprocess
import sys
import tempfile
import time
from concurrent.futures import ThreadPoolExecutor

V = os.path.dirname(os.path.dirname(os.path.abspath(__file__)))
REPO = os.environ.get('SWEEP_REPO', '/repo')
BASE = '82ddaaf'          # the commit the anchors' line ranges refer to
PY = '/venv/bin/python'


def sh(cmd, cwd=None, env=None, timeout=3600):
    try:
        r = subprocess.run(cmd, shell=True, cwd=cwd, env=env, capture_output=True, text=True, timeout=timeout)
        return r.returncode, r.stdout + r.stderr
    except subprocess.TimeoutExpired:
        return 124, 'timeout'


def functions_of(src):
    """{qualname: (first line, last line)} of one module source"""
    out = {}

    def walk(node, prefix):
        for ch in ast.iter_child_nodes(node):
            if isinstance(ch, (ast.FunctionDef, ast.AsyncFunctionDef)):
                q = prefix + ch.name
                out[q] = (ch.lineno, ch.end_lineno)
                walk(ch, q + '.')
            elif isinstance(ch, ast.ClassDef):
                walk(ch, prefix + ch.name + '.')
    walk(ast.parse(src), '')
    return out


def anchored_functions():
    """{property: {file: set(qualnames)}} from the `where` ranges (resolved in the base commit) and observe_at names"""
    res = {}
    for l in open(os.path.join(V, 'properties.jsonl')):
        p = json.loads(l)
        a = p['anchors']
        per = {}
        wheres = [m.get('where', '') for m in a.get('mechanism', []) + a.get('state', [])]
        for w in wheres:
            for part in w.split(', '):
                part = part.strip()
                if ':' not in part:
                    continue
                f, rng = part.split(':', 1)
                f = f.strip()
                if not f.endswith('.py'):
                    continue
                rc, src = sh('git -C %s show %s:%s' % (REPO, BASE, f))
                if rc:
                    continue
                fl = functions_of(src)
                for r in rng.split(','):
                    r = r.strip()
                    if not r:
                        continue
                    try:
                        lo, hi = ([int(t) for t in r.split('-')] + [None])[:2]
                    except ValueError:
                        continue
                    hi = hi or lo
                    for q, (a0, a1) in fl.items():
                        if a0 <= hi and lo <= a1:
                            per.setdefault(f, set()).add(q)
        names = set()
        for o in a.get('observe_at', []):
            for tok in o.replace('(', ' ').replace(')', ' ').replace(',', ' ').replace('/', ' ').split():
                tok = tok.strip('.')
                if tok:
                    names.add(tok.split('.')[-1])
        for f in a.get('files', []):
            path = os.path.join(REPO, f)
            if not os.path.exists(path):
                continue
            for q in functions_of(open(path).read()):
                if q.split('.')[-1] in names and not q.split('.')[-1].startswith('__'):
                    per.setdefault(f, set()).add(q)
        res[p['id']] = per
    return res


class Mutator(ast.NodeTransformer):
    """applies exactly the k-th applicable mutation inside the target function; counts applicable sites when k is None"""
    CMP = {ast.Lt: ast.LtE, ast.LtE: ast.Lt, ast.Gt: ast.GtE, ast.GtE: ast.Gt, ast.Eq: ast.NotEq, ast.NotEq: ast.Eq}
    BIN = {ast.Add: ast.Sub, ast.Sub: ast.Add, ast.Mult: ast.Div, ast.Div: ast.Mult}
    CALLS = {'ceil': 'floor', 'floor': 'ceil', 'max': 'min', 'min': 'max', 'argmax': 'argmin', 'argmin': 'argmax',
             'cumsum': 'cumprod', 'zeros': 'ones'}

    def __init__(self, target, k=None):
        self.target = target
        self.k = k
        self.n = 0
        self.inside = False
        self.desc = None
        self.stack = []

    def hit(self, what, node):
        """True if this site is the one to mutate"""
        i = self.n
        self.n += 1
        if self.k is not None and i == self.k:
            self.desc = '%s at line %d' % (what, getattr(node, 'lineno', 0))
            return True
        return False

    def visit_ClassDef(self, node):
        self.stack.append(node.name)
        self.generic_visit(node)
        self.stack.pop()
        return node

    def visit_FunctionDef(self, node):
        self.stack.append(node.name)
        q = '.'.join(self.stack)
        was = self.inside
        if q == self.target:
            self.inside = True
            # skip the docstring
            body = node.body
            start = 1 if body and isinstance(body[0], ast.Expr) and isinstance(getattr(body[0], 'value', None), ast.Constant) and isinstance(body[0].value.value, str) else 0
            node.body = body[:start] + [self.visit_stmt(s) for s in body[start:]]
            node.body = [s for s in node.body if s is not None]
        else:
            self.generic_visit(node)
        self.inside = was
        self.stack.pop()
        return node

    def visit_stmt(self, s):
        if self.inside and isinstance(s, (ast.Assign, ast.AugAssign, ast.Expr)) and not self._is_print_or_doc(s):
            if self.hit('statement -> pass: %s' % ast.unparse(s)[:70], s):
                return ast.copy_location(ast.Pass(), s)
        if self.inside and isinstance(s, ast.If) and not self._verbose_test(s.test):
            if self.hit('if-test negated: %s' % ast.unparse(s.test)[:60], s):
                s.test = ast.UnaryOp(op=ast.Not(), operand=s.test)
                ast.fix_missing_locations(s)
                return s
        if isinstance(s, ast.Raise):
            return s                      # messages and exception types are not behaviour the properties speak about
        for field, old in ast.iter_fields(s):
            if isinstance(old, list):
                new = []
                for x in old:
                    if isinstance(x, ast.stmt):
                        x = self.visit_stmt(x)
                    elif isinstance(x, ast.AST):
                        x = self.visit(x)
                    if x is not None:
                        new.append(x)
                setattr(s, field, new)
            elif isinstance(old, ast.AST):
                setattr(s, field, self.visit(old))
        return s

    @staticmethod
    def _is_print_or_doc(s):
        if isinstance(s, ast.Expr):
            v = s.value
            if isinstance(v, ast.Constant):
                return True
            if isinstance(v, ast.Call) and isinstance(v.func, ast.Name) and v.func.id in ('print',):
                return True
            if isinstance(v, ast.Call) and 'deprecation' in ast.unparse(v.func):
                return True
        return False

    @staticmethod
    def _verbose_test(t):
        return 'verbose' in ast.unparse(t)

    def visit_Compare(self, node):
        self.generic_visit(node)
        if self.inside:
            for i, op in enumerate(node.ops):
                if type(op) in self.CMP and self.hit('%s -> %s in %s' % (type(op).__name__, self.CMP[type(op)].__name__, ast.unparse(node)[:60]), node):
                    node.ops[i] = self.CMP[type(op)]()
        return node

    def visit_BinOp(self, node):
        self.generic_visit(node)
        if self.inside and type(node.op) in self.BIN and not (isinstance(node.left, ast.Constant) and isinstance(node.left.value, str)):
            if self.hit('%s -> %s in %s' % (type(node.op).__name__, self.BIN[type(node.op)].__name__, ast.unparse(node)[:60]), node):
                node.op = self.BIN[type(node.op)]()
        return node

    def visit_BoolOp(self, node):
        self.generic_visit(node)
        if self.inside and self.hit('%s <-> other in %s' % (type(node.op).__name__, ast.unparse(node)[:60]), node):
            node.op = ast.Or() if isinstance(node.op, ast.And) else ast.And()
        return node

    def visit_UnaryOp(self, node):
        self.generic_visit(node)
        if self.inside and isinstance(node.op, (ast.USub, ast.Not)) and not isinstance(node.operand, ast.Constant):
            if self.hit('%s dropped in %s' % (type(node.op).__name__, ast.unparse(node)[:60]), node):
                return node.operand
        return node

    def visit_Constant(self, node):
        if self.inside and isinstance(node.value, (int, float)) and not isinstance(node.value, bool):
            v = node.value
            if self.hit('constant %r -> %r' % (v, self._nudge(v)), node):
                return ast.copy_location(ast.Constant(self._nudge(v)), node)
        return node

    @staticmethod
    def _nudge(v):
        if isinstance(v, int):
            return v + 1
        return v * 1.05 if v != 0 else 0.05

    def visit_Call(self, node):
        self.generic_visit(node)
        if self.inside:
            name = node.func.attr if isinstance(node.func, ast.Attribute) else (node.func.id if isinstance(node.func, ast.Name) else None)
            if name in self.CALLS and self.hit('%s -> %s in %s' % (name, self.CALLS[name], ast.unparse(node)[:60]), node):
                if isinstance(node.func, ast.Attribute):
                    node.func.attr = self.CALLS[name]
                else:
                    node.func.id = self.CALLS[name]
            elif name in ('abs', 'absolute', 'fabs') and len(node.args) == 1 and self.hit('abs() removed in %s' % ast.unparse(node)[:60], node):
                return node.args[0]
        return node

    def visit_Raise(self, node):
        return node


def mutants_of(path, qual):
    src = open(path).read()
    tree = ast.parse(src)
    m = Mutator(qual)
    m.visit(copy.deepcopy(tree))
    return src, m.n


def make_mutant(src, qual, k):
    tree = ast.parse(src)
    m = Mutator(qual, k)
    new = m.visit(tree)
    ast.fix_missing_locations(new)
    try:
        out = ast.unparse(new)
        compile(out, 'mutant', 'exec')
    except Exception:
        return None, None
    return out, m.desc


def run_one(job):
    f, qual, k, props, src = job
    out, desc = make_mutant(src, qual, k)
    rec = {'file': f, 'function': qual, 'site': k, 'mutation': desc, 'properties': props}
    if out is None or desc is None:
        rec['status'] = 'not-applicable'
        return rec
    try:
        if ast.dump(ast.parse(out)) == ast.dump(ast.parse(src)):
            rec['status'] = 'not-applicable'
            return rec
    except Exception:
        pass
    d = tempfile.mkdtemp(prefix='msweep_')
    try:
        shutil.copytree(os.path.join(REPO, 'eqsig'), d + '/eqsig', ignore=shutil.ignore_patterns('__pycache__'))
        shutil.copytree(os.path.join(REPO, 'tests'), d + '/tests', ignore=shutil.ignore_patterns('__pycache__'))
        open(os.path.join(d, f), 'w').write(out)
        t = time.time()
        rc, o = sh('%s -m pytest -q -x -p no:cacheprovider --timeout=300' % PY, cwd=d, timeout=900)
        rec['tests_s'] = round(time.time() - t, 1)
        if rc != 0:
            rec['status'] = 'killed-by-tests'
            return rec
        rec['checks'] = {}
        status = 'survived'
        for p in props:
            env = dict(os.environ, EQSIG_REPO=d, VERIF_OUT_DIR=d + '/out', VERIF_LINEREACH='0')
            t = time.time()
            rc, o = sh('./check %s --tier quick' % p, cwd=V, env=env, timeout=3600)
            clauses = [l.split('ok=')[0].replace('clause', '').strip() for l in o.splitlines() if l.startswith('  clause') and 'violated=0' not in l]
            rec['checks'][p] = {'exit': rc, 'violated': clauses[:6], 'wall_s': round(time.time() - t, 1)}
            if rc == 1:
                status = 'caught'
                if not os.environ.get('SWEEP_ALL_CHECKS'):
                    break
            elif rc != 0 and status != 'caught':
                status = 'inconclusive'
        rec['status'] = status
        return rec
    finally:
        shutil.rmtree(d, ignore_errors=True)


def main():
    ap = argparse.ArgumentParser()
    ap.add_argument('--props', nargs='*')
    ap.add_argument('--per-function', type=int, default=6)
    ap.add_argument('--seed', type=int, default=0)
    ap.add_argument('--jobs', type=int, default=3)
    ap.add_argument('--limit', type=int, default=0)
    ap.add_argument('--out', default=os.path.join(tempfile.gettempdir(), 'mutation_sweep.json'))
    ap.add_argument('--list', action='store_true')
    ap.add_argument('--start', type=int, default=0, help='resume: skip the first N selected mutants')
    ap.add_argument('--skip-props', nargs='*', default=[], help='do not run these (expensive) checks; mutants left without a check are dropped')
    a = ap.parse_args()
    af = anchored_functions()
    props = a.props or sorted(af)
    # function -> properties
    fmap = {}
    for p in props:
        for f, qs in af.get(p, {}).items():
            for q in qs:
                fmap.setdefault((f, q), []).append(p)
    rnd = random.Random(a.seed)
    jobs = []
    for (f, q), ps in sorted(fmap.items()):
        path = os.path.join(REPO, f)
        cur = functions_of(open(path).read())
        if q not in cur:
            continue
        src, n = mutants_of(path, q)
        ks = list(range(n))
        rnd.shuffle(ks)
        for k in sorted(ks[:a.per_function]):
            jobs.append((f, q, k, sorted(ps, key=lambda p: (p in ('C04', 'C05'), p)), src))
    if a.limit:
        rnd.shuffle(jobs)
        jobs = jobs[:a.limit]
    jobs = jobs[a.start:]
    if a.skip_props:
        jobs = [(f, q, k, [p for p in ps if p not in a.skip_props], src) for f, q, k, ps, src in jobs]
        jobs = [j for j in jobs if j[3]]
    print('%d functions, %d mutants selected' % (len(fmap), len(jobs)))
    if a.list:
        for f, q, k, ps, src in jobs:
            print(f, q, k, ps, make_mutant(src, q, k)[1])
        return
    res = []
    t0 = time.time()
    with ThreadPoolExecutor(max_workers=a.jobs) as ex:
        for i, rec in enumerate(ex.map(run_one, jobs)):
            res.append(rec)
            print('[%d/%d %.0fs] %-15s %s %s :: %s %s' % (i + 1, len(jobs), time.time() - t0, rec['status'], rec['file'], rec['function'],
                                                       rec.get('mutation'), {p: c['exit'] for p, c in rec.get('checks', {}).items()}), flush=True)
            json.dump(res, open(a.out, 'w'), indent=1)
    tally = {}
    for r in res:
        tally[r['status']] = tally.get(r['status'], 0) + 1
    print('summary:', tally)
    for r in res:
        if r['status'] in ('survived', 'inconclusive'):
            print('  %s: %s %s :: %s (checks %s)' % (r['status'], r['file'], r['function'], r['mutation'], r['properties']))


if __name__ == '__main__':
    main()
