"""Seeded workload generators shared by the checks (DESIGN.md section 4)."""
import os
import numpy as np

_QUAKE = None


def quake():
    """The shipped 4684-sample ground motion (dt=0.01)."""
    global _QUAKE
    if _QUAKE is None:
        from vf.core import repo_dir
        p = os.path.join(repo_dir(), 'tests', 'unit_test_data', 'test_motion_dt0p01.txt')
        try:
            _QUAKE = np.loadtxt(p, skiprows=2)
        except Exception:
            rng = np.random.default_rng(12345)
            t = np.arange(4684) * 0.01
            _QUAKE = rng.normal(size=4684) * np.exp(-((t - 12) / 8) ** 2)
    return _QUAKE


RECORD_CLASSES = ['noise', 'walk', 'sine', 'chirp', 'beat', 'impulse', 'hat', 'step', 'quake', 'alt', 'plateau',
                  'const', 'zeropad', 'intnoise']


def record(rng, n, cls=None, amp=None, allow_const=True, wide=False, extreme=False):
    """Return (float64 array of length n, class name)."""
    if cls is None:
        cls = RECORD_CLASSES[int(rng.integers(len(RECORD_CLASSES)))]
        if cls == 'const' and not allow_const:
            cls = 'noise'
    t = np.arange(n, dtype=float)
    if cls == 'noise':
        x = rng.normal(size=n)
    elif cls == 'walk':
        x = np.cumsum(rng.normal(size=n))
    elif cls == 'sine':
        x = np.sin(2 * np.pi * t / rng.uniform(2.5, max(3.0, n / 1.5)) + rng.uniform(0, 6.3))
    elif cls == 'chirp':
        f0, f1 = rng.uniform(0.002, 0.05), rng.uniform(0.05, 0.45)
        x = np.sin(2 * np.pi * (f0 * t + (f1 - f0) * t * t / (2 * max(n, 2))))
    elif cls == 'beat':
        p = rng.uniform(4, 20)
        x = np.sin(2 * np.pi * t / p) + np.sin(2 * np.pi * t / (p * rng.uniform(1.05, 1.3)))
    elif cls == 'impulse':
        x = np.zeros(n)
        x[int(rng.integers(n))] = rng.choice([-1.0, 1.0])
    elif cls == 'hat':
        x = np.zeros(n)
        c = int(rng.integers(n))
        w = int(rng.integers(1, max(2, n // 4 + 1)))
        for k in range(-w, w + 1):
            if 0 <= c + k < n:
                x[c + k] = 1 - abs(k) / (w + 1)
    elif cls == 'step':
        x = np.zeros(n)
        x[int(rng.integers(n)):] = rng.choice([-1.0, 1.0])
    elif cls == 'quake':
        q = quake()
        if n <= len(q):
            s = int(rng.integers(0, len(q) - n + 1))
            x = q[s:s + n].copy()
        else:
            x = np.resize(q, n).copy()
    elif cls == 'alt':
        x = (-1.0) ** t
    elif cls == 'plateau':
        # integer valued with long constant runs, flat starts and ends
        lev = rng.integers(-3, 4, size=max(1, n // 3 + 1)).astype(float)
        x = np.repeat(lev, rng.integers(1, 5, size=len(lev)))[:n]
        if len(x) < n:
            x = np.concatenate([x, np.full(n - len(x), x[-1])])
    elif cls == 'const':
        x = np.full(n, float(rng.choice([-2.0, 0.5, 1.0, 3.0])))
    elif cls == 'zeropad':
        x = rng.normal(size=n)
        a = int(rng.integers(0, n // 3 + 1))
        b = int(rng.integers(0, n // 3 + 1))
        x[:a] = 0
        if b:
            x[-b:] = 0
    elif cls == 'intnoise':
        x = rng.integers(-9, 10, size=n).astype(float)
    else:
        raise ValueError(cls)
    if amp is None and extreme and rng.random() < 0.04:
        # extreme but valid scales: the record, its integrals and its linear responses are normal doubles, but a SQUARE of a
        # sample under- or overflows (|x| < 1e-162 or > 1e154) - any zero test or ranking done through squares goes wrong here.
        # The class name carries the marker so that callers keep the record in a float64 / list container.
        amp = 10.0 ** (rng.uniform(165, 220) * (1 if rng.random() < 0.5 else -1))
        return np.asarray(x, dtype=float) * amp, cls + '/extreme-scale'
    if amp is None and wide and rng.random() < 0.25:
        amp = 10.0 ** rng.uniform(-12, 12)      # micro .. huge amplitudes (opt-in)
        return np.asarray(x, dtype=float) * amp, cls
    if amp is None:
        amp = 10.0 ** rng.uniform(-6, 6) if rng.random() < 0.3 else (1.0 if cls in ('plateau', 'intnoise') else 10.0 ** rng.uniform(-1, 1))
    if cls in ('plateau', 'intnoise', 'alt', 'const', 'impulse', 'step') and rng.random() < 0.7:
        amp = 1.0
    return np.asarray(x, dtype=float) * amp, cls


NICE_DT = [0.001, 0.002, 0.0025, 0.004, 0.005, 0.01, 0.02, 0.025, 0.04, 0.05, 0.1]
RECIP_K = [49, 93, 98, 99, 103, 107, 161, 186, 196, 198]


def dt(rng, kind=None):
    """nice decimals, reciprocals 1/k where int(1/dt) floors wrongly, or log-uniform in [1e-3, 1]."""
    if kind is None:
        kind = ['nice', 'recip', 'log'][int(rng.choice(3, p=[0.5, 0.15, 0.35]))]
    if kind == 'nice':
        return float(NICE_DT[int(rng.integers(len(NICE_DT)))])
    if kind == 'recip':
        return 1.0 / RECIP_K[int(rng.integers(len(RECIP_K)))]
    return float(10.0 ** rng.uniform(-3, 0))


def awkward_dt(rng, k):
    """a time step for which the float identities dt/(dt/k) == k, (dt/k)*k == dt or k*(dt/k) <= dt fail (code that recovers an
    integer factor or a duration from such quotients with int()/floor() goes wrong only for these); falls back to a log-uniform
    step when no such step exists for k (powers of two)"""
    for _ in range(400):
        d = float(10.0 ** rng.uniform(-3, 0)) if rng.random() < 0.7 else float(rng.choice([0.03, 0.05, 0.1, 0.025, 0.07, 0.3, 0.006, 0.0125]))
        q = d / k
        if int(d / q) != k or int(np.ceil(d / q)) != k or q * k != d:
            return d
    return float(10.0 ** rng.uniform(-3, 0))


def special_scale(rng, x):
    """the same sign/turning-point pattern as x at a numerically special but valid scale (all values are finite doubles):
    uniformly tiny or huge (products of two samples or steps under/overflow: |x| < 1e-162 or > 1e154), an extreme dynamic range
    inside one record, a small ripple on a large baseline (levels closer than float32 resolution), integer counts above 2**24.
    Returns (array, class suffix)."""
    x = np.asarray(x, dtype=float)
    m = float(np.max(np.abs(x))) if x.size else 0.0
    if m == 0 or not np.isfinite(m):
        return x, ''
    k = int(rng.integers(5))
    if k == 0:
        return x / m * 10.0 ** (-rng.uniform(165, 300)), '-extreme-tiny'
    if k == 1:
        return x / m * 10.0 ** rng.uniform(155, 300), '-extreme-huge'
    if k == 2:
        y = x / m * 10.0 ** (-rng.uniform(60, 150))
        j = 0 if rng.random() < 0.4 else int(rng.integers(len(y)))
        y[j] = float(rng.choice([-1.0, 1.0])) * 10.0 ** rng.uniform(60, 150)
        return y, '-extreme-range'
    if k == 3:
        base = float(rng.choice([-1.0, 1.0])) * 10.0 ** rng.uniform(0, 12)
        return base + x / m * abs(base) * 10.0 ** (-rng.uniform(8, 13)), '-ripple-on-baseline'
    return float(2 ** int(rng.integers(24, 50))) + np.round(x / m * float(rng.integers(1, 6))), '-counts-above-2**24'


def container(rng, x, kinds=('f64', 'f32', 'i64', 'list', 'tuple')):
    """Return (container, kind): the same numbers as another container/dtype (ints rounded)."""
    k = kinds[int(rng.integers(len(kinds)))]
    if k == 'f64':
        return np.array(x, dtype=float), k
    if k == 'f32':
        return np.array(x, dtype=np.float32), k
    if k == 'i64':
        return np.array(np.round(x), dtype=np.int64), k
    if k == 'list':
        return [float(v) for v in x], k
    return tuple(float(v) for v in x), k


def view_form(rng, x):
    """Return (array, kind): the same numbers as a non-contiguous view, a reversed-twice view or a read-only array."""
    k = int(rng.integers(3))
    x = np.asarray(x)
    if k == 0:
        buf = np.empty(2 * len(x), dtype=x.dtype)
        buf[::2] = x
        buf[1::2] = 0
        return buf[::2], 'strided-view'
    if k == 1:
        return np.ascontiguousarray(x[::-1])[::-1], 'negative-stride-view'
    y = np.array(x, copy=True)
    y.flags.writeable = False
    return y, 'read-only'


NARROW = [np.int8, np.int16, np.int32, np.uint8, np.uint16]


def narrow_int(rng, n, plateaus=False):
    """Integer record in a narrow/unsigned dtype using most of its range."""
    dt_ = NARROW[int(rng.integers(len(NARROW)))]
    ii = np.iinfo(dt_)
    x = rng.integers(ii.min // 2 if ii.min < 0 else 0, ii.max // 2 + 1, size=n).astype(dt_)
    if plateaus:
        x = np.repeat(x, 2)[:n]
    return x, np.dtype(dt_).name
