"""Attach monitors to the real eqsig functions from outside the repository.

wrap(module, name, post) replaces module.name by a recording wrapper and rebinds *every* alias of the original
function object in every loaded eqsig.* module (from-imports, star re-exports), so calls made by other eqsig code
and by the repository's tests are monitored too. The wrapper never alters arguments or results.
"""
import functools
import sys

_installed = {}     # (module name, function name) -> original
STATE = {'depth': 0, 'enabled': True}
CALLS = {}          # qualified name -> number of monitored calls


def _eqsig_modules():
    return [m for n, m in list(sys.modules.items()) if (n == 'eqsig' or n.startswith('eqsig.')) and m is not None]


def wrap(module, name, post, pre=None, on_exception=None):
    """post(args, kwargs, result, pre_state) is called after a normal return; pre(args, kwargs) -> pre_state before."""
    orig = getattr(module, name)
    if getattr(orig, '__vf_wrapped__', False):
        orig.__vf_posts__.append((pre, post, on_exception))
        return orig
    qual = '%s.%s' % (module.__name__, name)
    posts = [(pre, post, on_exception)]

    @functools.wraps(orig)
    def wrapper(*args, **kwargs):
        if not STATE['enabled']:
            return orig(*args, **kwargs)
        CALLS[qual] = CALLS.get(qual, 0) + 1
        pres = []
        for pre_f, _, _ in posts:
            pres.append(pre_f(args, kwargs) if pre_f is not None else None)
        STATE['depth'] += 1
        try:
            result = orig(*args, **kwargs)
        except BaseException as e:
            STATE['depth'] -= 1
            for (_, _, onex), ps in zip(posts, pres):
                if onex is not None:
                    onex(args, kwargs, e, ps)
            raise
        STATE['depth'] -= 1
        for (_, post_f, _), ps in zip(posts, pres):
            if post_f is not None:
                post_f(args, kwargs, result, ps)
        return result

    wrapper.__vf_wrapped__ = True
    wrapper.__vf_orig__ = orig
    wrapper.__vf_posts__ = posts
    n_rebound = 0
    for m in _eqsig_modules():
        for attr, val in list(vars(m).items()):
            if val is orig:
                setattr(m, attr, wrapper)
                n_rebound += 1
    _installed[qual] = orig
    wrapper.__vf_rebound__ = n_rebound
    return wrapper


def wrap_method(cls, name, post, pre=None, on_exception=None):
    """Same for a method defined on a class (plain functions in the class dict)."""
    orig = cls.__dict__[name]
    qual = '%s.%s.%s' % (cls.__module__, cls.__name__, name)
    if getattr(orig, '__vf_wrapped__', False):
        orig.__vf_posts__.append((pre, post, on_exception))
        return orig
    posts = [(pre, post, on_exception)]

    @functools.wraps(orig)
    def wrapper(*args, **kwargs):
        if not STATE['enabled']:
            return orig(*args, **kwargs)
        CALLS[qual] = CALLS.get(qual, 0) + 1
        pres = [(p(args, kwargs) if p is not None else None) for p, _, _ in posts]
        try:
            result = orig(*args, **kwargs)
        except BaseException as e:
            for (_, _, onex), ps in zip(posts, pres):
                if onex is not None:
                    onex(args, kwargs, e, ps)
            raise
        for (_, post_f, _), ps in zip(posts, pres):
            if post_f is not None:
                post_f(args, kwargs, result, ps)
        return result

    wrapper.__vf_wrapped__ = True
    wrapper.__vf_orig__ = orig
    wrapper.__vf_posts__ = posts
    setattr(cls, name, wrapper)
    _installed[qual] = orig
    return wrapper


def wrap_property(cls, name, post, pre=None):
    """Monitor reads of a property defined on cls (setter/deleter kept). After every read post(obj, value) is called,
    or post(obj, value, pre_state) when a pre(obj) hook is given (it runs before the getter, e.g. to record whether
    the read is going to trigger a lazy regeneration)."""
    prop = cls.__dict__[name]
    qual = '%s.%s.%s' % (cls.__module__, cls.__name__, name)
    if getattr(prop.fget, '__vf_wrapped__', False):
        prop.fget.__vf_posts__.append((pre, post))
        return prop
    posts = [(pre, post)]
    orig_get = prop.fget

    def fget(self):
        if not STATE['enabled']:
            return orig_get(self)
        pres = [(p(self) if p is not None else None) for p, _ in posts]
        value = orig_get(self)
        CALLS[qual] = CALLS.get(qual, 0) + 1
        for (p, q), ps in zip(posts, pres):
            if p is not None:
                q(self, value, ps)
            else:
                q(self, value)
        return value

    fget.__vf_wrapped__ = True
    fget.__vf_posts__ = posts
    fget.__doc__ = orig_get.__doc__
    new = property(fget, prop.fset, prop.fdel, prop.__doc__)
    setattr(cls, name, new)
    _installed[qual] = prop
    return new


class paused(object):
    """with paused(): call eqsig without triggering the monitors (used by oracles that reuse a monitored function)."""
    def __enter__(self):
        self.prev = STATE['enabled']
        STATE['enabled'] = False

    def __exit__(self, *a):
        STATE['enabled'] = self.prev


def bind(fn, args, kwargs):
    """Map a call's args/kwargs to parameter names of the original function (defaults applied)."""
    import inspect
    f = getattr(fn, '__vf_orig__', fn)
    ba = inspect.signature(f).bind(*args, **kwargs)
    ba.apply_defaults()
    return ba.arguments
