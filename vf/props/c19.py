"""C19 - surface-energy and time-shift utilities match the shifted-wave definition.

Monitors: post-conditions on every execution of eqsig.surface.calc_surface_energy / calc_cum_abs_surface_energy /
get_time_shift_motions / trim_to_length and eqsig.fns.time_shift.put_array_in_2d_array / join_values_w_shifts (wherever
the call comes from) against the scalar reference model vf/oracles/surface.py. Relations between executions (batch row =
single travel time, alpha^2 scaling) are evaluated by the driver on the recorded results.
"""
import itertools

import numpy as np

from vf import attach, core, gen, tol
from vf.oracles import surface as O

PROP_ID = 'C19'
TECHNIQUE = ('runtime post-condition monitors with a scalar shifted-wave reference (two-sided on inexact knife edges); '
             'offline relations between monitored executions; random + exhaustive small shift-vector workload')
RULE = ('surface cases = (record of 1..400 samples from the shared record classes, dt nice/reciprocal/log-uniform/dyadic, '
        '1-4 travel times mixing 0, multiples of dt/2 (incl. those whose 2*tau/dt evaluates a few ulps above/below an '
        'integer), fractional short and long (up to 1.5x the record duration) and repeated values, scalar or array '
        'reductions in (0,1], nodal x trim x start, stt in {0, U(0,6dt), U(0,1.5 duration), multiples of dt}); every '
        'case calls calc_cum_abs_surface_energy (hence calc_surface_energy and trim_to_length), get_time_shift_motions, '
        'a direct trim_to_length, the single-travel-time calls of the batch relation, an alpha-scaled copy and a sequence '
        '(nodal energy, anti-nodal energy, cumulative x2, motions) that shares ONE reduction ndarray as up_red and down_red. '
        'Value containers of the shift cases: float64, int64, list, uint8, uint16, int8, int16, int32, float32 with '
        'magnitudes in the upper half of the dtype range (sums exceed it, differences go negative). shift '
        'cases = put_array_in_2d_array for every shift vector over {-3..3} of length 1..3 (quick) / 1..4 (thorough) x n '
        'in {1,2,4} x 4 clip modes (distinct by construction) plus random vectors (all-zero / all-negative / '
        'all-positive / mixed, |shift| up to 2n) and joins with non-negative shifts. distinct = digest of all inputs; '
        'non-trivial = record with a non-zero sample and at least 2 samples (surface) / any non-zero value (shift).')
ASSUMPTIONS = ['finite real records, dt > 0, travel times >= 0, stt >= 0',
               'reductions are both scalars or both ndarrays with one entry per travel time (list-typed or mixed '
               'reductions are outside the statement)',
               'placement rule for trim/start as read in DESIGN.md C19 (b): moves by floor(stt/dt) - floor(tau/dt) samples',
               'on an INEXACT knife edge (2*tau/dt, tau/dt or stt/dt within 16 ulps of an integer without being one in '
               'exact arithmetic on the given floats) either resolution of the first/last record sample and of the '
               'floor is accepted; exact quotients are decided strictly',
               'join_values_w_shifts is judged for non-negative shifts only; join_sig_w_time_shift (times, int(t/dt)) is '
               'observed, its inner join is judged on the integer shifts it receives',
               'tolerances: energy 1e-9*max|E| + 1e-11*V^2, cumulative 1e-9*(max + V^2), motions 1e-9*(|up|+|down|)*max|x| '
               'with V = dt*(|up|+|down|)*sum|x|; shifted arrays exact',
               'values of shifted/joined arrays are judged numerically in exact float64 arithmetic on the input values; '
               'the dtype of the result is not part of the statement',
               'purity: ndarray reductions handed to the surface functions must be bit-for-bit unchanged after the call',
               'oracle vf/oracles/surface.py is correct']
EXHAUSTIVE = {'quick': 'put_array_in_2d_array: all shift vectors over {-3..3} of length 1..3 x n in {1,2,4} x clip in '
                       '{none,start,end,both}; join_values_w_shifts: all vectors over {0..3} of length 1..3 x n x {add,sub}',
              'thorough': 'put_array_in_2d_array: all shift vectors over {-3..3} of length 1..4 x n in {1,2,4} x clip in '
                          '{none,start,end,both}; join_values_w_shifts: all vectors over {0..3} of length 1..4 x n x {add,sub}'}
MIN_EVALS = {'quick': {'energy==oracle': 5500, 'cum==oracle': 3500, 'cum==cumsum|d(observed energy)|': 3500,
                       'cum.non-decreasing': 3500, 'cum.zero@tau0-nodal': 600, 'cum.scales-alpha^2(pow2,exact)': 350,
                       'cum.scales-alpha^2(tol)': 350, 'motions==oracle': 1700, 'trim.placement': 6000,
                       'trim.identity(no trim,no start)': 1800, 'energy.batch-row==single': 450,
                       'cum.batch-row==single': 450, 'motions.batch-row==single': 450, 'put2d==offsets': 8500,
                       'join==padded+-shifted': 1400, 'purity.reductions-unchanged': 9000,
                       'shared-reduction==fresh-copies': 2000},
             'thorough': {'energy==oracle': 100000, 'cum==oracle': 62000, 'cum==cumsum|d(observed energy)|': 62000,
                          'cum.non-decreasing': 62000, 'cum.zero@tau0-nodal': 11000,
                          'cum.scales-alpha^2(pow2,exact)': 6500, 'cum.scales-alpha^2(tol)': 6500,
                          'motions==oracle': 30000, 'trim.placement': 110000, 'trim.identity(no trim,no start)': 33000,
                          'energy.batch-row==single': 8000, 'cum.batch-row==single': 8000,
                          'motions.batch-row==single': 8000, 'put2d==offsets': 120000, 'join==padded+-shifted': 20000,
                          'purity.reductions-unchanged': 160000, 'shared-reduction==fresh-copies': 35000}}
CTX = None
_INNER = {'active': False, 'energy': None}

_SURF_NAMES = ('asig', 'travel_times', 'nodal', 'up_red', 'down_red', 'stt', 'trim', 'start')
_SURF_DEF = {'nodal': True, 'up_red': 1., 'down_red': 1., 'stt': 0.0, 'trim': False, 'start': False}
_FN_CLAUSE = {'calc_surface_energy': 'energy==oracle', 'calc_cum_abs_surface_energy': 'cum==oracle',
              'get_time_shift_motions': 'motions==oracle'}
_FN_KIND = {'calc_surface_energy': 'energy', 'calc_cum_abs_surface_energy': 'cum', 'get_time_shift_motions': 'acc'}
_REL_NAME = {'calc_surface_energy': 'energy', 'calc_cum_abs_surface_energy': 'cum', 'get_time_shift_motions': 'motions'}


def n_shards(tier):
    return 16


def _parse(args, kwargs, names, defaults):
    out = dict(defaults)
    for nm, v in zip(names, args):
        out[nm] = v
    out.update(kwargs)
    return out


# ------------------------------------------------------------------------------------------ monitors: surface functions
def _tt_container(tt):
    if not hasattr(tt, '__len__'):
        return 'scalar'
    return 'list' if isinstance(tt, (list, tuple)) else 'ndarray'


def _wit_surface(fn, p, **extra):
    a = p['asig']
    d = {'fn': fn, 'values': np.asarray(a.values), 'dt': float(a.dt), 'travel_times': np.atleast_1d(np.asarray(p['travel_times'])),
         'tt_container': _tt_container(p['travel_times']), 'nodal': p['nodal'], 'up_red': p['up_red'],
         'down_red': p['down_red'], 'stt': p['stt'], 'trim': p['trim'], 'start': p['start'],
         'same_red_object': bool(p.get('same_red_object', p['up_red'] is p['down_red'] and isinstance(p['up_red'], np.ndarray)))}
    d.update(extra)
    return d


def _normalise(p):
    """-> (x list, dt, taus, ups, downs, stt) or (None, reason) when the call is outside the statement's quantifier."""
    a = p['asig']
    x = np.asarray(a.values, dtype=float)
    dt = float(a.dt)
    tt = p['travel_times']
    taus = [float(t) for t in np.atleast_1d(np.asarray(tt, dtype=float)).ravel()]
    k = len(taus)

    def per_row(r):
        if isinstance(r, (list, tuple)):
            return 'list'
        if hasattr(r, '__len__'):
            arr = np.asarray(r, dtype=float).ravel()
            return [float(v) for v in arr] if len(arr) == k else None
        return [float(r)] * k
    ups, downs = per_row(p['up_red']), per_row(p['down_red'])
    stt = float(p['stt'])
    if x.ndim != 1 or len(x) < 1 or not np.all(np.isfinite(x)) or not (dt > 0 and np.isfinite(dt)):
        return None, 'record not a finite 1-d series / dt'
    if k < 1 or any((not np.isfinite(t)) or t < 0 for t in taus):
        return None, 'travel time negative, non-finite or empty'
    if not (np.isfinite(stt) and stt >= 0):
        return None, 'stt negative or non-finite'
    if ups == 'list' or downs == 'list':
        return None, 'list-typed reductions'
    if ups is None or downs is None or hasattr(p['up_red'], '__len__') != hasattr(p['down_red'], '__len__'):
        return None, 'reductions not both scalar / both one-per-travel-time arrays'
    if not all(np.isfinite(ups)) or not all(np.isfinite(downs)):
        return None, 'non-finite reductions'
    return (x.tolist(), dt, taus, ups, downs, stt), None


def _accept(got2d, x, dt, taus, nodal, ups, downs, stt, trim, start, kind):
    """Two-sided comparison of a (rows x length) result with the reference. kind: 'energy' | 'cum' | 'acc'."""
    n = len(x)
    k = len(taus)
    if got2d.ndim != 2 or got2d.shape[0] != k:
        return False, 'result shape %s, expected %d rows' % (got2d.shape, k)
    length = got2d.shape[1]
    alts = O.placements(n, dt, taus, stt, trim, start)
    alts_l = [a for a in alts if a[0] == length]
    if len(alts) > 1:
        CTX.observe('%s call with a placement floor on an inexact knife edge (several admissible placements)' % kind)
    if not alts_l:
        return False, 'output length %d, admissible %s' % (length, sorted(set(a[0] for a in alts)))
    base = {}
    rowres = {}

    def series(r, edge):
        if (r, edge) not in base:
            acc = O.acc_series(x, dt, taus[r], nodal, ups[r], downs[r], O.natural_length(n, dt, taus[r]), edge)
            base[(r, edge)] = acc if kind == 'acc' else O.energy_series(acc, dt)
        return base[(r, edge)]

    def row_ok(r, shift):
        if (r, shift) in rowres:
            return rowres[(r, shift)]
        res = (False, '')
        for edge in O.edge_options(x, dt, taus[r]):
            ref = O.place(series(r, edge), shift, length, tail_constant=(kind != 'acc'))
            if kind == 'cum':
                ref = O.cum_abs_change(ref)
            ref = np.array(ref, dtype=float)
            mx = float(np.max(np.abs(ref))) if ref.size else 0.0
            if kind == 'acc':
                args = dict(scale=(abs(ups[r]) + abs(downs[r])) * max(abs(v) for v in x), rtol=1e-9)
            else:
                v2 = O.velocity_scale(x, dt, ups[r], downs[r]) ** 2
                args = dict(scale=mx, rtol=1e-9, atol=1e-11 * v2) if kind == 'energy' else dict(scale=mx + v2, rtol=1e-9)
            if tol.close(got2d[r], ref, **args):
                res = (True, '')
                if O.quotient_kind(taus[r], dt, 2)[0] == 'near':
                    CTX.observe('%s row with 2*tau/dt an inexact near-integer: accepted with first sample %s, last sample %s'
                                % (kind, 'in' if edge[0] else 'out', 'in' if edge[1] else 'out'))
                break
            res = (False, tol.describe(got2d[r], ref, **args))
        rowres[(r, shift)] = res
        return res

    msg = ''
    for (_, shifts) in alts_l:
        good = True
        for r in range(k):
            ok_r, d = row_ok(r, shifts[r])
            if not ok_r:
                good = False
                msg = 'row %d (tau=%r, placement shift %d): %s' % (r, taus[r], shifts[r], d)
                break
        if good:
            return True, ''
    return False, msg


def _as2d(result, k):
    got = np.asarray(result, dtype=float)
    if k == 1 and got.ndim == 1:
        return got[np.newaxis, :]
    if k == 1 and got.ndim == 2:
        return np.zeros((0, 0))   # a single travel time must give a 1-d series
    return got


def _snap_reductions(args, kwargs):
    """pre-state: bit copies of ndarray reductions as they were handed in (the same object may serve as both)."""
    p = _parse(args, kwargs, _SURF_NAMES, _SURF_DEF)
    u, d = p['up_red'], p['down_red']
    return {'up': u.copy() if isinstance(u, np.ndarray) else None,
            'down': d.copy() if isinstance(d, np.ndarray) else None, 'same': u is d and isinstance(u, np.ndarray)}


def _same_bits(a, b):
    return a.dtype == b.dtype and a.shape == b.shape and a.tobytes() == b.tobytes()


def _check_purity(fn, p, snap):
    """The caller's reduction arrays are bit-for-bit what they were before the call."""
    if snap is None or (snap['up'] is None and snap['down'] is None):
        return
    okk = True
    for key, nm in (('up', 'up_red'), ('down', 'down_red')):
        if snap[key] is not None and not (isinstance(p[nm], np.ndarray) and _same_bits(p[nm], snap[key])):
            okk = False
    CTX.check(okk, 'purity.reductions-unchanged',
              lambda: _wit_surface(fn, dict(p, up_red=snap['up'] if snap['up'] is not None else p['up_red'],
                                            down_red=snap['down'] if snap['down'] is not None else p['down_red']),
                                   same_red_object=snap['same'], up_red_after=p['up_red'], down_red_after=p['down_red']),
              '%s changed the caller\'s reduction array(s): up_red %s -> %s, down_red %s -> %s%s'
              % (fn, None if snap['up'] is None else snap['up'].tolist(), np.asarray(p['up_red']).tolist(),
                 None if snap['down'] is None else snap['down'].tolist(), np.asarray(p['down_red']).tolist(),
                 ' (one object passed as both)' if snap['same'] else ''))


def _check_surface(fn, args, kwargs, result, snap=None):
    ctx = CTX
    p = _parse(args, kwargs, _SURF_NAMES, _SURF_DEF)
    if snap is not None:
        _check_purity(fn, p, snap)
        p = dict(p)     # the reference is computed from the reductions as they were handed in
        if snap['up'] is not None:
            p['up_red'] = snap['up']
        if snap['down'] is not None:
            p['down_red'] = snap['down']
        p['same_red_object'] = snap['same']
    norm, reason = _normalise(p)
    if norm is None:
        ctx.observe('%s: out of domain (%s)' % (fn, reason))
        return None
    x, dt, taus, ups, downs, stt = norm
    got = _as2d(result, len(taus))
    kind = _FN_KIND[fn]
    ok, msg = _accept(got, x, dt, taus, bool(p['nodal']), ups, downs, stt, bool(p['trim']), bool(p['start']), kind)
    ctx.check(ok, _FN_CLAUSE[fn], lambda: _wit_surface(fn, p, got=np.asarray(result)),
              '%s(n=%d, dt=%r, tau=%s, nodal=%s, up=%s, down=%s, stt=%r, trim=%s, start=%s): %s'
              % (fn, len(x), dt, taus, p['nodal'], ups, downs, stt, p['trim'], p['start'], msg))
    return p, norm, got


def _post_energy(args, kwargs, result, pre):
    if _INNER['active']:
        _INNER['energy'] = result
    _check_surface('calc_surface_energy', args, kwargs, result, pre)


def _post_motions(args, kwargs, result, pre):
    _check_surface('get_time_shift_motions', args, kwargs, result, pre)


def _pre_cum(args, kwargs):
    _INNER['active'] = True
    _INNER['energy'] = None
    return _snap_reductions(args, kwargs)


def _exc_cum(args, kwargs, exc, pre):
    _INNER['active'] = False


def _post_cum(args, kwargs, result, pre):
    ctx = CTX
    inner = _INNER['energy']
    _INNER['active'] = False
    _INNER['energy'] = None
    fn = 'calc_cum_abs_surface_energy'
    r = _check_surface(fn, args, kwargs, result, pre)
    if r is None:
        return
    p, (x, dt, taus, ups, downs, stt), got = r
    k = len(taus)
    wit = lambda: _wit_surface(fn, p, got=np.asarray(result))
    # relation to the energy series observed inside this very call
    if inner is not None:
        e2 = _as2d(inner, k)
        okk = e2.shape == got.shape
        if okk:
            for i in range(k):
                ref = np.array(O.cum_abs_change(e2[i].tolist()))
                if not tol.close(got[i], ref, rtol=1e-12):
                    okk = False
                    break
        ctx.check(okk, 'cum==cumsum|d(observed energy)|', wit,
                  'cumulative series is not the running sum of |E[i]-E[i-1]| (E[-1]=0) of the energy computed in the same '
                  'call: shapes %s vs %s' % (got.shape, e2.shape))
    else:
        ctx.observe('cum: no inner calc_surface_energy execution observed')
    # non-decreasing, starts >= 0
    if got.size:
        mono = bool(np.all(np.diff(got, axis=-1) >= 0)) and bool(np.all(got[:, 0] >= 0))
        ctx.check(mono, 'cum.non-decreasing', wit, 'cumulative |dE| decreases somewhere (or starts negative)')
    # zero for zero travel time at a nodal surface (equal reductions)
    if p['nodal']:
        for i in range(k):
            if taus[i] == 0 and ups[i] == downs[i] and i < got.shape[0]:
                v2 = O.velocity_scale(x, dt, ups[i], downs[i]) ** 2
                mx = float(np.max(np.abs(got[i]))) if got.shape[1] else 0.0
                ctx.check(mx <= 1e-12 * v2, 'cum.zero@tau0-nodal', wit,
                          'tau=0 at a nodal surface with equal reductions: max cumulative energy %r, expected 0' % mx)


# ------------------------------------------------------------------------------------------ monitor: trim_to_length
def _post_trim(args, kwargs, result, pre):
    ctx = CTX
    p = _parse(args, kwargs, ('values', 'npts', 'surf2depth_travel_times', 'dt', 'trim', 'start', 's2s_travel_time'),
               {'trim': False, 'start': False, 's2s_travel_time': 0.0})
    values = np.asarray(p['values'])
    taus = [float(t) for t in np.atleast_1d(np.asarray(p['surf2depth_travel_times'], dtype=float)).ravel()]
    npts, dt, stt = int(p['npts']), float(p['dt']), float(p['s2s_travel_time'])
    trim, start = bool(p['trim']), bool(p['start'])
    if (values.ndim != 2 or values.shape[0] != len(taus) or npts < 1 or not dt > 0 or stt < 0 or any(t < 0 for t in taus)
            or not np.all(np.isfinite(values))):
        ctx.observe('trim_to_length: out of domain')
        return
    got = np.asarray(result)
    wit = lambda: {'fn': 'trim_to_length', 'values2d': values, 'npts': npts, 'travel_times': np.array(taus), 'dt': dt,
                   'trim': trim, 'start': start, 'stt': stt, 'got': got}
    if not trim and not start:
        ctx.check(got.shape == values.shape and bool(np.array_equal(got, values)), 'trim.identity(no trim,no start)', wit,
                  'without trim/start the array must come back unchanged')
        return
    msg = ''
    okk = False
    alts = O.placements(npts, dt, taus, stt, trim, start)
    for (length, shifts) in alts:
        if got.shape != (len(taus), length):
            msg = 'shape %s, admissible lengths %s' % (got.shape, sorted(set(a[0] for a in alts)))
            continue
        good = True
        for r in range(len(taus)):
            ref = np.array(O.place(values[r].tolist(), shifts[r], length, tail_constant=False), dtype=float)
            if not np.array_equal(got[r], ref):
                good = False
                bad = int(np.flatnonzero(got[r] != ref)[0])
                msg = 'row %d moved by %d: sample %d is %r, expected %r' % (r, shifts[r], bad, got[r][bad], ref[bad])
                break
        if good:
            okk = True
            break
    ctx.check(okk, 'trim.placement', wit, 'trim_to_length(npts=%d, tau=%s, dt=%r, trim=%s, start=%s, stt=%r): %s'
              % (npts, taus, dt, trim, start, stt, msg))


# ------------------------------------------------------------------------------------------ monitors: array shifting
def _int_shifts(shifts):
    try:
        arr = np.asarray(shifts)
        if arr.ndim != 1 or arr.size < 1 or arr.dtype.kind not in 'iu':
            return None
        return [int(s) for s in arr.tolist()]
    except Exception:
        return None


def _post_put(args, kwargs, result, pre):
    ctx = CTX
    p = _parse(args, kwargs, ('values', 'shifts', 'clip'), {'clip': 'none'})
    sh = _int_shifts(p['shifts'])
    try:
        vals = np.asarray(p['values'], dtype=float)
    except Exception:
        vals = None
    if sh is None or vals is None or vals.ndim != 1 or vals.size < 1 or p['clip'] not in ('none', 'start', 'end', 'both') \
            or not np.all(np.isfinite(vals)):
        ctx.observe('put_array_in_2d_array: out of domain')
        return
    rows, width = O.put_in_2d(vals.tolist(), sh, p['clip'])
    ref = np.array(rows, dtype=float).reshape(len(sh), width)
    got = np.asarray(result)
    okk = got.shape == ref.shape and bool(np.array_equal(got, ref))
    ctx.check(okk, 'put2d==offsets',
              lambda: {'fn': 'put_array_in_2d_array', 'values': np.asarray(p['values']), 'shifts': np.asarray(p['shifts']),
                       'clip': p['clip'], 'values_container': type(p['values']).__name__,
                       'shifts_container': type(p['shifts']).__name__, 'got': got},
              'put_array_in_2d_array(n=%d, shifts=%s, clip=%r) -> shape %s expected %s%s'
              % (vals.size, sh, p['clip'], got.shape, ref.shape,
                 '' if got.shape != ref.shape else '; first differing cell %s' % (np.argwhere(got != ref)[:1].tolist(),)))


def _post_join(args, kwargs, result, pre):
    ctx = CTX
    p = _parse(args, kwargs, ('values', 'shifts', 'jtype'), {'jtype': 'add'})
    sh = _int_shifts(p['shifts'])
    try:
        vals = np.asarray(p['values'], dtype=float)
    except Exception:
        vals = None
    if sh is None or vals is None or vals.ndim != 1 or vals.size < 1 or not np.all(np.isfinite(vals)):
        ctx.observe('join_values_w_shifts: out of domain')
        return
    if p['jtype'] not in ('add', 'sub'):
        ctx.observe('join_values_w_shifts: jtype not add/sub')
        return
    if min(sh) < 0:
        ctx.observe('join_values_w_shifts: negative shift returned a value (not judged)')
        return
    rows, mags = O.join(vals.tolist(), sh, p['jtype'])
    ref = np.array(rows, dtype=float)
    got = np.asarray(result)
    okk = tol.close(got, ref, scale=np.array(mags, dtype=float), rtol=1e-12)
    ctx.check(okk, 'join==padded+-shifted',
              lambda: {'fn': 'join_values_w_shifts', 'values': np.asarray(p['values']), 'shifts': np.asarray(p['shifts']),
                       'jtype': p['jtype'], 'values_container': type(p['values']).__name__,
                       'shifts_container': type(p['shifts']).__name__, 'got': got},
              'join_values_w_shifts(n=%d, shifts=%s, %r): %s' % (vals.size, sh, p['jtype'],
                                                               tol.describe(got, ref, scale=np.array(mags), rtol=1e-12)))


def _post_join_sig(args, kwargs, result, pre):
    CTX.observe('join_sig_w_time_shift: executed (times converted by int(t/dt); observed, not judged)')


def install(ctx):
    global CTX
    CTX = ctx
    import eqsig
    sf = eqsig.surface
    if getattr(sf.calc_surface_energy, '__vf_c19__', False):    # already attached in this process: only switch the context
        return
    ts = eqsig.fns.time_shift
    attach.wrap(sf, 'calc_surface_energy', _post_energy, pre=_snap_reductions).__vf_c19__ = True
    attach.wrap(sf, 'calc_cum_abs_surface_energy', _post_cum, pre=_pre_cum, on_exception=_exc_cum)
    attach.wrap(sf, 'get_time_shift_motions', _post_motions, pre=_snap_reductions)
    attach.wrap(sf, 'trim_to_length', _post_trim)
    attach.wrap(ts, 'put_array_in_2d_array', _post_put)
    attach.wrap(ts, 'join_values_w_shifts', _post_join)
    attach.wrap(ts, 'join_sig_w_time_shift', _post_join_sig)


# ---------------------------------------------------------------------------------------------------- driver helpers
def _tt_arg(c):
    tt = np.atleast_1d(np.asarray(c['travel_times']))
    cont = c.get('tt_container', 'ndarray')
    if cont == 'scalar':
        return float(tt[0])
    if cont == 'list':
        return [float(t) for t in tt]
    return np.array(tt)


def _kwargs(c):
    kw = {'nodal': c['nodal'], 'stt': c['stt'], 'trim': c['trim'], 'start': c['start']}
    if c.get('up_red') is not None:
        kw['up_red'] = c['up_red']
        kw['down_red'] = c['up_red'] if c.get('same_red_object') else c['down_red']   # one object for both when recorded so
    return kw


def _case_wit(fn, c, **extra):
    d = {'fn': fn, 'values': np.asarray(c['values']), 'dt': c['dt'], 'travel_times': np.atleast_1d(np.asarray(c['travel_times'])),
         'tt_container': c.get('tt_container', 'ndarray'), 'nodal': c['nodal'], 'up_red': c.get('up_red'),
         'down_red': c.get('down_red'), 'stt': c['stt'], 'trim': c['trim'], 'start': c['start'],
         'same_red_object': bool(c.get('same_red_object', False))}
    d.update(extra)
    return d


def _call(eqsig, ctx, fn, c, values=None):
    """One monitored call through the public name; an exception on this in-domain input is a violation."""
    asig = eqsig.AccSignal(np.array(c['values'] if values is None else values), c['dt'])
    try:
        return getattr(eqsig.surface, fn)(asig, _tt_arg(c), **_kwargs(c))
    except Exception as e:
        w = _case_wit(fn, c)
        if values is not None:
            w['values'] = np.asarray(values)
        ctx.exception(_FN_CLAUSE[fn], w, e)
        return None


def _row_red(c, r):
    u, d = c.get('up_red'), c.get('down_red')
    if u is None:
        return None, None
    if hasattr(u, '__len__'):
        return float(u[r]), float(d[r])
    return u, d


def _rel_batch(eqsig, ctx, fn, c, batch=None):
    """each row of a batch equals the single-travel-time result (on the samples both have)."""
    taus = np.atleast_1d(np.asarray(c['travel_times'], dtype=float))
    if len(taus) < 2:
        return
    if batch is None:
        batch = _call(eqsig, ctx, fn, c)
    if batch is None:
        return
    batch = np.asarray(batch)
    clause = '%s.batch-row==single' % _REL_NAME[fn]
    x = np.asarray(c['values'], dtype=float)
    for r in range(len(taus)):
        u, d = _row_red(c, r)
        c1 = dict(c, travel_times=np.array([taus[r]]), tt_container=('scalar' if r % 2 == 0 else 'ndarray'), up_red=u, down_red=d)
        single = _call(eqsig, ctx, fn, c1)
        if single is None:
            continue
        single = np.asarray(single)
        uu, dd = (1.0, 1.0) if u is None else (float(u), float(d))
        if fn == 'get_time_shift_motions':
            scale = (abs(uu) + abs(dd)) * float(np.max(np.abs(x)))
        else:
            scale = float(np.max(np.abs(single))) + O.velocity_scale(x.tolist(), c['dt'], uu, dd) ** 2 if single.size else 0.0
        okk = batch.ndim == 2 and single.ndim == 1 and r < batch.shape[0] and len(single) <= batch.shape[1]
        if okk:
            okk = tol.close(batch[r, :len(single)], single, scale=scale, rtol=1e-12)
        ctx.check(okk, clause, lambda: _case_wit('rel.batch', c, base_fn=fn, row=r),
                  '%s: row %d of the batch (tau=%r of %s) differs from the single-travel-time call (shapes %s / %s)'
                  % (fn, r, taus[r], taus.tolist(), batch.shape, single.shape))


def _rel_alpha(eqsig, ctx, c, alpha, base=None):
    """cumulative |dE| of alpha*record = alpha^2 * that of the record (exactly for powers of two)."""
    fn = 'calc_cum_abs_surface_energy'
    if base is None:
        base = _call(eqsig, ctx, fn, c)
    if base is None:
        return
    x = np.asarray(c['values'], dtype=float)
    scaled = _call(eqsig, ctx, fn, c, values=x * alpha)
    if scaled is None:
        return
    base, scaled = np.asarray(base), np.asarray(scaled)
    m, e = np.frexp(abs(alpha))
    pow2 = (m == 0.5)
    ref = base * (alpha * alpha)
    if pow2:
        okk = scaled.shape == ref.shape and bool(np.array_equal(scaled, ref))
        clause = 'cum.scales-alpha^2(pow2,exact)'
    else:
        u, d = c.get('up_red'), c.get('down_red')
        um = 1.0 if u is None else float(np.max(np.abs(u)))
        dm = 1.0 if d is None else float(np.max(np.abs(d)))
        v2 = O.velocity_scale((x * alpha).tolist(), c['dt'], um, dm) ** 2
        okk = tol.close(scaled, ref, scale=(float(np.max(np.abs(ref))) if ref.size else 0.0) + v2, rtol=1e-9)
        clause = 'cum.scales-alpha^2(tol)'
    ctx.check(okk, clause, lambda: _case_wit('rel.alpha', c, alpha=alpha),
              'cum(alpha*a) != alpha^2*cum(a) for alpha=%r: %s' % (alpha, tol.describe(scaled, ref, rtol=0.0)
                                                                  if scaled.shape == ref.shape else 'shape'))


def _direct_trim(eqsig, ctx, c):
    """trim_to_length on an integer-coded array of the width its callers use."""
    taus = np.atleast_1d(np.asarray(c['travel_times'], dtype=float))
    n = len(c['values'])
    width = n + int(np.max(2 * taus / c['dt']))
    vals = (1000.0 * (np.arange(len(taus))[:, None] + 1) + np.arange(width)[None, :] + 1.0)
    try:
        eqsig.surface.trim_to_length(vals, n, taus, c['dt'], trim=c['trim'], start=c['start'], s2s_travel_time=c['stt'])
    except Exception as e:
        ctx.exception('trim.placement', {'fn': 'trim_to_length', 'values2d': vals, 'npts': n, 'travel_times': taus,
                                         'dt': c['dt'], 'trim': c['trim'], 'start': c['start'], 'stt': c['stt']}, e)


# ---------------------------------------------------------------------------------------------------- generators
DYADIC_DT = [1.0, 0.5, 0.25, 0.125, 1.0 / 64, 1.0 / 128]
_KNIFE = {}


def knife_tables(dt):
    """Travel times k*dt/2 whose 2*tau/dt evaluates a few ulps off the integer k ('delay'), and times m*dt whose
    t/dt floors to m-1 or sits a few ulps above m ('floor')."""
    if dt in _KNIFE:
        return _KNIFE[dt]
    delay, floor = [], []
    for k in range(1, 401):
        for tau in (k * dt / 2, k * (dt / 2), float('%.12g' % (k * dt / 2))):
            s = 2 * tau / dt
            if s != k and abs(s - k) <= 8 * O.EPS * k:
                delay.append((tau, k))
        for t in (k * dt, float('%.12g' % (k * dt))):
            q = t / dt
            if q != k and abs(q - k) <= 8 * O.EPS * k:
                floor.append((t, k))
    _KNIFE[dt] = (delay, floor)
    return _KNIFE[dt]


def draw_dt(rng):
    r = rng.random()
    if r < 0.2:
        return float(DYADIC_DT[int(rng.integers(len(DYADIC_DT)))]), 'dyadic'
    if r < 0.65:
        return gen.dt(rng, 'nice'), 'nice'
    if r < 0.8:
        return gen.dt(rng, 'recip'), 'recip'
    return gen.dt(rng, 'log'), 'log'


def _pick(rng, table, kmax):
    sub = [t for t in table if t[1] <= kmax] or table
    return sub[int(rng.integers(len(sub)))][0]


def draw_tau(rng, kind, n, dt, delay_tab, floor_tab, prev):
    if kind == 'zero':
        return 0.0
    if kind == 'half':
        return float(int(rng.integers(0, 3 * n + 1)) * dt / 2)
    if kind == 'knife' and delay_tab:
        return float(_pick(rng, delay_tab, 3 * n))
    if kind == 'floorknife' and floor_tab:
        return float(_pick(rng, floor_tab, int(1.5 * n) + 1))
    if kind == 'equal' and prev:
        return float(prev[int(rng.integers(len(prev)))])
    if kind == 'long':
        return float(rng.uniform(0, 1.5 * n * dt))
    return float(rng.uniform(0, 8 * dt))


def gen_surface_case(rng):
    n = int(rng.choice([1, 2, 3, 5, 8, 13, 30, 67, 120, 250, 400], p=[.02, .05, .06, .1, .12, .15, .2, .14, .1, .04, .02]))
    x, rcls = gen.record(rng, n)
    if rng.random() < 0.25 and n > 1:   # make sure both ends are non-zero often (discontinuous at the record boundaries)
        x = x + (np.max(np.abs(x)) + 1.0) * float(rng.choice([-1.0, 1.0])) * 0.5
    if rng.random() < 0.15:
        x = np.round(x * 4) / 4
    dt, dtk = draw_dt(rng)
    delay_tab, floor_tab = knife_tables(dt)
    k = int(rng.choice([1, 2, 3, 4], p=[.3, .3, .25, .15]))
    tk = str(rng.choice(['all-knife', 'all-half', 'all-frac', 'zero-nodal', 'mixed'], p=[.17, .13, .12, .13, .45]))
    taus = []
    for i in range(k):
        if tk == 'all-knife':
            kind = 'knife' if delay_tab else 'half'
        elif tk == 'all-half':
            kind = 'half'
        elif tk == 'all-frac':
            kind = 'long' if rng.random() < 0.5 else 'short'
        elif tk == 'zero-nodal' and (i == 0 or rng.random() < 0.3):
            kind = 'zero'
        else:
            kind = str(rng.choice(['zero', 'half', 'knife', 'floorknife', 'short', 'long', 'equal'],
                                  p=[.1, .15, .2, .1, .2, .15, .1]))
        taus.append(draw_tau(rng, kind, n, dt, delay_tab, floor_tab, taus))
    order = rng.permutation(k)
    taus = [taus[i] for i in order]
    nodal = bool(rng.random() < 0.5) or tk == 'zero-nodal'
    trim, start = bool(rng.random() < 0.5), bool(rng.random() < 0.5)
    r = rng.random()
    if r < 0.3:
        stt = 0.0
    elif r < 0.5:
        stt = float(rng.uniform(0, 6 * dt))
    elif r < 0.72:
        stt = float(rng.uniform(0, 1.5 * n * dt))
    elif r < 0.85 or not floor_tab:
        stt = float(int(rng.integers(0, int(1.5 * n) + 2)) * dt)
    else:
        stt = float(_pick(rng, floor_tab, int(1.5 * n) + 1))
    r = rng.random()
    if r < 0.25:
        up = down = None
    elif r < 0.55:
        up = float(rng.choice([1.0, 0.5, float(rng.uniform(0.05, 1.0))]))
        down = up if (rng.random() < 0.3 or tk == 'zero-nodal') else float(rng.choice([1.0, 0.25, float(rng.uniform(0.05, 1.0))]))
    else:
        up = rng.uniform(0.05, 1.0, size=k)
        down = up.copy() if (rng.random() < 0.25 or tk == 'zero-nodal') else rng.uniform(0.05, 1.0, size=k)
    if k == 1:
        cont = str(rng.choice(['scalar', 'list', 'ndarray'], p=[.4, .2, .4]))
    else:
        cont = str(rng.choice(['list', 'ndarray'], p=[.25, .75]))
    c = {'values': x, 'dt': dt, 'travel_times': np.array(taus), 'tt_container': cont, 'nodal': nodal, 'up_red': up,
         'down_red': down, 'stt': stt, 'trim': trim, 'start': start}
    cls = 'surface:%s/dt-%s/%s%s%s' % (tk, dtk, 'N' if nodal else 'A', 'T' if trim else '-', 'S' if start else '-')
    return c, cls, rcls


def draw_alpha(rng, i):
    if i % 2 == 0:
        return float(rng.choice([2.0, 0.5, -4.0, 2.0 ** -10, 1024.0, -0.25]))
    a = float(rng.choice([-1.0, 1.0]) * 10.0 ** rng.uniform(-3, 3))
    if np.frexp(abs(a))[0] == 0.5:
        a *= 1.1
    return a


def run_surface_case(eqsig, ctx, c, i, alpha):
    cum = _call(eqsig, ctx, 'calc_cum_abs_surface_energy', c)
    _direct_trim(eqsig, ctx, c)
    if cum is None:     # the exception has been recorded; the relations need the base result
        return
    if i % 2 == 0 and not (len(c['travel_times']) > 1 and i % 3 == 2):
        _call(eqsig, ctx, 'get_time_shift_motions', c)
    if len(c['travel_times']) > 1:
        sel = i % 3
        if sel == 0:
            _rel_batch(eqsig, ctx, 'calc_cum_abs_surface_energy', c, batch=cum)
        elif sel == 1:
            _rel_batch(eqsig, ctx, 'calc_surface_energy', c)
        else:
            _rel_batch(eqsig, ctx, 'get_time_shift_motions', c)
    elif i % 3 == 0:
        _call(eqsig, ctx, 'calc_surface_energy', c)
    _rel_alpha(eqsig, ctx, c, alpha, base=cum)
    if isinstance(c.get('up_red'), np.ndarray) or i % 4 == 1:
        _seq_shared_reductions(eqsig, ctx, c, i)


def _seq_shared_reductions(eqsig, ctx, c, i):
    """Consecutive calls that share ONE reduction ndarray (passed as up_red and as down_red): nodal then anti-nodal energy,
    then the cumulative series, then the motions. The array must stay bit-for-bit what it was, and every call must give what
    a call with fresh copies gives (the monitors judge each call against the reductions handed in)."""
    k = len(c['travel_times'])
    red = np.array(c['up_red'], dtype=float) if isinstance(c.get('up_red'), np.ndarray) else \
        np.linspace(0.3, 0.9, k) * (1.0 if i % 2 else 0.5)
    keep = red.copy()
    c2 = dict(c, up_red=red, down_red=red, same_red_object=True)
    seq = [('calc_surface_energy', True), ('calc_surface_energy', False), ('calc_cum_abs_surface_energy', c['nodal']),
           ('calc_cum_abs_surface_energy', not c['nodal']), ('get_time_shift_motions', c['nodal'])]
    for fn, nodal in seq:
        cc = dict(c2, nodal=nodal)
        got = _call(eqsig, ctx, fn, cc)
        ctx.check(_same_bits(red, keep), 'purity.reductions-unchanged',
                  lambda: _case_wit(fn, dict(cc, up_red=keep, down_red=keep), up_red_after=red.copy()),
                  'after %s(nodal=%s) the shared reduction array changed from %s to %s' % (fn, nodal, keep.tolist(), red.tolist()))
        if got is None or not _same_bits(red, keep):
            red[...] = keep      # restore so that the following calls are judged on the intended input
            continue
        fresh = _call(eqsig, ctx, fn, dict(cc, up_red=keep.copy(), down_red=keep.copy(), same_red_object=False))
        if fresh is not None:
            ctx.check(np.shape(got) == np.shape(fresh) and bool(np.array_equal(got, fresh)), 'shared-reduction==fresh-copies',
                      lambda: _case_wit('rel.shared', cc, base_fn=fn),
                      '%s with one shared reduction array differs from the call with separate copies' % fn)


# -- shift workload ---------------------------------------------------------------------------------------------------
def _put(eqsig, ctx, values, shifts, clip):
    try:
        if clip is None:
            eqsig.put_array_in_2d_array(values, shifts)
        else:
            eqsig.put_array_in_2d_array(values, shifts, clip=clip)
    except Exception as e:
        ctx.exception('put2d==offsets', {'fn': 'put_array_in_2d_array', 'values': np.asarray(values), 'shifts': np.asarray(shifts),
                                         'clip': 'none' if clip is None else clip,
                                         'values_container': type(values).__name__,
                                         'shifts_container': type(shifts).__name__}, e)


def _join(eqsig, ctx, values, shifts, jtype):
    neg = min(int(s) for s in np.asarray(shifts).tolist()) < 0
    try:
        eqsig.join_values_w_shifts(values, shifts, jtype=jtype)
    except Exception as e:
        if neg:
            ctx.observe('join_values_w_shifts: negative shift raised %s (not judged)' % type(e).__name__)
        else:
            ctx.exception('join==padded+-shifted', {'fn': 'join_values_w_shifts', 'values': np.asarray(values),
                                                    'shifts': np.asarray(shifts), 'jtype': jtype,
                                                    'values_container': type(values).__name__,
                                                    'shifts_container': type(shifts).__name__}, e)


def gen_shift_case(rng):
    n = int(rng.choice([1, 2, 3, 5, 9, 20, 60], p=[.1, .1, .15, .2, .2, .15, .1]))
    k = int(rng.integers(1, 7))
    kind = str(rng.choice(['all-zero', 'all-negative', 'all-positive', 'mixed', 'non-negative', 'non-positive'],
                          p=[.1, .15, .15, .35, .15, .1]))
    m = int(rng.choice([3, n, 2 * n + 1]))
    if kind == 'all-zero':
        sh = np.zeros(k, dtype=int)
    elif kind == 'all-negative':
        sh = -rng.integers(1, m + 1, size=k)
    elif kind == 'all-positive':
        sh = rng.integers(1, m + 1, size=k)
    elif kind == 'non-negative':
        sh = rng.integers(0, m + 1, size=k)
    elif kind == 'non-positive':
        sh = -rng.integers(0, m + 1, size=k)
    else:
        sh = rng.integers(-m, m + 1, size=k)
    sh = np.asarray(sh, dtype=np.int64)
    vals, vk = draw_values(rng, n)
    return vals, sh, kind + '/' + vk


VALUE_KINDS = ['float64', 'float64-int', 'int64', 'uint8', 'uint16', 'int8', 'int16', 'int32', 'float32', 'float32-huge']


def draw_values(rng, n, vk=None):
    """Value containers of several dtypes whose magnitudes use the dtype's range: sums of two entries exceed it and
    differences go negative / below it, so arithmetic carried out in the input dtype would wrap, saturate or round."""
    if vk is None:
        vk = VALUE_KINDS[int(rng.integers(len(VALUE_KINDS)))]
    if vk == 'float64':
        return rng.normal(size=n), vk
    if vk == 'float64-int':
        v = rng.integers(-9, 10, size=n).astype(float)
        v[v == 0] = 1.0
        return v, vk
    if vk == 'int64':
        return rng.integers(1, 10, size=n), vk
    if vk in ('uint8', 'uint16'):
        top = np.iinfo(vk).max
        return rng.integers(top // 2 + 1, top + 1, size=n).astype(vk), vk          # a+b > max, a-b < 0 half of the time
    if vk in ('int8', 'int16', 'int32'):
        top = np.iinfo(vk).max
        mag = rng.integers(top // 2 + 1, top + 1, size=n)
        sign = rng.choice([-1, 1], size=n)
        if n > 1:
            sign[:2] = [1, -1] if rng.random() < 0.5 else [1, 1]
        return (mag * sign).astype(vk), vk
    if vk == 'float32':
        return (rng.normal(size=n) * 10.0 ** rng.uniform(-3, 6)).astype(np.float32), vk  # sums need > 24 bits
    v = (rng.uniform(0.55, 1.0, size=n) * float(np.finfo(np.float32).max) * rng.choice([-1.0, 1.0], size=n)).astype(np.float32)
    return v, vk                                                                         # sums overflow float32


def run_shard(ctx):
    eqsig = core.import_eqsig()
    install(ctx)
    quick = ctx.tier == 'quick'
    rng = ctx.rng
    # -- surface cases ----------------------------------------------------------------------------------------------
    n_cases = (1400 if quick else 26000) // ctx.nshards + 1
    for i in range(n_cases):
        c, cls, rcls = gen_surface_case(rng)
        alpha = draw_alpha(rng, i)
        x = np.asarray(c['values'])
        ctx.case(core.digest(x, c['dt'], c['travel_times'], c['tt_container'], c['nodal'], c['up_red'], c['down_red'],
                             c['stt'], c['trim'], c['start'], alpha),
                 nontrivial=bool(len(x) > 1 and np.any(x != 0)), cls=cls,
                 sample={'fn': 'calc_cum_abs_surface_energy+relations', 'n': len(x), 'record_class': rcls, 'dt': c['dt'],
                         'travel_times': c['travel_times'], 'nodal': c['nodal'], 'up_red': c['up_red'],
                         'down_red': c['down_red'], 'stt': c['stt'], 'trim': c['trim'], 'start': c['start'],
                         'alpha': alpha})
        run_surface_case(eqsig, ctx, c, i, alpha)
        if ctx.out_of_time():
            ctx.observe('surface workload cut by the safety-net budget')
            break
    # -- shifts: exhaustive small vectors -----------------------------------------------------------------------------
    maxlen = 3 if quick else 4
    idx = 0
    n_enum = 0
    for length in range(1, maxlen + 1):
        for vec in itertools.product(range(-3, 4), repeat=length):
            idx += 1
            if idx % ctx.nshards != ctx.shard:
                continue
            sh = np.array(vec, dtype=np.int64)
            for n in (1, 2, 4):
                vsel = idx % 6
                if vsel < 2:
                    vals = np.arange(1.0, n + 1.0) * (1 if vsel else -1.5)
                elif vsel == 2:
                    vals = np.array([200, 150, 255, 101][:n], dtype=np.uint8)
                elif vsel == 3:
                    vals = np.array([100, -120, 127, -128][:n], dtype=np.int8)
                elif vsel == 4:
                    vals = np.array([1.0000001, 3.0e38, -2.9e38, 16777217.0][:n], dtype=np.float32)
                else:
                    vals = np.array([40000, 65535, 32768, 50001][:n], dtype=np.uint16)
                for clip in ('none', 'start', 'end', 'both'):
                    _put(eqsig, ctx, vals, sh if idx % 5 else list(vec), None if (clip == 'none' and idx % 2) else clip)
                    n_enum += 1
                if min(vec) >= 0:
                    for jt in ('add', 'sub'):
                        _join(eqsig, ctx, vals, sh, jt)
                        n_enum += 1
    ctx.cases_enumerated(n_enum, n_enum, cls='shift:exhaustive{-3..3}')
    ctx.exhaustive['shift_vectors_x_n_x_clip'] = n_enum
    # -- shifts: random -----------------------------------------------------------------------------------------------
    n_rand = (2400 if quick else 45000) // ctx.nshards + 1
    for i in range(n_rand):
        vals, sh, kind = gen_shift_case(rng)
        ctx.case(core.digest(vals, sh), nontrivial=bool(np.any(vals != 0)), cls='shift:' + kind,
                 sample={'fn': 'put_array_in_2d_array x4 clip + join', 'values': vals, 'shifts': sh})
        v_arg = vals.tolist() if i % 7 == 3 else vals
        s_arg = sh.tolist() if i % 5 == 2 else (sh.astype(np.int32) if i % 5 == 4 else sh)
        for clip in ('none', 'start', 'end', 'both'):
            _put(eqsig, ctx, v_arg, s_arg, clip)
        if sh.min() >= 0:
            _join(eqsig, ctx, v_arg, s_arg, 'add')
            _join(eqsig, ctx, v_arg, s_arg, 'sub')
        elif i % 4 == 0:
            _join(eqsig, ctx, vals, sh, 'add' if i % 2 else 'sub')
        if i % 10 == 0 and sh.min() >= 0:
            # times -> shifts: observed only; the inner join is monitored on the integer shifts it receives
            dt = gen.dt(rng, 'nice')
            try:
                eqsig.join_sig_w_time_shift(eqsig.Signal(vals, dt), sh * dt + 0.25 * dt, jtype='add' if i % 20 else 'sub')
            except Exception as e:
                ctx.observe('join_sig_w_time_shift raised %s (not judged)' % type(e).__name__)
    ctx.note('monitored_calls', dict(attach.CALLS))


# ---------------------------------------------------------------------------------------------------------- replay
def replay(w):
    eqsig = core.import_eqsig()
    ctx = core.Ctx(PROP_ID, 'quick', 0, 0, 1)
    install(ctx)
    fn = w.get('fn')
    if fn in _FN_CLAUSE:
        _call(eqsig, ctx, fn, w)
    elif fn == 'rel.batch':
        _rel_batch(eqsig, ctx, w['base_fn'], w)
    elif fn == 'rel.alpha':
        _rel_alpha(eqsig, ctx, w, w['alpha'])
    elif fn == 'rel.shared':
        red = np.array(w['up_red'], dtype=float)
        got = _call(eqsig, ctx, w['base_fn'], dict(w, up_red=red, down_red=red, same_red_object=True))
        fresh = _call(eqsig, ctx, w['base_fn'], dict(w, up_red=red.copy(), down_red=red.copy(), same_red_object=False))
        if got is not None and fresh is not None:
            ctx.check(np.shape(got) == np.shape(fresh) and bool(np.array_equal(got, fresh)), 'shared-reduction==fresh-copies',
                      w, 'shared reduction array vs separate copies differ')
    elif fn == 'trim_to_length':
        try:
            eqsig.surface.trim_to_length(np.asarray(w['values2d'], dtype=float), int(w['npts']),
                                         np.asarray(w['travel_times'], dtype=float), w['dt'], trim=w['trim'],
                                         start=w['start'], s2s_travel_time=w['stt'])
        except Exception as e:
            ctx.exception('trim.placement', w, e)
    elif fn == 'put_array_in_2d_array':
        vals = w['values'].tolist() if w.get('values_container') == 'list' else w['values']
        sh = w['shifts'].tolist() if w.get('shifts_container') == 'list' else w['shifts']
        _put(eqsig, ctx, vals, sh, w.get('clip', 'none'))
    elif fn == 'join_values_w_shifts':
        vals = w['values'].tolist() if w.get('values_container') == 'list' else w['values']
        sh = w['shifts'].tolist() if w.get('shifts_container') == 'list' else w['shifts']
        _join(eqsig, ctx, vals, sh, w.get('jtype', 'add'))
    else:
        return ['unknown witness kind %r' % fn]
    return ['%s: %s' % (v['clause'], v['msg']) for v in ctx.violations]
