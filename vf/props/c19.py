"""C19 - surface-energy and time-shift utilities match the shifted-wave definition.

Monitors: post-conditions on every execution of eqsig.surface.calc_surface_energy / calc_cum_abs_surface_energy /
get_time_shift_motions / trim_to_length and eqsig.fns.time_shift.put_array_in_2d_array / join_values_w_shifts (wherever
the call comes from) against the scalar reference model vf/oracles/surface.py. Relations between executions (batch row =
single travel time, alpha^2 scaling) are evaluated by the driver on the recorded results.
"""
import itertools

import numpy as np

from vf import attach, core, gen, tol
from vf.oracles import surface as O

PROP_ID = 'C19'
TECHNIQUE = ('runtime post-condition monitors with a scalar shifted-wave reference (two-sided on inexact knife edges) judged on '
             'call-entry snapshots, argument-purity monitors (also on the exception path); offline relations between monitored '
             'executions (batch, scaling, shared objects, histories, copies / pickles / assignments / refused operations vs a fresh '
             'object, back-to-back and A;B;A results); random + exhaustive small shift-vector workload')
RULE = ('surface cases = (record of 1..400 samples (lengths 1,2,3 and around every power of two up to 257; shared record '
        'classes, amplitudes 1e-12..1e12, large offsets, extreme at the first/last sample, plateaus at both ends, ending after '
        'a sign change; containers float64/float32/int64..int8/uint8/uint16 (most of the dtype range)/list/tuple/list of '
        'ints/non-contiguous and reversed views/read-only), dt nice/reciprocal/dyadic (2**-30..1024)/log-uniform 1e-9..1e3/'
        'exact decades, 1-4 travel times mixing 0, multiples of dt/2 (incl. those whose 2*tau/dt evaluates a few ulps '
        'above/below an integer), fractional short and long (up to 1.5x the record duration), repeated values, exact ties '
        '(delay = record length -2..+1, start move = record length -1..+1) and integral values; travel-time containers python '
        'float/int, np.float64, list, tuple, list of ints, mixed list, ndarray float64/float32 (exact quotients only)/every '
        'integer width incl. values whose doubling leaves the dtype, views, read-only; reductions default/python float/int 1/'
        'np.float32/np.float64/ndarray float64, float32, integer ones, views, read-only, one object for both; nodal x trim x '
        'start as bool/int/np.bool_, stt in {0 (also int 0), U(0,6dt), U(0,1.5 duration), multiples of dt}; call styles '
        'keyword / positional / mixed / defaults omitted / all-keyword). Every case calls calc_cum_abs_surface_energy (hence '
        'calc_surface_energy and trim_to_length), get_time_shift_motions, a direct trim_to_length (float/int/Fortran/column '
        'view/read-only array), the single-travel-time calls of the batch relation, an alpha-scaled copy and a 5-call sequence '
        'on ONE AccSignal sharing ONE reduction ndarray (up_red and down_red) and ONE travel-time object. Further blocks: '
        'same-object histories (10 random steps: calls, repeats, twins, reads of velocity/displacement/fa_spectrum/pga, '
        'reset_values same/shorter/longer, add_constant, remove_average, add_series, regeneration), back-to-back pairs (first '
        'result re-checked after a second call on another input of the same shape), a few records longer than 2**16. shift '
        'cases = put_array_in_2d_array for every shift vector over {-3..3} of length 1..3 (quick) / 1..4 (thorough) x n in '
        '{1,2,4} x clip in {none (also omitted and None), start, end, both} (distinct by construction) plus random vectors '
        '(all-zero / all-negative / all-positive / mixed, |shift| up to 2n, 120, 250; containers int64..int8/uint8/uint16/'
        'list/tuple/views/read-only) on values float64 (also 1e-12, 1e12)/int64/uint8/uint16/int8/int16/int32/float32 using '
        'the dtype range, as ndarray/list/tuple/mixed list/views/read-only, positional and keyword; joins with non-negative '
        'shifts, and the object-level join_sig_w_time_shift on Signal/AccSignal with times s*dt (dyadic/nice/reciprocal/'
        '1e-9..1e3 dt), s*dt+0.25dt, s*dt+0.999dt, decimal literals and one ulp below (s+1)*dt, jtype add/sub/omitted, '
        'positional/keyword. distinct = digest of all inputs and forms; non-trivial = record with a non-zero sample and at least 2 '
        'samples (surface) / any non-zero value (shift). Audit round 2: travel-time vectors of 5..256 entries around powers of '
        'two (ascending/descending/shuffled/repeated/maximum first or in the middle) and shift vectors of 8..128 entries; '
        'results with rows x samples > 2**22; awkward steps (gen.awkward_dt, dt = D/k with D/(D/k) != k) and exact multiples m*dt '
        'whose quotient lands just below m for travel times and stt; records with one sample 1e3..1e12 times larger than the '
        'rest, tail-heavy, monotone, one-sided, a single changed sample; the four trim x start results of one input related to '
        'each other; energy related to the integral of the motions and to the velocity of the signal; objects derived by the '
        'library from analysed objects (deepcopy+reset, interp/resample, combine_at_angle, Cluster member, real part of '
        'fas2signal) analysed through the object-level entry points. Wave 5: travel times m*dt/2, m = 1..40 (float products and '
        'decimal literals, dt 0.01/0.005/0.02/0.025/awkward) on untrimmed records whose first and last samples are the largest; '
        'extreme scales: motions, put, join on gen.special_scale records (1e-300..1e300, extreme range, ripple on a baseline, '
        'counts above 2**24), energy on amplitudes 1e+-100..130. Audit round 3 (checklist 22-27), every history a replayable spec: '
        'copy.copy / deepcopy / pickle (protocol 2 and highest) / deepcopy-of-copy of an AccSignal and deepcopy / pickle of the Cluster '
        'that owns it, in the cache states cold / velocity / spectrum / smoothed spectrum / peaks / response spectrum / Stockwell '
        'memo / after a surface call, then reads and mutators (reset same/shorter/longer, add_constant, remove_average, add_series) '
        'on the copy, the original or both, in both orders, both objects analysed twice (surface functions and join_sig); '
        'assignment to values / dt / npts / label / response_times / smooth_fa_freqs / smooth_fa_frequencies / smooth_freq_range / '
        'time / velocity with lists, tuples, int lists, ndarrays of 1, 2, 3, n-1, n, n+3 entries, then analyses; operations that '
        'raise (add_series of the wrong length, add_signal with another dt / a non-signal, ragged reset, filter above Nyquist) '
        'followed by analyses of the same object; calls the library refuses or that are outside the statement (list / tuple / '
        'mismatched / array+scalar reductions, empty or negative travel times, negative shifts, float or empty shift vectors, '
        'list time shifts, list travel times of trim_to_length, unknown jtype, records with nan / inf) followed by a valid call '
        'with the same argument objects; f(A); f(B); f(A) with B differing from A in ONE argument (record, record length, travel '
        'times, their number, reductions, nodal, stt, trim, start, dt) or in all, for the three surface functions on fresh and on '
        'one object, and for put / join / join_sig / trim_to_length; edges: fractional delays within 1e-9..1e-3 of a whole '
        'sample on either side, delays of 1e-9..1e-3 of a step, delays and start lags of 1.5..20 record durations, stt within '
        '1e-9..1e-3 of a multiple of dt, reductions within 1e-9..1e-3 of 0 and of 1, exactly 0, above 1; silent (all-zero) and '
        'strictly one-signed records / values as float64, float32, int, list, int list, tuple. Audit round 5 (checklist 28-33): '
        'scalar forms of EVERY numeric argument, drawn per case and used by all blocks above: step of the signal as python float / '
        'int / np.float64 / np.int64 / np.float32 / 0-d float and int arrays, stt as float / int / np.float64 / np.int64 / np.float32 '
        '/ 0-d arrays, single travel times also as np.int8..np.int64 / np.uint8 / np.uint16 / np.float32 scalars, reductions also as '
        'np.int64 / np.int32 / bool / np.bool_ one, nodal / trim / start also as 0-d bool arrays; trim_to_length called with npts as '
        'int / np.int64 / 0-d array, dt / s2s_travel_time / flags in the same forms; Signal / AccSignal of join_sig built with those '
        'step forms (float32 scalars only where every quotient is exact: dyadic step, stt a whole number of steps). 0-d arrays are '
        'mutable: snapshotted at call entry and compared afterwards, also on the exception path (0-d travel times / reductions are '
        'refused by the library: driven as refused calls followed by a valid call). bool-dtype records (ndarray and list of bools; '
        'silent all-False, one-signed all-True) through every block, bool values for put / join / join_sig (also in the exhaustive '
        'block). Travel-time sets that are only zeros ([0], [0.0], 0, [0, 0]) at nodal AND anti-nodal surfaces. User-given settings '
        '(smoothing frequencies above the Nyquist frequency through the constructor / the range keyword / the setter, response '
        'periods below 2 dt, as ndarray / list / tuple) read back after each of the three surface functions and the join on one '
        'object in the cache states cold / smooth / rs / fa / vel. Ownership of results: every cell of a first result overwritten, '
        'the same call repeated (same argument objects; fresh or the same signal object) for the three surface functions, put, '
        'join, join_sig, trim_to_length.')
ASSUMPTIONS = ['finite real records, dt > 0, travel times >= 0, stt >= 0',
               'reductions are both scalars or both sequences with one entry per travel time (list-typed, 0-d and mixed '
               'reductions and 0-d travel times are rejected by the library: no value to judge; a list / tuple of factors that a '
               'later version accepts is judged like the ndarray with the same entries)',
               'object histories (copies, pickles, assignments, operations that raised): the record of an AccSignal is what '
               '.values and .dt read at call entry; every analysis must equal the one of a fresh AccSignal built from these. '
               'An assignment / refused operation must leave values, npts and time consistent (old or new record, completely). '
               'Records with nan / inf and objects whose values are not a finite 1-d series are outside the quantifier (counted); '
               'purity and ownership are judged for them and on the exception path of every monitored function',
               'placement rule for trim/start as read in DESIGN.md C19 (b): moves by floor(stt/dt) - floor(tau/dt) samples',
               'knife edges: a quotient (2*tau/dt, tau/dt, stt/dt, t/dt) whose binary64 evaluation IS an integer is a whole-sample '
               'quantity and decided strictly (first and last sample of the delayed wave belong to the record); when the '
               'evaluation lands within 16 ulps off an integer either resolution of the first/last record sample is accepted, '
               'and k-1 or k for a floor whose quotient lies just below k',
               'join_values_w_shifts is judged for non-negative shifts only; join_sig_w_time_shift (Signal/AccSignal, ndarray '
               'times >= 0) is judged against the join by int(t/dt) samples: the floor of the exact quotient of the given '
               'floats, two-sided (k-1 or k) only when that quotient lies within 16 ulps below an integer k; and, for all '
               'times, against join_values_w_shifts on int(t/dt) as evaluated by the library; list/tuple/scalar time_shifts '
               'are rejected by the library (observations)',
               'tolerances: energy 1e-9*max|E| + 1e-11*V^2, cumulative 1e-9*(max + V^2), motions 1e-9*(|up|+|down|)*max|x| '
               'with V = dt*(|up|+|down|)*sum|x|; shifted arrays exact',
               'values of shifted/joined arrays are judged numerically in exact float64 arithmetic on the input values; '
               'the dtype of the result is not part of the statement; integer inputs of any width are in domain',
               'float32 inputs are judged at float64 accuracy on their exact values; float32 records are driven only with '
               'reductions whose product is not evaluated in float32 (power-of-two python floats, np.float64, float64 arrays) '
               'and float32 travel times only with exact quotients (numpy evaluates the other combinations in float32)',
               'purity: every array argument (record of the signal, travel times, reductions, values, shifts, 2-d array) must be '
               'bit-for-bit unchanged after each call; references are computed from snapshots taken at call entry',
               'clip=None is read as no clipping (docstring: "str or none")',
               'tolerances are LOCAL: energy sample j within rt*(running max|E| up to j) + at*P[j]^2 with P[j] = dt*(|up|+|down|)*'
               'sum_{i<=j}|x_i|, cumulative within rt*(C[j]+P[j]^2), motions within rt*(|up x_j|+|down|(|x_i|+|x_i+1|)); rt = 1e-9, '
               'at = 1e-11 (64*eps32 for float32 records); valid for amplitudes 1e-12..1e24, dt 1e-9..1e3, up to 2**17 samples',
               'results with more than 2**21 cells are judged on the rows {first, middle, last, largest delay, smallest delay}',
               'complex-typed records (fas2signal) are counted, not judged; their real part is judged',
               'returned arrays must not share memory with any argument (trim_to_length without trim/start returns its '
               'argument by design and is exempt)',
               'scalar forms: a numeric argument has the value float(arg) / bool(arg) whatever its scalar type; np.float32 steps, '
               'stt and single travel times are driven only where every quotient is exact (numpy evaluates python-float / '
               'np.float32 in float32). The step of a signal is what .dt reads at call entry (a 0-d array is snapshotted)',
               'checklist item 33 does not apply: the oracle knows ONE convention (whole-sample delays include the first and last '
               'record sample; placement by floor) and decides every exactly representable quotient strictly; alternatives exist '
               'only for a quotient whose binary64 evaluation is within 16 ulps of, and not equal to, an integer, and only for the '
               'boundary samples that are non-zero (a record with zero ends has a single admissible result)',
               'settings of a signal object (smoothing frequencies, response periods, label) are not mentioned by the statement; '
               'that an analysis leaves them alone is judged as part of argument purity',
               'oracle vf/oracles/surface.py is correct']
EXHAUSTIVE = {'quick': 'put_array_in_2d_array: all shift vectors over {-3..3} of length 1..3 x n in {1,2,4} x clip in '
                       '{none,start,end,both}; join_values_w_shifts: all vectors over {0..3} of length 1..3 x n x {add,sub}',
              'thorough': 'put_array_in_2d_array: all shift vectors over {-3..3} of length 1..4 x n in {1,2,4} x clip in '
                          '{none,start,end,both}; join_values_w_shifts: all vectors over {0..3} of length 1..4 x n x {add,sub}'}
MIN_EVALS = {'quick': {'energy==oracle': 15000, 'cum==oracle': 8800, 'cum==cumsum|d(observed energy)|': 8800,
                       'cum.non-decreasing': 8800, 'cum.zero@tau0-nodal': 1200, 'cum.scales-alpha^2(pow2,exact)': 800,
                       'cum.scales-alpha^2(tol)': 800, 'motions==oracle': 4600, 'trim.placement': 15000,
                       'trim.identity(no trim,no start)': 5400, 'energy.batch-row==single': 1000,
                       'cum.batch-row==single': 1000, 'motions.batch-row==single': 1000, 'put2d==offsets': 15000,
                       'join==padded+-shifted': 2800, 'purity.reductions-unchanged': 18000,
                       'purity.record,travel-times-unchanged': 28000, 'purity.trim-arguments-unchanged': 21000,
                       'purity.values,shifts-unchanged': 18000, 'purity.shared-objects-unchanged-across-calls': 4800,
                       'shared-reduction==fresh-copies': 4800, 'first-result-unchanged-after-second-call': 600,
                       'history.repeat==first': 250, 'history.twin==object': 250, 'history.sequence-completed': 160, 'join_sig==padded+-shifted(int(t/dt))': 3600,
                       'join_sig==join_values(int(t/dt))': 3600, 'purity.join_sig-arguments-unchanged': 3600,
                       'cum.trim==first-npts(no-trim)': 350, 'energy.trim==first-npts(no-trim)': 350,
                       'motions.trim==first-npts(no-trim)': 350, 'energy.start==moved(no-start)': 180,
                       'motions.start==moved(no-start)': 170, 'energy(tau=0,anti-nodal)==2v|v|(signal velocity)': 400,
                       'energy==0.5v|v|(trapezoid of the motions)': 400, 'history.derived==fresh': 380,
                       'join==pad+-put2d': 380, 'purity.signal-observables-unchanged': 400,
                       'result-shares-no-memory-with-arguments': 65000,
                       'copy.result==fresh(own values)': 1600, 'copy.unmutated-side-keeps-record': 200,
                       'assign.record-old-or-new(completely)': 200, 'assign.result==fresh(own values)': 650,
                       'after-raise.record-consistent': 240, 'after-raise.result==fresh(own values)': 800,
                       'purity.arguments-unchanged-after-raise': 450, 'third-call==first(A;B;A)': 480,
                       'purity.scalar-arguments-unchanged(0-d arrays)': 23000, 'settings-unchanged-after-analysis': 500,
                       'result-owned(overwritten;call-again==first)': 320},
             'thorough': {'energy==oracle': 270000, 'cum==oracle': 158400, 'cum==cumsum|d(observed energy)|': 158400,
                          'cum.non-decreasing': 158400, 'cum.zero@tau0-nodal': 21600,
                          'cum.scales-alpha^2(pow2,exact)': 14400, 'cum.scales-alpha^2(tol)': 14400,
                          'motions==oracle': 82800, 'trim.placement': 270000, 'trim.identity(no trim,no start)': 97200,
                          'energy.batch-row==single': 18000, 'cum.batch-row==single': 18000,
                          'motions.batch-row==single': 18000, 'put2d==offsets': 270000, 'join==padded+-shifted': 50400,
                          'purity.reductions-unchanged': 324000, 'purity.record,travel-times-unchanged': 504000,
                          'purity.trim-arguments-unchanged': 378000, 'purity.values,shifts-unchanged': 324000,
                          'purity.shared-objects-unchanged-across-calls': 86400, 'shared-reduction==fresh-copies': 86400,
                          'first-result-unchanged-after-second-call': 10800, 'history.repeat==first': 4500,
                          'history.twin==object': 4500, 'history.sequence-completed': 2880, 'join_sig==padded+-shifted(int(t/dt))': 60000,
                          'join_sig==join_values(int(t/dt))': 60000, 'purity.join_sig-arguments-unchanged': 60000,
                          'cum.trim==first-npts(no-trim)': 5950, 'energy.trim==first-npts(no-trim)': 5950,
                          'motions.trim==first-npts(no-trim)': 5950, 'energy.start==moved(no-start)': 3060,
                          'motions.start==moved(no-start)': 2890, 'energy(tau=0,anti-nodal)==2v|v|(signal velocity)': 6800,
                          'energy==0.5v|v|(trapezoid of the motions)': 6800, 'history.derived==fresh': 6460,
                          'join==pad+-put2d': 6460, 'purity.signal-observables-unchanged': 6800,
                          'result-shares-no-memory-with-arguments': 1105000,
                          'copy.result==fresh(own values)': 26000, 'copy.unmutated-side-keeps-record': 3400,
                          'assign.record-old-or-new(completely)': 3500, 'assign.result==fresh(own values)': 11000,
                          'after-raise.record-consistent': 4000, 'after-raise.result==fresh(own values)': 12900,
                          'purity.arguments-unchanged-after-raise': 14800, 'third-call==first(A;B;A)': 8000,
                          'purity.scalar-arguments-unchanged(0-d arrays)': 400000, 'settings-unchanged-after-analysis': 8000,
                          'result-owned(overwritten;call-again==first)': 5500}}
CTX = None
_INNER = {'active': False, 'energy': None}

_SURF_NAMES = ('asig', 'travel_times', 'nodal', 'up_red', 'down_red', 'stt', 'trim', 'start')
_SURF_DEF = {'nodal': True, 'up_red': 1., 'down_red': 1., 'stt': 0.0, 'trim': False, 'start': False}
_FN_CLAUSE = {'calc_surface_energy': 'energy==oracle', 'calc_cum_abs_surface_energy': 'cum==oracle',
              'get_time_shift_motions': 'motions==oracle'}
_FN_KIND = {'calc_surface_energy': 'energy', 'calc_cum_abs_surface_energy': 'cum', 'get_time_shift_motions': 'acc'}
_REL_NAME = {'calc_surface_energy': 'energy', 'calc_cum_abs_surface_energy': 'cum', 'get_time_shift_motions': 'motions'}


def n_shards(tier):
    return 16


def _parse(args, kwargs, names, defaults):
    out = dict(defaults)
    for nm, v in zip(names, args):
        out[nm] = v
    out.update(kwargs)
    return out


# ------------------------------------------------------------------------------------------ monitors: surface functions
def _array_form(a):
    if not a.flags.writeable:
        return 'readonly'
    if not a.flags.c_contiguous:
        return 'rview' if (a.ndim == 1 and a.strides[0] < 0) else 'view'
    return 'ndarray'


def _tt_container(tt):
    if isinstance(tt, np.ndarray):
        return _array_form(tt)
    if not hasattr(tt, '__len__'):
        if isinstance(tt, np.integer):
            return 'npint:' + tt.dtype.name
        if isinstance(tt, (bool, int)):
            return 'pyint'
        if isinstance(tt, np.float32):
            return 'npf32'
        return 'npfloat' if isinstance(tt, np.floating) else 'scalar'
    if isinstance(tt, tuple):
        return 'tuple'
    if isinstance(tt, list):
        ints = [isinstance(t, (int, np.integer)) for t in tt]
        return 'list-int' if all(ints) else ('list-mixed' if any(ints) else 'list')
    return 'ndarray'


def _red_form(r):
    if isinstance(r, np.ndarray):
        return _array_form(r)
    if isinstance(r, (np.floating, np.integer, np.bool_)):
        return 'np.' + r.dtype.name
    if isinstance(r, bool):
        return 'bool'
    return 'int' if isinstance(r, int) else 'float'


def _as_form(arr, form):
    """Re-create a container form from plain data (used by the generators and by replay)."""
    arr = np.array(arr)
    if form == 'view':
        big = np.zeros(2 * len(arr) + 1, dtype=arr.dtype)
        big[1::2] = arr
        return big[1::2]
    if form == 'rview':
        return np.array(arr[::-1])[::-1]
    if form == 'readonly':
        arr.flags.writeable = False
    return arr


class _Rec(object):
    """The record as it was at call entry (what the reference is computed from)."""
    def __init__(self, values, dt):
        self.values = values
        self.dt = dt


def _wit_surface(fn, p, **extra):
    a = p['asig']
    forms = p.get('_forms') or {'tt': _tt_container(p['travel_times']), 'red': _red_form(p['up_red']),
                                'rec_readonly': not np.asarray(a.values).flags.writeable}
    d = {'fn': fn, 'values': np.asarray(a.values), 'dt': float(a.dt), 'travel_times': np.atleast_1d(np.asarray(p['travel_times'])),
         'tt_container': forms['tt'], 'red_form': forms['red'], 'rec_readonly': forms['rec_readonly'],
         'dt_form': forms.get('dt', _scalar_form(a.dt)), 'stt_form': forms.get('stt', _scalar_form(p['stt'])),
         'bool_form': forms.get('flag', _flag_form(p['nodal'])),
         'nodal': _plain_num(p['nodal'], bool), 'up_red': p['up_red'],
         'down_red': p['down_red'], 'stt': _plain_num(p['stt']), 'trim': _plain_num(p['trim'], bool),
         'start': _plain_num(p['start'], bool),
         'same_red_object': bool(p.get('same_red_object', p['up_red'] is p['down_red'] and isinstance(p['up_red'], np.ndarray)))}
    d.update(extra)
    return d


def _normalise(p):
    """-> (x list, dt, taus, ups, downs, stt) or (None, reason) when the call is outside the statement's quantifier."""
    a = p['asig']
    x = np.asarray(a.values, dtype=float)
    dt = float(a.dt)
    tt = p['travel_times']
    taus = [float(t) for t in np.atleast_1d(np.asarray(tt, dtype=float)).ravel()]
    k = len(taus)

    def per_row(r):
        if isinstance(r, (list, tuple)):      # rejected by the clean library; a version that accepts them is judged
            try:
                arr = [float(v) for v in r]
            except Exception:
                return 'list'
            return arr if len(arr) == k else None
        if hasattr(r, '__len__'):
            arr = np.asarray(r, dtype=float).ravel()
            return [float(v) for v in arr] if len(arr) == k else None
        return [float(r)] * k
    ups, downs = per_row(p['up_red']), per_row(p['down_red'])
    stt = float(p['stt'])
    if x.ndim != 1 or len(x) < 1 or not np.all(np.isfinite(x)) or not (dt > 0 and np.isfinite(dt)):
        return None, 'record not a finite 1-d series / dt'
    if k < 1 or any((not np.isfinite(t)) or t < 0 for t in taus):
        return None, 'travel time negative, non-finite or empty'
    if not (np.isfinite(stt) and stt >= 0):
        return None, 'stt negative or non-finite'
    if ups == 'list' or downs == 'list':
        return None, 'list-typed reductions'
    if ups is None or downs is None or hasattr(p['up_red'], '__len__') != hasattr(p['down_red'], '__len__'):
        return None, 'reductions not both scalar / both one-per-travel-time arrays'
    if not all(np.isfinite(ups)) or not all(np.isfinite(downs)):
        return None, 'non-finite reductions'
    return (x.tolist(), dt, taus, ups, downs, stt), None


EPS32 = float(np.finfo(np.float32).eps)
F32_RTOL = 64 * EPS32      # a float32 record is given to eps32; numpy evaluates up_red*record in float32


BIG_CELLS = 2 ** 21     # results with more cells are judged on a fixed subset of rows (first, middle, last, extreme delays)


def _rows_to_judge(k, length, taus):
    if k * length <= BIG_CELLS:
        return list(range(k))
    return sorted(set([0, k // 2, k - 1, int(np.argmax(taus)), int(np.argmin(taus))]))


def _accept(got2d, x, dt, taus, nodal, ups, downs, stt, trim, start, kind, f32=False):
    """Two-sided comparison of a (rows x length) result with the reference. kind: 'energy' | 'cum' | 'acc'.
    Tolerances are LOCAL: sample j of the energy may differ by rt*(running max|E| up to j) + at*P[j]^2 with P[j] the
    magnitude of what has entered the velocity integral up to j; the cumulative series by rt*(C[j] + P[j]^2); the motions by
    rt*(|up x_j| + |down|(|x_i|+|x_i+1|)). rt = 1e-9 (at = 1e-11), or 64*eps32 for both when the record is float32."""
    n = len(x)
    k = len(taus)
    if got2d.ndim != 2 or got2d.shape[0] != k:
        return False, 'result shape %s, expected %d rows' % (got2d.shape, k)
    length = got2d.shape[1]
    alts = O.placement_alternatives(n, dt, taus, stt, trim, start)
    rows = _rows_to_judge(k, length, taus)
    if len(rows) < k:
        CTX.observe('%s result with more than 2**21 cells: %d of %d rows judged' % (kind, len(rows), k))
    if len(alts) > 1 or any(len(o) > 1 for o in alts[0][0]) or (isinstance(alts[0][1], list) and any(len(o) > 1 for o in alts[0][1])):
        CTX.observe('%s call with a placement floor on an inexact knife edge (several admissible placements)' % kind)
    base = {}
    rowres = {}
    rt, at = (F32_RTOL, F32_RTOL) if f32 else (1e-9, 1e-11)

    def series(r, edge):
        if (r, edge) not in base:
            ln = O.natural_length(n, dt, taus[r])
            acc = O.acc_series(x, dt, taus[r], nodal, ups[r], downs[r], ln, edge)
            if kind == 'acc':
                base[(r, edge)] = (acc, O.acc_local_scale(x, dt, taus[r], ups[r], downs[r], ln), None)
            else:
                e = O.energy_series(acc, dt)
                base[(r, edge)] = (e, O.running_max_abs(e), O.prefix_scale(x, dt, ups[r], downs[r], ln))
        return base[(r, edge)]

    def row_ok(r, shift):
        if (r, shift) in rowres:
            return rowres[(r, shift)]
        res = (False, '')
        for edge in O.edge_options(x, dt, taus[r]):
            ser, sc1, sc2 = series(r, edge)
            ref = O.place(ser, shift, length, tail_constant=(kind != 'acc'))
            if kind == 'acc':
                allowed = rt * np.array(O.place(sc1, shift, length, tail_constant=False), dtype=float)
            else:
                pp = np.array(O.place(sc2, shift, length, tail_constant=True), dtype=float) ** 2
                if kind == 'cum':
                    ref = O.cum_abs_change(ref)
                    allowed = rt * (np.array(ref, dtype=float) + pp)
                else:
                    allowed = rt * np.array(O.place(sc1, shift, length, tail_constant=True), dtype=float) + at * pp
            ref = np.array(ref, dtype=float)
            if tol.close(got2d[r], ref, scale=allowed, rtol=1.0):
                res = (True, '')
                if O.quotient_kind(taus[r], dt, 2, n)[0] == 'near':
                    CTX.observe('%s row with 2*tau/dt an inexact near-integer: accepted with first sample %s, last sample %s'
                                % (kind, 'in' if edge[0] else 'out', 'in' if edge[1] else 'out'))
                break
            res = (False, tol.describe(got2d[r], ref, scale=allowed, rtol=1.0))
        rowres[(r, shift)] = res
        return res

    msg = ''
    for (row_opts, contrib, fixed_len) in alts:
        if fixed_len is not None and length != fixed_len:
            msg = 'output length %d, expected %d' % (length, fixed_len)
            continue
        if isinstance(contrib, list) and not O.length_admissible(length, n, contrib):
            msg = 'output length %d is not npts + floor(max 2*tau/dt) = %d + %s' % (length, n, sorted(set(max(c) for c in contrib))[-3:])
            continue
        good = True
        matched = [list(o) for o in row_opts]
        for r in rows:
            matched[r] = [sh for sh in row_opts[r] if row_ok(r, sh)[0]]
            if not matched[r]:
                good = False
                msg = 'row %d (tau=%r, placement shift %s): %s' % (r, taus[r], row_opts[r], row_ok(r, row_opts[r][0])[1])
                break
        if not good:
            continue
        if contrib == 'rows' and not O.length_admissible(length, n, matched):
            msg = 'output length %d is not npts + max(largest start move, 0) for the moves that match the rows' % length
            continue
        return True, ''
    return False, msg


def _as2d(result, k):
    got = np.asarray(result, dtype=float)
    if k == 1 and got.ndim == 1:
        return got[np.newaxis, :]
    if k == 1 and got.ndim == 2:
        return np.zeros((0, 0))   # a single travel time must give a 1-d series
    return got


def _copy_arg(a):
    if isinstance(a, np.ndarray):
        return a.copy()
    if isinstance(a, (list, tuple)):
        return type(a)(a)
    return a


def _same_bits(a, b):
    return a.dtype == b.dtype and a.shape == b.shape and a.tobytes() == b.tobytes()


def _scalar_form(v):
    """Name of the scalar form of a numeric argument (round 5: python / numpy scalars, MUTABLE 0-d arrays)."""
    if isinstance(v, np.ndarray):
        return '0di' if v.dtype.kind in 'iu' else '0d'
    if isinstance(v, np.bool_):
        return 'np'
    if isinstance(v, bool):
        return 'bool'
    if isinstance(v, np.floating):
        return 'np32' if v.dtype == np.float32 else 'np'
    if isinstance(v, np.integer):
        return 'npint'
    return 'int' if isinstance(v, int) else 'float'


def _flag_form(v):
    if isinstance(v, np.ndarray):
        return '0d'
    if isinstance(v, np.bool_):
        return 'np'
    return 'bool' if isinstance(v, bool) else 'int'


def _scalar_arg(v, form):
    """The value v in the scalar form `form`; forms that cannot hold v exactly fall back to the python float."""
    f = float(v)
    if form == '0d':
        return np.array(f)
    if form == 'np':
        return np.float64(f)
    if form == 'np32' and float(np.float32(f)) == f:
        return np.float32(f)
    if form in ('int', 'npint', '0di') and f == int(f) and abs(f) < 2.0 ** 53:
        return int(f) if form == 'int' else (np.int64(int(f)) if form == 'npint' else np.array(int(f)))
    return f


def _f32_exact(v):
    with np.errstate(over='ignore'):
        return float(np.float32(v)) == float(v)


def _f32_scalars_ok(c):
    """np.float32 forms of the step / stt stay inside the range of validity of the monitor: numpy evaluates python-float /
    np.float32 in float32, so the step, stt and their quotient must all be float32 numbers (then the float32 quotient IS the
    binary64 one). Decided per call: variants of a case (edges, A;B;A) change stt or the step afterwards."""
    dt, stt = float(c['dt']), float(c['stt'])
    return _f32_exact(dt) and _f32_exact(stt) and _f32_exact(stt / dt)


def _scalar_same(now, before):
    """A scalar argument is what it was: 0-d arrays bit for bit (they are mutable), other scalars by type and value."""
    if isinstance(before, np.ndarray):
        return isinstance(now, np.ndarray) and _same_bits(now, before)
    return now is before or (type(now) is type(before) and bool(now == before))


def _plain_num(v, conv=float):
    try:
        return conv(v)
    except Exception:
        return repr(v)


SCALAR_CLAUSE = 'purity.scalar-arguments-unchanged(0-d arrays)'
_SCAL_NAMES = ('stt', 'nodal', 'trim', 'start')


def _arg_unchanged(now, before):
    if isinstance(before, np.ndarray):
        return isinstance(now, np.ndarray) and _same_bits(now, before)
    if isinstance(before, (list, tuple)):
        return (type(now) is type(before) and len(now) == len(before)
                and all(type(x) is type(y) and (x is y or x == y) for x, y in zip(now, before)))
    return True     # immutable scalar


def _snap_args(args, kwargs):
    """pre-state: bit copies of every array argument as handed in (one object may serve several parameters)."""
    p = _parse(args, kwargs, _SURF_NAMES, _SURF_DEF)
    a, u, d, tt = p['asig'], p['up_red'], p['down_red'], p['travel_times']
    return {'x': np.array(a.values), 'dt': _copy_arg(a.dt), 'tt': _copy_arg(tt),
            'scal': dict((nm, p[nm].copy()) for nm in _SCAL_NAMES if isinstance(p[nm], np.ndarray)),
            'up': u.copy() if isinstance(u, np.ndarray) else None,
            'down': d.copy() if isinstance(d, np.ndarray) else None, 'same': u is d and isinstance(u, np.ndarray),
            'up_seq': _copy_arg(u) if isinstance(u, (list, tuple)) else None,
            'down_seq': _copy_arg(d) if isinstance(d, (list, tuple)) else None,
            'forms': {'tt': _tt_container(tt), 'red': _red_form(u),
                      'rec_readonly': isinstance(a.values, np.ndarray) and not a.values.flags.writeable,
                      'dt': _scalar_form(a.dt), 'stt': _scalar_form(p['stt']), 'flag': _flag_form(p['nodal'])}}


def _check_purity(fn, p, snap):
    """Every array argument is bit-for-bit what it was before the call."""
    before = dict(p, asig=_Rec(snap['x'], snap['dt']), travel_times=snap['tt'],
                  up_red=snap['up'] if snap['up'] is not None else p['up_red'],
                  down_red=snap['down'] if snap['down'] is not None else p['down_red'], _forms=snap['forms'])
    before.update(snap['scal'])
    if snap['up'] is not None or snap['down'] is not None:
        okk = True
        for key, nm in (('up', 'up_red'), ('down', 'down_red')):
            if snap[key] is not None and not (isinstance(p[nm], np.ndarray) and _same_bits(p[nm], snap[key])):
                okk = False
        CTX.check(okk, 'purity.reductions-unchanged',
                  lambda: _wit_surface(fn, before, same_red_object=snap['same'], up_red_after=p['up_red'],
                                       down_red_after=p['down_red']),
                  '%s changed the caller\'s reduction array(s): up_red %s -> %s, down_red %s -> %s%s'
                  % (fn, None if snap['up'] is None else snap['up'].tolist(), np.asarray(p['up_red']).tolist(),
                     None if snap['down'] is None else snap['down'].tolist(), np.asarray(p['down_red']).tolist(),
                     ' (one object passed as both)' if snap['same'] else ''))
    a = p['asig']
    if isinstance(snap['dt'], np.ndarray) or snap['scal']:
        bad = [nm for nm, v in snap['scal'].items() if not (isinstance(p[nm], np.ndarray) and _same_bits(p[nm], v))]
        if not _scalar_same(a.dt, snap['dt']):
            bad.append('dt of the signal')
        CTX.check(not bad, SCALAR_CLAUSE, lambda: _wit_surface(fn, before, same_red_object=snap['same'], changed=bad),
                  '%s changed the caller\'s 0-d array argument(s) %s (dt %r -> %r)' % (fn, bad, snap['dt'], a.dt))
    rec_ok = isinstance(a.values, np.ndarray) and _same_bits(a.values, snap['x']) and _scalar_same(a.dt, snap['dt'])
    tt_ok = _arg_unchanged(p['travel_times'], snap['tt'])
    CTX.check(rec_ok and tt_ok, 'purity.record,travel-times-unchanged',
              lambda: _wit_surface(fn, before, same_red_object=snap['same'], values_after=np.asarray(a.values),
                                   travel_times_after=np.asarray(p['travel_times'])),
              '%s changed %s' % (fn, 'the record of the signal' if not rec_ok else 'the travel-time container'))


def _shares(result, *arrays):
    for a in arrays:
        if isinstance(a, np.ndarray) and isinstance(result, np.ndarray) and np.may_share_memory(result, a) \
                and np.shares_memory(result, a):
            return True
    return False


def _check_owned(fn, result, wit, *arrays):
    """The returned array owns its data: writing into it cannot reach any argument."""
    CTX.check(not _shares(np.asarray(result) if not isinstance(result, np.ndarray) else result, *arrays),
              'result-shares-no-memory-with-arguments', wit, '%s returned an array that shares memory with one of its arguments' % fn)


def _check_surface(fn, args, kwargs, result, snap=None):
    ctx = CTX
    p = _parse(args, kwargs, _SURF_NAMES, _SURF_DEF)
    if np.iscomplexobj(getattr(p['asig'], 'values', None)):
        ctx.observe('%s: complex-typed record (not judged)' % fn)
        return None
    _check_owned(fn, result, lambda: _wit_surface(fn, p), getattr(p['asig'], 'values', None), p['travel_times'], p['up_red'], p['down_red'])
    if snap is not None:
        _check_purity(fn, p, snap)
        # the reference is computed from the arguments as they were handed in, never from the objects after the call
        p = dict(p, asig=_Rec(snap['x'], snap['dt']), travel_times=snap['tt'], _forms=snap['forms'],
                 same_red_object=snap['same'])
        p.update(snap['scal'])
        if snap['up'] is not None:
            p['up_red'] = snap['up']
        if snap['down'] is not None:
            p['down_red'] = snap['down']
    norm, reason = _normalise(p)
    if norm is None:
        ctx.observe('%s: out of domain (%s)' % (fn, reason))
        return None
    x, dt, taus, ups, downs, stt = norm
    got = _as2d(result, len(taus))
    kind = _FN_KIND[fn]
    f32 = np.asarray(p['asig'].values).dtype == np.float32
    ok, msg = _accept(got, x, dt, taus, bool(p['nodal']), ups, downs, stt, bool(p['trim']), bool(p['start']), kind, f32)
    if f32:
        ctx.observe('%s on a float32 record judged with 64*eps32' % fn)
    ctx.check(ok, _FN_CLAUSE[fn], lambda: _wit_surface(fn, p, got=np.asarray(result)),
              '%s(n=%d, dt=%r, tau=%s, nodal=%s, up=%s, down=%s, stt=%r, trim=%s, start=%s): %s'
              % (fn, len(x), dt, taus[:6], p['nodal'], ups[:6], downs[:6], stt, p['trim'], p['start'], msg))
    return p, norm, got


def _post_energy(args, kwargs, result, pre):
    if _INNER['active']:
        _INNER['energy'] = result
    _check_surface('calc_surface_energy', args, kwargs, result, pre)


def _post_motions(args, kwargs, result, pre):
    _check_surface('get_time_shift_motions', args, kwargs, result, pre)


def _pre_cum(args, kwargs):
    _INNER['active'] = True
    _INNER['energy'] = None
    return _snap_args(args, kwargs)


def _post_cum(args, kwargs, result, pre):
    ctx = CTX
    inner = _INNER['energy']
    _INNER['active'] = False
    _INNER['energy'] = None
    fn = 'calc_cum_abs_surface_energy'
    r = _check_surface(fn, args, kwargs, result, pre)
    if r is None:
        return
    p, (x, dt, taus, ups, downs, stt), got = r
    k = len(taus)
    wit = lambda: _wit_surface(fn, p, got=np.asarray(result))
    # relation to the energy series observed inside this very call
    if inner is not None:
        e2 = _as2d(inner, k)
        okk = e2.shape == got.shape
        if okk:
            for i in range(k):
                ref = np.array(O.cum_abs_change(e2[i].tolist()))
                if not tol.close(got[i], ref, rtol=1e-12):
                    okk = False
                    break
        ctx.check(okk, 'cum==cumsum|d(observed energy)|', wit,
                  'cumulative series is not the running sum of |E[i]-E[i-1]| (E[-1]=0) of the energy computed in the same '
                  'call: shapes %s vs %s' % (got.shape, e2.shape))
    else:
        ctx.observe('cum: no inner calc_surface_energy execution observed')
    # non-decreasing, starts >= 0
    if got.size:
        mono = bool(np.all(np.diff(got, axis=-1) >= 0)) and bool(np.all(got[:, 0] >= 0))
        ctx.check(mono, 'cum.non-decreasing', wit, 'cumulative |dE| decreases somewhere (or starts negative)')
    # zero for zero travel time at a nodal surface (equal reductions)
    if p['nodal']:
        for i in range(k):
            if taus[i] == 0 and ups[i] == downs[i] and i < got.shape[0]:
                v2 = O.velocity_scale(x, dt, ups[i], downs[i]) ** 2
                mx = float(np.max(np.abs(got[i]))) if got.shape[1] else 0.0
                f32 = np.asarray(p['asig'].values).dtype == np.float32
                ctx.check(mx <= (F32_RTOL if f32 else 1e-12) * v2, 'cum.zero@tau0-nodal', wit,
                          'tau=0 at a nodal surface with equal reductions: max cumulative energy %r, expected 0' % mx)


# ------------------------------------------------------------------------------------------ monitor: trim_to_length
_TRIM_NAMES = ('values', 'npts', 'surf2depth_travel_times', 'dt', 'trim', 'start', 's2s_travel_time')
_TRIM_DEF = {'trim': False, 'start': False, 's2s_travel_time': 0.0}


def _pre_trim(args, kwargs):
    p = _parse(args, kwargs, _TRIM_NAMES, _TRIM_DEF)
    return {'values': _copy_arg(p['values']), 'tt': _copy_arg(p['surf2depth_travel_times']),
            'scal': dict((nm, p[nm].copy()) for nm in _TRIM_SCAL if isinstance(p.get(nm), np.ndarray)),
            'forms': {'npts': _scalar_form(p.get('npts')), 'dt': _scalar_form(p.get('dt')),
                      'stt': _scalar_form(p['s2s_travel_time']), 'flag': _flag_form(p['trim'])}}


_TRIM_SCAL = ('npts', 'dt', 'trim', 'start', 's2s_travel_time')


def _post_trim(args, kwargs, result, pre):
    ctx = CTX
    p = _parse(args, kwargs, _TRIM_NAMES, _TRIM_DEF)
    if pre is not None and pre['scal']:
        bad = [nm for nm, v in pre['scal'].items() if not (isinstance(p[nm], np.ndarray) and _same_bits(p[nm], v))]
        q = dict(p, **pre['scal'])
        ctx.check(not bad, SCALAR_CLAUSE,
                  lambda: {'fn': 'trim_to_length', 'values2d': np.asarray(pre['values']), 'npts': int(q['npts']),
                           'travel_times': np.asarray(pre['tt']), 'dt': float(q['dt']), 'trim': bool(q['trim']),
                           'start': bool(q['start']), 'stt': float(q['s2s_travel_time']), 'scalar_forms': pre['forms'],
                           'changed': bad},
                  'trim_to_length changed the caller\'s 0-d array argument(s) %s' % bad)
        p = q
    if pre is not None:
        okp = _arg_unchanged(p['values'], pre['values']) and _arg_unchanged(p['surf2depth_travel_times'], pre['tt'])
        ctx.check(okp, 'purity.trim-arguments-unchanged',
                  lambda: {'fn': 'trim_to_length', 'values2d': np.asarray(pre['values']), 'npts': int(p['npts']),
                           'travel_times': np.asarray(pre['tt']), 'dt': float(p['dt']), 'trim': bool(p['trim']),
                           'start': bool(p['start']), 'stt': float(p['s2s_travel_time']),
                           'values2d_form': _array_form(p['values']) if isinstance(p['values'], np.ndarray) else 'ndarray'},
                  'trim_to_length changed its values / travel-time argument')
        p = dict(p, values=pre['values'], surf2depth_travel_times=pre['tt'])
    values = np.asarray(p['values'])
    taus = [float(t) for t in np.atleast_1d(np.asarray(p['surf2depth_travel_times'], dtype=float)).ravel()]
    npts, dt, stt = int(p['npts']), float(p['dt']), float(p['s2s_travel_time'])
    trim, start = bool(p['trim']), bool(p['start'])
    if (values.ndim != 2 or values.shape[0] != len(taus) or npts < 1 or not dt > 0 or stt < 0 or any(t < 0 for t in taus)
            or not np.all(np.isfinite(values))):
        ctx.observe('trim_to_length: out of domain')
        return
    got = np.asarray(result)
    wit = lambda: {'fn': 'trim_to_length', 'values2d': values, 'npts': npts,
                   'travel_times': np.atleast_1d(np.asarray(p['surf2depth_travel_times'])), 'dt': dt,
                   'trim': trim, 'start': start, 'stt': stt, 'got': got,
                   'scalar_forms': pre['forms'] if pre is not None else None}
    if not trim and not start:
        ctx.check(got.shape == values.shape and bool(np.array_equal(got, values)), 'trim.identity(no trim,no start)', wit,
                  'without trim/start the array must come back unchanged')
        return
    msg = ''
    okk = False
    k = len(taus)
    if got.ndim != 2 or got.shape[0] != k:
        msg = 'shape %s, expected %d rows' % (got.shape, k)
    else:
        length = got.shape[1]
        rows = _rows_to_judge(k, max(length, values.shape[1]), taus)
        cache = {}

        def row_ok(r, sh):
            if (r, sh) not in cache:
                ref = np.array(O.place([float(v) for v in values[r].tolist()], sh, length, tail_constant=False), dtype=float)
                cache[(r, sh)] = bool(np.array_equal(got[r], ref))
            return cache[(r, sh)]
        for (row_opts, contrib, fixed_len) in O.placement_alternatives(npts, dt, taus, stt, trim, start):
            if fixed_len is not None and length != fixed_len:
                msg = 'length %d, expected %d' % (length, fixed_len)
                continue
            matched = [list(o) for o in row_opts]
            good = True
            for r in rows:
                matched[r] = [sh for sh in row_opts[r] if row_ok(r, sh)]
                if not matched[r]:
                    good = False
                    msg = 'row %d is not its input row moved by %s samples (zero filled in front, cut when negative)' % (r, row_opts[r])
                    break
            if not good:
                continue
            if contrib == 'rows' and not O.length_admissible(length, npts, matched):
                msg = 'length %d is not npts + max(largest move, 0)' % length
                continue
            okk = True
            break
    ctx.check(okk, 'trim.placement', wit, 'trim_to_length(npts=%d, tau=%s, dt=%r, trim=%s, start=%s, stt=%r): %s'
              % (npts, taus, dt, trim, start, stt, msg))


# ------------------------------------------------------------------------------------------ monitors: array shifting
def _int_shifts(shifts):
    try:
        arr = np.asarray(shifts)
        if arr.ndim != 1 or arr.size < 1 or arr.dtype.kind not in 'iu':
            return None
        return [int(s) for s in arr.tolist()]
    except Exception:
        return None


def _pre_shift(args, kwargs):
    p = _parse(args, kwargs, ('values', 'shifts', 'third'), {})
    return {'values': _copy_arg(p['values']), 'shifts': _copy_arg(p['shifts'])}


def _container_name(a):
    return _array_form(a) if isinstance(a, np.ndarray) else type(a).__name__


def _shift_purity(fn, p, pre, third_name):
    if pre is None:
        return p
    okp = _arg_unchanged(p['values'], pre['values']) and _arg_unchanged(p['shifts'], pre['shifts'])
    CTX.check(okp, 'purity.values,shifts-unchanged',
              lambda: {'fn': fn, 'values': np.asarray(pre['values']), 'shifts': np.asarray(pre['shifts']),
                       third_name: p[third_name], 'values_container': _container_name(p['values']),
                       'shifts_container': _container_name(p['shifts']), 'purity_only': True},
              '%s changed its values / shifts argument' % fn)
    return dict(p, values=pre['values'], shifts=pre['shifts'], _vc=_container_name(p['values']), _sc=_container_name(p['shifts']))


def _post_put(args, kwargs, result, pre):
    ctx = CTX
    p = _parse(args, kwargs, ('values', 'shifts', 'clip'), {'clip': 'none'})
    if np.iscomplexobj(np.asarray(p['values'])) if not isinstance(p['values'], (list, tuple)) else False:
        ctx.observe('put_array_in_2d_array: complex-typed values (not judged)')
        return
    p = _shift_purity('put_array_in_2d_array', p, pre, 'clip')
    if p['clip'] is None:      # documented as "str or none": no clipping
        p = dict(p, clip='none', _clip_none=True)
    sh = _int_shifts(p['shifts'])
    try:
        vals = np.asarray(p['values'], dtype=float)
    except Exception:
        vals = None
    if sh is None or vals is None or vals.ndim != 1 or vals.size < 1 or p['clip'] not in ('none', 'start', 'end', 'both') \
            or not np.all(np.isfinite(vals)):
        ctx.observe('put_array_in_2d_array: out of domain')
        return
    _check_owned('put_array_in_2d_array', result, lambda: _shift_wit('put_array_in_2d_array', p['values'], p['shifts'], clip=p['clip']),
                 args[0] if args else kwargs.get('values'), args[1] if len(args) > 1 else kwargs.get('shifts'))
    rows, width = O.put_in_2d(vals.tolist(), sh, p['clip'])
    ref = np.array(rows, dtype=float).reshape(len(sh), width)
    got = np.asarray(result)
    okk = got.shape == ref.shape and bool(np.array_equal(got, ref))
    ctx.check(okk, 'put2d==offsets',
              lambda: {'fn': 'put_array_in_2d_array', 'values': np.asarray(p['values']), 'shifts': np.asarray(p['shifts']),
                       'clip': None if p.get('_clip_none') else p['clip'],
                       'values_container': p.get('_vc', _container_name(p['values'])),
                       'shifts_container': p.get('_sc', _container_name(p['shifts'])), 'got': got},
              'put_array_in_2d_array(n=%d, shifts=%s, clip=%r) -> shape %s expected %s%s'
              % (vals.size, sh, p['clip'], got.shape, ref.shape,
                 '' if got.shape != ref.shape else '; first differing cell %s' % (np.argwhere(got != ref)[:1].tolist(),)))


def _post_join(args, kwargs, result, pre):
    ctx = CTX
    p = _parse(args, kwargs, ('values', 'shifts', 'jtype'), {'jtype': 'add'})
    if np.iscomplexobj(np.asarray(p['values'])) if not isinstance(p['values'], (list, tuple)) else False:
        ctx.observe('join_values_w_shifts: complex-typed values (not judged)')
        return
    p = _shift_purity('join_values_w_shifts', p, pre, 'jtype')
    sh = _int_shifts(p['shifts'])
    try:
        vals = np.asarray(p['values'], dtype=float)
    except Exception:
        vals = None
    if sh is None or vals is None or vals.ndim != 1 or vals.size < 1 or not np.all(np.isfinite(vals)):
        ctx.observe('join_values_w_shifts: out of domain')
        return
    if p['jtype'] not in ('add', 'sub'):
        ctx.observe('join_values_w_shifts: jtype not add/sub')
        return
    if min(sh) < 0:
        ctx.observe('join_values_w_shifts: negative shift returned a value (not judged)')
        return
    _check_owned('join_values_w_shifts', result, lambda: _shift_wit('join_values_w_shifts', p['values'], p['shifts'], jtype=p['jtype']),
                 args[0] if args else kwargs.get('values'), args[1] if len(args) > 1 else kwargs.get('shifts'))
    rows, mags = O.join(vals.tolist(), sh, p['jtype'])
    ref = np.array(rows, dtype=float)
    got = np.asarray(result)
    okk = tol.close(got, ref, scale=np.array(mags, dtype=float), rtol=1e-12)
    ctx.check(okk, 'join==padded+-shifted',
              lambda: {'fn': 'join_values_w_shifts', 'values': np.asarray(p['values']), 'shifts': np.asarray(p['shifts']),
                       'jtype': p['jtype'], 'values_container': p.get('_vc', _container_name(p['values'])),
                       'shifts_container': p.get('_sc', _container_name(p['shifts'])), 'got': got},
              'join_values_w_shifts(n=%d, shifts=%s, %r): %s' % (vals.size, sh, p['jtype'],
                                                               tol.describe(got, ref, scale=np.array(mags), rtol=1e-12)))


def _pre_join_sig(args, kwargs):
    p = _parse(args, kwargs, ('sig', 'time_shifts', 'jtype'), {'jtype': 'add'})
    try:
        return {'values': np.array(p['sig'].values), 'dt': _copy_arg(p['sig'].dt), 'ts': _copy_arg(p['time_shifts'])}
    except Exception:
        return None


def _wit_join_sig(p, pre, **extra):
    d = {'fn': 'join_sig_w_time_shift', 'values': np.asarray(pre['values']), 'dt': float(pre['dt']),
         'time_shifts': np.asarray(pre['ts']), 'ts_container': _container_name(p['time_shifts']), 'jtype': p['jtype'],
         'sig_class': type(p['sig']).__name__, 'dt_form': _scalar_form(pre['dt'])}
    d.update(extra)
    return d


def _post_join_sig(args, kwargs, result, pre):
    """Object-level entry point of the join: times t_k are converted with int(t_k/dt). Judged (a) against the definition for
    the admissible integer conversions of every t_k, (b) against join_values_w_shifts on int(t/dt) as the library evaluates
    it (relation between the two entry points, for ALL time shifts)."""
    import eqsig
    ctx = CTX
    p = _parse(args, kwargs, ('sig', 'time_shifts', 'jtype'), {'jtype': 'add'})
    if pre is None:
        ctx.observe('join_sig_w_time_shift: arguments could not be snapshotted (not judged)')
        return
    sig = p['sig']
    okp = (isinstance(sig.values, np.ndarray) and _same_bits(sig.values, pre['values']) and _scalar_same(sig.dt, pre['dt'])
           and _arg_unchanged(p['time_shifts'], pre['ts']))
    ctx.check(okp, 'purity.join_sig-arguments-unchanged', lambda: _wit_join_sig(p, pre, purity_only=True),
              'join_sig_w_time_shift changed the signal values / dt or its time_shifts argument')
    try:
        if np.iscomplexobj(pre['values']):
            ctx.observe('join_sig_w_time_shift: complex-typed record (not judged)')
            return
        ts = np.asarray(pre['ts'], dtype=float)
        vals = np.asarray(pre['values'], dtype=float)
        dt = float(pre['dt'])
    except Exception:
        ctx.observe('join_sig_w_time_shift: out of domain (non-numeric arguments)')
        return
    if (ts.ndim != 1 or ts.size < 1 or vals.ndim != 1 or vals.size < 1 or not np.all(np.isfinite(ts)) or np.any(ts < 0)
            or not np.all(np.isfinite(vals)) or not (dt > 0 and np.isfinite(dt)) or p['jtype'] not in ('add', 'sub')):
        ctx.observe('join_sig_w_time_shift: out of domain (negative/non-finite times, jtype not add/sub, ...)')
        return
    got = np.asarray(result)
    if np.iscomplexobj(pre['values']):
        ctx.observe('join_sig_w_time_shift: complex-typed record (not judged)')
        return
    _check_owned('join_sig_w_time_shift', result, lambda: _wit_join_sig(p, pre), sig.values, p['time_shifts'])
    # (a) definition: zero-padded original +/- copies shifted by int(t_k/dt) samples; judged row by row (a row depends on
    #     its own shift only, the common length on the largest one)
    opts = [O.trunc_options(float(t), dt) for t in ts.tolist()]
    n_alt = 1
    for o in opts:
        n_alt *= len(o)
    if n_alt > 1:
        ctx.observe('join_sig_w_time_shift: a quotient t/dt a few ulps below an integer (two admissible conversions)')
    okk, msg = True, ''
    nv = vals.size
    if got.ndim != 2 or got.shape[0] != len(opts):
        okk, msg = False, 'shape %s, expected %d rows' % (got.shape, len(opts))
    else:
        length = got.shape[1]
        vl = vals.tolist()
        matched = []
        for r, o in enumerate(opts):
            mr = []
            for sft in o:
                row, mag = O.join_row(vl, sft, p['jtype'], length)
                if length >= nv + sft and tol.close(got[r], np.array(row), scale=np.array(mag), rtol=1e-12):
                    mr.append(sft)
            if not mr:
                row, mag = O.join_row(vl, o[-1], p['jtype'], length)
                okk, msg = False, 'row %d (t=%r, shift %s): %s' % (r, float(ts[r]), o, tol.describe(got[r], np.array(row), scale=np.array(mag), rtol=1e-12))
                break
            matched.append(mr)
        if okk and not O.length_admissible(length, nv, matched):
            okk, msg = False, 'length %d is not npts + largest shift (npts=%d, shifts %s)' % (length, nv, [m[-1] for m in matched][:8])
    ctx.check(okk, 'join_sig==padded+-shifted(int(t/dt))', lambda: _wit_join_sig(p, pre, got=got),
              'join_sig_w_time_shift(%s n=%d, dt=%r, times=%s, %r): %s'
              % (type(sig).__name__, vals.size, dt, ts.tolist()[:8], p['jtype'], msg))
    # (b) relation between the two entry points: the result is what join_values_w_shifts gives for int(t/dt) as the library
    #     evaluates it; on a knife edge (quotient a few ulps below an integer) any admissible conversion may have been used
    try:
        literal = tuple(int(v) for v in np.array(pre['ts'] / pre['dt'], dtype=int).tolist())
    except Exception as e:
        ctx.observe('join_sig_w_time_shift: int(t/dt) could not be evaluated (%s; relation not evaluated)' % type(e).__name__)
        return
    cands = [literal]
    if 1 < n_alt <= 64:
        cands += [c for c in itertools.product(*opts) if c != literal]
    same = False
    for cand in cands:
        try:
            with attach.paused():
                other = np.asarray(eqsig.fns.time_shift.join_values_w_shifts(np.array(pre['values']), np.array(cand, dtype=int),
                                                                             jtype=p['jtype']))
        except Exception as e:
            ctx.observe('join_sig_w_time_shift: join_values_w_shifts on int(t/dt) raised %s' % type(e).__name__)
            continue
        if got.shape == other.shape and bool(np.array_equal(got, other)):
            same = True
            break
    if not same and n_alt > 64 and got.ndim == 2 and got.shape[0] == len(opts):
        same = True
        for r, o in enumerate(opts):
            hit = False
            for sft in o:
                try:
                    with attach.paused():
                        one = np.asarray(eqsig.fns.time_shift.join_values_w_shifts(np.array(pre['values']), np.array([sft]),
                                                                                   jtype=p['jtype']))[0]
                except Exception:
                    continue
                if len(one) <= got.shape[1] and np.array_equal(got[r, :len(one)], one) and not np.any(got[r, len(one):]):
                    hit = True
                    break
            if not hit:
                same = False
                break
    ctx.check(same, 'join_sig==join_values(int(t/dt))', lambda: _wit_join_sig(p, pre, got=got),
              'join_sig_w_time_shift(..., %r) differs from join_values_w_shifts(values, int(t/dt)=%s, jtype=%r)'
              % (p['jtype'], list(literal)[:8], p['jtype']))


# ------------------------------------------------------------------------------------------ monitors: calls that raise
_R3 = {'spec': None}      # the history being driven (witness of the after-raise purity monitors)
RAISE_CLAUSE = 'purity.arguments-unchanged-after-raise'


def _raise_wit(fn, exc, **extra):
    d = dict(_R3['spec']) if _R3['spec'] is not None else {'fn': 'r3.raised-call'}
    d.update({'raised_in': fn, 'exception': repr(exc)[:200]})
    d.update(extra)
    return d


def _exc_surface(fn):
    """A refused call (mismatched / list-typed reductions, empty travel times, ...) must leave the record of the signal, the
    travel-time object and the reduction objects bit-for-bit as they were handed in."""
    def onex(args, kwargs, exc, snap):
        if fn == 'calc_cum_abs_surface_energy':
            _INNER['active'] = False
        if snap is None or not isinstance(exc, Exception):
            return
        p = _parse(args, kwargs, _SURF_NAMES, _SURF_DEF)
        a = p['asig']
        try:
            rec_ok = isinstance(a.values, np.ndarray) and _same_bits(a.values, snap['x']) and _scalar_same(a.dt, snap['dt'])
            rec_ok = rec_ok and all(isinstance(p[nm], np.ndarray) and _same_bits(p[nm], v) for nm, v in snap['scal'].items())
        except Exception:
            rec_ok = False
        tt_ok = _arg_unchanged(p['travel_times'], snap['tt'])
        red_ok = True
        for key, seq, nm in (('up', 'up_seq', 'up_red'), ('down', 'down_seq', 'down_red')):
            if snap[key] is not None:
                red_ok = red_ok and isinstance(p[nm], np.ndarray) and _same_bits(p[nm], snap[key])
            if snap[seq] is not None:
                red_ok = red_ok and _arg_unchanged(p[nm], snap[seq])
        CTX.check(rec_ok and tt_ok and red_ok, RAISE_CLAUSE, lambda: _raise_wit(fn, exc),
                  '%s raised %s and left %s changed' % (fn, type(exc).__name__,
                                                        'the record / dt of the signal or a 0-d scalar argument' if not rec_ok else
                                                        ('the travel-time object' if not tt_ok else 'a reduction object')))
    return onex


def _exc_trim(args, kwargs, exc, pre):
    if pre is None or not isinstance(exc, Exception):
        return
    p = _parse(args, kwargs, _TRIM_NAMES, _TRIM_DEF)
    okp = _arg_unchanged(p['values'], pre['values']) and _arg_unchanged(p['surf2depth_travel_times'], pre['tt'])
    okp = okp and all(isinstance(p[nm], np.ndarray) and _same_bits(p[nm], v) for nm, v in pre['scal'].items())
    CTX.check(okp, RAISE_CLAUSE, lambda: _raise_wit('trim_to_length', exc),
              'trim_to_length raised %s and left its values / travel-time argument changed' % type(exc).__name__)


def _exc_shift(fn):
    def onex(args, kwargs, exc, pre):
        if pre is None or not isinstance(exc, Exception):
            return
        p = _parse(args, kwargs, ('values', 'shifts', 'third'), {})
        okp = _arg_unchanged(p['values'], pre['values']) and _arg_unchanged(p['shifts'], pre['shifts'])
        CTX.check(okp, RAISE_CLAUSE,
                  lambda: _raise_wit(fn, exc) if _R3['spec'] is not None else
                  {'fn': fn, 'values': np.asarray(pre['values']), 'shifts': np.asarray(pre['shifts']), 'purity_only': True,
                   'values_container': _container_name(p['values']), 'shifts_container': _container_name(p['shifts']),
                   'jtype': p.get('third', 'add'), 'clip': p.get('third', 'none')},
                  '%s raised %s and left its values / shifts argument changed' % (fn, type(exc).__name__))
    return onex


def _exc_join_sig(args, kwargs, exc, pre):
    if pre is None or not isinstance(exc, Exception):
        return
    p = _parse(args, kwargs, ('sig', 'time_shifts', 'jtype'), {'jtype': 'add'})
    sig = p['sig']
    try:
        okp = (isinstance(sig.values, np.ndarray) and _same_bits(sig.values, pre['values']) and _scalar_same(sig.dt, pre['dt'])
               and _arg_unchanged(p['time_shifts'], pre['ts']))
    except Exception:
        okp = False
    CTX.check(okp, RAISE_CLAUSE, lambda: _raise_wit('join_sig_w_time_shift', exc),
              'join_sig_w_time_shift raised %s and left the signal or its time_shifts argument changed' % type(exc).__name__)


def install(ctx):
    global CTX
    CTX = ctx
    import eqsig
    sf = eqsig.surface
    if getattr(sf.calc_surface_energy, '__vf_c19__', False):    # already attached in this process: only switch the context
        return
    ts = eqsig.fns.time_shift
    attach.wrap(sf, 'calc_surface_energy', _post_energy, pre=_snap_args,
                on_exception=_exc_surface('calc_surface_energy')).__vf_c19__ = True
    attach.wrap(sf, 'calc_cum_abs_surface_energy', _post_cum, pre=_pre_cum,
                on_exception=_exc_surface('calc_cum_abs_surface_energy'))
    attach.wrap(sf, 'get_time_shift_motions', _post_motions, pre=_snap_args,
                on_exception=_exc_surface('get_time_shift_motions'))
    attach.wrap(sf, 'trim_to_length', _post_trim, pre=_pre_trim, on_exception=_exc_trim)
    attach.wrap(ts, 'put_array_in_2d_array', _post_put, pre=_pre_shift, on_exception=_exc_shift('put_array_in_2d_array'))
    attach.wrap(ts, 'join_values_w_shifts', _post_join, pre=_pre_shift, on_exception=_exc_shift('join_values_w_shifts'))
    attach.wrap(ts, 'join_sig_w_time_shift', _post_join_sig, pre=_pre_join_sig, on_exception=_exc_join_sig)


# ---------------------------------------------------------------------------------------------------- driver helpers
def _tt_arg(c):
    """The travel-time argument: the case's own object when it has one (reused across the calls of a case), else built
    from the container name (relation singles, replay)."""
    if c.get('tt_obj') is not None:
        return c['tt_obj']
    return _build_tt(c['travel_times'], c.get('tt_container', 'ndarray'))


def _build_tt(travel_times, cont):
    tt = np.atleast_1d(np.asarray(travel_times))
    if cont == 'scalar':
        return float(tt[0])
    if cont == 'npfloat':
        return np.float64(tt[0])
    if cont == 'pyint':
        return int(tt[0])
    if cont.startswith('npint'):
        return getattr(np, cont.split(':')[1] if ':' in cont else 'int64')(int(tt[0]))
    if cont == 'npf32':
        return np.float32(tt[0])
    if cont == 'list':
        return [float(t) for t in tt]
    if cont == 'tuple':
        return tuple(float(t) for t in tt)
    if cont == 'list-int':
        return [int(t) for t in tt]
    if cont == 'list-mixed':
        return [int(t) if (i % 2 == 0 and float(t) == int(t)) else float(t) for i, t in enumerate(tt)]
    return _as_form(tt, cont)


def _bool_form(v, form):
    if form == 'int':
        return int(bool(v))
    if form == 'np':
        return np.bool_(bool(v))
    if form == '0d':
        return np.array(bool(v))      # mutable: snapshotted by the monitors like any other array
    return bool(v)


def _call_args(c, asig):
    """(args, kwargs) of one call in the case's call style: 'kw', 'pos', 'mixed' or 'omit' (defaults left out)."""
    bf = c.get('bool_form', 'bool')
    nodal, trim, start = _bool_form(c['nodal'], bf), _bool_form(c['trim'], bf), _bool_form(c['start'], bf)
    sform = c.get('stt_form', 'float')
    stt = _scalar_arg(c['stt'], 'np' if (sform == 'np32' and not _f32_scalars_ok(c)) else sform)
    u, d = c.get('up_red'), c.get('down_red')
    if u is not None and c.get('same_red_object'):
        d = u        # one object for both parameters
    style = c.get('call_style', 'kw')
    tt = _tt_arg(c)
    if style == 'pos':
        return (asig, tt, nodal, 1. if u is None else u, 1. if d is None else d, stt, trim, start), {}
    kw = {'nodal': nodal, 'stt': stt, 'trim': trim, 'start': start}
    if u is not None:
        kw['up_red'] = u
        kw['down_red'] = d
    if style == 'omit':
        for key, dflt in (('nodal', True), ('stt', 0.0), ('trim', False), ('start', False)):
            if type(kw[key]) in (bool, float, int) and kw[key] == dflt:
                del kw[key]
        return (asig, tt), kw
    if style == 'mixed':
        return (asig, tt, kw.pop('nodal')), kw
    if style == 'kw-all':
        return (), dict(kw, asig=asig, travel_times=tt)
    return (asig, tt), kw


def _make_sig(eqsig, c, values=None):
    dform = c.get('dt_form', 'float')
    if dform == 'np32' and not _f32_scalars_ok(c):
        dform = 'np'
    asig = eqsig.AccSignal(c['values'] if values is None else values, _scalar_arg(c['dt'], dform))
    if c.get('rec_readonly'):
        asig.values.flags.writeable = False      # an implementation that writes into the record raises instead of corrupting
    return asig


def _case_wit(fn, c, **extra):
    u = c.get('up_red')
    d = {'fn': fn, 'values': np.asarray(c['values']), 'dt': c['dt'], 'travel_times': np.atleast_1d(np.asarray(c['travel_times'])),
         'tt_container': c.get('tt_container', 'ndarray'), 'nodal': bool(c['nodal']), 'up_red': u,
         'down_red': c.get('down_red'), 'stt': c['stt'], 'trim': bool(c['trim']), 'start': bool(c['start']),
         'same_red_object': bool(c.get('same_red_object', False)), 'red_form': None if u is None else _red_form(u),
         'rec_readonly': bool(c.get('rec_readonly', False)), 'call_style': c.get('call_style', 'kw'),
         'bool_form': c.get('bool_form', 'bool'), 'stt_form': c.get('stt_form', 'float'),
         'dt_form': c.get('dt_form', 'float'), 'values_container': type(c['values']).__name__}
    if c.get('tt_obj') is not None and isinstance(c['tt_obj'], np.ndarray):
        d['travel_times'] = np.array(c['tt_obj'])      # keeps the dtype of the container
    d.update(extra)
    return d


def _call(eqsig, ctx, fn, c, values=None, asig=None, wit=None):
    """One monitored call through the public name; an exception on this in-domain input is a violation."""
    try:
        if asig is None:
            asig = _make_sig(eqsig, c, values)
        args, kw = _call_args(c, asig)
        return getattr(eqsig.surface, fn)(*args, **kw)
    except Exception as e:
        if wit is not None:
            w = wit()
        else:
            w = _case_wit(fn, c)
            if values is not None:
                w['values'] = np.asarray(values)
        ctx.exception(_FN_CLAUSE[fn], w, e)
        return None


def _row_red(c, r):
    u, d = c.get('up_red'), c.get('down_red')
    if u is None:
        return None, None
    if hasattr(u, '__len__'):
        return float(u[r]), float(d[r])
    return u, d


def _x64(c):
    return np.asarray(c['values'], dtype=float)


def _is_f32(c):
    return isinstance(c['values'], np.ndarray) and c['values'].dtype == np.float32


def _rel_batch(eqsig, ctx, fn, c, batch=None):
    """each row of a batch equals the single-travel-time result (on the samples both have)."""
    taus = np.atleast_1d(np.asarray(c['travel_times'], dtype=float))
    if len(taus) < 2:
        return
    if batch is None:
        batch = _call(eqsig, ctx, fn, c)
    if batch is None:
        return
    batch = np.asarray(batch)
    clause = '%s.batch-row==single' % _REL_NAME[fn]
    x = _x64(c)
    for r in range(len(taus)):
        u, d = _row_red(c, r)
        c1 = dict(c, travel_times=np.array([taus[r]]), tt_obj=None, tt_container=('scalar' if r % 2 == 0 else 'ndarray'),
                  up_red=u, down_red=d, same_red_object=False)
        single = _call(eqsig, ctx, fn, c1)
        if single is None:
            continue
        single = np.asarray(single)
        uu, dd = (1.0, 1.0) if u is None else (float(u), float(d))
        if fn == 'get_time_shift_motions':
            scale = (abs(uu) + abs(dd)) * float(np.max(np.abs(x)))
        else:
            scale = float(np.max(np.abs(single))) + O.velocity_scale(x.tolist(), c['dt'], uu, dd) ** 2 if single.size else 0.0
        okk = batch.ndim == 2 and single.ndim == 1 and r < batch.shape[0] and len(single) <= batch.shape[1]
        if okk:
            okk = tol.close(batch[r, :len(single)], single, scale=scale, rtol=F32_RTOL if _is_f32(c) else 1e-12)
        ctx.check(okk, clause, lambda: _case_wit('rel.batch', c, base_fn=fn, row=r),
                  '%s: row %d of the batch (tau=%r of %s) differs from the single-travel-time call (shapes %s / %s)'
                  % (fn, r, taus[r], taus.tolist(), batch.shape, single.shape))


def _rel_alpha(eqsig, ctx, c, alpha, base=None):
    """cumulative |dE| of alpha*record = alpha^2 * that of the record (exactly for powers of two)."""
    fn = 'calc_cum_abs_surface_energy'
    if base is None:
        base = _call(eqsig, ctx, fn, c)
    if base is None:
        return
    x = _x64(c)
    f32 = _is_f32(c)
    if f32:     # stay in the arithmetic the record is given in: a power of two scales float32 products exactly as well
        with np.errstate(over='ignore'):
            xs = c['values'] * np.float32(alpha)
        if not np.all(np.isfinite(xs)):
            return
        x = xs.astype(float) / alpha
    else:
        xs = x * alpha
    scaled = _call(eqsig, ctx, fn, c, values=xs)
    if scaled is None:
        return
    base, scaled = np.asarray(base), np.asarray(scaled)
    m, e = np.frexp(abs(alpha))
    pow2 = (m == 0.5)
    ref = base * (alpha * alpha)
    if pow2:
        okk = scaled.shape == ref.shape and bool(np.array_equal(scaled, ref))
        clause = 'cum.scales-alpha^2(pow2,exact)'
    else:
        u, d = c.get('up_red'), c.get('down_red')
        um = 1.0 if u is None else float(np.max(np.abs(u)))
        dm = 1.0 if d is None else float(np.max(np.abs(d)))
        v2 = O.velocity_scale((x * alpha).tolist(), c['dt'], um, dm) ** 2
        okk = tol.close(scaled, ref, scale=(float(np.max(np.abs(ref))) if ref.size else 0.0) + v2,
                        rtol=F32_RTOL if f32 else 1e-9)
        clause = 'cum.scales-alpha^2(tol)'
    ctx.check(okk, clause, lambda: _case_wit('rel.alpha', c, alpha=alpha),
              'cum(alpha*a) != alpha^2*cum(a) for alpha=%r: %s' % (alpha, tol.describe(scaled, ref, rtol=0.0)
                                                                  if scaled.shape == ref.shape else 'shape'))


def _rel_options(eqsig, ctx, c, fn):
    """trim / start on the SAME input must relate: the trimmed result is the first npts samples of the untrimmed one; the
    start=True result is the start=False result with every row moved by floor(stt/dt) - floor(tau/dt) samples."""
    res = {}
    for trim in (False, True):
        for start in (False, True):
            res[(trim, start)] = _call(eqsig, ctx, fn, dict(c, trim=trim, start=start))
            if res[(trim, start)] is None:
                return
    x = _x64(c)
    n = len(x)
    taus = [float(t) for t in np.atleast_1d(np.asarray(c['travel_times'], dtype=float))]
    k = len(taus)
    r2 = dict((key, np.asarray(v, dtype=float).reshape(k, -1)) for key, v in res.items())
    name = _REL_NAME[fn]
    for start in (False, True):
        full, cut = r2[(False, start)], r2[(True, start)]
        ctx.check(cut.shape[1] == n and full.shape[1] >= n and bool(np.array_equal(cut, full[:, :n])),
                  '%s.trim==first-npts(no-trim)' % name, lambda: _case_wit('rel.options', c, base_fn=fn),
                  '%s(start=%s): trim=True (length %d) is not the first npts=%d samples of trim=False (length %d)'
                  % (fn, start, cut.shape[1], n, full.shape[1]))
    if fn == 'calc_cum_abs_surface_energy':   # the running sum restarts on the moved energy: only the trim relation applies
        return r2
    free, moved = r2[(False, False)], r2[(False, True)]
    okk, msg = True, ''
    fss = O.floor_options(float(c['stt']), c['dt'], 1, n)
    for r in range(k):
        hit = False
        for fs in fss:
            for ft in O.floor_options(taus[r], c['dt'], 1, n):
                ref = np.array(O.place(free[r].tolist(), fs - ft, moved.shape[1], tail_constant=(fn != 'get_time_shift_motions')))
                if np.array_equal(moved[r], ref):
                    hit = True
        if not hit:
            okk, msg = False, 'row %d (tau=%r)' % (r, taus[r])
            break
    ctx.check(okk, '%s.start==moved(no-start)' % name, lambda: _case_wit('rel.options', c, base_fn=fn),
              '%s: start=True is not start=False moved by floor(stt/dt)-floor(tau/dt) samples: %s' % (fn, msg))
    return r2


def _rel_sites(eqsig, ctx, c, i):
    """Pairs of sites that must agree: energy <-> integral of the motions returned by the twin function; tau=0 anti-nodal
    energy <-> the velocity of the signal object (both cumulative trapezoids)."""
    x = _x64(c)
    n = len(x)
    f32 = _is_f32(c)
    taus = np.atleast_1d(np.asarray(c['travel_times'], dtype=float))
    k = len(taus)
    cc = dict(c, trim=bool(i % 2), start=False)
    e = _call(eqsig, ctx, 'calc_surface_energy', cc)
    m = _call(eqsig, ctx, 'get_time_shift_motions', cc)
    if e is not None and m is not None:
        e2, m2 = np.asarray(e, dtype=float).reshape(k, -1), np.asarray(m, dtype=float).reshape(k, -1)
        okk = e2.shape == m2.shape
        if okk:
            for r in range(k):
                if O.quotient_kind(float(taus[r]), c['dt'], 2, n)[0] == 'near':
                    ctx.observe('energy<->motions: row on an inexact knife edge (the twins may resolve it differently; skipped)')
                    continue
                ref = np.array(O.energy_series(m2[r].tolist(), c['dt']))
                u, d = _row_red(c, r)
                uu, dd = (1.0, 1.0) if u is None else (float(u), float(d))
                pp = np.array(O.prefix_scale(x.tolist(), c['dt'], uu, dd, len(ref))) ** 2
                # same allowance as the oracle comparison: the twins may evaluate the delayed positions differently
                allowed = (F32_RTOL if f32 else 1e-9) * np.array(O.running_max_abs(ref)) + (F32_RTOL if f32 else 1e-11) * pp
                if not tol.close(e2[r], ref, scale=allowed, rtol=1.0):
                    okk = False
                    break
        ctx.check(okk, 'energy==0.5v|v|(trapezoid of the motions)', lambda: _case_wit('rel.sites', cc),
                  'calc_surface_energy differs from 0.5*v|v| of the cumulative trapezoid of get_time_shift_motions (same options)')
    # tau = 0 at an anti-nodal surface with unit reductions doubles the record: E = 2 v|v| with v the velocity of the signal
    c0 = dict(c, travel_times=np.array([0.0]), tt_obj=None, tt_container='ndarray', nodal=False, up_red=None, down_red=None,
              same_red_object=False, trim=False, start=False)
    try:
        asig = _make_sig(eqsig, c0)
        vel = np.array(asig.velocity, dtype=float)
    except Exception as ex:
        ctx.observe('velocity of the signal could not be read (%s)' % type(ex).__name__)
        return
    e0 = _call(eqsig, ctx, 'calc_surface_energy', c0, asig=asig)
    if e0 is not None:
        ref = 2.0 * vel * np.abs(vel)
        pp = np.array(O.prefix_scale(x.tolist(), c['dt'], 1.0, 1.0, n)) ** 2
        rt = F32_RTOL if f32 else 1e-9
        ctx.check(np.shape(e0) == ref.shape and tol.close(np.asarray(e0), ref, scale=np.array(O.running_max_abs(ref.tolist())) + pp, rtol=rt),
                  'energy(tau=0,anti-nodal)==2v|v|(signal velocity)', lambda: _case_wit('rel.sites', c0),
                  'tau=0, anti-nodal, unit reductions: energy differs from 2*velocity*|velocity| of the signal object')


def _direct_trim(eqsig, ctx, c, i=0):
    """trim_to_length on an integer-coded array of the width its callers use; several container forms and call styles."""
    taus = np.atleast_1d(np.asarray(c['travel_times'], dtype=float))
    n = len(c['values'])
    width = n + int(np.max(2 * taus / c['dt']))
    vals = (1000.0 * (np.arange(len(taus))[:, None] + 1) + np.arange(width)[None, :] + 1.0)
    form = ['ndarray', 'ndarray', 'int64', 'fortran', 'readonly', 'colview', 'int16'][i % 7]
    if form == 'int64':
        vals = vals.astype(np.int64)
    elif form == 'int16':
        vals = (vals % 30000).astype(np.int16) + 1
    elif form == 'fortran':
        vals = np.asfortranarray(vals)
    elif form == 'readonly':
        vals.flags.writeable = False
    elif form == 'colview':
        big = np.zeros((len(taus), 2 * width))
        big[:, ::2] = vals
        vals = big[:, ::2]
    tt = _tt_arg(c)
    tt = tt if isinstance(tt, np.ndarray) else taus      # the function divides its travel times: ndarray forms only
    sf = (i // 7 + i) % 6      # scalar forms (round 5): python / numpy scalars and mutable 0-d arrays
    forms = {'npts': ['int', 'npint', '0di', 'int', 'npint', 'int'][sf], 'dt': ['float', 'np', '0d', 'float', '0d', 'int'][sf],
             'stt': ['float', '0d', 'np', 'int', 'npint', '0di'][sf], 'flag': ['bool', 'np', '0d', 'int', 'bool', '0d'][sf]}
    a_npts, a_dt, a_stt = _scalar_arg(n, forms['npts']), _scalar_arg(c['dt'], forms['dt']), _scalar_arg(c['stt'], forms['stt'])
    a_trim, a_start = _bool_form(c['trim'], forms['flag']), _bool_form(c['start'], forms['flag'])
    try:
        if i % 3 == 0:
            eqsig.surface.trim_to_length(vals, a_npts, tt, a_dt, a_trim, a_start, a_stt)
        else:
            eqsig.surface.trim_to_length(vals, a_npts, tt, a_dt, trim=a_trim, start=a_start, s2s_travel_time=a_stt)
    except Exception as e:
        ctx.exception('trim.placement', {'fn': 'trim_to_length', 'values2d': np.array(vals), 'npts': n, 'travel_times': np.array(tt),
                                         'dt': c['dt'], 'trim': bool(c['trim']), 'start': bool(c['start']), 'stt': c['stt'],
                                         'values2d_form': form, 'scalar_forms': forms}, e)


# ---------------------------------------------------------------------------------------------------- generators
DYADIC_DT = [1.0, 0.5, 0.25, 0.125, 1.0 / 64, 1.0 / 128, 2.0, 2.0 ** -20, 2.0 ** -30, 8.0, 1024.0]
INT_TAU_DT = [0.25, 0.5, 1.0, 2.0, 10.0, 100.0, 1000.0]
N_CHOICES = [1, 2, 3, 4, 5, 7, 8, 9, 13, 15, 16, 17, 30, 31, 32, 33, 63, 64, 65, 67, 120, 127, 128, 129, 250, 255, 256, 257, 400]
_KNIFE = {}


def knife_tables(dt):
    """Travel times k*dt/2 whose 2*tau/dt evaluates a few ulps off the integer k ('delay'), and times m*dt whose
    t/dt floors to m-1 or sits a few ulps above m ('floor')."""
    if dt in _KNIFE:
        return _KNIFE[dt]
    delay, floor = [], []
    for k in range(1, 401):
        for tau in (k * dt / 2, k * (dt / 2), float('%.12g' % (k * dt / 2))):
            s = 2 * tau / dt
            if s != k and abs(s - k) <= 8 * O.EPS * k:
                delay.append((tau, k))
        for t in (k * dt, float('%.12g' % (k * dt))):
            q = t / dt
            if q != k and abs(q - k) <= 8 * O.EPS * k:
                floor.append((t, k))
    if len(_KNIFE) > 64:
        _KNIFE.clear()
    _KNIFE[dt] = (delay, floor)
    return _KNIFE[dt]


def draw_dt(rng):
    r = rng.random()
    if r < 0.2:
        return float(DYADIC_DT[int(rng.integers(len(DYADIC_DT)))]), 'dyadic'
    if r < 0.58:
        return gen.dt(rng, 'nice'), 'nice'
    if r < 0.7:
        return gen.dt(rng, 'recip'), 'recip'
    if r < 0.82:
        return gen.dt(rng, 'log'), 'log'
    if r < 0.89:
        return float(10.0 ** rng.uniform(-9, 3)), 'wide-log'         # 1e-9 .. 1e3
    if r < 0.95:
        return gen.awkward_dt(rng, int(rng.integers(2, 51))), 'awkward'   # dt/(dt/k) != k and the like
    return float(10.0 ** int(rng.integers(-9, 4))), 'decade'         # 1e-9, 1e-8, ..., 1e3 exactly


def _pick(rng, table, kmax):
    sub = [t for t in table if t[1] <= kmax] or table
    return sub[int(rng.integers(len(sub)))][0]


def draw_tau(rng, kind, n, dt, delay_tab, floor_tab, prev):
    if kind == 'zero':
        return 0.0
    if kind == 'half':
        return float(int(rng.integers(0, 3 * n + 1)) * dt / 2)
    if kind == 'knife' and delay_tab:
        return float(_pick(rng, delay_tab, 3 * n))
    if kind == 'floorknife' and floor_tab:
        below = [t for t in floor_tab if t[0] / dt < t[1]]      # exact multiples of dt whose quotient lands just below
        return float(_pick(rng, below if (below and rng.random() < 0.7) else floor_tab, int(1.5 * n) + 1))
    if kind == 'equal' and prev:
        return float(prev[int(rng.integers(len(prev)))])
    if kind == 'long':
        return float(rng.uniform(0, 1.5 * n * dt))
    return float(rng.uniform(0, 8 * dt))


def draw_record(rng, n):
    """Record from the shared classes, amplitudes 1e-12 .. 1e12, with end-of-record features."""
    amp = float(10.0 ** rng.uniform(-12, 12)) if rng.random() < 0.3 else None
    x, rcls = gen.record(rng, n, amp=amp)
    r = rng.random()
    if n > 1:
        if r < 0.2:      # both ends non-zero (the record is discontinuous at its boundaries)
            x = x + (np.max(np.abs(x)) + 1.0) * float(rng.choice([-1.0, 1.0])) * 0.5
            rcls += '+offset'
        elif r < 0.27:   # extreme at the first sample
            x = x.copy()
            x[0] = 2.0 * (np.max(np.abs(x)) + 1e-300) * float(rng.choice([-1.0, 1.0]))
            rcls += '+extreme-first'
        elif r < 0.34:   # extreme at the last sample
            x = x.copy()
            x[-1] = 2.0 * (np.max(np.abs(x)) + 1e-300) * float(rng.choice([-1.0, 1.0]))
            rcls += '+extreme-last'
        elif r < 0.41 and n > 4:   # plateaus at the start and at the end
            x = x.copy()
            a, b = int(rng.integers(1, n // 2 + 1)), int(rng.integers(1, n // 2 + 1))
            x[:a] = x[a - 1] if rng.random() < 0.5 else 1.0
            x[-b:] = x[-b]
            rcls += '+end-plateaus'
        elif r < 0.46 and n > 2:   # ends right after a sign change
            x = x.copy()
            x[-1] = -x[-2] if x[-2] != 0 else 1.0
            rcls += '+ends-after-sign-change'
        elif r < 0.5:    # large offset on a small signal
            x = x * 1e-6 + (np.max(np.abs(x)) + 1.0) * 1e3
            rcls += '+large-offset'
        elif r < 0.57:   # one sample 1e3 .. 1e12 times larger than everything else (dynamic range inside the record)
            x = x.copy()
            pos = [0, n - 1, n // 2, int(rng.integers(n))][int(rng.integers(4))]
            x[pos] = (np.max(np.abs(x)) + 1.0) * 10.0 ** rng.uniform(3, 12) * float(rng.choice([-1.0, 1.0]))
            rcls += '+giant-sample'
        elif r < 0.64 and n > 3:   # tail-heavy: all the action in the last 1/k of the record
            x = x.copy()
            x[: n - max(1, n // int(rng.choice([2, 4, 8, 16])))] = 0.0
            if x[-1] == 0:
                x[-1] = 1.0
            rcls += '+tail-heavy'
        elif r < 0.68:   # monotone / trend dominated
            x = np.cumsum(np.abs(x)) * float(rng.choice([-1.0, 1.0])) + x[0]
            rcls += '+monotone'
        elif r < 0.72:   # one-sided: everything at negative values
            x = -np.abs(x) - (1.0 if rng.random() < 0.5 else 0.0)
            rcls += '+one-sided'
        elif r < 0.75:   # a single non-zero sample at the very end / a single changed sample
            x = np.zeros(n) if rng.random() < 0.5 else np.full(n, float(x[0]) if x[0] != 0 else 1.0)
            x[-1 if rng.random() < 0.6 else int(rng.integers(n))] += float(rng.choice([-1.0, 1.0, 1e-6]))
            rcls += '+single-sample'
    if rng.random() < 0.12:
        x = np.round(x * 4) / 4
    return np.asarray(x, dtype=float), rcls


INT_DTYPES = ['int64', 'int32', 'int16', 'int8', 'uint8', 'uint16']


def record_container(rng, x):
    """The same record in another container/dtype (integer forms use most of the dtype's range). -> (container, kind)"""
    r = rng.random()
    n = len(x)
    if r < 0.05:      # bool-dtype record (rectangular pulses): the library casts kind 'b' to float on purpose
        xb = x > (np.median(x) if n > 1 else -np.inf)
        if not np.any(xb):
            xb[int(rng.integers(n))] = True
        return (xb, 'bool') if rng.random() < 0.7 else (xb.tolist(), 'list-bool')
    if r < 0.45:
        return x, 'float64'
    if r < 0.55:
        with np.errstate(over='ignore'):
            x32 = x.astype(np.float32)
        return (x32, 'float32') if np.all(np.isfinite(x32)) else (x, 'float64')
    if r < 0.75:
        dtn = INT_DTYPES[int(rng.integers(len(INT_DTYPES)))]
        top = min(float(np.iinfo(dtn).max), 2.0 ** 52)
        m = float(np.max(np.abs(x)))
        unit = x / m if m > 0 else x
        if dtn.startswith('u'):
            xi = np.round((unit * 0.5 + 0.5) * top)
        else:
            xi = np.round(unit * top)
        return xi.astype(dtn), dtn
    if r < 0.8:
        return [float(v) for v in x], 'list'
    if r < 0.84:
        return tuple(float(v) for v in x), 'tuple'
    if r < 0.88:
        return [int(v) for v in np.round(np.clip(x, -1e15, 1e15))], 'list-int'
    if r < 0.94:
        big = np.zeros(2 * n + 1)
        big[1::2] = x
        return big[1::2], 'view'
    if r < 0.97:
        return np.array(x[::-1])[::-1], 'rview'
    ro = x.copy()
    ro.flags.writeable = False
    return ro, 'readonly'


def gen_surface_case(rng):
    n = int(N_CHOICES[int(rng.integers(len(N_CHOICES)))]) if rng.random() < 0.5 else \
        int(rng.choice([1, 2, 3, 5, 8, 13, 30, 67, 120, 250, 400], p=[.02, .05, .06, .1, .12, .15, .2, .14, .1, .04, .02]))
    x, rcls = draw_record(rng, n)
    tk = str(rng.choice(['all-knife', 'all-half', 'all-frac', 'zero-nodal', 'mixed', 'boundary', 'int-tau', 'awkward-fraction',
                         'floor-below', 'only-zero'], p=[.13, .09, .09, .1, .25, .09, .09, .06, .06, .04]))
    k = int(rng.choice([1, 2, 3, 4], p=[.3, .3, .25, .15]))
    stt = None
    if tk == 'boundary':
        # exact ties: the delay equals the record length (+-1, -2), a whole-sample move equal to the record length (+-1)
        dt, dtk = float(DYADIC_DT[int(rng.integers(len(DYADIC_DT)))]), 'dyadic'
        taus = [max(int(rng.choice([n - 2, n - 1, n, n + 1, 1, 2, 2 * n, 2 * n - 2])), 0) * dt / 2 for _ in range(k)]
        f0 = int(taus[0] / dt)
        stt = float((f0 + int(rng.choice([n - 1, n, n + 1, 0, 1, -1]))) * dt)
        stt = max(stt, 0.0)
    elif tk == 'awkward-fraction':
        # the step is a fraction D/kk of a duration D for which D/(D/kk) != kk; travel times and stt are D, D/2, 2D, j*dt
        kk = int(rng.integers(2, 60))
        big = gen.awkward_dt(rng, kk)
        dt, dtk = big / kk, 'awkward'
        taus = [float(rng.choice([big, big / 2, 2 * big, big / kk * int(rng.integers(0, 3 * n + 1)), (big / kk) * kk]))
                for _ in range(k)]
        stt = float(rng.choice([big, 2 * big, 0.0, big / kk * int(rng.integers(0, 2 * n + 1)), big + big / 2]))
    elif tk == 'floor-below':
        # travel times and stt that are exact multiples m*dt (as floats or decimal literals) with t/dt just below m
        dt, dtk = (gen.dt(rng, 'nice'), 'nice') if rng.random() < 0.6 else (gen.awkward_dt(rng, int(rng.integers(2, 51))), 'awkward')
        ftab = [t for t in knife_tables(dt)[1] if t[0] / dt < t[1]]
        if ftab:
            taus = [float(_pick(rng, ftab, int(1.5 * n) + 1)) for _ in range(k)]
            stt = float(_pick(rng, ftab, int(1.5 * n) + 1)) if rng.random() < 0.7 else 0.0
        else:
            taus = [float(int(rng.integers(0, 2 * n + 1)) * dt) for _ in range(k)]
    elif tk == 'int-tau':
        # integral travel times (integer containers of every width, incl. values whose doubling leaves the dtype)
        dt, dtk = float(INT_TAU_DT[int(rng.integers(len(INT_TAU_DT)))]), 'int-tau'
        hi = max(int(1.5 * n * dt), 1)
        if rng.random() < 0.5 and hi >= 70:
            hi = min(hi, int(rng.choice([127, 255])))
            taus = [float(rng.integers(max(hi // 2, 1), hi + 1)) for _ in range(k)]
        else:
            taus = [float(rng.integers(0, hi + 1)) for _ in range(k)]
    else:
        dt, dtk = draw_dt(rng)
    delay_tab, floor_tab = knife_tables(dt)
    if tk not in ('boundary', 'int-tau', 'awkward-fraction', 'floor-below'):
        taus = []
        for i in range(k):
            if tk == 'all-knife':
                kind = 'knife' if delay_tab else 'half'
            elif tk == 'all-half':
                kind = 'half'
            elif tk == 'all-frac':
                kind = 'long' if rng.random() < 0.5 else 'short'
            elif tk == 'only-zero' or (tk == 'zero-nodal' and (i == 0 or rng.random() < 0.3)):
                kind = 'zero'
            else:
                kind = str(rng.choice(['zero', 'half', 'knife', 'floorknife', 'short', 'long', 'equal'],
                                      p=[.1, .15, .2, .1, .2, .15, .1]))
            taus.append(draw_tau(rng, kind, n, dt, delay_tab, floor_tab, taus))
        order = rng.permutation(k)
        taus = [taus[i] for i in order]
    nodal = bool(rng.random() < 0.5) or tk == 'zero-nodal'
    trim, start = bool(rng.random() < 0.5), bool(rng.random() < 0.5)
    if stt is None:
        r = rng.random()
        if r < 0.3:
            stt = 0.0
        elif r < 0.5:
            stt = float(rng.uniform(0, 6 * dt))
        elif r < 0.72:
            stt = float(rng.uniform(0, 1.5 * n * dt))
        elif r < 0.85 or not floor_tab:
            stt = float(int(rng.integers(0, int(1.5 * n) + 2)) * dt)
        else:
            stt = float(_pick(rng, floor_tab, int(1.5 * n) + 1))
    # -- record container -------------------------------------------------------------------------------------------
    vals, rk = record_container(rng, x)
    # -- reductions ---------------------------------------------------------------------------------------------------
    r = rng.random()
    same_obj = False
    if r < 0.22:
        up = down = None
    elif r < 0.52:
        q = rng.random()
        if q < 0.05:
            up, down = [(np.int64(1), np.int64(1)), (True, True), (np.True_, np.int32(1))][int(rng.integers(3))]
        elif q < 0.15:
            up = down = 1                                   # python int
        elif q < 0.3:
            up = np.float32(rng.choice([0.5, 0.75, 0.3, 1.0]))
            down = up if (rng.random() < 0.3 or tk == 'zero-nodal') else np.float32(rng.uniform(0.05, 1.0))
        elif q < 0.45:
            up = np.float64(rng.uniform(0.05, 1.0))
            down = up if (rng.random() < 0.3 or tk == 'zero-nodal') else np.float64(rng.uniform(0.05, 1.0))
        else:
            up = float(rng.choice([1.0, 0.5, 1e-12, float(rng.uniform(0.05, 1.0))]))
            down = up if (rng.random() < 0.3 or tk == 'zero-nodal') else float(rng.choice([1.0, 0.25, float(rng.uniform(0.05, 1.0))]))
    else:
        up = rng.uniform(0.05, 1.0, size=k)
        down = up.copy() if (rng.random() < 0.25 or tk == 'zero-nodal') else rng.uniform(0.05, 1.0, size=k)
        if rng.random() < 0.15:
            up[int(rng.integers(k))] = 1.0
        q = rng.random()
        if q < 0.12:
            up, down = up.astype(np.float32), down.astype(np.float32)
        elif q < 0.2:
            dtn = str(rng.choice(['int64', 'uint8', 'int8', 'int32']))
            up, down = np.ones(k, dtype=dtn), np.ones(k, dtype=dtn)
        form = str(rng.choice(['ndarray', 'view', 'rview', 'readonly'], p=[.55, .15, .1, .2]))
        up, down = _as_form(up, form), _as_form(down, form)
        if rng.random() < 0.15 and np.array_equal(up, down):
            down = up
            same_obj = True
    # -- travel-time container ------------------------------------------------------------------------------------------
    integral = all(float(t) == int(t) for t in taus)
    tarr = np.array(taus, dtype=float)
    opts = ['ndarray', 'ndarray', 'view', 'rview', 'readonly', 'list', 'tuple']
    if k == 1:
        opts += ['scalar', 'scalar', 'npfloat']
    if integral:
        opts += ['int-array', 'int-array', 'int-array', 'list-int', 'list-mixed'] + (['pyint', 'npint'] if k == 1 else [])
    if tk == 'int-tau':
        opts += ['int-array'] * 6
    if k > 1 and rng.random() < 0.3:      # explicit orders: ascending / descending (the last entry is then not the maximum)
        taus = sorted(taus, reverse=bool(rng.random() < 0.6))
        tarr = np.array(taus, dtype=float)
    if dtk == 'dyadic' and tk in ('all-half', 'boundary') and max(taus) < 2.0 ** 20 * dt:
        opts += ['f32-array', 'f32-array'] + (['npf32'] if k == 1 else [])
    cont = opts[int(rng.integers(len(opts)))]
    if cont == 'npint':
        fits = [d for d in INT_DTYPES if max(taus) <= np.iinfo(d).max]
        cont = 'npint:' + fits[int(rng.integers(len(fits)))]
    if cont == 'int-array':
        fits = [d for d in INT_DTYPES if max(taus) <= np.iinfo(d).max]
        tt_obj = _as_form(tarr.astype(fits[int(rng.integers(len(fits)))]), str(rng.choice(['ndarray', 'view', 'readonly'])))
        cont = _array_form(tt_obj)
    elif cont == 'f32-array':
        tt_obj = tarr.astype(np.float32)
        cont = 'ndarray'
    else:
        tt_obj = _build_tt(tarr, cont)
    c = {'values': vals, 'dt': dt, 'travel_times': tarr, 'tt_obj': tt_obj, 'tt_container': cont, 'nodal': nodal,
         'up_red': up, 'down_red': down, 'same_red_object': same_obj, 'stt': stt, 'trim': trim, 'start': start,
         'rec_readonly': bool(rng.random() < 0.3),
         'call_style': str(rng.choice(['kw', 'pos', 'mixed', 'omit', 'kw-all'], p=[.4, .2, .15, .15, .1])),
         'bool_form': str(rng.choice(['bool', 'int', 'np', '0d'], p=[.58, .14, .14, .14])),
         'stt_form': str(rng.choice(['float', 'int', 'np', 'npint', '0d', '0di', 'np32'], p=[.42, .15, .1, .08, .12, .06, .07]))}
    # scalar forms of the step of the signal and of stt (round 5). float32 scalars only where every quotient is exact (numpy
    # evaluates python-float / np.float32 in float32): dyadic step, stt a whole number of steps
    q = stt / dt
    exact32 = dtk == 'dyadic' and float(np.float32(dt)) == dt and float(np.float32(stt)) == stt and q == int(q) and q < 2.0 ** 20
    r = rng.random()
    c['dt_form'] = 'float'
    if r < 0.08:
        c['dt_form'] = 'np'
    elif r < 0.18:
        c['dt_form'] = '0d'
    elif r < 0.30 and float(dt) == int(dt):
        c['dt_form'] = ['int', 'npint', '0di'][int(rng.integers(3))]
    elif r < 0.40 and exact32:
        c['dt_form'] = 'np32'
    if c['stt_form'] == 'np32' and not exact32:
        c['stt_form'] = 'float'
    cls = 'surface:%s/dt-%s/%s%s%s' % (tk, dtk, 'N' if nodal else 'A', 'T' if trim else '-', 'S' if start else '-')
    c['forms_cls'] = 'rec-%s|tt-%s%s|red-%s|%s|dt-%s|stt-%s|flag-%s' % (
        rk, cont, '' if not isinstance(tt_obj, np.ndarray) else ':' + tt_obj.dtype.name,
        'default' if up is None else _red_form(up) + (':' + up.dtype.name if isinstance(up, np.ndarray) else ''),
        c['call_style'], _scalar_form(_scalar_arg(dt, c['dt_form'])), _scalar_form(_scalar_arg(stt, c['stt_form'])), c['bool_form'])
    return c, cls, rcls


def draw_alpha(rng, i):
    if i % 2 == 0:
        return float(rng.choice([2.0, 0.5, -4.0, 2.0 ** -10, 1024.0, -0.25]))
    a = float(rng.choice([-1.0, 1.0]) * 10.0 ** rng.uniform(-3, 3))
    if np.frexp(abs(a))[0] == 0.5:
        a *= 1.1
    return a


def run_surface_case(eqsig, ctx, c, i, alpha):
    cum = _call(eqsig, ctx, 'calc_cum_abs_surface_energy', c)
    _direct_trim(eqsig, ctx, c, i)
    if cum is None:     # the exception has been recorded; the relations need the base result
        return
    if i % 2 == 0 and not (len(c['travel_times']) > 1 and i % 3 == 2):
        _call(eqsig, ctx, 'get_time_shift_motions', c)
    if len(c['travel_times']) > 1:
        sel = i % 3
        if sel == 0:
            _rel_batch(eqsig, ctx, 'calc_cum_abs_surface_energy', c, batch=cum)
        elif sel == 1:
            _rel_batch(eqsig, ctx, 'calc_surface_energy', c)
        else:
            _rel_batch(eqsig, ctx, 'get_time_shift_motions', c)
    elif i % 3 == 0:
        _call(eqsig, ctx, 'calc_surface_energy', c)
    _rel_alpha(eqsig, ctx, c, alpha, base=cum)
    if i % 3 == 0:
        _rel_options(eqsig, ctx, c, ['calc_surface_energy', 'get_time_shift_motions', 'calc_cum_abs_surface_energy'][(i // 3) % 3])
    if i % 4 == 2:
        _rel_sites(eqsig, ctx, c, i)
    if isinstance(c.get('up_red'), np.ndarray) or i % 4 == 1:
        _seq_shared_reductions(eqsig, ctx, c, i)


def _observables(sig):
    """Public observables of a signal object, read on a DEEP COPY (reading must not warm the original)."""
    import copy
    d = copy.deepcopy(sig)
    out = {}
    for name in ('values', 'dt', 'npts', 'label', 'time', 'velocity', 'displacement', 'response_times', 'smooth_fa_freqs',
                 'fa_frequencies'):
        try:
            v = getattr(d, name)
            out[name] = (np.asarray(v).dtype.str, np.asarray(v).shape, np.asarray(v).tobytes())
        except Exception as e:
            out[name] = 'raises ' + type(e).__name__
    return out


def _seq_shared_reductions(eqsig, ctx, c, i):
    """Consecutive calls on ONE AccSignal that share ONE reduction ndarray (passed as up_red and as down_red) and ONE
    travel-time object: nodal then anti-nodal energy, the cumulative series (both), the motions. Every argument object must
    stay bit-for-bit what it was BEFORE the first call, and every call must give what a call with fresh copies gives (the
    monitors judge each call against the arguments as handed in)."""
    k = len(c['travel_times'])
    u = c.get('up_red')
    if isinstance(u, np.ndarray) and u.dtype.kind == 'f' and u.flags.writeable:
        red = np.array(u, dtype=float)
    else:
        red = np.linspace(0.3, 0.9, k) * (1.0 if i % 2 else 0.5)
    if i % 3 == 0:
        red.flags.writeable = False
    keep = red.copy()
    tt_keep = _copy_arg(c['tt_obj'])
    c2 = dict(c, up_red=red, down_red=red, same_red_object=True)
    try:
        asig = _make_sig(eqsig, c2)
    except Exception as e:
        ctx.exception('energy==oracle', _case_wit('calc_surface_energy', c2), e)
        return
    x_keep = np.array(asig.values)
    obs0 = _observables(asig) if i % 2 == 0 else None
    seq = [('calc_surface_energy', True), ('calc_surface_energy', False), ('calc_cum_abs_surface_energy', c['nodal']),
           ('calc_cum_abs_surface_energy', not c['nodal']), ('get_time_shift_motions', c['nodal'])]
    for fn, nodal in seq:
        cc = dict(c2, nodal=nodal)
        got = _call(eqsig, ctx, fn, cc, asig=asig)
        pure = _same_bits(red, keep) and _arg_unchanged(c['tt_obj'], tt_keep) and _same_bits(np.asarray(asig.values), x_keep)
        ctx.check(pure, 'purity.shared-objects-unchanged-across-calls',
                  lambda: _case_wit(fn, dict(cc, up_red=keep, down_red=keep), up_red_after=red.copy()),
                  'after %s(nodal=%s) a shared argument object (reductions %s -> %s, travel times, record) differs from its '
                  'state before the first call' % (fn, nodal, keep.tolist(), red.tolist()))
        if not pure:
            return      # later calls would be driven with corrupted input; the corruption itself is the verdict
        if got is None:
            continue
        fresh = _call(eqsig, ctx, fn, dict(cc, up_red=keep.copy(), down_red=keep.copy(), same_red_object=False, tt_obj=None))
        if fresh is not None:
            ctx.check(np.shape(got) == np.shape(fresh) and bool(np.array_equal(got, fresh)), 'shared-reduction==fresh-copies',
                      lambda: _case_wit('rel.shared', cc, base_fn=fn),
                      '%s with shared argument objects differs from the call with separate fresh copies' % fn)
    if obs0 is not None:
        obs1 = _observables(asig)
        bad = [nm for nm in obs0 if obs0[nm] != obs1[nm]]
        ctx.check(not bad, 'purity.signal-observables-unchanged', lambda: _case_wit('calc_surface_energy', c2, changed=bad),
                  'after the surface functions the signal object reads differently (on a deep copy): %s' % bad)


# -- same-object histories ---------------------------------------------------------------------------------------------
def run_history(eqsig, ctx, rng, h):
    """Several monitored calls on ONE AccSignal in random order with repeats, interleaved with reads of cached quantities and
    public mutators; twins built from the same caller array / from the object's values. Every call is judged by the
    post-conditions against the record as it is at call entry."""
    c, cls, rcls = gen_surface_case(rng)
    c['rec_readonly'] = False
    c['forms_cls'] = 'history'
    n = len(c['values'])
    try:
        a = eqsig.AccSignal(c['values'], c['dt'])
        twin = eqsig.AccSignal(c['values'], c['dt'])          # same caller array
        twin2 = eqsig.AccSignal(a.values, c['dt'])            # built from the other object's values
    except Exception as e:
        ctx.exception('energy==oracle', _case_wit('calc_surface_energy', c), e)
        return
    fns = ['calc_surface_energy', 'calc_cum_abs_surface_energy', 'get_time_shift_motions']
    steps = []
    for step in range(10):
        op = str(rng.choice(['call', 'call', 'call', 'read', 'mutate', 'twin', 'regen', 'derive']))
        steps.append(op)
        try:
            if op == 'call' or op == 'twin':
                fn = fns[int(rng.integers(3))]
                cc = dict(c, nodal=bool(rng.random() < 0.5), trim=bool(rng.random() < 0.5), start=bool(rng.random() < 0.5),
                          values=np.array(a.values))
                if op == 'call':
                    r1 = _call(eqsig, ctx, fn, cc, asig=a)
                    if r1 is not None and step % 3 == 0:      # immediate repeat on the same object: identical result
                        r2 = _call(eqsig, ctx, fn, cc, asig=a)
                        if r2 is not None:
                            ctx.check(np.shape(r1) == np.shape(r2) and bool(np.array_equal(r1, r2)), 'history.repeat==first',
                                      lambda: _case_wit(fn, cc, history=list(steps)),
                                      '%s repeated on the same object gives another result' % fn)
                else:
                    ra = _call(eqsig, ctx, fn, cc, asig=a)
                    tw = twin2 if step % 2 else twin
                    if not np.array_equal(np.asarray(tw.values), np.asarray(a.values)):
                        tw.reset_values(a.values)
                    rb = _call(eqsig, ctx, fn, cc, asig=tw)
                    if ra is not None and rb is not None:
                        ctx.check(np.shape(ra) == np.shape(rb) and bool(np.array_equal(ra, rb)), 'history.twin==object',
                                  lambda: _case_wit(fn, cc, history=list(steps)),
                                  '%s on a twin object holding the same values gives another result' % fn)
            elif op == 'derive':
                # objects made by the library itself from the analysed ("warm") object, then analysed in turn
                import copy
                which = int(rng.integers(7))
                if which == 0:
                    d = copy.deepcopy(a)
                    d.reset_values(np.asarray(a.values)[::-1].copy())
                elif which == 1:
                    d = eqsig.interp_to_approx_dt(a, a.dt / int(rng.integers(2, 4)))
                elif which == 2:
                    d = eqsig.interp_to_approx_dt(a, a.dt * 2) if a.npts > 8 else copy.deepcopy(a)
                elif which == 3:
                    d = eqsig.resample_to_approx_dt(a, a.dt * 2) if a.npts > 8 else copy.deepcopy(a)
                elif which == 4:
                    d = eqsig.combine_at_angle(a, twin if twin.npts == a.npts else copy.deepcopy(a), float(rng.uniform(0, 360)))
                elif which == 5:
                    d = eqsig.Cluster([np.asarray(a.values), np.asarray(a.values)[::-1].copy()], a.dt).signal_by_index(int(rng.integers(2)))
                else:
                    z = eqsig.fas2signal(a.fa_spectrum, a.dt)      # complex-typed: handed over once (counted), then its real part
                    try:
                        eqsig.join_sig_w_time_shift(z, np.array([0.0, 2 * z.dt]))
                    except Exception as e:
                        ctx.observe('join_sig_w_time_shift on a complex fas2signal record raised %s' % type(e).__name__)
                    d = eqsig.AccSignal(np.real(z.values), z.dt)
                ctx.observe('history: derived object kind %d (%s)' % (which, type(d).__name__))
                if d.npts >= 1 and d.npts <= 1200 and np.all(np.isfinite(np.asarray(d.values, dtype=float))):
                    fn = fns[int(rng.integers(3))]
                    cc = dict(c, dt=d.dt, values=np.array(d.values), nodal=bool(rng.random() < 0.5), trim=bool(rng.random() < 0.5),
                              start=bool(rng.random() < 0.5))
                    if hasattr(d, 'npts') and isinstance(d, eqsig.AccSignal):
                        rd = _call(eqsig, ctx, fn, cc, asig=d)
                        rf = _call(eqsig, ctx, fn, cc)          # fresh object from the derived object's current values
                        if rd is not None and rf is not None:
                            ctx.check(np.shape(rd) == np.shape(rf) and bool(np.array_equal(rd, rf)), 'history.derived==fresh',
                                      lambda: _case_wit(fn, cc, history=list(steps)),
                                      '%s on an object derived by the library differs from a fresh object with the same values' % fn)
                    ts = np.array([0.0, 1.0, 2.5]) * d.dt
                    try:
                        j1 = eqsig.join_sig_w_time_shift(d, ts, 'sub')
                        j2 = eqsig.join_sig_w_time_shift(eqsig.Signal(np.array(d.values), d.dt), ts, jtype='sub')
                        ctx.check(bool(np.array_equal(j1, j2)), 'history.derived==fresh', lambda: {'fn': 'join_sig_w_time_shift',
                                  'values': np.array(d.values), 'dt': d.dt, 'time_shifts': ts, 'jtype': 'sub'},
                                  'join_sig_w_time_shift on a derived object differs from a fresh Signal with the same values')
                    except Exception as e:
                        ctx.exception('join_sig==padded+-shifted(int(t/dt))', {'fn': 'join_sig_w_time_shift', 'values': np.array(d.values),
                                                                              'dt': d.dt, 'time_shifts': ts, 'jtype': 'sub'}, e)
            elif op == 'read':
                which = int(rng.integers(4))
                if which == 0:
                    a.velocity
                elif which == 1:
                    a.displacement
                elif which == 2:
                    a.fa_spectrum
                else:
                    a.pga
            elif op == 'regen':
                a.generate_displacement_and_velocity_series(trap=bool(rng.random() < 0.5))
            else:
                which = int(rng.integers(6))
                if which == 0:
                    a.reset_values(draw_record(rng, n)[0])                       # same length
                elif which == 1 and n > 2:
                    a.reset_values(np.array(a.values[: max(1, n - int(rng.integers(1, n)))]))     # shorter
                elif which == 2:
                    a.reset_values(np.concatenate([a.values, draw_record(rng, int(rng.integers(1, 9)))[0]]))   # longer
                elif which == 3:
                    a.add_constant(float(rng.normal()))
                elif which == 4:
                    a.remove_average()
                else:
                    a.add_series(np.asarray(draw_record(rng, a.npts)[0]))
                if not np.all(np.isfinite(a.values)):      # e.g. the average of an empty section: outside every statement
                    ctx.observe('history: a mutator produced a non-finite record; record replaced')
                    a.reset_values(draw_record(rng, max(a.npts, 2))[0])
                n = a.npts
        except Exception as e:
            ctx.observe('history: %s step raised %s (not a C19 function; not judged)' % (op, type(e).__name__))
    ctx.ok('history.sequence-completed')


# -- process-wide state: first result re-checked after a second call on another input of the same shape ----------------
def run_back_to_back(eqsig, ctx, rng, j):
    c, cls, rcls = gen_surface_case(rng)
    n = len(c['values'])
    fn = ['calc_surface_energy', 'calc_cum_abs_surface_energy', 'get_time_shift_motions'][j % 3]
    r1 = _call(eqsig, ctx, fn, c)
    if r1 is None:
        return
    keep = np.array(r1)
    other = draw_record(rng, n)[0]
    c2 = dict(c, values=other, nodal=not c['nodal'])
    r2 = _call(eqsig, ctx, fn, c2)
    same_in = np.array_equal(_x64(c), other)
    ctx.check(np.shape(r1) == keep.shape and bool(np.array_equal(r1, keep)) and (r2 is None or same_in or r2 is not r1),
              'first-result-unchanged-after-second-call', lambda: _case_wit('rel.b2b', c, base_fn=fn, other_values=other),
              '%s: the result of the first call changed (or is the same object) after a second call on another record of the '
              'same shape' % fn)
    # array shifting
    vals, sh, kind = gen_shift_case(rng)
    vals2 = draw_values(rng, len(vals), 'float64')[0]
    for which in ('put', 'join'):
        if which == 'join' and sh.min() < 0:
            continue
        try:
            f = (lambda v: eqsig.put_array_in_2d_array(v, sh, 'both' if j % 2 else 'none')) if which == 'put' else \
                (lambda v: eqsig.join_values_w_shifts(v, sh, 'sub' if j % 2 else 'add'))
            q1 = f(vals)
            k1 = np.array(q1)
            q2 = f(vals2)
            ctx.check(bool(np.array_equal(q1, k1)) and q2 is not q1, 'first-result-unchanged-after-second-call',
                      lambda: {'fn': 'rel.b2b-shift', 'which': which, 'values': np.asarray(vals), 'other_values': vals2,
                               'shifts': sh, 'odd': bool(j % 2)},
                      '%s: the first result changed after a second call on other values of the same shape' % which)
        except Exception as e:
            ctx.exception('put2d==offsets' if which == 'put' else 'join==padded+-shifted',
                          {'fn': 'rel.b2b-shift', 'which': which, 'values': np.asarray(vals), 'other_values': vals2,
                           'shifts': sh, 'odd': bool(j % 2)}, e)


K_SIZES = [5, 7, 8, 9, 15, 16, 17, 31, 32, 33, 63, 64, 65, 127, 128, 129, 256]


def run_many_tau(eqsig, ctx, rng, j):
    """Travel-time vectors with 5 .. 256 entries (around powers of two): ascending, descending, shuffled, with repeats, the
    last entry not the maximum; array reductions of the same size."""
    k = K_SIZES[j % len(K_SIZES)]
    n = int(rng.choice([3, 5, 8, 13, 16, 31, 40]))
    x, rcls = draw_record(rng, n)
    dt, dtk = draw_dt(rng)
    delay_tab, floor_tab = knife_tables(dt)
    taus = [draw_tau(rng, str(rng.choice(['zero', 'half', 'knife', 'floorknife', 'short', 'long', 'equal'],
                                         p=[.05, .2, .2, .15, .15, .15, .1])), n, dt, delay_tab, floor_tab, [])
            for _ in range(k)]
    if rng.random() < 0.3:
        taus[int(rng.integers(k))] = taus[int(rng.integers(k))]        # repeated entries
    order = ['ascending', 'descending', 'shuffled', 'max-first', 'max-in-the-middle'][j % 5]
    if order == 'ascending':
        taus = sorted(taus)
    elif order == 'descending':
        taus = sorted(taus, reverse=True)
    elif order == 'max-first':
        taus = sorted(taus, reverse=True)[:1] + [taus[i] for i in rng.permutation(k) if True][: k - 1]
        taus[0] = max(taus)
    elif order == 'max-in-the-middle':
        taus = sorted(taus)
        taus[k // 2], taus[-1] = taus[-1], taus[k // 2]
    tarr = np.array(taus, dtype=float)
    arr_red = j % 3 != 0
    up = rng.uniform(0.05, 1.0, size=k) if arr_red else None
    down = rng.uniform(0.05, 1.0, size=k) if arr_red else None
    c = {'values': x, 'dt': dt, 'travel_times': tarr, 'tt_obj': _as_form(tarr, ['ndarray', 'view', 'readonly'][j % 3]) if j % 4 else taus,
         'tt_container': 'ndarray' if j % 4 else 'list', 'nodal': bool(j % 2), 'up_red': up, 'down_red': down,
         'stt': float(rng.choice([0.0, float(rng.uniform(0, 1.5 * n * dt)), float(int(rng.integers(0, 2 * n)) * dt)])),
         'trim': bool((j // 2) % 2), 'start': bool((j // 4) % 2 == 0), 'call_style': ['kw', 'pos'][j % 2]}
    ctx.case(core.digest(x, dt, tarr, c['stt'], c['trim'], c['start'], order), nontrivial=True,
             cls='surface:many-tau(k=%d,%s)' % (k, order),
             sample={'fn': 'calc_cum_abs_surface_energy+motions', 'n': n, 'k': k, 'order': order, 'dt': dt})
    cum = _call(eqsig, ctx, 'calc_cum_abs_surface_energy', c)
    _call(eqsig, ctx, 'get_time_shift_motions', c)
    _direct_trim(eqsig, ctx, c, j)
    if cum is not None:       # batch rows against single calls: three rows incl. the row of the largest delay
        cum = np.asarray(cum)
        for r in sorted(set([0, int(np.argmax(tarr)), k - 1])):
            u, d = _row_red(c, r)
            single = _call(eqsig, ctx, 'calc_cum_abs_surface_energy',
                           dict(c, travel_times=np.array([tarr[r]]), tt_obj=None, tt_container='ndarray', up_red=u, down_red=d))
            if single is not None:
                single = np.asarray(single)
                okk = cum.ndim == 2 and len(single) <= cum.shape[1] and tol.close(
                    cum[r, :len(single)], single, scale=float(np.max(np.abs(single))) + 1e-300, rtol=1e-12)
                ctx.check(okk, 'cum.batch-row==single', lambda: _case_wit('rel.batch', c, base_fn='calc_cum_abs_surface_energy', row=r),
                          'row %d of a batch of %d travel times differs from the single call' % (r, k))
    # shift vectors of the same sizes
    sh = rng.integers(-6, 7, size=k)
    vals = draw_values(rng, int(rng.choice([1, 3, 8])))[0]
    for clip in ('none', 'start', 'end', 'both'):
        _put(eqsig, ctx, vals, sh, clip)
    _join(eqsig, ctx, vals, np.abs(sh), 'sub' if j % 2 else 'add')
    _join_sig(eqsig, ctx, vals, 0.5, np.abs(sh) * 0.5 + 0.25, 'sub' if j % 2 else 'add', cls='AccSignal' if j % 2 else 'Signal')


def run_big_product(eqsig, ctx, rng, j):
    """rows x samples past 2**22 where the functions build an n x m matrix (a handful per quick run)."""
    k = [64, 33, 129][j % 3]
    n = 2 ** 22 // k + int(rng.integers(5, 60))
    x, rcls = gen.record(rng, n, cls=['noise', 'quake', 'walk'][j % 3])
    dt = [0.01, 1.0 / 128, 0.005][j % 3]
    tarr = np.concatenate([[7 * dt, 0.0, 14.5 * dt], rng.uniform(0, 30 * dt, size=k - 3)])
    tarr[k // 2] = 31 * dt           # the largest delay sits in the middle
    c = {'values': x, 'dt': dt, 'travel_times': tarr, 'tt_obj': np.array(tarr), 'tt_container': 'ndarray', 'nodal': bool(j % 2),
         'up_red': None, 'down_red': None, 'stt': 3.5 * dt if j % 2 else 0.0, 'trim': bool(j % 2), 'start': bool(j % 2)}
    ctx.case(core.digest(x[:64], n, k, dt), nontrivial=True, cls='surface:rows*samples>2**22',
             sample={'fn': 'calc_surface_energy', 'n': n, 'k': k, 'dt': dt})
    _call(eqsig, ctx, 'calc_surface_energy', c)
    if j % 2 == 0:
        m = 2 ** 22 // 40 + 7
        _put(eqsig, ctx, x[:m], rng.integers(-20, 21, size=41), ['none', 'both'][(j // 2) % 2])


GRID_DT = [0.01, 0.005, 0.02, 0.025]


def run_grid_case(eqsig, ctx, rng, j):
    """Whole and half multiples of dt over the grid m = 1..40 (tau = m*dt/2, as float products and as decimal literals), for
    several steps incl. awkward ones, on records whose FIRST and LAST samples are among the largest, untrimmed (so that the
    samples after the end of the direct wave, where the delayed wave ends, are judged), start False/True."""
    dt = GRID_DT[j % 4] if j % 5 else gen.awkward_dt(rng, int(rng.integers(2, 41)))
    n = int([100, 50, 37, 64, 128, 99, 101][j % 7])
    x, rcls = gen.record(rng, n, cls=['noise', 'sine', 'walk', 'quake', 'const', 'alt'][j % 6], amp=1.0)
    top = float(np.max(np.abs(x))) + 1.0
    x = x.copy()
    x[0] = top * (1.0 if j % 2 else -1.2)
    x[-1] = top * (1.5 if j % 3 else -1.0)
    ms = np.arange(1, 41)
    if j % 2:
        taus = np.array([float('%.12g' % (m * dt / 2)) for m in ms])      # 0.005, 0.01, ..., 0.045, ...
    else:
        taus = ms * dt / 2
    if j % 4 == 3:
        taus = taus[::-1].copy()
    c = {'values': x, 'dt': dt, 'travel_times': taus, 'tt_obj': np.array(taus), 'tt_container': 'ndarray', 'nodal': bool(j % 2 == 0),
         'up_red': None if j % 3 else 0.5, 'down_red': None if j % 3 else 1.0, 'stt': [0.0, 3 * dt, float(taus[7])][j % 3],
         'trim': False, 'start': bool((j // 2) % 2)}
    ctx.case(core.digest(x, dt, taus, c['stt'], c['start']), nontrivial=True, cls='surface:grid-m=1..40(dt=%.4g)' % dt,
             sample={'fn': 'energy+cum+motions', 'n': n, 'dt': dt, 'travel_times': taus[:6], 'start': c['start']})
    _call(eqsig, ctx, 'calc_surface_energy', c)
    _call(eqsig, ctx, 'get_time_shift_motions', c)
    if j % 2:
        _call(eqsig, ctx, 'calc_cum_abs_surface_energy', dict(c, trim=bool(j % 4 == 1)))
    for m in (8, 9, 10, 12, int(rng.integers(1, 41))):     # single travel times (scalar form), the output ends with the delayed wave
        _call(eqsig, ctx, 'calc_surface_energy', dict(c, travel_times=np.array([taus[m - 1]]), tt_obj=float(taus[m - 1]),
                                                      tt_container='scalar'))


def run_extreme_case(eqsig, ctx, rng, j):
    """Extreme but valid scales. The motions and the array helpers are linear in the record: full range (1e-300..1e300, extreme
    dynamic range inside one record, ripple on a baseline, counts above 2**24). The energy is a square: amplitudes within
    1e-130..1e130 so that 0.5 v|v| and the tolerance terms stay normal doubles."""
    n = int(rng.choice([2, 5, 13, 40, 100]))
    x, rcls = gen.record(rng, n, allow_const=False, amp=1.0)
    if not np.any(x):
        x[0] = 1.0
    dt = gen.dt(rng, 'nice')
    k = int(rng.integers(1, 4))
    taus = np.array([float(int(rng.integers(0, 2 * n + 1)) * dt / 2) if rng.random() < 0.6 else float(rng.uniform(0, n * dt))
                     for _ in range(k)])
    base = {'dt': dt, 'travel_times': taus, 'tt_obj': np.array(taus), 'tt_container': 'ndarray', 'nodal': bool(j % 2),
            'up_red': None if j % 2 else float(rng.uniform(0.1, 1.0)), 'down_red': None if j % 2 else float(rng.uniform(0.1, 1.0)),
            'stt': float(rng.choice([0.0, 2.5 * dt])), 'trim': bool(j % 3 == 0), 'start': bool(j % 4 == 1)}
    xs, suffix = gen.special_scale(rng, x)
    if np.all(np.isfinite(xs)) and np.max(np.abs(xs)) < 1e305:
        c = dict(base, values=xs if j % 3 else [float(v) for v in xs])
        ctx.case(core.digest(xs, dt, taus, 'motions'), nontrivial=True, cls='surface:motions' + (suffix or '-plain'),
                 sample={'fn': 'get_time_shift_motions', 'n': n, 'dt': dt, 'scale_class': suffix, 'head': xs[:4]})
        _call(eqsig, ctx, 'get_time_shift_motions', c)
        _rel_batch(eqsig, ctx, 'get_time_shift_motions', c)
        sh = rng.integers(-4, 5, size=int(rng.integers(1, 5)))
        for clip in ('none', 'both'):
            _put(eqsig, ctx, c['values'], sh, clip)
        _join(eqsig, ctx, c['values'], np.abs(sh), 'sub' if j % 2 else 'add')
        _join_sig(eqsig, ctx, c['values'], dt, np.abs(sh) * dt, 'add' if j % 2 else 'sub', cls='AccSignal' if j % 2 else 'Signal')
    amp = 10.0 ** (float(rng.choice([-1.0, 1.0])) * rng.uniform(100, 130))
    xe = x / float(np.max(np.abs(x))) * amp
    ce = dict(base, values=xe)
    ctx.case(core.digest(xe, dt, taus, 'energy'), nontrivial=True, cls='surface:energy-extreme-scale(1e+-100..130)',
             sample={'fn': 'calc_cum_abs_surface_energy', 'n': n, 'dt': dt, 'amp': amp})
    cum = _call(eqsig, ctx, 'calc_cum_abs_surface_energy', ce)
    if cum is not None:
        _rel_alpha(eqsig, ctx, ce, [2.0, -0.5, 4.0][j % 3], base=cum)
        _rel_batch(eqsig, ctx, 'calc_surface_energy', ce)


def run_long_case(eqsig, ctx, rng, j):
    """A few long inputs past 2**16 samples."""
    n = 2 ** 16 + int(rng.integers(1, 40))
    x, rcls = gen.record(rng, n, cls=['noise', 'quake', 'sine', 'walk'][j % 4])
    dt = [0.01, 0.005, 1.0 / 128, 0.02][j % 4]
    taus = np.array([0.07 if dt == 0.01 else 7 * dt, float(rng.uniform(0, 40 * dt))][: 1 + j % 2])
    c = {'values': x, 'dt': dt, 'travel_times': taus, 'tt_obj': np.array(taus), 'tt_container': 'ndarray', 'nodal': bool(j % 2),
         'up_red': None, 'down_red': None, 'stt': float(rng.uniform(0, 20 * dt)) if j % 3 else 0.0,
         'trim': bool(j % 3 == 1), 'start': bool(j % 2 == 0)}
    ctx.case(core.digest(x[:64], n, dt, taus), nontrivial=True, cls='surface:long>2**16',
             sample={'fn': 'calc_cum_abs_surface_energy', 'n': n, 'dt': dt, 'travel_times': taus})
    _call(eqsig, ctx, 'calc_cum_abs_surface_energy' if j % 2 else 'calc_surface_energy', c)
    sh = np.array([0, int(rng.integers(1, 50)), -int(rng.integers(1, 50))])
    _put(eqsig, ctx, x, sh, ['none', 'start', 'end', 'both'][j % 4])
    _join(eqsig, ctx, x.astype(np.float32) if j % 2 else x, np.abs(sh), 'add' if j % 2 else 'sub')


# -- shift workload ---------------------------------------------------------------------------------------------------
def _shift_wit(fn, values, shifts, **kw):
    d = {'fn': fn, 'values': np.asarray(values), 'shifts': np.asarray(shifts), 'values_container': _container_name(values),
         'shifts_container': _container_name(shifts)}
    d.update(kw)
    return d


def _put(eqsig, ctx, values, shifts, clip, style='kw'):
    try:
        if clip == 'omit':
            eqsig.put_array_in_2d_array(values, shifts)
        elif style == 'pos':
            eqsig.put_array_in_2d_array(values, shifts, clip)
        elif style == 'kw-all':
            eqsig.put_array_in_2d_array(values=values, shifts=shifts, clip=clip)
        else:
            eqsig.put_array_in_2d_array(values, shifts, clip=clip)
    except Exception as e:
        ctx.exception('put2d==offsets', _shift_wit('put_array_in_2d_array', values, shifts,
                                                   clip='none' if clip == 'omit' else clip, style=style), e)


def _join(eqsig, ctx, values, shifts, jtype, style='kw'):
    neg = min(int(s) for s in np.asarray(shifts).tolist()) < 0
    try:
        if style == 'pos':
            eqsig.join_values_w_shifts(values, shifts, jtype)
        elif jtype == 'omit':
            eqsig.join_values_w_shifts(values, shifts)
        else:
            eqsig.join_values_w_shifts(values, shifts, jtype=jtype)
    except Exception as e:
        if neg:
            ctx.observe('join_values_w_shifts: negative shift raised %s (not judged)' % type(e).__name__)
        else:
            ctx.exception('join==padded+-shifted', _shift_wit('join_values_w_shifts', values, shifts,
                                                              jtype='add' if jtype == 'omit' else jtype, style=style), e)


def _join_sig(eqsig, ctx, vals, dt, ts, jtype, style='kw', cls='Signal', expect_reject=False, dt_form='float'):
    """One monitored call of the object-level join. jtype 'omit' = default. Forms the library rejects are observations."""
    try:
        sig = getattr(eqsig, cls)(vals, _scalar_arg(dt, dt_form))
        if style == 'pos':
            eqsig.join_sig_w_time_shift(sig, ts, 'add' if jtype == 'omit' else jtype)
        elif jtype == 'omit':
            eqsig.join_sig_w_time_shift(sig, ts)
        elif style == 'kw-all':
            eqsig.join_sig_w_time_shift(sig=sig, time_shifts=ts, jtype=jtype)
        else:
            eqsig.join_sig_w_time_shift(sig, ts, jtype=jtype)
        if expect_reject:
            ctx.observe('join_sig_w_time_shift: accepted time_shifts of type %s' % type(ts).__name__)
    except Exception as e:
        if expect_reject:
            ctx.observe('join_sig_w_time_shift: time_shifts of type %s rejected with %s (not judged)'
                        % (type(ts).__name__, type(e).__name__))
        else:
            ctx.exception('join_sig==padded+-shifted(int(t/dt))',
                          {'fn': 'join_sig_w_time_shift', 'values': np.asarray(vals), 'dt': dt, 'time_shifts': np.asarray(ts),
                           'ts_container': _container_name(ts), 'jtype': 'add' if jtype == 'omit' else jtype,
                           'sig_class': cls, 'style': style, 'omit': jtype == 'omit', 'dt_form': dt_form}, e)


def drive_join_sig(eqsig, ctx, rng, vals, sh, i):
    """Times built from the non-negative sample shifts sh: exact products (dyadic dt), float products s*dt (decided when
    s*dt/dt == s, two-sided a few ulps below), a quarter/most of a step later, just below the next multiple."""
    dkind = i % 4
    if dkind == 0:
        dt = float(DYADIC_DT[int(rng.integers(len(DYADIC_DT)))])
    elif dkind == 1:
        dt = gen.dt(rng, 'nice')
    elif dkind == 2:
        dt = gen.dt(rng, 'recip')
    else:
        dt = float(10.0 ** rng.uniform(-9, 3))
    base = sh.astype(float) * dt
    tkind = (i // 4) % 5
    if tkind == 0:
        ts = base
    elif tkind == 1:
        ts = base + 0.25 * dt
    elif tkind == 2:
        ts = base + 0.999 * dt
    elif tkind == 3:
        ts = np.array([float('%.12g' % t) for t in base])          # decimal literals: 0.29/0.01 -> 28.999999999999996
    else:
        ts = np.nextafter(base + dt, 0.0)                          # one ulp below the next multiple
    ctx.observe('join_sig time-shift kind %s' % ['s*dt', 's*dt+0.25dt', 's*dt+0.999dt', 'decimal literal', 'ulp below (s+1)*dt'][tkind])
    form = ['ndarray', 'view', 'readonly', 'rview', 'ndarray'][i % 5]
    ts_arg = _as_form(ts, form)
    if dt in (1.0, 2.0, 8.0, 1024.0) and tkind == 0 and i % 3 == 0:
        ts_arg = ts.astype([np.int64, np.int32, np.uint16][i % 3 if np.max(ts) < 60000 else 0])     # integral times
    cls = 'AccSignal' if i % 2 else 'Signal'
    dt_form = ['float', 'np', '0d', 'float', 'int', 'npint', '0di', 'np32' if dkind == 0 else 'np'][(i // 4 + i) % 8]
    ctx.observe('join_sig dt form %s' % _scalar_form(_scalar_arg(dt, dt_form)))
    for jt, style in (('sub', 'kw'), ('sub', 'pos'), ('add', 'kw'), ('omit', 'kw'), ('add', 'pos'), ('sub', 'kw-all'))[i % 2::2]:
        _join_sig(eqsig, ctx, vals, dt, ts_arg, jt, style, cls, dt_form=dt_form)
    if i % 6 == 0:      # forms the library may reject: list / tuple / scalar-like
        rej = [ts.tolist(), tuple(ts.tolist()), float(ts[0]), np.float64(ts[0])][(i // 6) % 4]
        _join_sig(eqsig, ctx, vals, dt, rej, 'sub', 'kw', cls, expect_reject=True)


SHIFT_DTYPES = ['int64', 'int64', 'int32', 'int16', 'int8', 'uint8', 'uint16']


def gen_shift_case(rng):
    n = int(rng.choice([1, 2, 3, 5, 9, 20, 60], p=[.1, .1, .15, .2, .2, .15, .1]))
    k = int(rng.integers(1, 7)) if rng.random() < 0.9 else int(rng.choice([8, 15, 16, 17, 31, 32, 33, 63, 64, 65, 128]))
    if k > 8:
        n = min(n, 9)
    kind = str(rng.choice(['all-zero', 'all-negative', 'all-positive', 'mixed', 'non-negative', 'non-positive'],
                          p=[.1, .15, .15, .35, .15, .1]))
    m = int(rng.choice([3, n, 2 * n + 1, 120, 250]))       # 120 / 250: most of the int8 / uint8 range
    if kind == 'all-zero':
        sh = np.zeros(k, dtype=int)
    elif kind == 'all-negative':
        sh = -rng.integers(1, m + 1, size=k)
    elif kind == 'all-positive':
        sh = rng.integers(1, m + 1, size=k)
    elif kind == 'non-negative':
        sh = rng.integers(0, m + 1, size=k)
    elif kind == 'non-positive':
        sh = -rng.integers(0, m + 1, size=k)
    else:
        sh = rng.integers(-m, m + 1, size=k)
    sh = np.asarray(sh, dtype=np.int64)
    vals, vk = draw_values(rng, n)
    return vals, sh, kind + '/' + vk


def shift_container(rng, sh):
    """The shift vector in another integer dtype / container that can hold it."""
    fits = [d for d in SHIFT_DTYPES if np.iinfo(d).min <= sh.min() and sh.max() <= np.iinfo(d).max]
    r = rng.random()
    if r < 0.12:
        return sh.tolist(), 'list'
    if r < 0.18:
        return tuple(sh.tolist()), 'tuple'
    arr = sh.astype(fits[int(rng.integers(len(fits)))])
    form = str(rng.choice(['ndarray', 'view', 'rview', 'readonly'], p=[.6, .15, .1, .15]))
    arr = _as_form(arr, form)
    return arr, '%s:%s' % (form, arr.dtype.name)


def values_container(rng, vals):
    r = rng.random()
    if r < 0.55:
        return vals, 'ndarray'
    if r < 0.65:
        return vals.tolist(), 'list'
    if r < 0.7:
        return tuple(vals.tolist()), 'tuple'
    if r < 0.75 and vals.dtype.kind == 'f':
        return [int(v) if (i % 2 == 0 and abs(v) < 2.0 ** 53 and float(v) == int(v)) else float(v) for i, v in enumerate(vals.tolist())], 'list-mixed'
    form = str(rng.choice(['view', 'rview', 'readonly']))
    return _as_form(vals, form), form


VALUE_KINDS = ['float64', 'float64-int', 'int64', 'uint8', 'uint16', 'int8', 'int16', 'int32', 'float32', 'float32-huge',
               'float64-tiny', 'float64-huge', 'special-scale', 'bool']


def draw_values(rng, n, vk=None):
    """Value containers of several dtypes whose magnitudes use the dtype's range: sums of two entries exceed it and
    differences go negative / below it, so arithmetic carried out in the input dtype would wrap, saturate or round."""
    if vk is None:
        vk = VALUE_KINDS[int(rng.integers(len(VALUE_KINDS)))]
    if vk == 'float64':
        return rng.normal(size=n), vk
    if vk == 'bool':      # on / off values: NumPy adds bools with OR and refuses to negate / subtract them
        v = rng.random(n) < 0.7
        v[int(rng.integers(n))] = True
        return v, vk
    if vk == 'special-scale':
        v, suf = gen.special_scale(rng, rng.normal(size=n) + (0.0 if n > 1 else 1.0))
        return (v, 'float64' + (suf or '')) if np.all(np.isfinite(v)) and np.max(np.abs(v)) < 1e305 else (rng.normal(size=n), 'float64')
    if vk == 'float64-tiny':
        return rng.normal(size=n) * 1e-12, vk
    if vk == 'float64-huge':
        return rng.normal(size=n) * 1e12 + 1e12, vk
    if vk == 'float64-int':
        v = rng.integers(-9, 10, size=n).astype(float)
        v[v == 0] = 1.0
        return v, vk
    if vk == 'int64':
        return rng.integers(1, 10, size=n), vk
    if vk in ('uint8', 'uint16'):
        top = np.iinfo(vk).max
        return rng.integers(top // 2 + 1, top + 1, size=n).astype(vk), vk          # a+b > max, a-b < 0 half of the time
    if vk in ('int8', 'int16', 'int32'):
        top = np.iinfo(vk).max
        mag = rng.integers(top // 2 + 1, top + 1, size=n)
        sign = rng.choice([-1, 1], size=n)
        if n > 1:
            sign[:2] = [1, -1] if rng.random() < 0.5 else [1, 1]
        return (mag * sign).astype(vk), vk
    if vk == 'float32':
        return (rng.normal(size=n) * 10.0 ** rng.uniform(-3, 6)).astype(np.float32), vk  # sums need > 24 bits
    v = (rng.uniform(0.55, 1.0, size=n) * float(np.finfo(np.float32).max) * rng.choice([-1.0, 1.0], size=n)).astype(np.float32)
    return v, vk                                                                         # sums overflow float32


# ======================================================================================================= audit round 3
# Checklist items 22-27. Every runner is driven by a SPEC of plain data (arrays, floats, strings) that is also the witness,
# so that `replay` re-executes the whole history. The monitored calls inside are judged by the post-conditions against the
# object's values at call entry; the relation clauses compare the object with a fresh AccSignal built from its OWN values.
R3_FNS = ['calc_surface_energy', 'calc_cum_abs_surface_energy', 'get_time_shift_motions']
COPY_CLAUSE = 'copy.result==fresh(own values)'
COPY_SIDE_CLAUSE = 'copy.unmutated-side-keeps-record'
ASSIGN_REC_CLAUSE = 'assign.record-old-or-new(completely)'
ASSIGN_CLAUSE = 'assign.result==fresh(own values)'
RAISE_REC_CLAUSE = 'after-raise.record-consistent'
RAISE_RES_CLAUSE = 'after-raise.result==fresh(own values)'
ABA_CLAUSE = 'third-call==first(A;B;A)'


def _r3_options(rng, n, dt):
    """Call options of an object-level case: 1-3 travel times, default / scalar / array reductions, random flags, stt."""
    k = int(rng.integers(1, 4))
    taus = []
    for _ in range(k):
        r = rng.random()
        taus.append(0.0 if r < 0.15 else (float(int(rng.integers(0, 2 * n + 1)) * dt / 2) if r < 0.55
                                          else float(rng.uniform(0, 1.2 * n * dt))))
    r = rng.random()
    if r < 0.3:
        up = down = None
    elif r < 0.6:
        up, down = float(rng.uniform(0.05, 1.0)), float(rng.uniform(0.05, 1.0))
    else:
        up, down = rng.uniform(0.05, 1.0, size=k), rng.uniform(0.05, 1.0, size=k)
    r = rng.random()
    stt = 0.0 if r < 0.3 else (float(rng.uniform(0, n * dt)) if r < 0.65 else float(int(rng.integers(0, n + 1)) * dt))
    return {'travel_times': np.array(taus), 'nodal': bool(rng.random() < 0.5), 'up_red': up, 'down_red': down, 'stt': stt,
            'trim': bool(rng.random() < 0.5), 'start': bool(rng.random() < 0.5)}


def _r3_case(opts, values, dt):
    u, d = opts.get('up_red'), opts.get('down_red')
    return {'values': values, 'dt': dt, 'travel_times': np.atleast_1d(np.asarray(opts['travel_times'], dtype=float)),
            'tt_obj': opts.get('_tt_obj'), 'tt_container': 'ndarray', 'nodal': bool(opts['nodal']),
            'up_red': np.asarray(u, dtype=float) if isinstance(u, (list, np.ndarray)) else u,
            'down_red': np.asarray(d, dtype=float) if isinstance(d, (list, np.ndarray)) else d, 'same_red_object': False,
            'stt': float(opts['stt']), 'trim': bool(opts['trim']), 'start': bool(opts['start']), 'call_style': 'kw'}


def _record_of(obj):
    """(values copy, reason) - the object's current record when it is inside the quantifier."""
    cur = np.array(obj.values)
    if cur.ndim != 1 or cur.size < 1 or cur.dtype.kind not in 'fiub' or not np.all(np.isfinite(cur.astype(float))):
        return None
    return cur


def _obj_judge(eqsig, ctx, obj, opts, fn, clause, spec, tag):
    """fn on the object as it is now (judged by the monitors against its current values) and on a fresh AccSignal built from
    those values: bit-for-bit the same."""
    wit = lambda: dict(spec, failed_at=tag, failed_fn=fn)
    try:
        cur = _record_of(obj)
        dt = obj.dt
    except Exception as e:
        ctx.exception(clause, wit(), e)
        return None
    if cur is None:
        ctx.observe('round 3: object record outside the quantifier (not judged)')
        return None
    cc = _r3_case(opts, cur, dt)
    got = _call(eqsig, ctx, fn, cc, asig=obj, wit=wit)
    fresh = _call(eqsig, ctx, fn, cc, wit=wit)
    if got is None or fresh is None:
        return None
    ctx.check(np.shape(got) == np.shape(fresh) and bool(np.array_equal(got, fresh)), clause, wit,
              '%s on the object (%s) differs from a fresh AccSignal built from its current values' % (fn, tag))
    return np.array(got)


def _obj_join(eqsig, ctx, obj, ts, jtype, clause, spec, tag):
    wit = lambda: dict(spec, failed_at=tag, failed_fn='join_sig_w_time_shift')
    try:
        cur = _record_of(obj)
        if cur is None:
            ctx.observe('round 3: object record outside the quantifier (not judged)')
            return
        t = np.asarray(ts, dtype=float) * obj.dt
        j1 = eqsig.join_sig_w_time_shift(obj, t, jtype)
        j2 = eqsig.join_sig_w_time_shift(eqsig.Signal(cur, obj.dt), np.array(t), jtype=jtype)
    except Exception as e:
        ctx.exception(clause, wit(), e)
        return
    ctx.check(np.shape(j1) == np.shape(j2) and bool(np.array_equal(j1, j2)), clause, wit,
              'join_sig_w_time_shift on the object (%s) differs from a fresh Signal built from its current values' % tag)


def _warm(eqsig, ctx, a, kind, opts, spec):
    """Bring the object into a cache state (reads of derived quantities; none of them is a C19 function)."""
    try:
        if kind == 'vel':
            a.velocity
            a.displacement
        elif kind == 'fa':
            a.fa_spectrum
        elif kind == 'smooth':
            a.smooth_fa_spectrum
        elif kind == 'peaks':
            a.pga
            a.pgv
            a.pgd
        elif kind == 'rs':
            a.s_a
        elif kind == 'stockwell':
            a.swtf = eqsig.stockwell.transform(a.values)      # what eqsig.stockwell memoises on the object
        elif kind == 'surface':
            _obj_judge(eqsig, ctx, a, opts, spec.get('surf_fn', R3_FNS[0]), spec['_clause'], spec, 'warm-up call')
    except Exception as e:
        ctx.observe('round 3: warm-up %s raised %s (not a C19 function; not judged)' % (kind, type(e).__name__))


WARM_KINDS = ['cold', 'vel', 'fa', 'smooth', 'peaks', 'rs', 'stockwell', 'surface']
CLONE_KINDS = ['copy', 'deepcopy', 'pickle', 'pickle2', 'cluster-deepcopy', 'cluster-pickle', 'deepcopy-of-copy']
MUT_KINDS = ['none', 'reset-same', 'reset-shorter', 'reset-longer', 'add_constant', 'remove_average', 'add_series']


def _clone(a, how, cluster=None):
    import copy
    import pickle
    if how == 'copy':
        return copy.copy(a)
    if how == 'deepcopy':
        return copy.deepcopy(a)
    if how == 'pickle':
        return pickle.loads(pickle.dumps(a, protocol=pickle.HIGHEST_PROTOCOL))
    if how == 'pickle2':
        return pickle.loads(pickle.dumps(a, protocol=2))
    if how == 'cluster-deepcopy':
        return copy.deepcopy(cluster).signal_by_index(0)
    if how == 'cluster-pickle':
        return pickle.loads(pickle.dumps(cluster)).signal_by_index(0)
    return copy.deepcopy(copy.copy(a))


def _mutate(obj, mut, s):
    v2 = np.asarray(s['values2'], dtype=float)
    if mut == 'reset-same':
        obj.reset_values(np.resize(v2, obj.npts))
    elif mut == 'reset-shorter':
        obj.reset_values(np.resize(v2, max(1, obj.npts - int(s['delta']))))
    elif mut == 'reset-longer':
        obj.reset_values(np.resize(v2, obj.npts + int(s['delta'])))
    elif mut == 'add_constant':
        obj.add_constant(float(s['constant']))
    elif mut == 'remove_average':
        obj.remove_average()
    elif mut == 'add_series':
        obj.add_series(np.resize(v2, obj.npts))


def gen_protocol_spec(rng, j):
    n = int(rng.choice([2, 3, 5, 8, 16, 17, 33, 64, 100, 150]))
    x, rcls = draw_record(rng, n)
    dt, dtk = draw_dt(rng)
    warm = WARM_KINDS[j % len(WARM_KINDS)]
    if warm == 'stockwell' and n > 64:
        n = 64
        x = x[:64]
    how = CLONE_KINDS[(j // len(WARM_KINDS) + j) % len(CLONE_KINDS)]
    mut = MUT_KINDS[int(rng.integers(len(MUT_KINDS)))]
    return {'fn': 'r3.protocol', 'values': x, 'dt': dt, 'warm': warm, 'how': how, 'mut': mut,
            'mut_on': str(rng.choice(['copy', 'orig', 'both'])), 'order': str(rng.choice(['copy-first', 'orig-first'])),
            'values2': draw_record(rng, n + 8)[0], 'delta': int(rng.integers(1, 8)), 'constant': float(rng.normal()),
            'read_copy': WARM_KINDS[int(rng.integers(len(WARM_KINDS) - 2))], 'read_orig': WARM_KINDS[int(rng.integers(len(WARM_KINDS) - 2))],
            'opts': _r3_options(rng, n, dt), 'surf_fn': R3_FNS[j % 3], 'surf_fn2': R3_FNS[int(rng.integers(3))],
            'ts': [0.0, float(rng.integers(0, n + 1)), float(rng.uniform(0, n))], 'jtype': ['add', 'sub'][j % 2],
            'pre_call': bool(rng.random() < 0.5), 'record_class': rcls}


def exec_protocol(eqsig, ctx, s):
    """copy.copy / copy.deepcopy / pickle round trip of an AccSignal (or of the Cluster that owns it) in a given cache state,
    then reads and mutators on the copy and on the original in both orders; both objects analysed twice."""
    s = dict(s, _clause=COPY_CLAUSE)
    spec = dict((k, v) for k, v in s.items() if not k.startswith('_'))
    _R3['spec'] = spec
    x = np.asarray(s['values'], dtype=float)
    opts = s['opts']
    cluster = None
    try:
        if s['how'].startswith('cluster'):
            cluster = eqsig.Cluster([x, x[::-1].copy()], s['dt'], stypes='acc')
            a = cluster.signal_by_index(0)
        else:
            a = eqsig.AccSignal(x, s['dt'])
    except Exception as e:
        ctx.exception(COPY_CLAUSE, spec, e)
        return
    _warm(eqsig, ctx, a, s['warm'], opts, s)
    if s.get('pre_call'):
        _obj_judge(eqsig, ctx, a, opts, s['surf_fn2'], COPY_CLAUSE, spec, 'original before the copy')
    try:
        b = _clone(a, s['how'], cluster)
    except Exception as e:
        ctx.exception(COPY_CLAUSE, dict(spec, failed_at='copying the object'), e)
        return
    ctx.observe('round 3: %s of a signal in state %s' % (s['how'], s['warm']))
    snap = {'orig': np.array(a.values), 'copy': None}
    try:
        snap['copy'] = np.array(b.values)
    except Exception as e:
        ctx.exception(COPY_CLAUSE, dict(spec, failed_at='reading the values of the copy'), e)
        return
    _warm(eqsig, ctx, b, s['read_copy'], opts, s)
    _warm(eqsig, ctx, a, s['read_orig'], opts, s)
    objs = {'copy': b, 'orig': a}
    targets = ['copy', 'orig'] if s['mut_on'] == 'both' else [s['mut_on']]
    if s['order'] == 'orig-first':
        targets = targets[::-1]
    mutated = set()
    if s['mut'] != 'none':
        for t in targets:
            try:
                _mutate(objs[t], s['mut'], s)
                mutated.add(t)
            except Exception as e:
                ctx.observe('round 3: mutator %s raised %s (not a C19 function; not judged)' % (s['mut'], type(e).__name__))
    # a shallow copy shares the value buffer by definition; after a rebinding mutator on one side it must not any more
    if s['how'] == 'copy' and len(mutated) == 1:
        try:
            if np.shares_memory(a.values, b.values):
                ctx.observe('round 3: shallow copy still shares its value buffer after a mutator (not judged further)')
                return
        except Exception:
            pass
    for side in ('copy', 'orig'):
        if side not in mutated:
            try:
                now = np.asarray(objs[side].values)
                okk = _same_bits(now, snap[side]) and objs[side].npts == len(snap[side]) and objs[side].dt == s['dt']
            except Exception:
                okk = False
            ctx.check(okk, COPY_SIDE_CLAUSE, lambda: dict(spec, failed_at=side),
                      'the %s was not mutated but its record / npts / dt changed (mutator %s on %s)' % (side, s['mut'], s['mut_on']))
    order = ['copy', 'orig'] if s['order'] == 'copy-first' else ['orig', 'copy']
    for rnd, seq in enumerate((order, order[::-1])):
        fn = s['surf_fn'] if rnd == 0 else s['surf_fn2']
        for side in seq:
            _obj_judge(eqsig, ctx, objs[side], opts, fn, COPY_CLAUSE, spec, '%s, round %d' % (side, rnd))
            if rnd == 0:
                _obj_join(eqsig, ctx, objs[side], s['ts'], s['jtype'], COPY_CLAUSE, spec, '%s join' % side)
    _R3['spec'] = None


ASSIGN_ATTRS = ['values', 'values', 'values', 'values', 'dt', 'npts', 'label', 'response_times', 'smooth_fa_freqs',
                'smooth_fa_frequencies', 'smooth_freq_range', 'time', 'velocity']


def gen_assign_spec(rng, j):
    n = int(rng.choice([1, 2, 3, 4, 8, 30, 65]))
    x, rcls = draw_record(rng, n)
    dt, dtk = draw_dt(rng)
    attr = ASSIGN_ATTRS[j % len(ASSIGN_ATTRS)]
    size = int([1, 2, 3, n, n + 3, max(1, n - 1)][int(rng.integers(6))])
    if attr in ('values', 'velocity', 'time'):
        new = draw_record(rng, size)[0]
        if rng.random() < 0.3:
            new = np.round(new * 3) + 1.0
    elif attr == 'dt':
        new = float(rng.choice([2 * dt, dt / 2, 0.01, 1.0]))
    elif attr == 'npts':
        new = int(rng.choice([1, n + 1, max(1, n - 1), 2 * n]))
    elif attr == 'label':
        new = 'relabelled'
    elif attr == 'smooth_freq_range':
        new = np.array([0.2, 20.0])
    else:
        new = np.sort(rng.uniform(0.05, 4.0, size=size))
    return {'fn': 'r3.assign', 'values': x, 'dt': dt, 'attr': attr, 'form': ['list', 'tuple', 'ndarray', 'list-int'][(j // len(ASSIGN_ATTRS)) % 4],
            'new': new, 'warm': ['cold', 'vel', 'surface', 'peaks'][int(rng.integers(4))], 'opts': _r3_options(rng, n, dt),
            'surf_fn': R3_FNS[j % 3], 'surf_fn2': R3_FNS[int(rng.integers(3))], 'ts': [0.0, 1.0, float(rng.uniform(0, n))],
            'jtype': ['sub', 'add'][j % 2], 'record_class': rcls}


def _assign_value(s):
    new, form = s['new'], s['form']
    if not isinstance(new, (np.ndarray, list, tuple)):
        return new
    arr = np.asarray(new, dtype=float)
    if form == 'list':
        return [float(v) for v in arr]
    if form == 'tuple':
        return tuple(float(v) for v in arr)
    if form == 'list-int':
        return [int(v) for v in np.round(np.clip(arr, -1e15, 1e15))]
    return np.array(arr)


def exec_assign(eqsig, ctx, s):
    """Assignment through a public attribute name after construction: the object must afterwards behave like one constructed
    with the value, or ignore / reject the assignment completely (never half: values changed but npts / time not)."""
    s = dict(s, _clause=ASSIGN_CLAUSE)
    spec = dict((k, v) for k, v in s.items() if not k.startswith('_'))
    _R3['spec'] = spec
    x = np.asarray(s['values'], dtype=float)
    try:
        a = eqsig.AccSignal(x, s['dt'])
    except Exception as e:
        ctx.exception(ASSIGN_CLAUSE, spec, e)
        return
    _warm(eqsig, ctx, a, s['warm'], s['opts'], s)
    old = np.array(a.values)
    newval = _assign_value(s)
    import warnings
    try:
        with warnings.catch_warnings():
            warnings.simplefilter('ignore')
            setattr(a, s['attr'], newval)
        ctx.observe('round 3: assignment to .%s accepted without an exception' % s['attr'])
    except Exception as e:
        ctx.observe('round 3: assignment to .%s rejected with %s' % (s['attr'], type(e).__name__))
    msg = ''
    try:
        now = np.asarray(a.values)
        cons = now.ndim == 1 and a.npts == len(now) and len(a.time) == len(now)
        if not cons:
            msg = 'values has %s samples, npts = %r, time has %d entries' % (now.shape, a.npts, len(a.time))
        kept = _same_bits(now, old)
        taken = False
        if s['attr'] == 'values':
            ref = np.asarray(newval, dtype=float)
            taken = now.shape == ref.shape and bool(np.array_equal(now.astype(float), ref))
        dt_ok = a.dt == s['dt'] or (s['attr'] == 'dt' and a.dt == newval)
        if cons and not (kept or taken):
            msg = 'the record is neither the old one nor the assigned one'
        if cons and not dt_ok:
            msg = 'dt reads %r' % (a.dt,)
        okk = cons and (kept or taken) and dt_ok
    except Exception as e:
        okk, msg = False, 'reading the object raised %r' % (e,)
    ctx.check(okk, ASSIGN_REC_CLAUSE, lambda: dict(spec, failed_at='state after the assignment'),
              'after `obj.%s = <%s of %d>`: %s' % (s['attr'], s['form'], np.size(s['new']), msg))
    _obj_judge(eqsig, ctx, a, s['opts'], s['surf_fn'], ASSIGN_CLAUSE, spec, 'after the assignment')
    _obj_join(eqsig, ctx, a, s['ts'], s['jtype'], ASSIGN_CLAUSE, spec, 'join after the assignment')
    try:
        a.velocity       # a read between the two analyses
    except Exception as e:
        ctx.observe('round 3: velocity read after an assignment raised %s (not judged)' % type(e).__name__)
    _obj_judge(eqsig, ctx, a, s['opts'], s['surf_fn2'], ASSIGN_CLAUSE, spec, 'after the assignment, second analysis')
    _R3['spec'] = None


RAISE_OPS = ['add_series-short', 'add_series-long', 'add_series-one', 'add_signal-other-dt', 'add_signal-not-a-signal',
             'reset-ragged', 'butter-above-nyquist', 'add_series-list-short']
REJECT_KINDS = ['red-list', 'red-tuple', 'red-mismatch', 'red-array+scalar', 'tt-empty', 'tt-negative', 'join-negative-shift',
                'join_sig-list-times', 'join_sig-negative-time', 'put-float-shifts', 'put-empty-shifts', 'trim-list-tt',
                'join-unknown-jtype', 'red-list-one-object', 'tt-0d', 'red-0d']
NONFINITE = ['nan', 'inf', '-inf', 'nan-first', 'inf-last']


def gen_raise_spec(rng, j):
    n = int(rng.choice([2, 3, 5, 9, 16, 40, 90]))
    x, rcls = draw_record(rng, n)
    dt, dtk = draw_dt(rng)
    group = ['mutator', 'reject', 'nonfinite'][j % 3]
    if group == 'mutator':
        kind = RAISE_OPS[(j // 3) % len(RAISE_OPS)]
    elif group == 'reject':
        kind = REJECT_KINDS[(j // 3) % len(REJECT_KINDS)]
    else:
        kind = NONFINITE[(j // 3) % len(NONFINITE)]
    opts = _r3_options(rng, n, dt)
    k = len(opts['travel_times'])
    return {'fn': 'r3.raise', 'values': x, 'dt': dt, 'group': group, 'kind': kind, 'warm': ['cold', 'vel', 'surface'][int(rng.integers(3))],
            'opts': opts, 'surf_fn': R3_FNS[j % 3], 'surf_fn2': R3_FNS[int(rng.integers(3))],
            'series': draw_record(rng, n + 5)[0], 'red': rng.uniform(0.05, 1.4, size=k + 1), 'pos': int(rng.integers(n)),
            'shifts': rng.integers(-4, 5, size=int(rng.integers(1, 5))), 'ts': [0.0, 2.0, float(rng.uniform(0, n))],
            'jtype': ['add', 'sub'][j % 2], 'record_class': rcls}


def _raising_mutator(eqsig, a, s):
    kind, ser, n = s['kind'], np.asarray(s['series'], dtype=float), a.npts
    if kind == 'add_series-short':
        a.add_series(ser[: max(n - 1, 0)] if n > 1 else ser[:2])
    elif kind == 'add_series-long':
        a.add_series(ser[: n + 3])
    elif kind == 'add_series-one':
        a.add_series(ser[:1] if n > 1 else ser[:3])
    elif kind == 'add_series-list-short':
        a.add_series([float(v) for v in ser[: n + 1]])
    elif kind == 'add_signal-other-dt':
        a.add_signal(eqsig.AccSignal(ser[:n], a.dt * 2))
    elif kind == 'add_signal-not-a-signal':
        a.add_signal(ser[:n])
    elif kind == 'reset-ragged':
        a.reset_values([[1.0, 2.0], [3.0]])
    elif kind == 'butter-above-nyquist':
        a.butter_pass((0.1, 3.0 / a.dt))


def _rejected_call(eqsig, a, s, args):
    """One call the clean library refuses. `args` holds the argument objects (kept by the caller for the later valid call)."""
    kind, opts = s['kind'], s['opts']
    tt = args['tt']
    k = len(tt)
    fn = getattr(eqsig.surface, s['surf_fn'])
    red = np.asarray(s['red'], dtype=float)
    kw = {'nodal': opts['nodal'], 'stt': opts['stt'], 'trim': opts['trim'], 'start': opts['start']}
    if kind == 'red-list':
        args['up'], args['down'] = [float(v) for v in red[:k]], [float(v) for v in red[:k][::-1]]
        return fn(a, tt, up_red=args['up'], down_red=args['down'], **kw)
    if kind == 'red-list-one-object':
        args['up'] = args['down'] = [float(v) for v in red[:k]]
        return fn(a, tt, up_red=args['up'], down_red=args['down'], **kw)
    if kind == 'red-tuple':
        args['up'], args['down'] = tuple(float(v) for v in red[:k]), tuple(float(v) for v in red[:k])
        return fn(a, tt, up_red=args['up'], down_red=args['down'], **kw)
    if kind == 'red-mismatch':
        args['up'], args['down'] = np.array(red[:k + 1]), np.array(red[:k + 1][::-1])
        return fn(a, tt, up_red=args['up'], down_red=args['down'], **kw)
    if kind == 'red-array+scalar':
        args['up'] = np.array(red[:k])
        return fn(a, tt, up_red=args['up'], down_red=0.5, **kw)
    if kind == 'tt-0d':
        args['tt_bad'] = np.array(float(tt[0]))
        return fn(a, args['tt_bad'], **kw)
    if kind == 'red-0d':
        args['up'], args['down'] = np.array(float(red[0])), np.array(float(red[1]))
        return fn(a, tt, up_red=args['up'], down_red=args['down'], **kw)
    if kind == 'tt-empty':
        args['tt_bad'] = np.array([])
        return fn(a, args['tt_bad'], **kw)
    if kind == 'tt-negative':
        args['tt_bad'] = -np.abs(tt) - a.dt
        return fn(a, args['tt_bad'], **kw)
    vals = args['vals']
    sh = np.asarray(s['shifts'])
    if kind == 'join-negative-shift':
        args['sh'] = -np.abs(sh) - 1
        return eqsig.join_values_w_shifts(vals, args['sh'], s['jtype'])
    if kind == 'join-unknown-jtype':
        args['sh'] = np.abs(sh)
        return eqsig.join_values_w_shifts(vals, args['sh'], 'mul')
    if kind == 'join_sig-list-times':
        args['ts'] = [float(t) * a.dt for t in s['ts']]
        return eqsig.join_sig_w_time_shift(a, args['ts'], s['jtype'])
    if kind == 'join_sig-negative-time':
        args['ts'] = -np.asarray(s['ts'], dtype=float) * a.dt - a.dt
        return eqsig.join_sig_w_time_shift(a, args['ts'], s['jtype'])
    if kind == 'put-float-shifts':
        args['sh'] = sh.astype(float) + 0.5
        return eqsig.put_array_in_2d_array(vals, args['sh'], 'both')
    if kind == 'put-empty-shifts':
        args['sh'] = np.array([], dtype=int)
        return eqsig.put_array_in_2d_array(vals, args['sh'])
    if kind == 'trim-list-tt':
        args['v2d'] = np.arange(1.0, 1.0 + k * (a.npts + 4)).reshape(k, a.npts + 4)
        args['tt_bad'] = [float(t) for t in tt]
        return eqsig.surface.trim_to_length(args['v2d'], a.npts, args['tt_bad'], a.dt, trim=True, start=True, s2s_travel_time=opts['stt'])
    raise ValueError(kind)


def exec_raise(eqsig, ctx, s):
    """Operations that raise (or that the clean code accepts silently although they are outside the statement): afterwards the
    object must be consistent and analyse like a fresh object with its current values; the arguments of a refused C19 call
    must be untouched (monitor on the exception path); a valid call with the SAME argument objects follows."""
    s = dict(s, _clause=RAISE_RES_CLAUSE)
    spec = dict((k, v) for k, v in s.items() if not k.startswith('_'))
    _R3['spec'] = spec
    x = np.asarray(s['values'], dtype=float)
    opts = s['opts']
    if s['group'] == 'nonfinite':
        x = x.copy()
        kind = s['kind']
        pos = 0 if kind.endswith('first') else (len(x) - 1 if kind.endswith('last') else int(s['pos']))
        x[pos] = {'nan': np.nan, 'inf': np.inf, '-inf': -np.inf}[kind.split('-')[0] if not kind.startswith('-') else '-inf']
    try:
        a = eqsig.AccSignal(x, s['dt'])
    except Exception as e:
        ctx.exception(RAISE_RES_CLAUSE, spec, e)
        return
    if s['group'] != 'nonfinite':
        _warm(eqsig, ctx, a, s['warm'], opts, s)
    before = np.array(a.values)
    if s['group'] == 'mutator':
        try:
            _raising_mutator(eqsig, a, s)
            ctx.observe('round 3: %s did not raise' % s['kind'])
            raised = False
        except Exception as e:
            ctx.observe('round 3: %s raised %s' % (s['kind'], type(e).__name__))
            raised = True
        msg = ''
        try:
            now = np.asarray(a.values)
            okk = now.ndim == 1 and a.npts == len(now) and len(a.time) == len(now) and a.dt == s['dt']
            if not okk:
                msg = 'values has shape %s, npts = %r, time has %d entries, dt = %r' % (now.shape, a.npts, len(a.time), a.dt)
        except Exception as e:
            okk, msg = False, 'reading the object raised %r' % (e,)
        ctx.check(okk, RAISE_REC_CLAUSE, lambda: dict(spec, failed_at='state after the operation', raised=raised),
                  'after %s (%s): %s' % (s['kind'], 'raised' if raised else 'returned', msg))
    elif s['group'] == 'reject':
        args = {'tt': np.array(opts['travel_times'], dtype=float), 'vals': np.array(x)}
        keep_tt = args['tt'].copy()
        try:
            with np.errstate(all='ignore'):
                _rejected_call(eqsig, a, s, args)
            ctx.observe('round 3: %s accepted (returned a value)' % s['kind'])
        except Exception as e:
            ctx.observe('round 3: %s refused with %s' % (s['kind'], type(e).__name__))
        try:
            now = np.asarray(a.values)
            okk = _same_bits(now, before) and a.npts == len(before) and a.dt == s['dt'] and _same_bits(args['tt'], keep_tt) \
                and _same_bits(np.asarray(args['vals']), x)
        except Exception:
            okk = False
        ctx.check(okk, RAISE_REC_CLAUSE, lambda: dict(spec, failed_at='state after the refused call'),
                  'after the refused / out-of-domain call %s the signal, the travel times or the values differ from before' % s['kind'])
        # the valid call that follows uses the same travel-time object (and the same ndarray reductions where they fit)
        opts = dict(opts, _tt_obj=args['tt'])
        if isinstance(args.get('up'), np.ndarray) and args['up'].ndim == 1 and len(args['up']) == len(args['tt']):
            opts['up_red'], opts['down_red'] = args['up'], args['up']
    else:
        for fn in R3_FNS:
            cc = _r3_case(opts, x, s['dt'])
            try:
                argv, kw = _call_args(cc, a)
                with np.errstate(all='ignore'):
                    getattr(eqsig.surface, fn)(*argv, **kw)
                ctx.observe('round 3: non-finite record accepted by %s (values not judged; purity and ownership are)' % fn)
            except Exception as e:
                ctx.observe('round 3: non-finite record refused by %s with %s' % (fn, type(e).__name__))
        try:
            with np.errstate(all='ignore'):
                eqsig.put_array_in_2d_array(x, np.asarray(s['shifts']), 'none')
                eqsig.join_values_w_shifts(x, np.abs(np.asarray(s['shifts'])), s['jtype'])
                eqsig.join_sig_w_time_shift(a, np.asarray(s['ts'], dtype=float) * a.dt, s['jtype'])
        except Exception as e:
            ctx.observe('round 3: non-finite values refused by a shift helper with %s' % type(e).__name__)
        try:
            okk = _same_bits(np.asarray(a.values), before) and a.npts == len(before)
        except Exception:
            okk = False
        ctx.check(okk, RAISE_REC_CLAUSE, lambda: dict(spec, failed_at='state after the non-finite calls'),
                  'the non-finite record of the signal was altered by an analysis function')
        a.reset_values(np.asarray(s['values'], dtype=float))       # the same object, now with a finite record
    _obj_judge(eqsig, ctx, a, opts, s['surf_fn'], RAISE_RES_CLAUSE, spec, 'after the operation')
    _obj_join(eqsig, ctx, a, s['ts'], s['jtype'], RAISE_RES_CLAUSE, spec, 'join after the operation')
    _obj_judge(eqsig, ctx, a, opts, s['surf_fn2'], RAISE_RES_CLAUSE, spec, 'after the operation, second analysis')
    _R3['spec'] = None


ABA_VARIANTS = ['record', 'record-shape', 'tt', 'tt-count', 'red', 'nodal', 'stt', 'trim', 'start', 'dt', 'all', 'record+nodal']


def _plain_case(c):
    """The case without its private argument objects (the travel-time object is rebuilt from the container name)."""
    d = dict(c)
    tt = d.pop('tt_obj', None)
    if isinstance(tt, np.ndarray):
        d['travel_times'] = np.array(tt)       # keeps the dtype
    d.pop('forms_cls', None)
    d['values_container'] = type(c['values']).__name__
    u = d.get('up_red')
    d['red_form'] = None if u is None else _red_form(u)
    return d


def _case_from_plain(d):
    c = _reform(d)
    tt = np.asarray(d['travel_times'])
    c['tt_obj'] = _build_tt(tt, d.get('tt_container', 'ndarray'))
    c['travel_times'] = np.atleast_1d(np.asarray(tt, dtype=float))
    return c


def gen_aba_spec(rng, j):
    A, cls, rcls = gen_surface_case(rng)
    variant = ABA_VARIANTS[j % len(ABA_VARIANTS)]
    n, dt, k = len(A['values']), A['dt'], len(A['travel_times'])
    B = dict(A)
    if variant in ('record', 'record+nodal'):
        B['values'] = draw_record(rng, n)[0]
        if variant == 'record+nodal':
            B['nodal'] = not A['nodal']
    elif variant == 'record-shape':
        B['values'] = draw_record(rng, n + int(rng.choice([-1, 1, 2, 7])) if n > 1 else n + 1)[0]
    elif variant == 'tt':
        t = np.array(A['travel_times'], dtype=float)
        t[int(rng.integers(k))] += dt * float(rng.choice([0.5, 1.0, 0.25, 3.0]))
        B.update(travel_times=t, tt_obj=np.array(t), tt_container='ndarray')
    elif variant == 'tt-count':
        t = np.concatenate([np.array(A['travel_times'], dtype=float), [float(rng.uniform(0, n * dt))]])
        B.update(travel_times=t, tt_obj=np.array(t), tt_container='ndarray', up_red=None, down_red=None, same_red_object=False)
    elif variant == 'red':
        if isinstance(A['up_red'], np.ndarray):
            B.update(up_red=rng.uniform(0.05, 1.0, size=k), down_red=rng.uniform(0.05, 1.0, size=k), same_red_object=False)
        else:
            B.update(up_red=float(rng.uniform(0.05, 1.0)), down_red=float(rng.uniform(0.05, 1.0)), same_red_object=False)
    elif variant == 'nodal':
        B['nodal'] = not A['nodal']
    elif variant == 'stt':
        B['stt'] = float(A['stt']) + dt * float(rng.choice([1.0, 2.0, 0.5, 7.0]))
    elif variant == 'trim':
        B['trim'] = not A['trim']
    elif variant == 'start':
        B['start'] = not A['start']
        if not B['start'] and not A['trim'] and A['stt'] == 0:
            B['stt'] = 2.0 * dt
    elif variant == 'dt':
        # float32 travel times stay inside the range of validity of the monitor (exact quotients: power-of-two factors only)
        f32_tt = getattr(A.get('tt_obj'), 'dtype', None) == np.float32      # float32 array or np.float32 scalar
        B['dt'] = float(dt * float(rng.choice([2.0, 0.5] if f32_tt else [2.0, 0.5, 1.25])))
    else:
        B = gen_surface_case(rng)[0]
    return {'fn': 'r3.aba', 'A': _plain_case(A), 'B': _plain_case(B), 'variant': variant, 'surf_fn': R3_FNS[(j // len(ABA_VARIANTS)) % 3],
            'same_object': bool(rng.random() < 0.5)}


def exec_aba(eqsig, ctx, s):
    """Results depend on the arguments only: f(A); f(B); f(A) with B differing from A in ONE argument (or in all): the third
    result equals the first bit for bit (every call is judged by the post-conditions as well)."""
    _R3['spec'] = s
    A, B = _case_from_plain(s['A']), _case_from_plain(s['B'])
    fn = s['surf_fn']
    obj = None
    if s.get('same_object'):
        try:
            obj = _make_sig(eqsig, A)
        except Exception as e:
            ctx.exception(ABA_CLAUSE, s, e)
            return
    r1 = _call(eqsig, ctx, fn, A, asig=obj)
    if r1 is None:
        return
    keep = np.array(r1)
    r2 = _call(eqsig, ctx, fn, B)
    r3 = _call(eqsig, ctx, fn, A, asig=obj)
    if r3 is None:
        return
    ctx.check(np.shape(r3) == keep.shape and bool(np.array_equal(r3, keep, equal_nan=True)) and bool(np.array_equal(r1, keep, equal_nan=True))
              and r3 is not r1 and (r2 is None or r2 is not r1),
              ABA_CLAUSE, lambda: dict(s), '%s(A); %s(B: other %s); %s(A): the third result differs from the first (or results share '
              'an object)' % (fn, fn, s['variant'], fn))
    _R3['spec'] = None


def gen_aba_shift_spec(rng, j):
    vals, sh, kind = gen_shift_case(rng)
    vals = np.asarray(vals)
    which = ['put', 'join', 'join_sig', 'trim'][j % 4]
    variant = ['values', 'shifts', 'option', 'values-shape', 'dt'][(j // 4) % 5]
    if which != 'put':
        sh = np.abs(sh)
    return {'fn': 'r3.aba-shift', 'which': which, 'variant': variant, 'values': vals, 'values2': draw_values(rng, len(vals))[0],
            'values3': draw_values(rng, len(vals) + int(rng.integers(1, 4)))[0], 'shifts': sh,
            'shifts2': np.asarray(sh) + rng.integers(0, 3, size=len(sh)) * (1 if which != 'put' else int(rng.choice([-1, 1]))),
            'dt': float(rng.choice([0.5, 0.01, 0.02, 1.0 / 128])), 'odd': bool(j % 2), 'npts': int(rng.integers(2, 12)),
            'stt': float(rng.integers(0, 6)), 'kind': kind}


def _aba_shift_call(eqsig, s, use_b):
    """f(A) or f(B): B differs from A in the argument named by s['variant'] only."""
    which, var = s['which'], s['variant']
    vals = np.asarray(s['values'])
    sh = np.asarray(s['shifts'])
    odd = bool(s['odd'])
    dt = float(s['dt'])
    if use_b:
        if var == 'values':
            vals = np.asarray(s['values2'])
        elif var == 'values-shape':
            vals = np.asarray(s['values3'])
        elif var == 'shifts':
            sh = np.asarray(s['shifts2'])
        elif var == 'option':
            odd = not odd
        elif var == 'dt':
            dt = dt * 2
    if which == 'put':
        return eqsig.put_array_in_2d_array(vals, sh, ['both', 'start'][int(odd)] if var == 'option' else ['none', 'both'][int(odd)])
    if which == 'join':
        return eqsig.join_values_w_shifts(vals, sh, 'sub' if odd else 'add')
    if which == 'join_sig':
        return eqsig.join_sig_w_time_shift(eqsig.Signal(vals, dt), sh.astype(float) * float(s['dt']) + 0.25 * float(s['dt']),
                                           jtype='sub' if odd else 'add')
    # trim_to_length on a coded 2-d array; the travel times (in samples) are the shifts
    npts = int(s['npts']) + (len(vals) if use_b and var in ('values', 'values-shape') else 0)
    width = npts + int(2 * np.max(sh)) + 2
    k = len(sh)
    v2d = 100.0 * (np.arange(k)[:, None] + 1) + np.arange(width)[None, :] + (float(np.asarray(vals, dtype=float)[0]) if use_b and var.startswith('values') else 0.0)
    return eqsig.surface.trim_to_length(v2d, npts, sh.astype(float) * dt, dt, trim=odd, start=True, s2s_travel_time=float(s['stt']) * dt)


def exec_aba_shift(eqsig, ctx, s):
    _R3['spec'] = s
    try:
        r1 = _aba_shift_call(eqsig, s, False)
        keep = np.array(r1)
        r2 = _aba_shift_call(eqsig, s, True)
        r3 = _aba_shift_call(eqsig, s, False)
    except Exception as e:
        ctx.exception(ABA_CLAUSE, s, e)
        return
    ctx.check(np.shape(r3) == keep.shape and bool(np.array_equal(r3, keep)) and bool(np.array_equal(r1, keep)) and r3 is not r1 and r2 is not r1,
              ABA_CLAUSE, lambda: dict(s), '%s: f(A); f(B: other %s); f(A): the third result differs from the first' % (s['which'], s['variant']))
    _R3['spec'] = None


EDGE_KINDS = ['frac-near-0', 'frac-near-1', 'tiny-tau', 'far-tau', 'far-stt', 'stt-near-multiple', 'red-near-0', 'red-near-1',
              'red-zero', 'red-above-1']


def gen_edge_case(rng, j):
    """Edges of the continuous parameters: fractional delays within 1e-3 .. 1e-9 of a whole sample (on either side), delays of
    a tiny fraction of a step, delays and start lags of many record durations, stt within 1e-3 .. 1e-9 of a multiple of dt,
    reduction factors within 1e-3 .. 1e-9 of 0 and of 1, exactly 0, slightly above 1."""
    c, cls, rcls = gen_surface_case(rng)
    ek = EDGE_KINDS[j % len(EDGE_KINDS)]
    if _is_f32(c):
        c['values'] = np.asarray(c['values'], dtype=float)
    n, dt = len(c['values']), c['dt']
    k = int(rng.integers(1, 4))
    taus = [float(t) for t in np.resize(np.asarray(c['travel_times'], dtype=float), k)]
    scalar_red = True
    if ek in ('frac-near-0', 'frac-near-1'):
        sign = 1.0 if ek == 'frac-near-0' else -1.0
        taus = [max((int(rng.integers(1 if sign < 0 else 0, 2 * n + 2)) + sign * 10.0 ** rng.uniform(-9, -3)) * dt / 2, 0.0) for _ in range(k)]
    elif ek == 'tiny-tau':
        taus = [dt * 10.0 ** rng.uniform(-9, -3) / 2 for _ in range(k)]
    elif ek == 'far-tau':
        f = min(20.0, 3000.0 / max(n, 1))
        taus = [float(rng.uniform(1.5, max(f, 1.6)) * n * dt) for _ in range(k)]
        if rng.random() < 0.5:
            taus[0] = float(int(rng.integers(2 * n, 4 * n + 1)) * dt / 2)
    elif ek == 'far-stt':
        f = min(10.0, 3000.0 / max(n, 1))
        c['stt'] = float(rng.uniform(1.5, max(f, 1.6)) * n * dt) if rng.random() < 0.6 else float(int(rng.integers(n, 3 * n + 2)) * dt)
        c['start'] = bool(rng.random() < 0.8)
    elif ek == 'stt-near-multiple':
        c['stt'] = float(int(rng.integers(0, n + 2)) + float(rng.choice([-1.0, 1.0])) * 10.0 ** rng.uniform(-9, -3)) * dt
        c['stt'] = max(c['stt'], 0.0)
        c['start'] = bool(rng.random() < 0.8)
    if ek.startswith('red'):
        scalar_red = bool(rng.random() < 0.5)
        size = None if scalar_red else k

        def draw(kind):
            if kind == 'near-0':
                return 10.0 ** rng.uniform(-9, -3, size=size)
            if kind == 'near-1':
                return 1.0 - 10.0 ** rng.uniform(-9, -3, size=size)
            if kind == 'above-1':
                return 1.0 + 10.0 ** rng.uniform(-9, -1, size=size)
            return np.zeros(k) if size else 0.0
        kind = ek[4:]
        other = str(rng.choice(['same', 'one', 'ordinary', kind]))
        up = draw(kind)
        if other == 'same':
            down = np.array(up) if size else up
        elif other == 'one':
            down = np.ones(k) if size else 1.0
        elif other == 'ordinary':
            down = rng.uniform(0.05, 1.0, size=size)
        else:
            down = draw(kind)
        if rng.random() < 0.5:
            up, down = down, up
        if scalar_red:
            up, down = float(up), float(down)
        c.update(up_red=up, down_red=down, same_red_object=False)
    else:
        u = c.get('up_red')
        if isinstance(u, np.ndarray):       # the travel-time count changed: fresh array reductions of the new size
            c.update(up_red=rng.uniform(0.05, 1.0, size=k), down_red=rng.uniform(0.05, 1.0, size=k), same_red_object=False)
    tarr = np.array(taus, dtype=float)
    cont = str(rng.choice(['ndarray', 'list', 'tuple', 'readonly'] + (['scalar'] if k == 1 else [])))
    c.update(travel_times=tarr, tt_obj=_build_tt(tarr, cont), tt_container=cont)
    c['forms_cls'] = 'edge'
    return c, 'surface:edge/%s' % ek, rcls


def gen_silent_case(rng, j):
    """Silent (all-zero) records and strictly one-signed records (no zero sample, no sign change) in several containers."""
    c, cls, rcls = gen_surface_case(rng)
    n = len(c['values'])
    kind = ['silent', 'positive', 'negative', 'silent'][j % 4]
    if kind == 'silent':
        form = ['float64', 'int64', 'list', 'list-int', 'tuple', 'float32', 'int8', 'readonly', 'bool'][(j // 4) % 9]
        z = np.zeros(n)
        vals = {'bool': np.zeros(n, dtype=bool), 'float64': z, 'int64': z.astype(np.int64), 'list': [0.0] * n, 'list-int': [0] * n, 'tuple': (0.0,) * n,
                'float32': z.astype(np.float32), 'int8': z.astype(np.int8), 'readonly': _as_form(z, 'readonly')}[form]
    else:
        x = np.abs(_x64(c))
        x = x + (float(np.max(x)) + 1.0) * 10.0 ** rng.uniform(-3, 0)
        x = x if kind == 'positive' else -x
        form = ['float64', 'list', 'tuple', 'view', 'bool'][(j // 4) % 5]
        if form == 'bool' and kind == 'negative':
            form = 'float64'
        vals = {'bool': np.ones(n, dtype=bool), 'float64': x, 'list': [float(v) for v in x], 'tuple': tuple(float(v) for v in x), 'view': _as_form(x, 'view')}[form]
    c['values'] = vals
    c['forms_cls'] = 'silent' if kind == 'silent' else 'one-signed'
    return c, 'surface:%s-record(%s)' % (kind, form), kind


def run_silent_shifts(eqsig, ctx, rng, j):
    n = int(rng.choice([1, 2, 5, 16]))
    sh = rng.integers(-5, 6, size=int(rng.integers(1, 5)))
    kind = ['silent', 'positive', 'negative'][j % 3]
    if kind == 'silent':
        base = np.zeros(n)
    else:
        base = (np.abs(rng.normal(size=n)) + 0.1) * (1.0 if kind == 'positive' else -1.0)
    form = ['ndarray', 'list', 'tuple', 'int64', 'list-int', 'uint8', 'bool'][(j // 3) % 7]
    if form == 'bool':
        base = np.abs(base) > 0
        if kind == 'negative':
            form = 'ndarray'
            base = -base.astype(float)
    if form in ('int64', 'list-int', 'uint8'):
        base = np.round(np.abs(base) * 50) + (0 if kind == 'silent' else 1)
        if kind == 'negative' and form != 'uint8':
            base = -base
    vals = {'ndarray': base, 'bool': base, 'list': [float(v) for v in base], 'tuple': tuple(float(v) for v in base), 'int64': base.astype(np.int64),
            'list-int': [int(v) for v in base], 'uint8': np.abs(base).astype(np.uint8)}[form]
    ctx.case(core.digest(np.asarray(base), sh, form, kind), nontrivial=kind != 'silent', cls='shift:%s-values(%s)' % (kind, form),
             sample={'fn': 'put x4 + join + join_sig', 'values': base, 'shifts': sh, 'form': form})
    sh_arg = sh if j % 2 else sh.tolist()
    for clip in ('none', 'start', 'end', 'both'):
        _put(eqsig, ctx, vals, sh_arg, clip)
    _join(eqsig, ctx, vals, np.abs(sh) if j % 2 else np.abs(sh).tolist(), 'sub' if j % 2 else 'add')
    _join_sig(eqsig, ctx, vals, 0.02, np.abs(sh) * 0.02 + 0.005, 'add' if j % 2 else 'sub', cls='AccSignal' if j % 2 else 'Signal')


def run_round3(eqsig, ctx, rng, quick):
    sh, ns = ctx.shard, ctx.nshards

    def reps(nq, nt):
        return (nq if quick else nt) // ns + 1
    for j in range(reps(480, 8000)):
        jj = j + 3 * sh          # class counter: cycles through the kinds inside every shard
        s = gen_protocol_spec(rng, jj)
        ctx.case(core.digest(s['values'], s['dt'], s['warm'], s['how'], s['mut'], s['mut_on'], s['order'], s['opts']['travel_times']),
                 nontrivial=bool(np.any(s['values'] != 0)), cls='object:%s/%s' % (s['how'], s['warm']),
                 sample={'fn': 'copy protocol', 'n': len(s['values']), 'how': s['how'], 'warm': s['warm'], 'mut': s['mut'],
                         'mut_on': s['mut_on'], 'order': s['order']})
        exec_protocol(eqsig, ctx, s)
        _R3['spec'] = None
    for j in range(reps(400, 7000)):
        jj = j + 3 * sh          # class counter: cycles through the kinds inside every shard
        s = gen_assign_spec(rng, jj)
        ctx.case(core.digest(s['values'], s['dt'], s['attr'], s['form'], s['new'], s['opts']['travel_times']),
                 nontrivial=bool(np.any(s['values'] != 0)), cls='object:assign .%s' % s['attr'],
                 sample={'fn': 'attribute assignment', 'n': len(s['values']), 'attr': s['attr'], 'form': s['form'], 'size': int(np.size(s['new']))})
        exec_assign(eqsig, ctx, s)
        _R3['spec'] = None
    for j in range(reps(480, 8000)):
        jj = j + 3 * sh          # class counter: cycles through the kinds inside every shard
        s = gen_raise_spec(rng, jj)
        ctx.case(core.digest(s['values'], s['dt'], s['group'], s['kind'], s['opts']['travel_times']),
                 nontrivial=bool(np.any(s['values'] != 0)), cls='object:%s/%s' % (s['group'], s['kind']),
                 sample={'fn': 'operation that raises', 'n': len(s['values']), 'group': s['group'], 'kind': s['kind']})
        exec_raise(eqsig, ctx, s)
        _R3['spec'] = None
    for j in range(reps(480, 8000)):
        jj = j + 3 * sh          # class counter: cycles through the kinds inside every shard
        s = gen_aba_spec(rng, jj)
        ctx.case(core.digest(np.asarray(s['A']['values'], dtype=float), s['A']['dt'], s['A']['travel_times'], s['variant'], s['surf_fn'],
                             np.asarray(s['B']['values'], dtype=float)),
                 nontrivial=True, cls='aba:%s' % s['variant'],
                 sample={'fn': 'f(A);f(B);f(A)', 'variant': s['variant'], 'surf_fn': s['surf_fn'], 'n': len(s['A']['values'])})
        exec_aba(eqsig, ctx, s)
        _R3['spec'] = None
        s2 = gen_aba_shift_spec(rng, jj)
        ctx.case(core.digest(s2['values'], s2['shifts'], s2['which'], s2['variant']), nontrivial=True,
                 cls='aba-shift:%s/%s' % (s2['which'], s2['variant']))
        exec_aba_shift(eqsig, ctx, s2)
        _R3['spec'] = None
    for j in range(reps(400, 7000)):
        jj = j + 3 * sh          # class counter: cycles through the kinds inside every shard
        c, cls, rcls = gen_edge_case(rng, jj)
        alpha = draw_alpha(rng, jj)
        x = _x64(c)
        ctx.case(core.digest(x, c['dt'], c['travel_times'], c['up_red'], c['down_red'], c['stt'], c['trim'], c['start'], c['nodal']),
                 nontrivial=bool(len(x) > 1 and np.any(x != 0)), cls=cls,
                 sample={'fn': 'calc_cum_abs_surface_energy+relations', 'n': len(x), 'dt': c['dt'], 'travel_times': c['travel_times'],
                         'up_red': c['up_red'], 'down_red': c['down_red'], 'stt': c['stt'], 'class': cls})
        run_surface_case(eqsig, ctx, c, j, alpha)
    for j in range(reps(200, 3500)):
        jj = j + 3 * sh          # class counter: cycles through the kinds inside every shard
        c, cls, rcls = gen_silent_case(rng, jj)
        alpha = draw_alpha(rng, jj)
        x = _x64(c)
        ctx.case(core.digest(x, c['dt'], c['travel_times'], c['stt'], c['trim'], c['start'], c['nodal'], cls),
                 nontrivial=bool(np.any(x != 0)), cls=cls,
                 sample={'fn': 'calc_cum_abs_surface_energy+relations', 'n': len(x), 'dt': c['dt'], 'class': cls})
        run_surface_case(eqsig, ctx, c, j, alpha)
        run_silent_shifts(eqsig, ctx, rng, jj)


# ======================================================================================================= audit round 5
# Checklist items 28-33. Scalar forms (28), bool records (29) and degenerate travel-time sets (30) are drawn by the shared
# generators above; the two runners below are driven by replayable specs of plain data.
SETTINGS_CLAUSE = 'settings-unchanged-after-analysis'
OWNED_CLAUSE = 'result-owned(overwritten;call-again==first)'
SETTING_KINDS = ['smooth_fa_freqs-ctor', 'smooth_freq_range-ctor', 'response_times-ctor', 'assigned-after', 'all']


def gen_settings_spec(rng, j):
    """User-given settings outside the band of the data: smoothing targets above the Nyquist frequency, response periods
    below two steps."""
    n = int(rng.choice([2, 3, 5, 16, 33, 100]))
    x, rcls = draw_record(rng, n)
    dt, dtk = draw_dt(rng)
    nyq = 0.5 / dt
    return {'fn': 'r5.settings', 'values': x, 'dt': dt, 'kind': SETTING_KINDS[j % len(SETTING_KINDS)],
            'freqs': nyq * np.array([0.01, 0.3, 1.0, 1.0 + float(rng.uniform(0.01, 2.0)), float(rng.uniform(5, 80))]),
            'range': [nyq * 1e-3, nyq * float(rng.uniform(1.5, 30))],
            'periods': dt * np.array([0.5, float(rng.uniform(1.0, 1.99)), 2.0, float(rng.uniform(3, 10)), float(rng.uniform(20, 200))]),
            'form': ['ndarray', 'list', 'tuple'][(j // len(SETTING_KINDS)) % 3], 'warm': ['cold', 'smooth', 'rs', 'fa', 'vel'][int(rng.integers(5))],
            'opts': _r3_options(rng, n, dt), 'ts': [0.0, 1.0, float(rng.uniform(0, n))], 'jtype': ['add', 'sub'][j % 2],
            'record_class': rcls}


def _form_of(arr, form):
    arr = np.asarray(arr, dtype=float)
    return arr.tolist() if form == 'list' else (tuple(arr.tolist()) if form == 'tuple' else np.array(arr))


def _settings(a):
    out = {}
    for name in ('smooth_fa_freqs', 'smooth_fa_frequencies', 'response_times', 'label', 'dt', 'npts'):
        try:
            v = getattr(a, name)
            arr = np.asarray(v)
            out[name] = (type(v).__name__, arr.dtype.str, arr.shape, arr.tobytes())
        except Exception as e:
            out[name] = 'raises ' + type(e).__name__
    return out


def exec_settings(eqsig, ctx, s):
    """Reads must not change settings: after every surface function / join on the object the settings the user gave (also
    outside the band of the data) read as before the first call and the caller's containers are untouched."""
    import warnings
    spec = dict(s)
    _R3['spec'] = spec
    x = np.asarray(s['values'], dtype=float)
    kind, form = s['kind'], s['form']
    given = {'freqs': _form_of(s['freqs'], form), 'range': _form_of(s['range'], 'tuple' if form == 'tuple' else 'list'),
             'periods': _form_of(s['periods'], form)}
    keep = dict((k, _copy_arg(v)) for k, v in given.items())
    kw = {}
    if kind in ('smooth_fa_freqs-ctor', 'all'):
        kw['smooth_fa_freqs'] = given['freqs']
    if kind == 'smooth_freq_range-ctor':
        kw['smooth_freq_range'] = given['range']
    if kind in ('response_times-ctor', 'all'):
        kw['response_times'] = given['periods']
    try:
        with warnings.catch_warnings():
            warnings.simplefilter('ignore')
            a = eqsig.AccSignal(x, s['dt'], **kw)
            if kind == 'assigned-after':
                a.smooth_fa_frequencies = given['freqs']
                a.response_times = given['periods']
                a.label = 'user label'
    except Exception as e:
        ctx.observe('round 5: settings %s refused at construction with %s (not judged)' % (kind, type(e).__name__))
        _R3['spec'] = None
        return
    with np.errstate(all='ignore'), warnings.catch_warnings():
        warnings.simplefilter('ignore')
        _warm(eqsig, ctx, a, s['warm'], s['opts'], dict(s, _clause=SETTINGS_CLAUSE))
    before = _settings(a)
    cc = _r3_case(s['opts'], np.array(a.values), s['dt'])
    for step, fn in enumerate(R3_FNS + ['join_sig_w_time_shift']):
        wit = lambda: dict(spec, failed_after=fn)
        if fn == 'join_sig_w_time_shift':
            try:
                eqsig.join_sig_w_time_shift(a, np.asarray(s['ts'], dtype=float) * a.dt, s['jtype'])
            except Exception as e:
                ctx.exception('join_sig==padded+-shifted(int(t/dt))', wit(), e)
        else:
            _call(eqsig, ctx, fn, cc, asig=a, wit=wit)
        after = _settings(a)
        bad = [nm for nm in before if before[nm] != after[nm]]
        bad += ['caller\'s ' + k for k, v in given.items() if not _arg_unchanged(v, keep[k])]
        ctx.check(not bad, SETTINGS_CLAUSE, wit, 'after %s the user-given settings read differently: %s' % (fn, bad))
        if bad:
            break
    _R3['spec'] = None


def gen_owned_spec(rng, j):
    which = ['surface', 'put', 'surface', 'join', 'surface', 'join_sig', 'surface', 'trim'][j % 8]
    if which == 'surface':
        A = gen_surface_case(rng)[0]
        if j % 16 < 8 and not A['trim'] and not A['start']:
            A['trim'] = True
        return {'fn': 'r5.owned', 'which': which, 'A': _plain_case(A), 'surf_fn': R3_FNS[(j // 8) % 3], 'same_object': bool((j // 2) % 2)}
    sp = gen_aba_shift_spec(rng, j)
    sp.update(fn='r5.owned', which=which, variant='none')
    return sp


def exec_owned(eqsig, ctx, s):
    """A result belongs to the caller: every cell of the first result is overwritten, the call is repeated with the same
    arguments (and the same signal object), the second result has the values the first one had."""
    _R3['spec'] = s
    obj = None
    try:
        if s['which'] == 'surface':
            A = _case_from_plain(s['A'])
            if s.get('same_object'):
                obj = _make_sig(eqsig, A)
            call = lambda: _call(eqsig, ctx, s['surf_fn'], A, asig=obj, wit=lambda: dict(s))
        else:
            call = lambda: _aba_shift_call(eqsig, s, False)
        r1 = call()
        if r1 is None:
            _R3['spec'] = None
            return
        keep = np.array(r1)
        try:
            r1[...] = np.where(keep == 0, 7.5, -3.0 * keep)
        except (ValueError, TypeError) as e:
            ctx.observe('round 5: the result cannot be written to (%s); not judged' % type(e).__name__)
            _R3['spec'] = None
            return
        r2 = call()
    except Exception as e:
        ctx.exception(OWNED_CLAUSE, dict(s), e)
        _R3['spec'] = None
        return
    if r2 is not None:
        ctx.check(np.shape(r2) == keep.shape and bool(np.array_equal(r2, keep, equal_nan=True)) and r2 is not r1
                  and not _shares(np.asarray(r2), r1), OWNED_CLAUSE, lambda: dict(s),
                  '%s: after the first result was overwritten the same call returns other values (or the same memory)'
                  % (s.get('surf_fn') or s['which']))
    _R3['spec'] = None


def run_round5(eqsig, ctx, rng, quick):
    sh, ns = ctx.shard, ctx.nshards

    def reps(nq, nt):
        return (nq if quick else nt) // ns + 1
    for j in range(reps(240, 4000)):
        jj = j + 3 * sh
        s = gen_settings_spec(rng, jj)
        ctx.case(core.digest(s['values'], s['dt'], s['kind'], s['form'], s['warm'], s['opts']['travel_times']),
                 nontrivial=bool(np.any(s['values'] != 0)), cls='object:settings/%s' % s['kind'],
                 sample={'fn': 'user-given settings', 'n': len(s['values']), 'kind': s['kind'], 'form': s['form'], 'warm': s['warm']})
        exec_settings(eqsig, ctx, s)
        _R3['spec'] = None
    for j in range(reps(640, 11000)):
        jj = j + 3 * sh
        s = gen_owned_spec(rng, jj)
        ctx.case(core.digest(jj, s['which'], np.asarray(s['A']['values'], dtype=float) if s['which'] == 'surface' else np.asarray(s['values'], dtype=float)),
                 nontrivial=True, cls='owned:%s' % s['which'])
        exec_owned(eqsig, ctx, s)
        _R3['spec'] = None


def run_shard(ctx):
    eqsig = core.import_eqsig()
    install(ctx)
    quick = ctx.tier == 'quick'
    rng = ctx.rng
    # -- surface cases ----------------------------------------------------------------------------------------------
    n_cases = (3200 if quick else 60000) // ctx.nshards + 1
    for i in range(n_cases):
        c, cls, rcls = gen_surface_case(rng)
        alpha = draw_alpha(rng, i)
        x = _x64(c)
        ctx.case(core.digest(x, c['dt'], c['travel_times'], c['tt_container'], c['nodal'], c['up_red'], c['down_red'],
                             c['stt'], c['trim'], c['start'], alpha, c['forms_cls']),
                 nontrivial=bool(len(x) > 1 and np.any(x != 0)), cls=cls,
                 sample={'fn': 'calc_cum_abs_surface_energy+relations', 'n': len(x), 'record_class': rcls, 'dt': c['dt'],
                         'travel_times': c['travel_times'], 'nodal': c['nodal'], 'up_red': c['up_red'],
                         'down_red': c['down_red'], 'stt': c['stt'], 'trim': c['trim'], 'start': c['start'],
                         'alpha': alpha, 'forms': c['forms_cls']})
        for part in c['forms_cls'].split('|'):
            ctx.observe('form ' + part)
        run_surface_case(eqsig, ctx, c, i, alpha)
        if ctx.out_of_time():
            ctx.observe('surface workload cut by the safety-net budget')
            break
    # -- same-object histories, back-to-back pairs, long inputs ------------------------------------------------------
    for h in range((320 if quick else 6000) // ctx.nshards + 1):
        run_history(eqsig, ctx, rng, h)
    for j in range((480 if quick else 9000) // ctx.nshards + 1):
        run_back_to_back(eqsig, ctx, rng, j + ctx.shard)
    for j in range(1 if quick else 4):
        run_long_case(eqsig, ctx, rng, j + ctx.shard)
    for j in range(7 if quick else 120):
        run_many_tau(eqsig, ctx, rng, j * ctx.nshards + ctx.shard)
    for j in range(3 if quick else 50):
        run_grid_case(eqsig, ctx, rng, j * ctx.nshards + ctx.shard)
    for j in range(20 if quick else 350):
        run_extreme_case(eqsig, ctx, rng, j * ctx.nshards + ctx.shard)
    if ctx.shard < (4 if quick else 16):
        run_big_product(eqsig, ctx, rng, ctx.shard)
    # -- audit round 3: object protocols, attribute assignment, operations that raise, A;B;A, parameter edges, silent records
    run_round3(eqsig, ctx, rng, quick)
    # -- audit round 5: user-given settings survive the analyses; an overwritten result does not come back
    run_round5(eqsig, ctx, rng, quick)
    # -- shifts: exhaustive small vectors -----------------------------------------------------------------------------
    maxlen = 3 if quick else 4
    idx = 0
    n_enum = 0
    for length in range(1, maxlen + 1):
        for vec in itertools.product(range(-3, 4), repeat=length):
            idx += 1
            if idx % ctx.nshards != ctx.shard:
                continue
            sh = np.array(vec, dtype=[np.int64, np.int8, np.int16, np.int32][idx % 4])
            if min(vec) >= 0 and idx % 3 == 0:
                sh = sh.astype(np.uint8)
            for n in (1, 2, 4):
                vsel = idx % 7
                if vsel == 6:
                    vals = np.array([True, True, False, True][:n])
                elif vsel < 2:
                    vals = np.arange(1.0, n + 1.0) * (1 if vsel else -1.5)
                elif vsel == 2:
                    vals = np.array([200, 150, 255, 101][:n], dtype=np.uint8)
                elif vsel == 3:
                    vals = np.array([100, -120, 127, -128][:n], dtype=np.int8)
                elif vsel == 4:
                    vals = np.array([1.0000001, 3.0e38, -2.9e38, 16777217.0][:n], dtype=np.float32)
                else:
                    vals = np.array([40000, 65535, 32768, 50001][:n], dtype=np.uint16)
                for ci, clip in enumerate(('none', 'start', 'end', 'both')):
                    cl = clip
                    if clip == 'none':
                        cl = ['none', 'omit', None][idx % 3]
                    _put(eqsig, ctx, vals, sh if idx % 5 else list(vec), cl, style=['kw', 'pos', 'kw-all'][(idx + ci) % 3])
                    n_enum += 1
                if min(vec) >= 0:
                    for jt in ('add', 'sub'):
                        _join(eqsig, ctx, vals, sh, 'omit' if (jt == 'add' and idx % 2) else jt, style='pos' if idx % 3 == 1 and jt == 'sub' else 'kw')
                        _join_sig(eqsig, ctx, vals, 0.25, np.array(vec, dtype=float) * 0.25 + (0.125 if idx % 2 else 0.0),
                                  'omit' if (jt == 'add' and idx % 2) else jt, style=['kw', 'pos', 'kw-all'][idx % 3],
                                  cls='AccSignal' if idx % 2 else 'Signal')
                        n_enum += 2
    ctx.cases_enumerated(n_enum, n_enum, cls='shift:exhaustive{-3..3}')
    ctx.exhaustive['shift_vectors_x_n_x_clip'] = n_enum
    # -- shifts: random -----------------------------------------------------------------------------------------------
    n_rand = (4800 if quick else 90000) // ctx.nshards + 1
    for i in range(n_rand):
        vals, sh, kind = gen_shift_case(rng)
        v_arg, vform = values_container(rng, vals)
        s_arg, sform = shift_container(rng, sh)
        ctx.case(core.digest(vals, sh, vform, sform), nontrivial=bool(np.any(vals != 0)), cls='shift:' + kind,
                 sample={'fn': 'put_array_in_2d_array x4 clip + join', 'values': vals, 'shifts': sh,
                         'values_form': vform, 'shifts_form': sform})
        ctx.observe('form values-' + vform)
        ctx.observe('form shifts-' + sform)
        for ci, clip in enumerate(('none', 'start', 'end', 'both')):       # the SAME argument objects for all calls
            _put(eqsig, ctx, v_arg, s_arg, clip, style=['kw', 'pos', 'kw-all'][(i + ci) % 3])
        if sh.min() >= 0:
            _join(eqsig, ctx, v_arg, s_arg, 'add', style='pos' if i % 3 == 0 else 'kw')
            _join(eqsig, ctx, v_arg, s_arg, 'sub')
            if i % 3 == 0:      # two sites that must agree: the join is the padded original +- what put_array_in_2d_array returns
                try:
                    jt = 'sub' if i % 2 else 'add'
                    a1 = np.asarray(eqsig.put_array_in_2d_array(v_arg, s_arg), dtype=float)
                    jj = np.asarray(eqsig.join_values_w_shifts(v_arg, s_arg, jtype=jt), dtype=float)
                    a0 = np.zeros(a1.shape[1])
                    a0[:len(vals)] = np.asarray(vals, dtype=float)
                    ref = a0 + a1 if jt == 'add' else a0 - a1
                    ctx.check(jj.shape == ref.shape and tol.close(jj, ref, scale=np.abs(a0) + np.abs(a1), rtol=1e-12),
                              'join==pad+-put2d', lambda: _shift_wit('join_values_w_shifts', v_arg, s_arg, jtype=jt),
                              'join_values_w_shifts differs from the padded original +- put_array_in_2d_array')
                except Exception as e:
                    ctx.exception('join==pad+-put2d', _shift_wit('join_values_w_shifts', v_arg, s_arg, jtype='add'), e)
        elif i % 4 == 0:
            _join(eqsig, ctx, vals, sh, 'add' if i % 2 else 'sub')
        if sh.min() >= 0:
            drive_join_sig(eqsig, ctx, rng, v_arg, sh, i)
    ctx.note('monitored_calls', dict(attach.CALLS))


# ---------------------------------------------------------------------------------------------------------- replay
def _reform(w):
    """Rebuild the container forms recorded in a witness (JSON keeps values and dtypes, not views / flags / scalar types)."""
    w = dict(w)
    u, d = w.get('up_red'), w.get('down_red')
    rf = w.get('red_form')
    if isinstance(u, np.ndarray):
        w['up_red'] = _as_form(u, rf)
        w['down_red'] = _as_form(d, rf) if isinstance(d, np.ndarray) else d
    elif u is not None and rf is not None and rf.startswith('np.'):
        tp = np.bool_ if rf == 'np.bool' else getattr(np, rf[3:])
        w['up_red'], w['down_red'] = tp(u), tp(d)
    elif u is not None and rf == 'bool':
        w['up_red'], w['down_red'] = bool(u), bool(d)
    vc = w.get('values_container')
    if vc == 'list':
        w['values'] = np.asarray(w['values']).tolist()
    elif vc == 'tuple':
        w['values'] = tuple(np.asarray(w['values']).tolist())
    w['tt_obj'] = None
    return w


def _shift_args(w):
    vals, sh = np.asarray(w['values']), np.asarray(w['shifts'])
    vc, sc = w.get('values_container', 'ndarray'), w.get('shifts_container', 'ndarray')
    vals = vals.tolist() if vc == 'list' else (tuple(vals.tolist()) if vc == 'tuple' else _as_form(vals, vc))
    sh = sh.tolist() if sc == 'list' else (tuple(sh.tolist()) if sc == 'tuple' else _as_form(sh, sc))
    return vals, sh


def replay(w):
    eqsig = core.import_eqsig()
    ctx = core.Ctx(PROP_ID, 'quick', 0, 0, 1)
    install(ctx)
    fn = w.get('fn')
    if fn in _FN_CLAUSE:
        _call(eqsig, ctx, fn, _reform(w))
    elif fn == 'rel.batch':
        _rel_batch(eqsig, ctx, w['base_fn'], _reform(w))
    elif fn == 'rel.alpha':
        _rel_alpha(eqsig, ctx, _reform(w), w['alpha'])
    elif fn == 'rel.shared':
        w = _reform(w)
        red = np.array(w['up_red'], dtype=float)
        got = _call(eqsig, ctx, w['base_fn'], dict(w, up_red=red, down_red=red, same_red_object=True))
        fresh = _call(eqsig, ctx, w['base_fn'], dict(w, up_red=red.copy(), down_red=red.copy(), same_red_object=False))
        if got is not None and fresh is not None:
            ctx.check(np.shape(got) == np.shape(fresh) and bool(np.array_equal(got, fresh)), 'shared-reduction==fresh-copies',
                      w, 'shared reduction array vs separate copies differ')
    elif fn == 'rel.b2b':
        w = _reform(w)
        r1 = _call(eqsig, ctx, w['base_fn'], w)
        if r1 is not None:
            keep = np.array(r1)
            _call(eqsig, ctx, w['base_fn'], dict(w, values=w['other_values'], nodal=not w['nodal']))
            ctx.check(bool(np.array_equal(r1, keep)), 'first-result-unchanged-after-second-call', w,
                      'first result changed after the second call')
    elif fn == 'rel.b2b-shift':
        sh = np.asarray(w['shifts'])
        f = (lambda v: eqsig.put_array_in_2d_array(v, sh, 'both' if w['odd'] else 'none')) if w['which'] == 'put' else \
            (lambda v: eqsig.join_values_w_shifts(v, sh, 'sub' if w['odd'] else 'add'))
        try:
            q1 = f(w['values'])
            k1 = np.array(q1)
            f(w['other_values'])
            ctx.check(bool(np.array_equal(q1, k1)), 'first-result-unchanged-after-second-call', w, 'first result changed')
        except Exception as e:
            ctx.exception('put2d==offsets', w, e)
    elif fn == 'r3.protocol':
        exec_protocol(eqsig, ctx, w)
        _R3['spec'] = None
    elif fn == 'r3.assign':
        exec_assign(eqsig, ctx, w)
        _R3['spec'] = None
    elif fn == 'r3.raise':
        exec_raise(eqsig, ctx, w)
        _R3['spec'] = None
    elif fn == 'r3.aba':
        exec_aba(eqsig, ctx, w)
        _R3['spec'] = None
    elif fn == 'r3.aba-shift':
        exec_aba_shift(eqsig, ctx, w)
        _R3['spec'] = None
    elif fn == 'r5.settings':
        exec_settings(eqsig, ctx, w)
        _R3['spec'] = None
    elif fn == 'r5.owned':
        exec_owned(eqsig, ctx, w)
        _R3['spec'] = None
    elif fn == 'trim_to_length':
        vals = np.asarray(w['values2d'])
        form = w.get('values2d_form', 'ndarray')
        if form == 'fortran':
            vals = np.asfortranarray(vals)
        elif form == 'readonly':
            vals = vals.copy()
            vals.flags.writeable = False
        elif form in ('colview', 'view'):
            big = np.zeros((vals.shape[0], 2 * vals.shape[1]), dtype=vals.dtype)
            big[:, ::2] = vals
            vals = big[:, ::2]
        sfm = w.get('scalar_forms') or {}
        try:
            eqsig.surface.trim_to_length(vals, _scalar_arg(int(w['npts']), sfm.get('npts', 'int')), np.asarray(w['travel_times']),
                                         _scalar_arg(w['dt'], sfm.get('dt', 'float')), trim=_bool_form(w['trim'], sfm.get('flag', 'bool')),
                                         start=_bool_form(w['start'], sfm.get('flag', 'bool')),
                                         s2s_travel_time=_scalar_arg(w['stt'], sfm.get('stt', 'float')))
        except Exception as e:
            ctx.exception('trim.placement', w, e)
    elif fn == 'put_array_in_2d_array':
        vals, sh = _shift_args(w)
        _put(eqsig, ctx, vals, sh, w.get('clip', 'none'), style=w.get('style', 'kw'))
    elif fn == 'join_sig_w_time_shift':
        ts = np.asarray(w['time_shifts'])
        tc = w.get('ts_container', 'ndarray')
        ts = ts.tolist() if tc == 'list' else (tuple(ts.tolist()) if tc == 'tuple' else _as_form(ts, tc))
        _join_sig(eqsig, ctx, np.asarray(w['values']), w['dt'], ts, 'omit' if w.get('omit') else w.get('jtype', 'add'),
                  w.get('style', 'kw'), w.get('sig_class', 'Signal'), dt_form=w.get('dt_form', 'float'))
    elif fn == 'join_values_w_shifts':
        vals, sh = _shift_args(w)
        _join(eqsig, ctx, vals, sh, w.get('jtype', 'add'), style=w.get('style', 'kw'))
    else:
        return ['unknown witness kind %r' % fn]
    return ['%s: %s' % (v['clause'], v['msg']) for v in ctx.violations]
