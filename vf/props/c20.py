"""C20 - interpolation, averaging, step-fit and design-spectrum helpers match their definitions.

Monitors: post-conditions on every call of interp2d, interp_left, calc_roll_av_vals, calc_step_fn_vals_error,
calc_step_fn_steps_vals (eqsig.fns) and c_h_factor, sd_nzs, t_eff (eqsig.design_spectra) against the scalar reference
models of vf/oracles/helpers.py. Relations between executions (continuity across segment boundaries, array vs scalar
form, t_eff round trip) are evaluated by the driver over the results of monitored calls.
"""
import math
import warnings

import numpy as np

from vf import attach, core, gen, tol
from vf.oracles import helpers as O

PROP_ID = 'C20'
TECHNIQUE = ('runtime pre/post-condition monitors (argument snapshot at entry, argument purity) with scalar reference oracles (clamped linear interpolation, greatest '
             'node <= query, clamped-index window means, per-split deviation sums, side means) + cross-function '
             'identity / one-sided-limit / bisection-scan relations for the NZS 1170.5 functions')
RULE = ('cases = calls of the real functions through the public names, positionally and by keyword. Interpolation: strictly '
        'increasing node sets (sorted random, integer grids, log-spaced, very uneven, offset with spacing << magnitude, 1..8 '
        'nodes, 1..4 columns, overall scale 10^U(-12,12) or a power of two, table columns 10^U(-12,12)); nodes / queries / '
        'tables as float64, float32 (all or some arguments), int64, int32 and int8/uint8/int16/uint16 spanning most of the '
        'range of the dtype; queries inside / on nodes / one ulp or a hair (1e-15..1e-9) next to nodes / mid-points / below / '
        'above; interp_left queries, nodes and values also as lists and tuples, scalar queries as Python and numpy numbers; '
        'distinct = digest(queries, nodes, table), non-trivial = some query strictly inside a non-constant table. Rolling '
        'average: record classes of gen.record (amplitude 10^U(-12,12) in a quarter of the cases, small signals on large '
        'offsets, plateaus at the start / end, the extreme at the first / last sample), 1..40 samples, lengths 2^k-1, 2^k, 2^k+1 '
        'up to 513, some up to 400, in 14 container / dtype forms (float64, float32, int64, int32, narrow and unsigned ints '
        'using the full range, lists / tuples of floats, ints or both), every window 1..len drawn at random as int / np.int64 / '
        'np.int32 / float, the four mode strings; non-trivial = non-constant series and window > 1. Step fit: 2..30 samples, '
        'lengths around powers of two up to 513, positive / negative / mixed-sign / step-like / large-offset data scaled by '
        '10^U(-12,12), float64 / float32 / every integer width (small values and values using the full range), lists, tuples, '
        'mixed lists, p in {1,2} as int / np.int64 / float, dir=None; non-trivial = non-constant series. Design spectra: T in '
        '{0, every boundary*(1 -+ 1e-12), U(0,6), 10^U(-9,3)} as float / np.float64 / int / every numpy integer width / '
        'float32 / 0-d array (sd_nzs) and in containers: float64 / float32 / integer arrays of every width (also the top of '
        'the range of narrow dtypes), arange, lists and tuples of floats, ints or both (c_h_factor); classes C D E (default '
        'and keyword); Z R N uniform in their code ranges, also Python ints and N = 1; displacement as float / np.float64 / '
        'np.float32 / int 0. Every array argument is also passed as strided / reversed / Fortran-ordered view and read-only. '
        'Every window width 1..min(len,40) in every mode on two records per shard. Extreme scales (4-7 %): series, tables and nodes at '
        '10^+-(165..300), extreme dynamic range inside one series, ripple on a large baseline, counts above 2**24. '
        'Sizes of every vector argument (nodes, queries, periods) also 1, 2 and 31..33, 63..65, 127..129, 256; queries and periods '
        'unsorted, ascending, descending and with repeated entries; repeated nodes (monotone, not strictly increasing); one table '
        'row / one sample 1e3..1e12 times larger than the rest; series shapes: monotone, one-sided negative, exact zeros inside, '
        'alternating (Nyquist), tail-heavy, a single step between constant sides (also at the first / last position), a single '
        'changed sample, non-zero ends; periods recovered from float quotients ((b/k)*k); window widths from dt/(dt/k); Z, R, N '
        'at the ends of their ranges, Z*R above and exactly at 0.7; n x m products past 2**22 (2049 queries x 2049 nodes, '
        'step fit of 2049 samples). A few inputs past 2**16 per run (queries, nodes, series, period arrays). One object for two parameters (nodes as '
        'queries / values), the same object in consecutive calls, two inputs of one shape back to back. A fixed grid of '
        '[0, 6.5] s (distinct by construction) is scanned for jumps with bisection down to 1e-12. Round 3 (checklist 24-27): '
        'f(A); f(B); f(A) for each of the eight functions with B another draw of the same recipe (same shapes / other shapes), '
        'equal to A except for ONE argument, or written into the very array object that held A (work buffer refilled in '
        'place), options at non-default values (mode, pow, dir up / down, y given / None, ind None, classes, Z R N), trailing '
        'parameters by keyword in a third of the calls, fresh temporaries of one size in a row; inputs outside the domain for '
        'every function (queries below the first node as array / list / tuple, negative or non-finite periods in containers, '
        'unknown classes / modes / directions, windows <= 0, > len or not integer-valued, powers outside {1, 2}, split samples at '
        'the ends, non-finite samples, empty / 2-d series, tables with the wrong number of rows, scalar forms outside a '
        'signature) between two calls with in-domain arguments; queries 1e-9..1e-3 of the span next to the end nodes / any '
        'node, periods 1e-12..1e-3 (relative) next to every boundary, displacements 1e-11..1e-3 below and above the corner, '
        'Z R N 1e-9..1e-3 inside the ends of their ranges; interp2d queries and nodes as Python lists / tuples, the table as '
        'nested list / tuple; silent (all-zero) and strictly one-signed series, all-zero tables / node values / period containers. '
        'Round 5 (checklist 28-33): every numeric scalar argument in every scalar form - window width, power, split index, Z R N, '
        'displacement, scalar query as Python int / float, numpy integers of every width that holds the value, np.float64 / '
        'np.float32, 0-d integer and float arrays (mutable: snapshot at entry like any array), window 1 as True / np.True_; mode '
        'and site class as numpy strings; bool-dtype series (on / off records as bool array, list, tuple) for the rolling '
        'average and the step levels, bool node values for interp_left; one-sample series for the step-fit error (single '
        'no-split entry); period containers holding only T = 0 in ten container / dtype forms per class; a result belongs to '
        'the caller: f(A), result compared with A for shared memory, every entry overwritten, f(A) again == first value and A '
        'intact - random draws and the nothing-to-do cases (window 1, queries == nodes, constant series, the same tuple of '
        'periods); the split index as narrow numpy integer at and one below the top of its dtype.')
ASSUMPTIONS = ['node sets finite and monotone; unsorted node sets are counted, not judged; repeated nodes: the statement does not say '
               'which of the equal nodes supplies the value of interp_left - the convention (last / first of the equal nodes) is '
               'fixed ONCE per tree from three probe records and demanded for every query of every record (checklist item 33; an '
               'earlier version accepted any of the equal nodes per query); interp2d with a repeated node is outside the "node sets" of the statement '
               '(coordinator ruling): generated, counted, only purity / no-exception / repeatability apply; strictly decreasing node '
               'sets are not handled by either function on the clean tree (wrong side / rejected): generated and counted only',
               'tolerances are local: interp2d relative to the rows entering the value and their neighbours, step levels relative '
               'to the largest sample of their side; the rolling average and the step-fit error stay relative to the global scale '
               'of the series (largest partial sum / n*max|x|^p) because the anchored algorithms (running-sum differences, padded '
               'triangle sums) cannot be more accurate than that - valid for every amplitude 1e-12..1e12 and offset generated',
               'a window width that is not integer-valued (dt/(dt/k) a hair off k) is outside "window sizes 1..len": counted only',
               'interp2d: queries x and nodes xf as 1-d numpy arrays, lists or tuples of real numbers (docstring: array_like), '
               'judged alike; the 2-d table f as numpy array or as a nested list / tuple of rows (array_like too; raised '
               'TypeError before fix F42 of eqsig), judged alike',
               'results depend on the arguments only: f(A); f(B); f(A) - the third result equals the first BIT-FOR-BIT (same '
               'argument objects, same process, deterministic NumPy kernels), also when f(B) raised or B was outside the domain, '
               'also for calls whose value the statement does not fix (dir = up / down, repeated nodes)',
               'a call that raises must leave every argument bit-for-bit as it was (clause args-unchanged-after-raise), for '
               'rejected inputs and for any other exception alike; values returned for inputs outside the domain are never judged',
               'interp_left queries below the first node are rejected by the function (outside the domain)',
               'centred window of width w (mode centre / center): samples i - floor(w/2) .. i + ceil(w/2) - 1 with replicated edges, '
               'i.e. for an EVEN width the extra sample lies before the current one - the convention of the clean tree (s = '
               'floor(steps/2) leading copies of the first value), required for every width alike; no other placement is accepted '
               '(an earlier version accepted either side for even widths, which hid a change that moved only w = 2, 6, 10, ...)',
               'extreme scales (|x| down to 1e-300 / up to 1e300, dynamic range 1e-150..1e150 in one series, ripple on a large '
               'baseline, counts above 2**24) are in domain for the linear helpers (interp2d tables and nodes to 1e+-250, rolling '
               'average, step levels, step-fit error with p = 1) in float64 / list / tuple containers; the step-fit error with p = 2 '
               'squares the samples and is judged only for 1e-150 <= max|x| <= 1e150; design-spectrum periods stay in 1e-9..1e3 s '
               '(S_d contains T^2); the only absolute tolerance floor is 4e-323 (eight subnormal spacings)',
               'float32 arguments may be processed and returned in float32: judged to 64 eps32 (32 eps32 for the step '
               'levels) instead of 1e-9; a float32 displacement is compared with the corner in float32 (knife edge 4 eps32)',
               'step-fit: p in {1,2}, dir=None; the result array inherits an integer input dtype = open finding '
               'C20/int-dtype-truncation, attributed only when (truncation regime) result == trunc(expected) element-wise, '
               '+-1 next to an integer, or (overflow regime: some expected error outside the range of that dtype) an '
               'OverflowError is raised while the whole-series error does not fit, or every element is the value the function '
               'computed (expected within 1e-9) truncated and wrapped modulo 2**bits / converted by the platform cast at the '
               'same array position; float input is never excused',
               'step-fit series past a few hundred samples are not driven (the function builds n x n matrices)',
               'step levels are judged for 1 <= ind <= n-2 (both sides non-empty)',
               'every post-condition is evaluated on a snapshot of the arguments taken at call entry; arguments must be '
               'bit-for-bit unchanged after the call; an array result must be unchanged after the next call of the function',
               'c_h_factor takes a Python/numpy float or a container (array, list, tuple) of real periods of any dtype; a bare '
               'int or float32 scalar and 0-d arrays are outside its signature (len()); sd_nzs and t_eff take any real '
               'scalar; g = 9.81 m/s2 and corner period 3 s in d_c = S_d(3 s) * g / (2 pi)^2',
               '"continuous to table precision" = one-sided jump <= 0.5 % (three significant digits in the tables)',
               'same-object histories of Signal objects (checklist line 5) do not apply: the eight functions are stateless; for the '
               'same reason checklist item 31 (reads must not change settings) has no object to apply to',
               'a result belongs to the caller (checklist items 12 / 32): an array result shares no memory with an argument and '
               'overwriting it changes neither the arguments nor the value of a later call with the same arguments',
               'bool-dtype series are on / off records with values 0.0 / 1.0 for the rolling average and the step levels; the '
               'step-fit error of a bool series comes back as a bool array (dtype inherited: mechanism of the open finding '
               'C20/int-dtype-truncation, no negative data) and is counted, not judged; a one-sample series has one step-fit entry, '
               'the whole-series error 0',
               'scalar forms: a window / power / index given as numpy number or 0-d array of an integer value is that integer; '
               'routed to pending findings until ruled: interp_left with the scalar query as 0-d array (TypeError on the clean tree), '
               'calc_step_fn_steps_vals with the index as narrow numpy integer equal to the top of its dtype (ind + 1 wraps)',
               'oracle vf/oracles/helpers.py is correct (scalar code from the definitions)']
C_REPEAT_NAME = 'f(A);f(B);f(A):third==first(bit-for-bit)'
C_RAISE_NAME = 'args-unchanged-after-raise(bit-for-bit)'
_MIN_QUICK = {'interp2d.inside==columnwise-linear': 3000, 'interp2d.on-node==table-row': 2000,
              'interp2d.outside==end-row': 2800, 'interp_left==value-at-greatest-node<=q': 2800,
              'interp_left.on-node-query': 4500, 'interp_left.scalar-query': 4000, 'interp_left.y=None->node-index': 4000,
              'rollav.forward==window-mean': 4000, 'rollav.backward==window-mean': 4000,
              'rollav.centre==window-mean': 8000, 'rollav.centre(even-w)==mean(i-w/2..i+w/2-1)': 4000, 'rollav.length-kept': 16000, 'rollav.constant-preserved': 2000,
              'stepfit.error(p=1)==sum|dev|': 2500, 'stepfit.error(p=2)==sum|dev|^2': 2000,
              'stepfit.no-split-entry==whole-series-error': 5000, 'stepfit.levels==side-means': 9000,
              'sd_nzs==c_h*T^2*Z*N*R': 30000, 'c_h_factor*T^2==sd_nzs(unit)': 25000, 'c_h.array==scalar': 1100,
              'c_h.continuous(boundaries)': 200, 'sd_nzs.continuous(boundaries)': 200, 'c_h.continuous(scan)': 10000,
              'sd_nzs.continuous(scan)': 10000, 't_eff==T_c*d/d_c': 2600, 't_eff(d_c*T/3)==T': 2400,
              't_eff.rejects-above-corner': 600, 'args-unchanged(bit-for-bit)': 110000,
              'earlier-result-intact-after-next-call': 35000, C_REPEAT_NAME: 8000, C_RAISE_NAME: 3000,
              'interp_left.repeated-nodes==one-convention-per-tree': 600,
              'result-owned(no-memory-shared-with-arguments)': 2400,
              'result-owned(overwritten;same-call==first;arguments-intact)': 2400}
# thorough = 10 x the random workload of quick and a 4 x finer continuity scan
_MIN_THOROUGH = {k: 10 * v for k, v in _MIN_QUICK.items()}
_MIN_THOROUGH.update({'c_h.continuous(boundaries)': 200, 'sd_nzs.continuous(boundaries)': 200,
                      'c_h.continuous(scan)': 40000, 'sd_nzs.continuous(scan)': 40000,
                      'sd_nzs==c_h*T^2*Z*N*R': 120000, 'c_h_factor*T^2==sd_nzs(unit)': 120000,
                      'args-unchanged(bit-for-bit)': 700000, 'earlier-result-intact-after-next-call': 300000})
MIN_EVALS = {'quick': _MIN_QUICK, 'thorough': _MIN_THOROUGH}
EXHAUSTIVE = {'quick': 'every window width 1..min(len, 40) x 4 modes on two records per shard; continuity scan: every interval of the grid 0(2e-4)0.12(1e-3)6.5 s x classes C,D,E x '
                       '{c_h_factor, sd_nzs}, bisected to 1e-12 wherever the change exceeds 0.5 %',
              'thorough': 'every window width 1..min(len, 40) x 4 modes on two records per shard; continuity scan: every interval of the grid 0(5e-5)0.12(2.5e-4)6.5 s x classes C,D,E x '
                          '{c_h_factor, sd_nzs}, bisected to 1e-12 wherever the change exceeds 0.5 %'}

CTX = None
K5 = 'C20/int-dtype-truncation'
RTOL = 1e-9
SITE_CLASSES = ('C', 'D', 'E')
MODES = ('forward', 'backward', 'centre', 'center')


def n_shards(tier):
    return 16


def _mark(e):
    """Tag an exception that a monitor has already judged, so that the driver does not judge it again."""
    try:
        e._vf_seen = True
    except Exception:
        pass


def _cont(v):
    return type(v).__name__


# parameter names and defaults of the monitored functions (parsed by hand: no inspect in the hot path)
SIGS = {'interp2d': (('x', 'xf', 'f'), {}),
        'interp_left': (('x0', 'x', 'y'), {'y': None}),
        'calc_roll_av_vals': (('values', 'steps', 'mode'), {'mode': 'forward'}),
        'calc_step_fn_vals_error': (('values', 'pow', 'dir'), {'pow': 1, 'dir': None}),
        'calc_step_fn_steps_vals': (('values', 'ind'), {'ind': None}),
        'c_h_factor': (('period', 'site_class'), {'site_class': 'C'}),
        'sd_nzs': (('period', 'site_class', 'z_factor', 'r_factor', 'n_factor'), {}),
        't_eff': (('displacement', 'site_class', 'z_factor', 'r_factor', 'n_factor'), {})}
LAYOUT = {}        # layout flags (read-only / strided / reversed / fortran) of the array arguments of the call being judged


def _snap(v):
    """Value of an argument at call entry (arrays and lists are copied, nested rows too; scalars are immutable)."""
    if isinstance(v, np.ndarray):
        return v.copy()
    if isinstance(v, list):
        return [_snap(t) if isinstance(t, (list, tuple, np.ndarray)) else t for t in v]
    if isinstance(v, tuple) and any(isinstance(t, (list, tuple, np.ndarray)) for t in v):
        return tuple(_snap(t) for t in v)
    return v


def _unchanged(now, snap):
    """Bit-for-bit comparison of an argument with its snapshot."""
    if isinstance(snap, np.ndarray):
        return isinstance(now, np.ndarray) and now.dtype == snap.dtype and now.shape == snap.shape \
            and now.tobytes() == snap.tobytes()
    if isinstance(snap, (list, tuple)):
        return type(now) is type(snap) and len(now) == len(snap) and \
            all((_unchanged(a, b) if isinstance(b, (list, tuple, np.ndarray)) else
                 (a is b or (type(a) is type(b) and a == b))) for a, b in zip(now, snap))
    return True


def _layout(bound):
    out = {}
    for k, v in bound.items():
        if isinstance(v, np.ndarray) and v.ndim >= 1 and v.size:
            fl = []
            if not v.flags.writeable:
                fl.append('readonly')
            if not v.flags.c_contiguous:
                fl.append('fortran' if (v.ndim == 2 and v.flags.f_contiguous) else
                          ('reversed' if v.strides[0] < 0 else 'strided'))
            if fl:
                out[k] = fl
    return out


def _relayout(a, flags):
    """Rebuild the memory layout recorded in a witness (same values)."""
    if not isinstance(a, np.ndarray) or not flags:
        return a
    if 'strided' in flags:
        big = np.zeros((2 * a.shape[0],) + a.shape[1:], dtype=a.dtype)
        big[::2] = a
        a = big[::2]
    elif 'reversed' in flags:
        a = np.ascontiguousarray(a[::-1])[::-1]
    elif 'fortran' in flags:
        a = np.asfortranarray(a)
    if 'readonly' in flags:
        a.flags.writeable = False
    return a


def _enter(fn):
    """pre-hook: bind the arguments to their names and snapshot them. The post-conditions are judged against the
    snapshot (the values the caller passed), never against the possibly modified live objects."""
    names, defaults = SIGS[fn]

    def pre(args, kwargs):
        if len(args) > len(names):
            return None
        b = dict(defaults)
        b.update(zip(names, args))
        b.update(kwargs)
        if any(k not in b for k in names):
            return None
        return b, dict((k, _snap(v)) for k, v in b.items())
    return pre


def _judged(fn, checker):
    """post-hook: purity of every argument (bit-for-bit against the snapshot), then the post-condition on the snapshot."""
    def post(args, kwargs, result, st):
        global LAYOUT
        if st is None:
            CTX.observe('%s: call does not match the signature (not judged)' % fn)
            return
        live, snap = st
        LAYOUT = _layout(live)
        changed = [k for k in live if not _unchanged(live[k], snap[k])]
        CTX.check(not changed, 'args-unchanged(bit-for-bit)',
                  lambda: dict(_arg_witness(fn, snap), changed=changed, after=dict((k, live[k]) for k in changed)),
                  '%s modified its argument(s) %s' % (fn, changed))
        checker(CTX, snap, result)
    return post


C_RAISE = C_RAISE_NAME
C_REPEAT = C_REPEAT_NAME


def _raised(fn, specific):
    """exception hook: a call that raises (rejected input, or anything else) must leave every argument bit-for-bit as it
    was - judged for every monitored function, then the function's own exception hook (if any) classifies the raise."""
    def onex(args, kwargs, e, st):
        global LAYOUT
        if st is not None and isinstance(e, Exception):
            live, snap = st
            LAYOUT = _layout(live)
            changed = [k for k in live if not _unchanged(live[k], snap[k])]
            CTX.check(not changed, C_RAISE,
                      lambda: dict(_arg_witness(fn, snap), changed=changed, after=dict((k, live[k]) for k in changed),
                                   raised=repr(e)),
                      '%s raised %r and left its argument(s) %s modified' % (fn, e, changed))
        if specific is not None:
            specific(args, kwargs, e, st)
    return onex


def _arg_witness(fn, snap):
    """Witness of a call in the form replay() understands (see the check_* functions)."""
    w = {'fn': fn, 'layout': LAYOUT}
    ren = {'z_factor': 'z', 'r_factor': 'r', 'n_factor': 'n'}
    for k, v in snap.items():
        w[ren.get(k, k)] = v
        if k in ('x0', 'x', 'y', 'period', 'xf', 'f'):
            w[k + '_container'] = _cont(v)
        if k == 'values':
            w['container'] = _cont(v)
    return w


EPS32 = float(np.finfo(np.float32).eps)
TINY = 4e-323    # eight spacings of the subnormal doubles: the only absolute floor used (no double result can be finer)


def _rtol_for(arr, k):
    """1e-9 for float64 / integer data. float32 data may legitimately be processed and returned in float32, where
    correct code cannot be closer than a few float32 roundings: k * eps32."""
    return k * EPS32 if arr.dtype == np.float32 else RTOL


def _floats(a):
    return [float(v) for v in np.asarray(a).ravel().tolist()]


# ============================================================================================== monitors: interpolation
def _nodes_ok(nodes):
    """finite and strictly increasing"""
    return len(nodes) >= 1 and all(math.isfinite(v) for v in nodes) and all(b > a for a, b in zip(nodes, nodes[1:]))


def _nodes_monotone(nodes):
    """finite and non-decreasing (repeated nodes allowed)"""
    return len(nodes) >= 1 and all(math.isfinite(v) for v in nodes) and all(b >= a for a, b in zip(nodes, nodes[1:]))


def _nodes_decreasing(nodes):
    return len(nodes) >= 2 and all(math.isfinite(v) for v in nodes) and all(b < a for a, b in zip(nodes, nodes[1:]))


# Ruling of the coordinator: a table with a repeated abscissa is outside the "node sets" of the statement (no defined value
# at that node) -> generated and counted, not judged ('judge' would compare with the piecewise-linear function with a jump).
REPEATED_NODES_INTERP2D = 'observe'
OBS_REPEATED = ('interp2d: repeated node (outside "node sets", not judged; the library brackets the query with the two copies '
                'of the node and returns the row of the second copy for queries nearer to the repeated node than to the next)')
OBS_DECREASING2D = ('interp2d: strictly decreasing node set (not handled by the library: nearest-node bracketing assumes '
                    'increasing nodes and returns rows of the wrong side; not judged)')
OBS_DECREASING_LEFT = ('interp_left: strictly decreasing node set (not handled by the library: queries below x[0] are '
                       'rejected, the others get the last node; not judged)')


def _real_nd(v, ndim):
    """ndarray of real numbers with `ndim` axes from an ndarray or a (nested) list / tuple of Python / numpy real numbers
    ("array_like" of the docstring); None for anything else."""
    if isinstance(v, np.ndarray):
        a = v
    elif isinstance(v, (list, tuple)):
        try:
            a = np.asarray(v)
        except Exception:
            return None
    else:
        return None
    return a if (a.ndim == ndim and a.dtype.kind in 'fiu') else None


PENDING_F_LIST = 'pending-finding: interp2d table f as nested list / tuple raises TypeError (docstring: f array_like)'


def _interp2d_domain(x, xf, f):
    xa, xfa, fa = _real_nd(x, 1), _real_nd(xf, 1), _real_nd(f, 2)
    if xa is None or xfa is None or fa is None or fa.shape[0] != xfa.shape[0] or xa.size == 0 or xfa.size == 0 \
            or fa.shape[1] == 0:
        return None
    return xa, xfa, fa


def _exc_interp2d(args, kwargs, e, st):
    """The table as a nested list / tuple with everything else in domain: before fix F42 the library indexed the list with an
    index array (TypeError); for a while that was routed to an observation, see below."""
    if st is None:
        return
    a = st[1]
    dom = _interp2d_domain(a['x'], a['xf'], a['f'])
    if dom is None:
        return
    # ruled a genuine defect (the statement covers "all arguments in their documented domains", the docstring says array_like)
    # and repaired in eqsig (fix F42): nothing is routed any more, the exception is judged like any other on in-domain input
    return


def check_interp2d(ctx, x, xf, f, result):
    dom = _interp2d_domain(x, xf, f)
    if dom is None:
        ctx.observe('interp2d: call outside the documented signature (not judged)')
        return
    x0_, xf0_, f0_ = x, xf, f
    x, xf, f = dom
    if not (isinstance(x0_, np.ndarray) and isinstance(xf0_, np.ndarray) and isinstance(f0_, np.ndarray)):
        ctx.observe('interp2d: list / tuple argument(s) %s (judged)'
                    % '/'.join(_cont(v) for v in (x0_, xf0_, f0_)))
    nodes = _floats(xf)
    qs = _floats(x)
    if _nodes_decreasing(nodes):
        ctx.observe(OBS_DECREASING2D)
        return
    if not _nodes_monotone(nodes) or not all(math.isfinite(q) for q in qs) or not np.all(np.isfinite(f)):
        ctx.observe('interp2d: nodes not monotone / non-finite input (not judged)')
        return
    if not _nodes_ok(nodes):
        if REPEATED_NODES_INTERP2D != 'judge':
            ctx.observe(OBS_REPEATED)
            return
        ctx.observe('interp2d: repeated node (judged)')
    table = [[float(v) for v in row] for row in f.tolist()]
    vals, scales, alts = O.interp_table_local(qs, nodes, table)
    ref = np.array(vals, dtype=float).reshape(len(qs), f.shape[1])
    # tolerance relative to the LOCAL scale: the rows that enter the value (and their neighbours), not the whole column
    loc = np.array(scales, dtype=float).reshape(len(qs), f.shape[1])
    got = np.asarray(result)
    wit = lambda: {'fn': 'interp2d', 'x': x0_, 'xf': xf0_, 'f': f0_, 'x_container': _cont(x0_), 'xf_container': _cont(xf0_),
                   'f_container': _cont(f0_), 'got': got, 'expected': ref, 'layout': LAYOUT}
    if got.shape != ref.shape:
        ctx.violation('interp2d.inside==columnwise-linear', wit(),
                      'interp2d returned shape %s, expected %s' % (got.shape, ref.shape))
        return
    got = got.astype(float)
    # float32 arguments are (partly) processed and returned in float32: a few float32 roundings is all correct code can do
    rt = 64 * EPS32 if np.float32 in (x.dtype, xf.dtype, f.dtype) else RTOL
    classes = [O.query_class(q, nodes) for q in qs]
    for i, row in enumerate(alts):
        for c, more in enumerate(row):
            # a query ON a repeated node: the value of any of the equal nodes is acceptable
            for v in more:
                if abs(got[i, c] - v) <= rt * loc[i, c] + TINY < abs(got[i, c] - ref[i, c]):
                    ref[i, c] = v
    for names, clause in ((('inside',), 'interp2d.inside==columnwise-linear'), (('node',), 'interp2d.on-node==table-row'),
                          (('below', 'above'), 'interp2d.outside==end-row')):
        rows = [i for i, c in enumerate(classes) if c in names]
        if not rows:
            continue
        okk, idx, err, allowed = tol.worst(got[rows], ref[rows], scale=loc[rows], rtol=rt, atol=TINY)
        ctx.check(okk, clause, wit,
                  'interp2d(x, xf, f): query %r (%s) column %s: got %r expected %r (|diff| %.3g > %.3g); nodes %s'
                  % ((qs[rows[idx[0]]], classes[rows[idx[0]]], idx[1], got[rows][idx], ref[rows][idx], err, allowed,
                      nodes[:8]) if idx else (None, names, None, None, None, err, allowed, nodes[:8])))


def _interp_left_domain(x0, x, y=None):
    """(scalar?, queries, nodes) as floats, or None when the call is outside the domain."""
    scalar = not hasattr(x0, '__len__') or _is_0d(x0)
    try:
        qs = [float(x0)] if scalar else _floats(x0)
        nodes = _floats(x)
        if y is not None and np.asarray(y).shape != (len(nodes),):
            return None                                   # one value per node
    except Exception:
        return None
    if not qs or not _nodes_monotone(nodes) or not all(math.isfinite(q) for q in qs):
        return None
    return scalar, qs, nodes


def _is_0d(v):
    return isinstance(v, np.ndarray) and v.ndim == 0


PENDING_LEFT_0D = 'pending-finding: interp_left scalar query as 0-d array raises TypeError (iteration over a 0-d array)'
C_LEFT_CONV = 'interp_left.repeated-nodes==one-convention-per-tree'
LEFT_CONV = None


def _left_convention():
    """Checklist item 33: with repeated nodes the statement does not say which of the equal nodes supplies the value. The
    convention (last / first of the equal nodes) is fixed ONCE per tree from three probe records and then demanded for every
    record; a tree whose probes disagree with each other is held to 'last' (greatest index among the nodes <= q)."""
    global LEFT_CONV
    if LEFT_CONV is None:
        import eqsig
        votes = []
        for nodes, qs in (([0.0, 1.0, 1.0, 1.0, 2.0], [1.0, 1.5, 1.0]), ([5.0, 5.0, 7.0], [5.0, 6.0]),
                          ([-2.0, 0.0, 3.0, 3.0], [3.0, 4.0, 3.0])):
            try:
                with attach.paused(), warnings.catch_warnings():
                    warnings.simplefilter('ignore')
                    got = np.asarray(eqsig.fns.generic.interp_left(np.array(qs), np.array(nodes))).ravel().tolist()
                for k, eq in zip(got, O.left_candidates(qs, nodes)):
                    votes.append('last' if k == eq[-1] else ('first' if k == eq[0] else 'other'))
            except Exception:
                votes.append('other')
        LEFT_CONV = votes[0] if (len(set(votes)) == 1 and votes[0] in ('first', 'last')) else 'last'
        CTX.observe('interp_left: repeated-node convention fixed for this tree from probe records: %s%s'
                    % (LEFT_CONV, '' if len(set(votes)) == 1 else ' (probes disagree: %s)' % sorted(set(votes))))
    return LEFT_CONV


def _is_decreasing_arg(x):
    try:
        return _nodes_decreasing(_floats(x))
    except Exception:
        return False


def check_interp_left(ctx, x0, x, y, result):
    dom = _interp_left_domain(x0, x, y)
    if dom is None:
        ctx.observe(OBS_DECREASING_LEFT if _is_decreasing_arg(x) else
                    'interp_left: nodes not monotone / malformed call (not judged)')
        return
    scalar, qs, nodes = dom
    idx = O.left_values(qs, nodes, None)
    wit = lambda: {'fn': 'interp_left', 'x0': x0, 'x0_container': _cont(x0), 'x': x, 'x_container': _cont(x), 'y': y,
                   'y_container': _cont(y), 'got': np.asarray(result), 'expected_index': idx, 'layout': LAYOUT}
    if scalar:
        clause = 'interp_left.scalar-query'
    elif y is None:
        clause = 'interp_left.y=None->node-index'
    else:
        clause = 'interp_left==value-at-greatest-node<=q'
    if any(j is None for j in idx):
        # no node <= query: the statement defines no value there (eqsig rejects such calls today)
        ctx.observe('interp_left: query below the first node accepted (outside the domain, not judged)')
        return
    ylist = None if y is None else np.array(y).ravel().tolist()
    exp = O.left_values(qs, nodes, ylist)
    r = np.asarray(result)
    shape_ok = (r.ndim == 0) if scalar else (r.shape == (len(qs),))
    gl = r.ravel().tolist()
    if not _nodes_ok(nodes) and shape_ok:
        # repeated nodes: the statement does not say which of the equal nodes supplies the value -> ONE convention per tree
        # (fixed from probe records), the same for every query of every record
        conv = _left_convention()
        ctx.observe('interp_left: repeated node (judged, convention of the tree: %s of the equal nodes)' % conv)
        cand = O.left_candidates(qs, nodes)
        ks = [(c[-1] if conv == 'last' else c[0]) for c in cand]
        exp = [(k if ylist is None else ylist[k]) for k in ks]
        ctx.check(gl == exp, C_LEFT_CONV, wit,
                  'interp_left with repeated nodes %s: queries %s -> %s, the %s of the equal nodes (convention of this tree on '
                  'the probe records) gives %s' % (nodes[:8], qs[:8], gl[:8], conv, exp[:8]))
    okk = shape_ok and gl == exp
    msg = 'interp_left(%s, nodes %s, y %s) -> %s expected %s' % (qs[:8], nodes[:8], None if ylist is None else ylist[:8],
                                                               gl[:8], exp[:8])
    ctx.check(okk, clause, wit, msg)
    on = [i for i, q in enumerate(qs) if q == nodes[idx[i]]]
    if on and shape_ok:
        ctx.check(all(gl[i] == exp[i] for i in on), 'interp_left.on-node-query', wit, 'query on a node: ' + msg)


def _chk_interp2d(ctx, a, result):
    check_interp2d(ctx, a['x'], a['xf'], a['f'], result)


def _chk_interp_left(ctx, a, result):
    check_interp_left(ctx, a['x0'], a['x'], a['y'], result)


def _exc_interp_left(args, kwargs, e, st):
    if st is None:
        return
    a = st[1]
    x0, x, y = a['x0'], a['x'], a['y']
    dom = _interp_left_domain(x0, x, y)
    if dom is None:
        CTX.observe(OBS_DECREASING_LEFT if _is_decreasing_arg(x) else
                    'interp_left: nodes not monotone / malformed call (not judged)')
        _mark(e)
        return
    scalar, qs, nodes = dom
    if isinstance(e, AssertionError) and min(qs) < nodes[0]:
        CTX.observe('interp_left: query below the first node rejected (outside the domain)')
    else:      # (a 0-d array query raised TypeError before fix F49 of eqsig; it was routed to an observation until ruled a defect)
        CTX.exception('interp_left.scalar-query' if scalar else 'interp_left==value-at-greatest-node<=q',
                      {'fn': 'interp_left', 'x0': x0, 'x0_container': _cont(x0), 'x': x, 'x_container': _cont(x), 'y': y,
                       'y_container': _cont(y), 'layout': _layout(st[0])}, e)
    _mark(e)


# ============================================================================================== monitors: rolling average
def check_rollav(ctx, values, steps, mode, result):
    try:
        arr = np.asarray(values)
        st = int(steps)
    except Exception:
        arr, st = None, 0
    if arr is None or arr.ndim != 1 or arr.size == 0 or arr.dtype.kind not in 'fiub' or not np.all(np.isfinite(arr)) \
            or not (1 <= st <= arr.size) or st != steps or mode not in MODES:
        ctx.observe('calc_roll_av_vals: call outside the domain (window not in 1..len, unknown mode, ...; not judged)')
        return
    n = arr.size
    x = _floats(arr)
    got = np.asarray(result)
    wit = lambda: {'fn': 'calc_roll_av_vals', 'values': values, 'container': _cont(values), 'steps': st,
                   'steps_form': _cont(steps), 'mode': str(mode), 'got': got, 'layout': LAYOUT}
    if arr.dtype.kind == 'b':
        ctx.observe('calc_roll_av_vals: bool-dtype series (on/off record; judged as 0.0 / 1.0)')
    if not ctx.check(got.shape == (n,), 'rollav.length-kept', wit,
                     'calc_roll_av_vals(%d samples, steps=%d, %r) returned shape %s' % (n, st, mode, got.shape)):
        return
    got = got.astype(float)
    mkey = 'centre' if mode in ('centre', 'center') else mode
    # rounding of the stated algorithm (differences of a running sum) is relative to the largest partial sum
    scale = (math.fsum(abs(v) for v in x) + (st - 1) * max(abs(x[0]), abs(x[-1]))) / st
    long_int = n * st > 200000 and all(v.is_integer() for v in x)
    if n * st > 1500000 and not long_int:
        ctx.observe('calc_roll_av_vals: too long for the scalar oracle (not judged)')
        return
    if long_int:
        xi = [int(v) for v in x]
        roll = lambda alt=False: O.rolling_mean_prefix(xi, st, mkey, alt)
        ctx.observe('rollav: long integer-valued series judged with the exact prefix-sum oracle')
    else:
        roll = lambda alt=False: O.rolling_mean(x, st, mkey, alt)
    ref = np.array(roll())
    rt = _rtol_for(arr, 64)
    # centred window of EVEN width w: judged against the convention of the clean tree, the same for every w - samples
    # i - w/2 .. i + w/2 - 1 (the extra sample lies BEFORE the current one); no other placement is accepted
    okk, idx, err, allowed = tol.worst(got, ref, scale=scale, rtol=rt, atol=TINY)
    if mkey == 'centre' and st % 2 == 0:
        ctx.check(okk, 'rollav.centre(even-w)==mean(i-w/2..i+w/2-1)', wit,
                  'calc_roll_av_vals(%s..., steps=%d, mode=%r): even centred window is not samples i-%d .. i+%d (edges '
                  'replicated); at %s got %r expected %r' % (x[:8], st, mode, st // 2, st // 2 - 1, idx,
                                                             got[idx] if idx is not None else None,
                                                             ref[idx] if idx is not None else None))
    ctx.check(okk, 'rollav.%s==window-mean' % mkey, wit,
              'calc_roll_av_vals(%s..., steps=%d, mode=%r)[%s] = %r, window mean with replicated edges = %r (|diff| %.3g > '
              '%.3g)' % (x[:8], st, mode, idx, got[idx] if idx is not None else None,
                         ref[idx] if idx is not None else None, err, allowed))
    if all(v == x[0] for v in x):
        ctx.check(bool(np.all(np.abs(got - x[0]) <= rt * abs(x[0]) * (n + st) / st + TINY)), 'rollav.constant-preserved', wit,
                  'constant series %r not preserved: %s' % (x[0], got[:8]))


def _chk_rollav(ctx, a, result):
    check_rollav(ctx, a['values'], a['steps'], a['mode'], result)


# ============================================================================================== monitors: step fit
def _step_domain(values, min_size=2, allow_bool=False):
    try:
        arr = np.asarray(values)
    except Exception:
        return None
    if arr.ndim != 1 or arr.size < min_size or not (arr.dtype in (np.float64, np.float32) or arr.dtype.kind in 'iu'
                                                   or (allow_bool and arr.dtype.kind == 'b')):
        return None
    if arr.dtype.kind == 'f' and not np.all(np.isfinite(arr)):
        return None
    return arr


OBS_BOOL_ERR = ('calc_step_fn_vals_error: bool-dtype series (the result array inherits the bool dtype: mechanism of the open '
                'finding C20/int-dtype-truncation, no negative data; not judged)')
PENDING_IND_TOP = ('pending-finding: calc_step_fn_steps_vals split index as narrow numpy integer at the top of its dtype '
                   '(ind + 1 wraps: uint8 255 -> 0, int8 127 -> -128; the level after the split is taken from the wrong slice)')


def check_step_error(ctx, values, p, direction, result):
    arr = _step_domain(values, min_size=1, allow_bool=True)
    if arr is not None and arr.dtype.kind == 'b':
        ctx.observe(OBS_BOOL_ERR)
        return
    if arr is None or p not in (1, 2) or isinstance(p, bool):
        ctx.observe('calc_step_fn_vals_error: outside the domain (dtype / length / power; not judged)')
        return
    if direction is not None:
        ctx.observe('calc_step_fn_vals_error: dir given (direction penalty is not part of the statement; not judged)')
        return
    if p == 2 and arr.dtype.kind == 'f':
        mx = float(np.max(np.abs(arr)))
        if mx != 0 and not (1e-150 <= mx <= 1e150):
            ctx.observe('calc_step_fn_vals_error: p=2 at an extreme scale, squares under/overflow (energy-type; not judged)')
            return
    n = arr.size
    x = _floats(arr)
    exp = O.step_errors(x, int(p))
    got = np.asarray(result)
    wit = lambda: {'fn': 'calc_step_fn_vals_error', 'values': values, 'container': _cont(values), 'pow': int(p),
                   'pow_form': _cont(p), 'got': got, 'expected': np.array(exp), 'layout': LAYOUT}
    if n == 1:
        ctx.observe('calc_step_fn_vals_error: one-sample series (only the no-split entry exists; judged)')
    c_split = 'stepfit.error(p=1)==sum|dev|' if p == 1 else 'stepfit.error(p=2)==sum|dev|^2'
    c_last = 'stepfit.no-split-entry==whole-series-error'
    if got.shape != (n,):
        ctx.violation(c_split, wit(), 'calc_step_fn_vals_error returned shape %s for %d samples' % (got.shape, n))
        return
    gl = got.tolist()
    m = max(abs(v) for v in x)
    scale = n * m ** int(p)              # global scale of the series: n terms of size <= (2 max|x|)^p
    int_in = arr.dtype.kind in 'iu'
    for clause, sl in ((c_split, slice(0, n - 1)), (c_last, slice(n - 1, n))):
        g, e = gl[sl], exp[sl]
        if not e:
            continue
        okk, idx, err, allowed = tol.worst(np.array(g, dtype=float), np.array(e), scale=scale, rtol=_rtol_for(arr, 64),
                                           atol=TINY)
        fin = None
        if not okk and int_in and got.dtype == arr.dtype:
            # mechanism: float result stored into an array that inherited the integer dtype of the input
            if O.trunc_explains(g, e):
                fin = K5                                   # truncation regime
            elif O.overflow_regime(exp, *_int_range(arr.dtype)) and \
                    O.wrap_explains(g, e, arr.dtype.itemsize * 8, _int_range(arr.dtype)[0], _platform_cast(arr.dtype),
                                    slack=float(allowed)):
                fin = K5                                   # overflow regime: truncated value wrapped into the dtype
                ctx.observe('K5 overflow regime: wrapped values returned')
        i = idx[0] if idx else 0
        ctx.check(okk, clause, wit,
                  'calc_step_fn_vals_error(%s%s, pow=%d)[%d] = %r, sum of |deviation|^p of both sides from their own '
                  'means = %r (|diff| %.3g > %.3g)' % (x[:10], '...' if n > 10 else '', p, i + sl.start, g[i], e[i], err,
                                                       allowed), finding=fin)


def _int_range(dt):
    ii = np.iinfo(dt)
    return int(ii.min), int(ii.max)


def _platform_cast(dt):
    """What this platform's float -> integer conversion stores for out-of-range values: the same numpy cast, on an array
    of the same length, that the assignment into the integer result array performs."""
    def cast_many(ts):
        with np.errstate(all='ignore'), warnings.catch_warnings():
            warnings.simplefilter('ignore')
            return [int(v) for v in np.array(ts, dtype=float).astype(dt).tolist()]
    return cast_many


def _exc_step_error(args, kwargs, e, st):
    """Exception of calc_step_fn_vals_error: attributed to the known finding C20/int-dtype-truncation only in its
    overflow regime - integer input dtype, OverflowError, and the whole-series error (the scalar store that raises)
    lies outside the range of that dtype. Everything else is left to the driver (a violation)."""
    if st is None or not isinstance(e, OverflowError):
        return
    a = st[1]
    arr = _step_domain(a['values'])
    p = a['pow']
    if arr is None or arr.dtype.kind not in 'iu' or p not in (1, 2) or isinstance(p, bool):
        return
    exp = O.step_errors(_floats(arr), int(p))
    lo, hi = _int_range(arr.dtype)
    if any(t > hi or t < lo for t in O.trunc_candidates(exp[-1])):
        CTX.violation('stepfit.no-split-entry==whole-series-error',
                      {'fn': 'calc_step_fn_vals_error', 'values': a['values'], 'container': _cont(a['values']),
                       'pow': int(p), 'got': repr(e), 'expected': np.array(exp), 'layout': _layout(st[0])},
                      'calc_step_fn_vals_error(%s %s..., pow=%d) raised %r: whole-series error %r does not fit the inherited '
                      'dtype' % (arr.dtype, _floats(arr)[:8], p, e, exp[-1]), finding=K5)
        CTX.observe('K5 overflow regime: OverflowError raised')
        _mark(e)


def check_levels(ctx, values, ind, result, ind_given=True):
    arr = _step_domain(values, allow_bool=True)
    if arr is None:
        ctx.observe('calc_step_fn_steps_vals: outside the domain (not judged)')
        return
    n = arr.size
    try:
        i = int(ind)
    except Exception:
        i = -1
    if i != ind or not (1 <= i <= n - 2):
        ctx.observe('calc_step_fn_steps_vals: split sample without samples on both sides (not judged)')
        return
    x = _floats(arr)
    ref = O.step_levels(x, i)
    wit = lambda: {'fn': 'calc_step_fn_steps_vals', 'values': values, 'container': _cont(values),
                   'ind': i if ind_given else None, 'ind_form': _cont(ind), 'got': result, 'expected': ref, 'layout': LAYOUT}
    if arr.dtype.kind == 'b':
        ctx.observe('calc_step_fn_steps_vals: bool-dtype series (judged as 0.0 / 1.0)')
    idt = ind.dtype if isinstance(ind, (np.integer, np.ndarray)) else None
    # (a split index at the top of a narrow integer dtype wrapped in `ind + 1` before fix F48 of eqsig; judged like any other)
    try:
        got = np.array([float(result[0]), float(result[1])])
        shape_ok = len(result) == 2
    except Exception:
        got, shape_ok = np.zeros(2), False
    # each level is judged relative to the largest sample of ITS side (local scale), not of the whole series
    okk = shape_ok and tol.close(got, np.array(ref), scale=np.array(O.step_level_scales(x, i)), rtol=_rtol_for(arr, 32),
                                 atol=TINY)
    ctx.check(okk, 'stepfit.levels==side-means', wit,
              'calc_step_fn_steps_vals(%s%s, ind=%d) = %r, means before/after the split sample = %r'
              % (x[:10], '...' if n > 10 else '', i, result, ref))


def _chk_step_error(ctx, a, result):
    check_step_error(ctx, a['values'], a['pow'], a['dir'], result)


def _chk_levels(ctx, a, result):
    import eqsig
    values, ind = a['values'], a['ind']
    given = ind is not None
    if ind is None:
        # the split sample the function chose itself: arg-min of its own (monitored elsewhere) error function
        try:
            with attach.paused(), warnings.catch_warnings():
                warnings.simplefilter('ignore')
                ind = int(np.argmin(eqsig.fns.average.calc_step_fn_vals_error(values)))
            ctx.observe('calc_step_fn_steps_vals: ind=None (split = argmin of the error function)')
        except Exception:
            ctx.observe('calc_step_fn_steps_vals: outside the domain (not judged)')
            return
    check_levels(ctx, values, ind, result, ind_given=given)


# ============================================================================================== monitors: design spectra
def _ds():
    import eqsig
    return eqsig.design_spectra


def _is_float(v):
    return isinstance(v, float) and not isinstance(v, bool)


SCALAR_FORMS = {'int': int, 'float': float, 'float64': np.float64, 'float32': np.float32, 'int64': np.int64,
                'int32': np.int32, 'int16': np.int16, 'int8': np.int8, 'uint8': np.uint8, 'uint16': np.uint16,
                'ndarray': np.array, 'bool': bool, 'str_': np.str_, 'str': str}


def _scalar(v):
    """Real scalar (Python / numpy number or 0-d array) -> (float value, is float32) or None."""
    if isinstance(v, np.ndarray) and v.ndim == 0 and v.dtype.kind in 'fiu':
        return float(v), v.dtype == np.float32
    if _is_real(v):
        return float(v), isinstance(v, np.float32)
    return None


def _to_form(v, name):
    f = SCALAR_FORMS.get(name)
    return f(v) if f is not None else v


def _is_real(v):
    """Python / numpy real number (int or float), not bool."""
    return isinstance(v, (int, float, np.integer, np.floating)) and not isinstance(v, (bool, np.bool_))


def check_c_h(ctx, period, site_class, result):
    if site_class not in SITE_CLASSES:
        ctx.observe('c_h_factor: unknown site class (not judged)')
        return
    single = _is_float(period)
    try:
        ts = [period] if single else list(period)
    except Exception:
        ctx.observe('c_h_factor: period neither float nor sequence (not judged)')
        return
    # a container may hold integer-valued periods (list of ints, np.arange, int32 array ...): T = 1, 2, 3 s are periods
    # like any other; only a bare int scalar is outside the signature (len() of an int)
    if not ts or not all(_is_real(t) and math.isfinite(t) and t >= 0 for t in ts):
        ctx.observe('c_h_factor: periods outside T >= 0 as real numbers (not judged)')
        return
    if not single and any(not _is_float(t) for t in ts):
        ctx.observe('c_h_factor: container with integer-typed periods (judged)')
    wit = lambda: {'fn': 'c_h_factor', 'period': period, 'period_container': _cont(period), 'site_class': site_class,
                   'got': np.asarray(result)}
    r = np.asarray(result)
    if (r.ndim != 0) if single else (r.shape != (len(ts),)):
        ctx.violation('c_h_factor*T^2==sd_nzs(unit)', wit(), 'c_h_factor returned shape %s for %s period(s)'
                      % (r.shape, 'a scalar' if single else len(ts)))
        return
    chs = [float(v) for v in r.ravel().tolist()]
    ds = _ds()
    for t0, ch in zip(ts, chs):
        t = float(t0)
        try:
            with attach.paused():
                sd = float(ds.sd_nzs(t, site_class, 1.0, 1.0, 1.0))
        except Exception as e:
            ctx.exception('c_h_factor*T^2==sd_nzs(unit)', {'fn': 'sd_nzs', 'period': t, 'site_class': site_class,
                                                            'z': 1.0, 'r': 1.0, 'n': 1.0}, e)
            continue
        mine = O.sd_from_shape(ch, t, 1.0, 1.0, 1.0)
        okk = math.isfinite(ch) and tol.close(mine, sd, scale=max(abs(sd), abs(mine)) if math.isfinite(mine) else 1.0,
                                               rtol=64 * EPS32 if isinstance(t0, np.float32) else RTOL)
        ctx.check(okk, 'c_h_factor*T^2==sd_nzs(unit)',
                  lambda: {'fn': 'c_h_factor', 'period': period, 'period_container': _cont(period),
                           'site_class': site_class, 'got': np.asarray(result), 'element': t, 'c_h': ch, 'sd_nzs_unit': sd},
                  'class %s T=%r (argument: %s%s): c_h_factor=%r -> C_h*T^2 = %r but sd_nzs(T, Z=N=R=1) = %r'
                  % (site_class, t, _cont(period), '' if single else ' of %d, dtype %s' % (len(ts), np.asarray(period).dtype),
                     ch, mine, sd))


def check_sd(ctx, period, site_class, z, r, n, result):
    sc_ = _scalar(period)
    fac = [_scalar(v) for v in (z, r, n)]
    if site_class not in SITE_CLASSES or sc_ is None or not math.isfinite(sc_[0]) or sc_[0] < 0 or None in fac \
            or not all(math.isfinite(v[0]) for v in fac):
        ctx.observe('sd_nzs: outside T >= 0 as a real scalar / classes C D E (not judged)')
        return
    t, f32 = sc_
    f32 = f32 or any(v[1] for v in fac)
    if not _is_float(period):
        ctx.observe('sd_nzs: period passed as %s (judged)' % _cont(period))
    wit = lambda: {'fn': 'sd_nzs', 'period': t, 'period_form': _cont(period), 'site_class': str(site_class), 'z': z, 'r': r,
                   'n': n, 'factor_forms': [_cont(v) for v in (z, r, n)], 'got': result}
    if any(not _is_float(v) or isinstance(v, np.floating) for v in (z, r, n)):
        ctx.observe('sd_nzs: factor(s) passed as %s (judged)' % '/'.join(_cont(v) for v in (z, r, n)))
    try:
        with attach.paused():
            ch = float(_ds().c_h_factor(t, site_class))
    except Exception as e:
        ctx.exception('sd_nzs==c_h*T^2*Z*N*R', wit(), e)
        return
    ref = O.sd_from_shape(ch, t, float(z), float(n), float(r))
    try:
        got = float(result)
    except Exception:
        got = float('nan')
    ctx.check(tol.close(got, ref, scale=abs(ref), rtol=64 * EPS32 if f32 else RTOL), 'sd_nzs==c_h*T^2*Z*N*R', wit,
              'class %s T=%r Z=%r R=%r N=%r: sd_nzs = %r but c_h_factor(T)*T^2*Z*N*R = %r (c_h=%r)'
              % (site_class, t, z, r, n, got, ref, ch))


def _corner(site_class, z, r, n):
    with attach.paused():
        sd3 = float(_ds().sd_nzs(O.T_CORNER, site_class, z, r, n))
    return O.corner_displacement(sd3)


EDGE = 1e-12     # |d/d_c - 1| below this: the comparison "d > d_c" is within rounding of the two ways of forming d_c


def check_t_eff(ctx, d, site_class, z, r, n, result=None, exc=None):
    forms = [_scalar(v) for v in (d, z, r, n)]
    if site_class not in SITE_CLASSES or None in forms or not all(math.isfinite(v[0]) for v in forms) \
            or forms[0][0] < 0 or min(v[0] for v in forms[1:]) <= 0:
        ctx.observe('t_eff: outside the domain (not judged)')
        return
    f32 = any(v[1] for v in forms)
    wit = lambda: {'fn': 't_eff', 'displacement': float(d), 'displacement_form': _cont(d), 'site_class': str(site_class),
                   'z': z, 'r': r, 'n': n, 'factor_forms': [_cont(v) for v in (z, r, n)],
                   'got': result if exc is None else repr(exc)}
    try:
        dc = _corner(site_class, float(z), float(r), float(n))
    except Exception as e:
        ctx.exception('t_eff==T_c*d/d_c', wit(), e)
        return
    ratio = float(d) / dc
    # a float32 argument is compared with the corner in float32 (numpy promotion): the knife edge is that wide
    edge = 4 * EPS32 if f32 else EDGE
    if exc is not None:
        if isinstance(exc, ValueError) and ratio >= 1 - edge:
            if ratio > 1 + edge:
                ctx.ok('t_eff.rejects-above-corner')
            else:
                ctx.observe('t_eff: displacement within rounding of the corner (either outcome accepted)')
        else:
            ctx.exception('t_eff==T_c*d/d_c', wit(), exc)
        return
    if ratio > 1 + edge:
        ctx.violation('t_eff.rejects-above-corner', wit(),
                      't_eff(d=%r) returned %r although d exceeds the corner displacement d_c=%r (class %s Z=%r R=%r N=%r)'
                      % (d, result, dc, site_class, z, r, n))
        return
    ref = O.t_eff_reference(float(d), dc)
    try:
        got = float(result)
    except Exception:
        got = float('nan')
    ctx.check(tol.close(got, ref, scale=abs(ref), rtol=64 * EPS32 if f32 else RTOL), 't_eff==T_c*d/d_c', wit,
              't_eff(d=%r, %s, Z=%r, R=%r, N=%r) = %r but T_c*d/d_c = %r with d_c = sd_nzs(3)*g/(2pi)^2 = %r'
              % (d, site_class, z, r, n, got, ref, dc))


def _chk_c_h(ctx, a, result):
    check_c_h(ctx, a['period'], a['site_class'], result)


def _chk_sd(ctx, a, result):
    check_sd(ctx, a['period'], a['site_class'], a['z_factor'], a['r_factor'], a['n_factor'], result)


def _chk_teff(ctx, a, result):
    check_t_eff(ctx, a['displacement'], a['site_class'], a['z_factor'], a['r_factor'], a['n_factor'], result=result)


def _exc_teff(args, kwargs, e, st):
    if st is None:
        return
    a = st[1]
    check_t_eff(CTX, a['displacement'], a['site_class'], a['z_factor'], a['r_factor'], a['n_factor'], exc=e)
    _mark(e)


def install(ctx):
    """Attach the C20 monitors to the imported eqsig (idempotent per process: wrap() appends to an existing wrapper, so
    install() must be called once per process)."""
    global CTX
    first = CTX is None
    CTX = ctx
    if not first:
        return
    import eqsig
    g = eqsig.fns.generic
    a = eqsig.fns.average
    d = eqsig.design_spectra
    for mod, fn, chk, onex in ((g, 'interp2d', _chk_interp2d, _exc_interp2d), (g, 'interp_left', _chk_interp_left, _exc_interp_left),
                               (a, 'calc_roll_av_vals', _chk_rollav, None),
                               (a, 'calc_step_fn_vals_error', _chk_step_error, _exc_step_error),
                               (a, 'calc_step_fn_steps_vals', _chk_levels, None), (d, 'c_h_factor', _chk_c_h, None),
                               (d, 'sd_nzs', _chk_sd, None), (d, 't_eff', _chk_teff, _exc_teff)):
        attach.wrap(mod, fn, _judged(fn, chk), pre=_enter(fn), on_exception=_raised(fn, onex))


# ============================================================================================== relations (driver side)
HELD = {}      # function name -> (result object, bit-for-bit copy, args, kwargs) of its latest call


def _call(ctx, clause, wit, fn, *args, **kwargs):
    """Call a monitored public function; an exception the monitors have not judged is a violation of `clause`.
    The array result of the previous call of the same function is kept and compared bit-for-bit with its copy AFTER
    this call has returned (a result living in module-level scratch memory would be overwritten by the next call)."""
    name = getattr(fn, '__name__', str(fn))
    try:
        result = fn(*args, **kwargs)
    except Exception as e:
        if not getattr(e, '_vf_seen', False):
            w = wit() if callable(wit) else wit
            if isinstance(w, dict) and 'layout' not in w:
                w = dict(w, layout=_layout(w))
            ctx.exception(clause, w, e)
        return False, None
    prev = HELD.get(name)
    if prev is not None:
        obj, cp, pargs, pkw = prev
        ctx.check(_unchanged(obj, cp), 'earlier-result-intact-after-next-call',
                  lambda: {'fn': 'held_result', 'name': name, 'first': {'args': list(pargs), 'kwargs': pkw},
                           'second': {'args': list(args), 'kwargs': kwargs}, 'first_result_was': cp, 'first_result_now': obj},
                  'the array returned by %s changed when %s was called again' % (name, name))
    if isinstance(result, np.ndarray) and result.ndim >= 1:
        HELD[name] = (result, result.copy(), args, kwargs)
    else:
        HELD.pop(name, None)
    return True, result


def _spec_fn(eqsig, which, sc):
    ds = eqsig.design_spectra
    if which == 'c_h':
        return lambda t: float(ds.c_h_factor(float(t), sc))
    return lambda t: float(ds.sd_nzs(float(t), sc, 1.0, 1.0, 1.0))


def _jump_allowed(fa, fb):
    return O.TABLE_PRECISION * max(abs(fa), abs(fb)) + 1e-9


def find_jump(f, a, b, fa, fb, budget):
    """Search [a, b] for a sub-interval narrower than 1e-12 (relative) across which f changes by more than the table
    precision. Both halves are searched whenever the change over the interval exceeds the allowance (a smooth change
    halves with the interval and dies out after a few levels; a jump does not). Returns (a, b, fa, fb) or None."""
    if not (math.isfinite(fa) and math.isfinite(fb)):
        return (a, b, fa, fb)
    if abs(fb - fa) <= _jump_allowed(fa, fb):
        return None
    if b - a <= 2e-12 * max(1.0, abs(a)) or budget[0] <= 0:
        return (a, b, fa, fb) if b - a <= 2e-12 * max(1.0, abs(a)) else None
    m = 0.5 * (a + b)
    budget[0] -= 1
    fm = f(m)
    return find_jump(f, a, m, fa, fm, budget) or find_jump(f, m, b, fm, fb, budget)


def rel_continuity(ctx, eqsig, which, sc, a, b, clause):
    """One evaluation of the continuity clause on [a, b] for c_h_factor ('c_h') or sd_nzs with unit factors ('sd')."""
    f = _spec_fn(eqsig, which, sc)
    wit = {'fn': 'continuity', 'which': which, 'site_class': sc, 'a': a, 'b': b, 'clause': clause}
    budget = [4000]
    try:
        fa, fb = f(a), f(b)
        j = find_jump(f, a, b, fa, fb, budget)
    except Exception as e:
        ctx.exception(clause, wit, e)
        return
    if j is None and budget[0] <= 0:
        ctx.observe('continuity: bisection budget exhausted, interval not decided')
        return
    if j is not None:
        wit = dict(wit, jump_at=j[0], jump_to=j[1], f_left=j[2], f_right=j[3])
    ctx.check(j is None, clause, wit,
              '%s class %s jumps from %r at T=%r to %r at T=%r (%.2f %% > table precision 0.5 %%)'
              % ('c_h_factor' if which == 'c_h' else 'sd_nzs', sc, j[2], j[0], j[3], j[1],
                 100 * abs(j[3] - j[2]) / max(abs(j[2]), abs(j[3]), 1e-300)) if j is not None else '')


def rel_array_scalar(ctx, eqsig, arg, sc):
    """c_h_factor(container)[i] == c_h_factor(float(container[i])) for any container of real periods."""
    ds = eqsig.design_spectra
    periods = [float(t) for t in arg]
    wit = {'fn': 'c_h_array_scalar', 'periods': arg, 'container': _cont(arg), 'site_class': sc}
    okc, arr = _call(ctx, 'c_h.array==scalar', wit, ds.c_h_factor, arg, sc)
    if not okc:
        return
    sc_vals = []
    for t in periods:
        okc, v = _call(ctx, 'c_h.array==scalar', wit, ds.c_h_factor, t, sc)
        if not okc:
            return
        sc_vals.append(float(v))
    arr = np.asarray(arr, dtype=float)
    rt = 64 * EPS32 if (isinstance(arg, np.ndarray) and arg.dtype == np.float32) else RTOL
    ctx.check(arr.shape == (len(periods),) and tol.close(arr, np.array(sc_vals), rtol=rt), 'c_h.array==scalar',
              dict(wit, got_array=arr, got_scalar=np.array(sc_vals)),
              'c_h_factor(%s %s, %r) = %s but element-wise c_h_factor(float(T)) gives %s'
              % (_cont(arg), list(arg)[:8], sc, arr[:8], sc_vals[:8]))


def rel_t_eff_roundtrip(ctx, eqsig, T, sc, z, r, n, kw=False, form='float'):
    """t_eff(d_c*T/3) == T with d_c from the (monitored) sd_nzs at the corner period."""
    ds = eqsig.design_spectra
    wit = {'fn': 't_eff_roundtrip', 'T': T, 'site_class': str(sc), 'z': z, 'r': r, 'n': n, 'kw': bool(kw), 'form': form,
           'factor_forms': [_cont(v) for v in (z, r, n)]}
    f32 = form == 'float32' or any(isinstance(v, np.float32) for v in (z, r, n))
    okc, sd3 = _call(ctx, 't_eff(d_c*T/3)==T', wit, ds.sd_nzs, O.T_CORNER, sc, z, r, n)
    if not okc:
        return
    d = _to_form(O.corner_displacement(float(sd3)) * T / O.T_CORNER, form)
    if kw:
        okc, t = _call(ctx, 't_eff(d_c*T/3)==T', wit, ds.t_eff, displacement=d, site_class=sc, z_factor=z, r_factor=r,
                       n_factor=n)
    else:
        okc, t = _call(ctx, 't_eff(d_c*T/3)==T', wit, ds.t_eff, d, sc, z, r, n)
    if not okc:
        return
    try:
        t = float(t)
    except Exception:
        t = float('nan')
    ctx.check(tol.close(t, T, scale=T, rtol=64 * EPS32 if f32 else RTOL), 't_eff(d_c*T/3)==T',
              dict(wit, displacement=float(d), got=t),
              't_eff(d_c*T/3) = %r for T = %r (class %s Z=%r R=%r N=%r, d=%r as %s)' % (t, T, sc, z, r, n, d, form))


def rel_t_eff_above(ctx, eqsig, factor, sc, z, r, n):
    """Displacements above the corner must be rejected with ValueError (judged by the t_eff monitor)."""
    ds = eqsig.design_spectra
    wit = {'fn': 't_eff_above', 'factor': factor, 'site_class': str(sc), 'z': z, 'r': r, 'n': n,
           'factor_forms': [_cont(v) for v in (z, r, n)]}
    okc, sd3 = _call(ctx, 't_eff.rejects-above-corner', wit, ds.sd_nzs, O.T_CORNER, sc, z, r, n)
    if not okc:
        return
    d = O.corner_displacement(float(sd3)) * factor
    _call(ctx, 't_eff.rejects-above-corner', wit, ds.t_eff, d, sc, z, r, n)


# ============================================================================================== workload generators
NARROW = (np.int8, np.uint8, np.int16, np.uint16)


def dress(rng, a):
    """The same values in another memory layout: strided / reversed view, Fortran order, read-only (checklist line 1)."""
    if not isinstance(a, np.ndarray) or a.ndim == 0 or a.size == 0:
        return a
    r = rng.random()
    if r < 0.70:
        return a
    if r < 0.80:
        big = np.zeros((2 * a.shape[0],) + a.shape[1:], dtype=a.dtype)
        big[::2] = a
        return big[::2]
    if r < 0.87:
        return np.ascontiguousarray(a[::-1])[::-1]
    if r < 0.90 and a.ndim == 2:
        return np.asfortranarray(a)
    b = a.copy()
    if rng.random() < 0.3:
        big = np.zeros((2 * a.shape[0],) + a.shape[1:], dtype=a.dtype)
        big[::2] = a
        b = big[::2]
    b.flags.writeable = False
    return b


def int_form(rng, k, extra=()):
    """The integer k in one of its scalar forms (checklist item 28): Python int, numpy integers of every width that holds
    k + 1, integer-valued Python / numpy floats (only where `extra` asks for them), 0-d integer arrays (mutable)."""
    forms = [lambda: k, lambda: np.int64(k), lambda: np.int32(k), lambda: np.array(k), lambda: np.array(k, dtype=np.int32)]
    if k < 127:
        forms += [lambda: np.int8(k), lambda: np.uint8(k), lambda: np.array(k, dtype=np.uint8)]
    if k < 32767:
        forms += [lambda: np.int16(k), lambda: np.uint16(k)]
    if 'float' in extra:
        forms += [lambda: float(k), lambda: np.float64(k), lambda: np.float32(k), lambda: np.array(float(k)),
                  lambda: np.array(k, dtype=np.float32)]
    if 'bool' in extra and k == 1:
        forms += [lambda: True, lambda: np.True_]
    return forms[int(rng.integers(len(forms)))]()


def factor_forms(rng, z, r, n):
    """Z, R, N in another scalar form (checklist item 28): numpy float64 / float32 scalars, 0-d arrays (mutable), ints."""
    u = rng.random()
    if u < 0.80:
        return z, r, n
    if u < 0.85:
        return np.float64(z), np.float64(r), np.float64(n)
    if u < 0.90:
        return np.float32(z), np.float32(r), np.float32(n)
    if u < 0.96:
        return np.array(z), np.array(r), np.array(n)
    if u < 0.98:
        return np.array(z), r, np.float64(n)
    return z, np.float32(r), np.int64(1)


def str_form(rng, v):
    """A string option as str or (5 %) as numpy string scalar."""
    return np.str_(v) if rng.random() < 0.05 else v


def bool_series(rng, x):
    """On/off record (rectangular pulses) from the float series x: bool array, list or tuple of Python bools."""
    x = np.asarray(x, dtype=float)
    b = x > (float(np.median(x)) if rng.random() < 0.7 else float(np.min(x)))
    if rng.random() < 0.1:
        b[:] = bool(rng.integers(2))
    k = int(rng.integers(4))
    return [b, b, b.tolist(), tuple(b.tolist())][k], ['bool', 'bool', 'list-bool', 'tuple-bool'][k]


SIZES8 = [1, 2, 31, 32, 33, 63, 64, 65, 127, 128, 129, 256]      # checklist item 8: 1, 2 and around powers of two


def order_entries(rng, q):
    """The same kind of entries in another order: as drawn (unsorted), ascending, descending, with repeated entries."""
    if len(q) < 2:
        return q, 'single'
    r = rng.random()
    if r < 0.6:
        return q, 'unsorted'
    if r < 0.72:
        return np.sort(q), 'ascending'
    if r < 0.84:
        return np.sort(q)[::-1].copy(), 'descending'
    return q[rng.integers(0, len(q), size=len(q))], 'repeated'


def shape11(rng, n):
    """Series shapes the statement does not forbid (checklist items 10 and 11). Returns (float64 array, name)."""
    k = int(rng.integers(0, 13))
    t = np.arange(n, dtype=float)
    if k == 11:
        return np.zeros(n), 'silent-all-zero'
    if k == 12:
        # strictly one-signed: no zero, no sign change (either sign)
        return (np.abs(rng.normal(size=n)) + float(10.0 ** rng.uniform(-3, 1))) * float(rng.choice([-1.0, 1.0])), \
            'strictly-one-signed'
    if k == 0:
        x = np.cumsum(np.abs(rng.normal(size=n))) * float(rng.choice([-1.0, 1.0])) + float(rng.normal())
        name = 'monotone'
    elif k == 1:
        x = -np.abs(rng.normal(size=n)) - float(rng.uniform(0, 3))
        name = 'one-sided-negative'
    elif k == 2:
        x = rng.normal(size=n)
        x[rng.random(n) < 0.4] = 0.0
        name = 'zeros-inside'
    elif k == 3:
        x = float(rng.uniform(0.5, 3)) * (-1.0) ** t + (rng.normal(size=n) * 0.01 if rng.random() < 0.5 else 0.0)
        name = 'nyquist-alternating'
    elif k == 4:
        x = np.zeros(n)
        j = n - max(1, n // int(rng.integers(3, 9)))
        x[j:] = rng.normal(size=n - j) * 3
        name = 'tail-heavy'
    elif k == 5:
        # a single step between two constant levels, also at the first / last possible position
        j = int(rng.choice([1, n - 1, int(rng.integers(1, max(2, n)))])) if n > 1 else 0
        a, b = float(rng.choice([-4.0, 0.0, 1.0, 2.5])), float(rng.choice([-1.0, 0.0, 3.0, 7.25]))
        x = np.where(t < j, a, b)
        name = 'single-step-constant-sides'
    elif k == 6:
        x = np.full(n, float(rng.choice([0.0, 1.0, -2.0])))
        x[int(rng.integers(n))] += float(rng.choice([-1.0, 1.0, 5.0]))
        name = 'single-changed-sample'
    elif k == 7:
        # one sample 1e3 .. 1e12 times larger than the steps between the others (dynamic range inside the series)
        x = rng.normal(size=n)
        x[int(rng.choice([0, n - 1, int(rng.integers(n))]))] = float(rng.choice([-1.0, 1.0])) * 10.0 ** rng.uniform(3, 12)
        name = 'spike-dynamic-range'
    elif k == 8:
        x = rng.normal(size=n) * 0.2 + np.where(t < n // 2, 5.0, -5.0)
        x[0], x[-1] = 9.0, -9.0
        name = 'non-zero-ends'
    elif k == 9:
        x = np.zeros(n)
        j = int(rng.integers(n))
        x[j:] = float(rng.choice([-1.0, 1.0]))
        if rng.random() < 0.5:
            x[:j] = 0.0
        name = 'zero-then-step'
    else:
        x = np.round(rng.normal(size=n)) * 0.5
        x[:max(1, n // 3)] = 0.0
        name = 'rest-at-zero-start'
    return x, name


def extreme_scale(rng):
    """10^+-U(165, 250): every value is a normal double but a square or a product of two of them under/overflows."""
    return float(10.0 ** (rng.uniform(165, 250) * (1 if rng.random() < 0.5 else -1)))


def wide_scale(rng):
    """Overall scale: 1, a power of two, 10^U(-12, 12), or (4 %) an extreme scale."""
    u = rng.random()
    if u < 0.04:
        return extreme_scale(rng)
    if u < 0.55:
        return float(10.0 ** rng.uniform(-12, 12))
    if u < 0.65:
        return float(2.0 ** int(rng.integers(-40, 41)))
    return 1.0


def repeat_nodes(rng, nodes):
    """Some nodes repeated two or three times (a monotone, not strictly increasing node set)."""
    cnt = rng.choice([1, 1, 1, 2, 3], size=len(nodes))
    cnt[int(rng.integers(len(nodes)))] = int(rng.integers(2, 4))
    return np.repeat(nodes, cnt)


def gen_nodes(rng, m_fixed=None):
    """Strictly increasing node set (float64 or int64) and the name of its class."""
    for _ in range(20):
        m = int(rng.choice([1, 2, 3, 4, 5, 6, 7, 8], p=[.03, .17, .15, .15, .15, .15, .1, .1])) if m_fixed is None \
            else m_fixed
        k = int(rng.integers(0, 6))
        if k == 5:
            # spacing far below the magnitude of the nodes (but >= 1e3 ulp, so the nodes stay distinct)
            off = float(rng.choice([-1.0, 1.0])) * 10.0 ** rng.uniform(-2, 3)
            nodes = off + np.cumsum(rng.uniform(0.5, 2.0, size=m)) * abs(off) * 10.0 ** rng.uniform(-12, -4)
            if np.all(np.isfinite(nodes)) and (m == 1 or np.all(np.diff(nodes) > 0)):
                return nodes, 'offset-fine-spacing'
            continue
        if k == 0:
            base = np.sort(rng.uniform(-5, 5, size=m))
            name = 'sorted-random'
        elif k == 1:
            base = np.arange(m, dtype=float) * float(rng.integers(1, 5)) + float(rng.integers(-3, 4))
            name = 'integer-grid'
        elif k == 2:
            base = np.sort(10.0 ** rng.uniform(-2, 1.5, size=m))
            name = 'log-spaced'
        elif k == 3:
            base = np.cumsum(10.0 ** rng.uniform(-5, 1, size=m)) - float(rng.uniform(0, 2))
            name = 'uneven'
        else:
            a = float(rng.uniform(-3, 3))
            base = np.linspace(a, a + float(10.0 ** rng.uniform(-1, 1)), m) if m > 1 else np.array([a])
            name = 'linspace'
        s = wide_scale(rng)
        nodes = base * s
        if name == 'integer-grid' and s == 1.0 and rng.random() < 0.5:
            idt = [np.int64, np.int32][int(rng.integers(2))]
            nodes = nodes.astype(idt)
            name = 'integer-grid-' + np.dtype(idt).name
        if np.all(np.isfinite(nodes)) and (m == 1 or np.all(np.diff(nodes) > 0)):
            return nodes, name
    return np.array([0.0, 1.0, 2.0]), 'integer-grid'


def gen_queries(rng, nodes, nq=None, below=True):
    """Query points: inside, on nodes, one ulp / a hair next to nodes, bracket mid-points, below and above."""
    nf = np.asarray(nodes, dtype=float)
    m = len(nf)
    span = float(nf[-1] - nf[0]) if m > 1 else max(1.0, abs(float(nf[0])))
    if nq is None:
        nq = int(rng.choice([1, 2, 3, 4, 5, 6, 30], p=[.1, .15, .2, .2, .15, .15, .05]))
        if rng.random() < 0.1:
            nq = int(rng.choice(SIZES8))
    r_ = rng.random(nq)
    q = np.empty(nq)
    for i in range(nq):
        r = r_[i]
        if r < 0.34 and m > 1:
            j = int(rng.integers(0, m - 1))
            q[i] = rng.uniform(nf[j], nf[j + 1])
        elif r < 0.54:
            q[i] = nf[int(rng.integers(0, m))]
        elif r < 0.60:
            j = int(rng.integers(0, m))
            q[i] = np.nextafter(nf[j], np.inf if rng.random() < 0.5 else -np.inf)
        elif r < 0.66:
            # a hair (1e-9 .. 1e-15, relative or absolute) below / above a node
            j = int(rng.integers(0, m))
            h = float(10.0 ** rng.uniform(-15, -9)) * float(rng.choice([-1.0, 1.0]))
            q[i] = nf[j] * (1.0 + h) if rng.random() < 0.5 else nf[j] + h
        elif r < 0.70:
            # within 1e-9 .. 1e-3 of the span of an end node (mostly) or of any node, on either side
            j = int(rng.choice([0, m - 1, int(rng.integers(0, m))]))
            q[i] = nf[j] + float(rng.choice([-1.0, 1.0])) * span * float(10.0 ** rng.uniform(-9, -3))
        elif r < 0.74 and m > 1:
            j = int(rng.integers(0, m - 1))
            q[i] = 0.5 * (nf[j] + nf[j + 1])
        elif r < 0.87:
            q[i] = nf[0] - span * (10.0 ** rng.uniform(-3, 1))
        else:
            q[i] = nf[-1] + span * (10.0 ** rng.uniform(-3, 1))
    if not below:
        q = np.where(q < nf[0], nf[0] + (nf[0] - q) % max(span, 1e-300), q)
        q = np.maximum(q, nf[0])
    return q


def gen_table(rng, m, ncol=None):
    ncol = int(rng.integers(1, 5)) if ncol is None else ncol
    k = int(rng.integers(0, 4))
    if k == 0:
        f = rng.normal(size=(m, ncol))
    elif k == 1:
        f = rng.integers(-9, 10, size=(m, ncol)).astype(float)
    elif k == 2:
        f = np.cumsum(np.abs(rng.normal(size=(m, ncol))), axis=0)
    else:
        f = rng.normal(size=(m, ncol))
        f[:, int(rng.integers(ncol))] = float(rng.normal())
    if rng.random() < 0.02:
        return np.zeros((m, ncol)) if rng.random() < 0.5 else np.zeros((m, ncol), dtype=np.int64)     # silent table
    if k != 1 and rng.random() < 0.06:
        f = f * np.array([[extreme_scale(rng) for _ in range(ncol)]])          # extreme column scales (linear in the table)
    elif k != 1 and rng.random() < 0.5:
        f = f * 10.0 ** rng.uniform(-12, 12, size=(1, ncol))
    if k == 1 and rng.random() < 0.5:
        f = f.astype([np.int64, np.int32, np.int8][int(rng.integers(3))])
    return f


def full_range_ints(rng, dt, n, sort_unique=False):
    """Integers using most of the range of dtype dt (so that sums / differences / squares of neighbours overflow it),
    always containing values next to both ends of the range."""
    ii = np.iinfo(dt)
    v = rng.integers(ii.min, int(ii.max) + 1, size=n, dtype=np.int64)
    if n >= 2 and rng.random() < 0.7:
        v[int(rng.integers(n))] = ii.max - int(rng.integers(0, 2))
        v[int(rng.integers(n))] = ii.min + int(rng.integers(0, 2))
    if sort_unique:
        v = np.unique(v)
    return v.astype(dt)


def gen_int_nodes(rng):
    """Integer-dtype node set: int32/int64 with uneven spacing 1..4 (integer queries fall on and between nodes), or a
    narrow / unsigned dtype spanning most of its range."""
    m = int(rng.integers(1, 9))
    if rng.random() < 0.5:
        dt = NARROW[int(rng.integers(4))]
        nodes = full_range_ints(rng, dt, m, sort_unique=True)
        return nodes, 'all-integer-fullrange-' + np.dtype(dt).name
    idt = [np.int64, np.int32, np.int16, np.uint8][int(rng.integers(4))]
    nodes = (np.cumsum(rng.integers(1, 5, size=m)) + int(rng.integers(-6, 4) if np.dtype(idt).kind == 'i' else 0)).astype(idt)
    return nodes, 'all-integer-' + np.dtype(idt).name


def gen_int_queries(rng, nodes, below=True):
    ii = np.iinfo(nodes.dtype)
    lo = max(int(ii.min), int(nodes[0]) - (3 if below else 0)) if not (below and rng.random() < 0.5) else int(ii.min)
    hi = min(int(ii.max), int(nodes[-1]) + 3) if rng.random() < 0.5 else int(ii.max)
    if ii.bits >= 32:
        lo, hi = int(nodes[0]) - (3 if below else 0), int(nodes[-1]) + 3
    if not below:
        lo = max(lo, int(nodes[0]))
    nq = int(rng.integers(1, 9))
    q = rng.integers(lo, hi + 1, size=nq, dtype=np.int64)
    on = rng.random(nq) < 0.3
    q = np.where(on, nodes.astype(np.int64)[rng.integers(0, len(nodes), size=nq)], q)
    return q.astype(nodes.dtype if rng.random() < 0.7 else np.int64)


def _interp_calls(ctx, eqsig, rng, q, nodes, f, style):
    w = lambda: {'fn': 'interp2d', 'x': q, 'xf': nodes, 'f': f, 'x_container': _cont(q), 'xf_container': _cont(nodes),
                 'f_container': _cont(f)}
    c = 'interp2d.inside==columnwise-linear'
    if style == 0:
        return _call(ctx, c, w, eqsig.interp2d, q, nodes, f)
    if style == 1:
        return _call(ctx, c, w, eqsig.interp2d, x=q, xf=nodes, f=f)
    return _call(ctx, c, w, eqsig.interp2d, q, nodes, f=f)


def drive_interp(ctx, eqsig, rng, n_cases):
    for c in range(n_cases):
        all_int = rng.random() < 0.18
        if all_int:
            nodes, ncls = gen_int_nodes(rng)
        elif rng.random() < 0.1:
            nodes, ncls = gen_nodes(rng, m_fixed=int(rng.choice(SIZES8[2:])))
            ncls += '-m%d' % len(nodes)
        else:
            nodes, ncls = gen_nodes(rng)
        repeated = rng.random() < 0.06
        if repeated:
            nodes = repeat_nodes(rng, nodes)
            ncls = 'repeated-nodes-' + ('int' if all_int else 'float')
        m = len(nodes)
        f = gen_table(rng, m)
        if f.dtype.kind == 'f' and m > 1 and rng.random() < 0.08:
            # dynamic range inside the table: one row 1e3 .. 1e12 times larger than the others
            f = f.copy()
            f[int(rng.integers(m))] *= 10.0 ** rng.uniform(3, 12)
            ncls += '+bigrow' 
        if all_int:
            q = gen_int_queries(rng, nodes)
            u = rng.random()
            if u < 0.35:
                f = rng.integers(-9, 10, size=f.shape).astype([np.int64, np.int32][int(rng.integers(2))])
            elif u < 0.7:
                dt = NARROW[int(rng.integers(4))]
                f = full_range_ints(rng, dt, f.size).reshape(f.shape)
        else:
            q = gen_queries(rng, nodes)
            if nodes.dtype.kind == 'i' and rng.random() < 0.5:
                q = np.round(q).astype(np.int64)
            elif nodes.dtype.kind == 'f' and rng.random() < 0.12 and 1e-30 < float(np.max(np.abs(nodes))) < 1e30 \
                    and (f.dtype.kind != 'f' or not f.size or float(np.max(np.abs(f))) < 1e30):
                # float32 forms (all three, or only some of the arguments); not at the extreme scales
                n32 = nodes.astype(np.float32)
                if m == 1 or np.all(np.diff(n32) > 0):
                    which = int(rng.integers(0, 4))
                    if which in (0, 1):
                        nodes = n32
                        ncls += '-f32'
                    if which in (0, 2):
                        q = q.astype(np.float32)
                    if which in (0, 3):
                        f = f.astype(np.float32)
        q, qorder = order_entries(rng, q)
        ctx.observe('interp queries: ' + qorder)
        if not repeated and m > 1 and rng.random() < 0.02:
            # the same table written from the largest node down (information only: the library does not handle it)
            nodes, f = np.ascontiguousarray(nodes[::-1]), np.ascontiguousarray(f[::-1])
            ncls = 'decreasing-nodes' 
        q, nodes, f = dress(rng, q), dress(rng, nodes), dress(rng, f)
        nf = np.asarray(nodes, dtype=float)
        qf = np.asarray(q, dtype=float)
        inside = bool(np.any((qf > nf[0]) & (qf < nf[-1]) & ~np.isin(qf, nf)))
        nontriv = inside and bool(np.any(np.ptp(np.asarray(f, dtype=float), axis=0) > 0))
        ctx.case(core.digest('interp', np.asarray(q), np.asarray(nodes), np.asarray(f)), nontrivial=nontriv,
                 cls='interp-' + ncls,
                 sample={'fn': 'interp2d+interp_left', 'nodes': nodes, 'queries': q[:6], 'table_shape': list(f.shape),
                         'dtypes': [str(q.dtype), str(nodes.dtype), str(f.dtype)]})
        _interp_calls(ctx, eqsig, rng, q, nodes, f, int(rng.integers(3)))
        u = rng.random()
        if u < 0.12 and ncls != 'decreasing-nodes':
            # the docstring calls x and f array_like: queries / nodes as Python lists and tuples (judged like arrays)
            lt = lambda a: (np.asarray(a).tolist() if rng.random() < 0.5 else tuple(np.asarray(a).tolist()))
            k = int(rng.integers(3))
            q_c = lt(q) if k in (0, 2) else q
            n_c = lt(nodes) if k in (1, 2) else nodes
            _interp_calls(ctx, eqsig, rng, q_c, n_c, f, int(rng.integers(3)))
        elif u < 0.135 and not repeated and ncls != 'decreasing-nodes':
            # the table as a nested list / tuple of rows (TypeError before fix F42)
            f_c = np.asarray(f).tolist() if rng.random() < 0.6 else tuple(tuple(r_) for r_ in np.asarray(f).tolist())
            _interp_calls(ctx, eqsig, rng, q, nodes, f_c, int(rng.integers(3)))
        if c % 6 == 0:
            # a second, different input of the same shape right away (the first result is re-checked by _call)
            f2 = np.ascontiguousarray(np.asarray(f)[::-1]) + (1 if np.asarray(f).dtype.kind == 'f' else 0)
            q2 = np.ascontiguousarray(np.asarray(q)[::-1])
            _interp_calls(ctx, eqsig, rng, q2, nodes, f2, 0)
        if c % 9 == 0:
            # the node array itself as the query array (one object for two parameters)
            _interp_calls(ctx, eqsig, rng, nodes, nodes, f, int(rng.integers(2)))
        # left interpolation on the same node set (queries at or above the first node)
        gnodes = np.ascontiguousarray(np.asarray(nodes)[::-1]) if ncls == 'decreasing-nodes' else nodes
        ql = gen_int_queries(rng, gnodes, below=False) if all_int else gen_queries(rng, gnodes, below=False)
        ql = order_entries(rng, ql)[0]
        if not all_int and nodes.dtype == np.float32:
            ql = np.maximum(ql.astype(np.float32), nodes[0])
        yk = int(rng.integers(0, 7))
        if rng.random() < 0.03:
            yk = 7
        y = [rng.normal(size=m), rng.integers(-9, 10, size=m), rng.normal(size=m).tolist(), None,
             rng.integers(-9, 10, size=m).tolist(), rng.normal(size=m).astype(np.float32),
             full_range_ints(rng, NARROW[int(rng.integers(4))], m), [np.zeros(m), [0] * m, (0.0,) * m][int(rng.integers(3))]][yk]
        if rng.random() < 0.04:
            # on / off state per node (bool values): bool array, list of Python bools
            y = rng.random(m) < 0.5
            y = y if rng.random() < 0.6 else y.tolist()
            ctx.observe('interp_left: bool values y')
        y = dress(rng, y)
        xk = int(rng.integers(0, 4))
        xarg = [nodes, np.asarray(nodes).tolist(), nodes, tuple(np.asarray(nodes).tolist())][xk]
        u = rng.random()
        qarg = dress(rng, ql) if u < 0.6 else (ql.tolist() if u < 0.85 else tuple(ql.tolist()))
        wl = lambda: {'fn': 'interp_left', 'x0': qarg, 'x0_container': _cont(qarg), 'x': xarg, 'x_container': _cont(xarg),
                      'y': y, 'y_container': _cont(y)}
        if rng.random() < 0.7:
            _call(ctx, 'interp_left==value-at-greatest-node<=q', wl, eqsig.interp_left, qarg, xarg, y)
        else:
            _call(ctx, 'interp_left==value-at-greatest-node<=q', wl, eqsig.interp_left, x0=qarg, x=xarg, y=y)
        if y is not None:
            w2 = lambda: dict(wl(), y=None, y_container='NoneType')
            if rng.random() < 0.5:
                _call(ctx, 'interp_left.y=None->node-index', w2, eqsig.interp_left, qarg, xarg)
            else:
                _call(ctx, 'interp_left.y=None->node-index', w2, eqsig.interp_left, qarg, xarg, y=None)
        s = ql[int(rng.integers(len(ql)))]
        if all_int:
            s = [int(s), np.int64(s), float(s), nodes.dtype.type(s), np.float32(s) if abs(int(s)) < 2 ** 24 else int(s),
                 np.int32(s) if abs(int(s)) < 2 ** 31 else int(s)][int(rng.integers(6))]
        else:
            s = [float(s), np.float64(s), float(s)][int(rng.integers(3))]
            s32 = np.float32(s)
            if rng.random() < 0.25 and np.isfinite(s32) and float(s32) >= float(nf[0]) and (s32 != 0 or s == 0):
                s = s32                                       # a float32 scalar query (its exact value is the query)
        _call(ctx, 'interp_left.scalar-query', lambda: dict(wl(), x0=s, x0_container=_cont(s)),
              eqsig.interp_left, s, xarg, y)
        if c % 40 == 3:
            # the scalar query as a 0-d array (scalar form of checklist item 28; the clean tree raises TypeError: routed)
            s0 = np.array(float(s))
            _call(ctx, 'interp_left.scalar-query', lambda: dict(wl(), x0=s0, x0_container='ndarray'),
                  eqsig.interp_left, s0, xarg, y)
        if c % 9 == 1 and isinstance(xarg, np.ndarray):
            # one object as queries, nodes and values
            _call(ctx, 'interp_left==value-at-greatest-node<=q',
                  lambda: {'fn': 'interp_left', 'x0': xarg, 'x0_container': 'ndarray', 'x': xarg, 'x_container': 'ndarray',
                           'y': xarg, 'y_container': 'ndarray'}, eqsig.interp_left, xarg, xarg, xarg)
        if c % 25 == 0 and m > 1:
            # information only: a query below the first node is rejected
            _call(ctx, 'interp_left.scalar-query', None, eqsig.interp_left, float(nf[0] - (nf[-1] - nf[0])), xarg, y)


def drive_interp_long(ctx, eqsig, rng):
    """A few inputs past 2**16 (checklist line 6): many queries on a small table / a few queries on a long node set."""
    kind = ctx.shard % 4
    n = 2 ** 16 + int(rng.integers(1, 6))
    if kind == 0:
        nodes, _ = gen_nodes(rng)
        f = gen_table(rng, len(nodes), ncol=2)
        q = gen_queries(rng, nodes, nq=n)
        ctx.case(core.digest('interp-long-q', q, nodes, f), cls='interp-long-queries')
        _interp_calls(ctx, eqsig, rng, q, nodes, f, 0)
    elif kind == 1:
        nodes = np.cumsum(rng.uniform(0.1, 2.0, size=n)) * wide_scale(rng)
        f = gen_table(rng, n, ncol=1)
        q = gen_queries(rng, nodes, nq=6)
        ctx.case(core.digest('interp-long-n', q, nodes, f), cls='interp-long-nodes')
        _interp_calls(ctx, eqsig, rng, q, nodes, f, 1)
    elif kind == 2:
        nodes = np.cumsum(rng.integers(1, 4, size=n))
        ql = gen_queries(rng, nodes, nq=8, below=False)
        y = rng.normal(size=n)
        ctx.case(core.digest('left-long-n', ql, nodes), cls='interp_left-long-nodes')
        _call(ctx, 'interp_left==value-at-greatest-node<=q',
              lambda: {'fn': 'interp_left', 'x0': ql, 'x0_container': 'ndarray', 'x': nodes, 'x_container': 'ndarray',
                       'y': y, 'y_container': 'ndarray'}, eqsig.interp_left, ql, nodes, y)
    else:
        nodes, _ = gen_nodes(rng)
        ql = gen_queries(rng, nodes, nq=n, below=False)
        ctx.case(core.digest('left-long-q', ql, nodes), cls='interp_left-long-queries')
        _call(ctx, 'interp_left.y=None->node-index',
              lambda: {'fn': 'interp_left', 'x0': ql, 'x0_container': 'ndarray', 'x': nodes, 'x_container': 'ndarray',
                       'y': None, 'y_container': 'NoneType'}, eqsig.interp_left, ql, nodes)


def drive_big_products(ctx, eqsig, rng):
    """Sizes whose product passes 2**22 where the function builds a matrix (checklist item 8)."""
    k = 2049
    if ctx.shard % 2 == 0:
        nodes = np.cumsum(rng.uniform(0.1, 2.0, size=k)) * wide_scale(rng)
        f = gen_table(rng, k, ncol=1)
        q = order_entries(rng, gen_queries(rng, nodes, nq=k))[0]
        ctx.case(core.digest('interp-product', q, nodes, f), cls='interp-product-2049x2049')
        _interp_calls(ctx, eqsig, rng, q, nodes, f, 0)
    else:
        x, cls = gen_step_series(rng, k) if rng.random() < 0.5 else shape11(rng, k)
        p = 1 + int(rng.integers(2))
        ctx.case(core.digest('stepfit-product', x, p), cls='stepfit-product-2049x2049')
        _call(ctx, 'stepfit.error(p=%d)==sum|dev|%s' % (p, '' if p == 1 else '^2'),
              lambda: {'fn': 'calc_step_fn_vals_error', 'values': x, 'container': 'ndarray', 'pow': p},
              eqsig.calc_step_fn_vals_error, x, p)


SPECIAL_N = [1, 2, 3, 4, 5, 7, 8, 9, 15, 16, 17, 31, 32, 33, 63, 64, 65, 127, 128, 129, 255, 256, 257, 511, 512, 513]


def shape_series(rng, x):
    """Plateaus at the start / end, the extreme at the first / last sample (checklist line 6)."""
    n = len(x)
    u = rng.random()
    if n < 2 or u < 0.75:
        return x, ''
    x = x.copy()
    if u < 0.82:
        k = int(rng.integers(1, n))
        x[:k] = x[k - 1]
        return x, '+flatstart'
    if u < 0.89:
        k = int(rng.integers(1, n))
        x[-k:] = x[-k]
        return x, '+flatend'
    big = (np.max(np.abs(x)) + 1.0) * float(rng.choice([-3.0, 3.0]))
    if u < 0.95:
        x[0] = big
        return x, '+extreme-first'
    x[-1] = big
    return x, '+extreme-last'


def series_container(rng, x, float_only=False):
    """The same numbers (integers rounded) in one of the argument forms; integer forms of narrow dtypes use most of the
    range of the dtype. float_only: float64 array, list or tuple (extreme scales)."""
    k = int(rng.integers(0, 14))
    if float_only:
        k = [0, 8, 9][int(rng.integers(3))]
    if k <= 2:
        return np.array(x, dtype=float), 'f64'
    if k == 3:
        return np.array(x, dtype=np.float32), 'f32'
    if k == 4:
        return np.array(np.round(x), dtype=np.int64) if np.max(np.abs(x)) < 9e18 else np.array(x, dtype=float), 'i64'
    if k == 5:
        return np.array(np.clip(np.round(x), -2e9, 2e9), dtype=np.int32), 'i32'
    if k in (6, 7):
        dt = NARROW[int(rng.integers(4))]
        return full_range_ints(rng, dt, len(x)), np.dtype(dt).name + '-fullrange'
    if k == 8:
        return [float(v) for v in x], 'list'
    if k == 9:
        return tuple(float(v) for v in x), 'tuple'
    if k == 10:
        return [int(v) for v in np.clip(np.round(x), -1e15, 1e15)], 'list-int'
    if k == 11:
        return [int(round(v)) if i % 2 and abs(v) < 1e15 else float(v) for i, v in enumerate(x)], 'list-mixed'
    if k == 12:
        return tuple(int(v) for v in np.clip(np.round(x), -1e15, 1e15)), 'tuple-int'
    dt = [np.int8, np.uint8, np.int16][int(rng.integers(3))]
    ii = np.iinfo(dt)
    return np.array(np.clip(np.round(x), ii.min, ii.max), dtype=dt), np.dtype(dt).name


def gen_roll_series(rng, n):
    u = rng.random()
    if u < 0.07:
        # extreme scales (the rolling average is linear in the series): uniformly tiny / huge, extreme dynamic range, ripple
        # on a large baseline, counts above 2**24 - kept in float64 / list / tuple containers
        x, cls = gen.record(rng, n, amp=1.0) if rng.random() < 0.7 else shape11(rng, n)
        if u < 0.03:
            return x * extreme_scale(rng), cls + '/extreme-scale'
        x, sfx = gen.special_scale(rng, x)
        return x, cls + '/extreme-scale' + sfx
    amp = float(10.0 ** rng.uniform(-12, 12)) if rng.random() < 0.25 else None
    if rng.random() < 0.15:
        x, cls = shape11(rng, n)
        return x * (amp or 1.0), 'shape11+' + cls
    x, cls = gen.record(rng, n, amp=amp)
    if rng.random() < 0.08:
        # a small signal on a large offset
        x = x * 10.0 ** rng.uniform(-8, -3) + float(rng.choice([-1.0, 1.0])) * 10.0 ** rng.uniform(0, 6)
        cls += '+offset'
    x, tag = shape_series(rng, x)
    return x, cls + tag


def _roll_call(ctx, eqsig, rng, cont, steps, sarg, mode):
    w = lambda: {'fn': 'calc_roll_av_vals', 'values': cont, 'container': _cont(cont), 'steps': steps,
                 'steps_form': _cont(sarg), 'mode': str(mode)}
    clause = 'rollav.%s==window-mean' % ('centre' if mode == 'center' else mode)
    style = int(rng.integers(0, 4))
    if mode == 'forward' and style == 0:
        return _call(ctx, clause, w, eqsig.calc_roll_av_vals, cont, sarg)
    if style == 1:
        return _call(ctx, clause, w, eqsig.calc_roll_av_vals, cont, sarg, mode)
    if style == 2:
        return _call(ctx, clause, w, eqsig.calc_roll_av_vals, values=cont, steps=sarg, mode=mode)
    return _call(ctx, clause, w, eqsig.calc_roll_av_vals, cont, steps=sarg, mode=mode)


def drive_rollav(ctx, eqsig, rng, n_cases):
    for c in range(n_cases):
        u = rng.random()
        if u < 0.78:
            n = int(rng.integers(1, 41))
        elif u < 0.93:
            n = int(rng.choice(SPECIAL_N))
        else:
            n = int(rng.integers(41, 401))
        x, cls = gen_roll_series(rng, n)
        cont, kind = series_container(rng, x, float_only='/extreme-scale' in cls)
        if '/extreme-scale' in cls:
            ctx.observe('rollav series at an extreme scale')
        if '/extreme-scale' not in cls and rng.random() < 0.05:
            cont, kind = bool_series(rng, x)
            cls = 'bool-onoff'
        cont = dress(rng, cont)
        steps = int(rng.integers(1, n + 1))
        if n > 60:
            steps = int(rng.choice([1, 2, 3, 5, 8, 16, 33, n]))
        if rng.random() < 0.15:
            steps = min(n, [1, 2, n, max(1, n - 1)][int(rng.integers(4))])
        arr = np.asarray(cont)
        nontriv = steps > 1 and len(set(arr.tolist())) > 1
        ctx.case(core.digest('rollav', arr, steps), nontrivial=nontriv,
                 cls='rollav-%s-%s' % ('ints' if kind.endswith('fullrange') else cls.split('+')[0], kind),
                 sample={'fn': 'calc_roll_av_vals', 'n': n, 'class': cls, 'container': kind, 'steps': steps,
                         'head': arr[:8]})
        ctx.observe('rollav series shape: ' + (cls.split('+', 1)[1] if '+' in cls else 'plain'))
        v = rng.random()
        sarg = steps if v < 0.6 else int_form(rng, steps, extra=('float', 'bool'))
        if not isinstance(sarg, int) or isinstance(sarg, bool):
            ctx.observe('rollav window form: %s%s' % (_cont(sarg), ' 0-d ' + str(sarg.dtype) if isinstance(sarg, np.ndarray) else ''))
        if v > 0.95:
            # the window size recovered from a quotient of floats, the way a caller computes it from a duration and a time
            # step: dt/(dt/k) is k or a hair off; a non-integer width is outside "window sizes 1..len" (counted only)
            d = gen.awkward_dt(rng, steps)
            sarg = d / (d / steps)
            ctx.observe('rollav: window from a float quotient, %s' % ('integer-valued' if sarg == steps else 'a hair off'))
        for mode in MODES:
            _roll_call(ctx, eqsig, rng, cont, steps, sarg, str_form(rng, mode))
        if c % 6 == 0 and n > 1:
            # a different input of the same shape and dtype right after (first results are re-checked by _call)
            other = np.ascontiguousarray(arr[::-1])
            _roll_call(ctx, eqsig, rng, other, steps, steps, MODES[int(rng.integers(4))])


def drive_rollav_all_widths(ctx, eqsig, rng):
    """EVERY window width w = 1..min(len, 40) in every mode on two records per shard (one of at least 40 samples, one
    shorter): the placement of the centred window must follow one convention for all even and odd widths."""
    total = 0
    for n in (int(rng.integers(40, 46)), int(rng.integers(5, 40))):
        x, cls = gen.record(rng, n, cls=['noise', 'walk', 'intnoise', 'quake'][int(rng.integers(4))], amp=1.0)
        if len(set(x.tolist())) < 3:
            x = rng.normal(size=n)
        cont = [x, x.tolist(), np.round(x * 7).astype(np.int64)][int(rng.integers(3))]
        for w in range(1, min(n, 40) + 1):
            for mode in MODES:
                _roll_call(ctx, eqsig, rng, cont, w, w, mode)
            total += 1
        ctx.sample({'fn': 'calc_roll_av_vals', 'n': n, 'class': cls, 'steps': 'every width 1..%d' % min(n, 40),
                    'modes': list(MODES)})
    ctx.cases_enumerated(total, total, cls='rollav-every-width-1..40')
    ctx.exhaustive['rollav_every_width_x_record'] = total


def drive_rollav_long(ctx, eqsig, rng):
    """One series past 2**16 per shard: integer-valued (exact O(n) oracle), any window incl. 1, 2**16 and n."""
    n = 2 ** 16 + int(rng.integers(1, 6))
    k = ctx.shard % 4
    if k == 0:
        x = rng.integers(-9, 10, size=n).astype(float)
    elif k == 1:
        x = np.repeat(rng.integers(-3, 4, size=n // 50 + 1), 50)[:n].astype(np.int64)
    elif k == 2:
        x = full_range_ints(rng, np.int16, n)
    else:
        x = np.round(rng.normal(size=n) * 1e6)
    steps = int([7, 2 ** 16, n, 1, n // 3, 1000, 2, 2 ** 16 + 1][int(rng.integers(8))])
    ctx.case(core.digest('rollav-long', x, steps), cls='rollav-long-' + str(x.dtype),
             sample={'fn': 'calc_roll_av_vals', 'n': n, 'steps': steps, 'dtype': str(x.dtype)})
    for mode in ('forward', 'backward', 'centre'):
        _roll_call(ctx, eqsig, rng, x, steps, steps, mode)


def gen_step_series(rng, n):
    k = int(rng.integers(0, 8))
    if k <= 2:      # noise around a positive / negative / zero level
        x = rng.normal(size=n) + [3.0, -3.0, 0.0][k]
        cls = ['positive', 'negative', 'mixed'][k]
    elif k == 3:    # a real step (the use case) with noise, either sign
        x = rng.normal(size=n) * 0.3
        j = int(rng.integers(0, n))
        x[j:] += float(rng.choice([-4.0, -1.0, 1.0, 4.0]))
        x += float(rng.choice([-5.0, 0.0, 5.0]))
        cls = 'step'
    elif k == 4:
        x, c = gen.record(rng, n, amp=1.0)
        cls = 'record-' + c
    elif k == 5:    # all-negative with large spread
        x = -np.abs(rng.normal(size=n)) * 10.0 - 0.5
        cls = 'negative'
    elif k == 6:    # few levels
        x = rng.choice(np.array([-2.0, -1.0, 0.0, 1.0, 4.0]), size=n)
        cls = 'levels'
    else:           # noise on a large offset (judged relative to the global scale of the series)
        x = rng.normal(size=n) + float(rng.choice([-1.0, 1.0])) * 10.0 ** rng.uniform(1, 6)
        cls = 'offset'
    x, tag = shape_series(rng, x)
    return x, cls + tag


def drive_stepfit(ctx, eqsig, rng, n_cases):
    for c in range(n_cases):
        u = rng.random()
        if u < 0.80:
            n = int(rng.integers(2, 31))
        elif u < 0.93:
            n = int(rng.choice([2, 3, 4, 5, 7, 8, 9, 15, 16, 17, 31, 32, 33, 63, 64, 65, 127, 128, 129]))
        elif u < 0.995:
            n = int(rng.integers(31, 121))
        else:
            n = int(rng.choice([255, 256, 257, 511, 512, 513]))
        if rng.random() < 0.25:
            x, cls = shape11(rng, n)
            cls = 'shape11-' + cls
        else:
            x, cls = gen_step_series(rng, n)
        extreme = rng.random() < 0.06
        if extreme:
            if rng.random() < 0.4:
                x = x * extreme_scale(rng)
            else:
                x = gen.special_scale(rng, x)[0]
            cls += '/extreme-scale'
            ctx.observe('stepfit series at an extreme scale')
        u = rng.random()
        if extreme:
            vals = np.array(x, dtype=float)
            kind = 'float64'
            if rng.random() < 0.3:
                vals, kind = vals.tolist(), 'list-float'
        elif u < 0.36:
            v = rng.random()
            if v < 0.55:
                dt = [np.int64, np.int64, np.int32][int(rng.integers(3))]
                vals = np.round(x * (1.0 if np.max(np.abs(x)) > 2 else 3.0)).astype(dt)
                if rng.random() < 0.15 and np.all(vals >= 0):
                    vals = vals.astype(np.uint16)
                kind = str(vals.dtype)
            elif v < 0.75:
                # narrow / unsigned dtype, small values: the errors fit the dtype (truncation regime of K5)
                dt = NARROW[int(rng.integers(4))]
                small = np.clip(np.round(x), -3, 3) + (4 if np.dtype(dt).kind == 'u' else 0)
                vals = small[:min(n, 6)].astype(dt) if np.dtype(dt).itemsize == 1 else small.astype(dt)
                kind = str(vals.dtype) + '-small'
            else:
                # values using most of the dtype's range: the errors do not fit it (overflow regime of K5)
                dt = [np.int8, np.uint8, np.int16, np.uint16, np.int32, np.uint32][int(rng.integers(6))]
                vals = full_range_ints(rng, dt, n)
                kind = str(vals.dtype) + '-fullrange'
            if kind in ('int64', 'int32') and rng.random() < 0.3:
                vals = [int(t) for t in vals.tolist()]
                kind = 'list-int'
        else:
            if rng.random() < 0.3:
                x = x * 10.0 ** rng.uniform(-12, 12)
            vals = np.array(x, dtype=float)
            kind = 'float64'
            v = rng.random()
            if v < 0.2:
                vals = vals.tolist()
                kind = 'list-float'
            elif v < 0.3:
                vals = tuple(vals.tolist())
                kind = 'tuple-float'
            elif v < 0.45 and 1e-15 < float(np.max(np.abs(vals))) and n * float(np.max(np.abs(vals))) ** 2 < 1e36:
                # float32 only where n*max|x|^2 stays inside the float32 range (the result array is float32)
                vals = vals.astype(np.float32)
                kind = 'float32'
            elif v < 0.5:
                vals = [int(round(t)) if i % 2 and abs(t) < 1e15 else float(t) for i, t in enumerate(vals.tolist())]
                kind = 'list-mixed'
        vals = dress(rng, vals)
        arr = np.asarray(vals)
        n = len(arr)
        nontriv = len(set(arr.tolist())) > 1
        ctx.case(core.digest('stepfit', arr), nontrivial=nontriv, cls='stepfit-%s-%s' % (cls.split('+')[0], kind),
                 sample={'fn': 'calc_step_fn_vals_error+calc_step_fn_steps_vals', 'n': n, 'class': cls, 'dtype': kind,
                         'head': arr[:8]})
        for p in (1, 2):
            clause = 'stepfit.error(p=%d)==sum|dev|%s' % (p, '' if p == 1 else '^2')
            style = int(rng.integers(0, 5))
            parg = p if rng.random() < 0.75 else int_form(rng, p, extra=('float',))
            if parg is not p:
                ctx.observe('stepfit pow form: %s%s' % (_cont(parg), ' 0-d ' + str(parg.dtype) if isinstance(parg, np.ndarray) else ''))
            w = lambda: {'fn': 'calc_step_fn_vals_error', 'values': vals, 'container': _cont(vals), 'pow': p,
                         'pow_form': _cont(parg)}
            if p == 1 and style == 0:
                _call(ctx, clause, w, eqsig.calc_step_fn_vals_error, vals)
            elif style == 1:
                _call(ctx, clause, w, eqsig.calc_step_fn_vals_error, vals, parg)
            elif style == 2:
                _call(ctx, clause, w, eqsig.calc_step_fn_vals_error, vals, parg, None)
            elif style == 3:
                _call(ctx, clause, w, eqsig.calc_step_fn_vals_error, values=vals, pow=parg, dir=None)
            else:
                _call(ctx, clause, w, eqsig.calc_step_fn_vals_error, vals, pow=parg)
        if c % 6 == 0:
            other = np.ascontiguousarray(arr[::-1])
            _call(ctx, 'stepfit.error(p=1)==sum|dev|',
                  lambda: {'fn': 'calc_step_fn_vals_error', 'values': other, 'container': 'ndarray', 'pow': 1},
                  eqsig.calc_step_fn_vals_error, other)
        if n >= 3:
            for ind in set([1, n - 2, int(rng.integers(1, n - 1))]):
                w = lambda: {'fn': 'calc_step_fn_steps_vals', 'values': vals, 'container': _cont(vals), 'ind': ind}
                v = rng.random()
                if v < 0.55:
                    _call(ctx, 'stepfit.levels==side-means', w, eqsig.calc_step_fn_steps_vals, vals, ind)
                elif v < 0.8:
                    iarg = int_form(rng, ind)
                    ctx.observe('stepfit ind form: %s%s' % (_cont(iarg), ' 0-d ' + str(iarg.dtype) if isinstance(iarg, np.ndarray) else ''))
                    _call(ctx, 'stepfit.levels==side-means', lambda: dict(w(), ind_form=_cont(iarg)),
                          eqsig.calc_step_fn_steps_vals, vals, iarg)
                else:
                    _call(ctx, 'stepfit.levels==side-means', w, eqsig.calc_step_fn_steps_vals, values=vals, ind=ind)
            if c % 4 == 0:
                _call(ctx, 'stepfit.levels==side-means',
                      lambda: {'fn': 'calc_step_fn_steps_vals', 'values': vals, 'container': _cont(vals), 'ind': None},
                      eqsig.calc_step_fn_steps_vals, vals)
        if c % 12 == 5:
            # on / off record (bool dtype): the levels are the fractions of 'on' samples of each side; the error function
            # returns a bool array there (mechanism of the open finding, counted only). And a one-sample series: no split
            # exists, the single entry is the whole-series error 0
            bv, bk = bool_series(rng, arr.astype(float))
            ctx.case(core.digest('stepfit-bool', np.asarray(bv)), nontrivial=len(set(np.asarray(bv).tolist())) > 1,
                     cls='stepfit-bool-onoff-' + bk)
            _call(ctx, 'stepfit.error(p=1)==sum|dev|',
                  lambda: {'fn': 'calc_step_fn_vals_error', 'values': bv, 'container': _cont(bv), 'pow': 1},
                  eqsig.calc_step_fn_vals_error, bv)
            if n >= 3:
                ib = int(rng.integers(1, n - 1))
                _call(ctx, 'stepfit.levels==side-means',
                      lambda: {'fn': 'calc_step_fn_steps_vals', 'values': bv, 'container': _cont(bv), 'ind': ib},
                      eqsig.calc_step_fn_steps_vals, bv, ib)
            one = [np.array([float(arr[0])]), [float(arr[0])], np.array([int(round(float(arr[0]))) % 100]), (float(arr[-1]),),
                   np.array([float(arr[0])], dtype=np.float32)][int(rng.integers(5))]
            p1 = 1 + int(rng.integers(2))
            ctx.case(core.digest('stepfit-one-sample', np.asarray(one), p1), nontrivial=False, cls='stepfit-one-sample')
            _call(ctx, 'stepfit.no-split-entry==whole-series-error',
                  lambda: {'fn': 'calc_step_fn_vals_error', 'values': one, 'container': _cont(one), 'pow': p1},
                  eqsig.calc_step_fn_vals_error, one, p1)
        if c % 10 == 0:
            # information only: the direction penalty is not part of the statement
            _call(ctx, 'stepfit.error(p=1)==sum|dev|', None, eqsig.calc_step_fn_vals_error, vals, 1,
                  ['up', 'down'][int(rng.integers(2))])


def gen_period(rng, sc):
    r = rng.random()
    if r < 0.05:
        return 0.0
    if r < 0.30:
        b = float(rng.choice(O.BOUNDARIES[sc]))
        if rng.random() < 0.35:
            return float(b * (1.0 + float(rng.choice([-1.0, 1.0])) * float(10.0 ** rng.uniform(-12, -3))))
        return float(b * (1.0 + float(rng.choice([-1e-12, 0.0, 1e-12, -1e-6, 1e-6]))))
    if r < 0.76:
        return float(rng.uniform(0, 6))
    if r < 0.80:
        # a boundary recovered from a float quotient: (b/k)*k or b/k added k times (a hair off b, or b itself)
        b = float(rng.choice(O.BOUNDARIES[sc]))
        k = int(rng.choice([3, 7, 11, 49, 93]))
        return float((b / k) * k) if rng.random() < 0.5 else float(math.fsum([b / k] * k) if rng.random() < 0.3 else sum([b / k] * k))
    if r < 0.95:
        return float(10.0 ** rng.uniform(-9, 3))
    return float(rng.choice([0.05, 0.2, 0.5, 0.75, 1.0, 2.0, 3.0, 4.0, 10.0]))


INT_PERIODS = [0, 1, 2, 3, 4, 5, 6, 10]


def gen_period_container(rng, sc):
    """A container of 1..8 periods in the forms c_h_factor accepts: float / integer arrays (any width, also values near
    the top of a narrow dtype's range, whose squares overflow it), lists, tuples, mixed."""
    n = int(rng.integers(1, 9)) if rng.random() < 0.85 else int(rng.choice(SIZES8))
    k = int(rng.integers(0, 12))
    fl = [gen_period(rng, sc) for _ in range(n)]
    o = rng.random()
    if o < 0.1:
        fl = sorted(fl)
    elif o < 0.2:
        fl = sorted(fl, reverse=True)
    elif o < 0.3:
        fl = [fl[int(j)] for j in rng.integers(0, n, size=n)]
    it = [int(v) for v in rng.choice(INT_PERIODS, size=n, p=[.06, .22, .2, .2, .1, .1, .06, .06])]
    if rng.random() < 0.03:
        fl, it = [0.0] * n, [0] * n                                   # every period zero
    if k == 0:
        return dress(rng, np.array(fl, dtype=float)), 'f64-array'
    if k == 1:
        return fl, 'float-list'
    if k == 2:
        return tuple(fl), 'float-tuple'
    if k == 3:
        return it, 'int-list'
    if k == 4:
        return tuple(it), 'int-tuple'
    if k == 5:
        a = int(rng.integers(0, 3))
        return np.arange(a, a + n), 'arange'
    if k == 6:
        dt = [np.int32, np.int64, np.uint8, np.int16, np.int8, np.uint16][int(rng.integers(6))]
        return dress(rng, np.array(it, dtype=dt)), 'int-array-' + np.dtype(dt).name
    if k == 7:
        return [it[i] if rng.random() < 0.5 else fl[i] for i in range(n)], 'mixed-list'
    if k == 8:
        return [np.int64(v) for v in it], 'numpy-int-list'
    if k == 9:
        dt = NARROW[int(rng.integers(4))]
        ii = np.iinfo(dt)
        v = rng.integers(0, int(ii.max) + 1, size=n, dtype=np.int64)
        v[int(rng.integers(n))] = ii.max
        return dress(rng, v.astype(dt)), 'int-array-fullrange-' + np.dtype(dt).name
    if k == 10:
        return dress(rng, np.array(fl, dtype=np.float32)), 'f32-array'
    return [float(v) for v in it], 'integer-valued-float-list'


def gen_factors(rng):
    """Z, R, N in their NZS 1170.5 ranges; a fifth of the cases at the ends of the ranges and in the region Z*R > 0.7
    (where the code allows a cap that the three functions must treat alike) or exactly at Z*R = 0.7."""
    if rng.random() < 0.2:
        z, r = [(0.6, 1.8), (0.6, 1.3), (0.5, 1.4), (0.13, 0.25), (0.13, 1.8), (0.6, 0.25), (0.45, 1.8), (0.39, 1.8)][
            int(rng.integers(8))]
        return z, r, float(rng.choice([1.0, 1.72, 1.36]))
    if rng.random() < 0.06:
        h = lambda: float(10.0 ** rng.uniform(-9, -3))
        return (float(rng.choice([0.13 * (1 + h()), 0.6 * (1 - h())])), float(rng.choice([0.25 * (1 + h()), 1.8 * (1 - h())])),
                float(rng.choice([1.0 + h(), 1.72 * (1 - h())])))
    return float(rng.uniform(0.13, 0.6)), float(rng.uniform(0.25, 1.8)), float(rng.uniform(1.0, 1.72))


def drive_spectra_random(ctx, eqsig, rng, n_cases):
    ds = eqsig.design_spectra
    # degenerate period containers (checklist item 30): the only period is T = 0, in every container / dtype form
    for sc in SITE_CLASSES:
        for arg in ([0], [0.0], (0,), (0.0,), np.array([0]), np.array([0.0]), np.zeros(1, dtype=np.float32),
                    np.zeros(1, dtype=np.uint8), [np.float64(0.0)], [0, 0]):
            rel_array_scalar(ctx, eqsig, arg, sc)
    ctx.cases_enumerated(30, 0, cls='spectra-container-only-T=0')
    for c in range(n_cases):
        sc = SITE_CLASSES[int(rng.integers(3))]
        T = gen_period(rng, sc)
        z, r, n = gen_factors(rng)
        ctx.observe('spectra factors: Z*R %s 0.7' % ('>' if z * r > 0.7 else ('==' if z * r == 0.7 else '<')))
        u = rng.random()
        if u < 0.1:
            z, r, n = 1.0, 1.0, 1.0
        elif u < 0.15:
            z, r, n = 1, 1, 1                     # Python ints
        elif u < 0.2:
            n = 1                                  # N = 1 exactly (lower end of its range)
        z, r, n = factor_forms(rng, z, r, n)
        ctx.case(core.digest('spectra', sc, T, float(z), float(r), float(n), _cont(z), _cont(r), _cont(n)), nontrivial=T > 0,
                 cls='spectra-%s' % sc,
                 sample={'fn': 'c_h_factor+sd_nzs+t_eff', 'site_class': sc, 'T': T, 'Z': float(z), 'R': float(r), 'N': float(n),
                         'factor_forms': [_cont(z), _cont(r), _cont(n)]})
        sc = str_form(rng, sc)
        targ = T if rng.random() < 0.5 else np.float64(T)
        wc = {'fn': 'c_h_factor', 'period': T, 'period_container': 'float', 'site_class': str(sc)}
        v = rng.random()
        if sc == 'C' and v < 0.3:
            _call(ctx, 'c_h_factor*T^2==sd_nzs(unit)', wc, ds.c_h_factor, targ)         # default site class
        elif v < 0.6:
            _call(ctx, 'c_h_factor*T^2==sd_nzs(unit)', wc, ds.c_h_factor, targ, site_class=sc)
        elif v < 0.7:
            _call(ctx, 'c_h_factor*T^2==sd_nzs(unit)', wc, ds.c_h_factor, period=targ, site_class=sc)
        else:
            _call(ctx, 'c_h_factor*T^2==sd_nzs(unit)', wc, ds.c_h_factor, targ, sc)
        # sd_nzs: the period in every real scalar form
        v = rng.random()
        parg, form = targ, 'float'
        if v < 0.08:
            Ti = int(rng.choice(INT_PERIODS))
            parg = [Ti, np.int64(Ti), np.uint8(Ti), np.int8(Ti), np.int16(Ti), np.int32(Ti)][int(rng.integers(6))]
            form = _cont(parg)
        elif v < 0.12:
            parg, form = np.float32(T), 'float32'
        elif v < 0.15:
            parg, form = np.array(T), 'ndarray'
        elif v < 0.18:
            parg, form = np.uint8(int(rng.integers(7, 256))), 'uint8'      # long periods in a narrow unsigned dtype
        ws = {'fn': 'sd_nzs', 'period': float(parg), 'period_form': form, 'site_class': str(sc), 'z': z, 'r': r, 'n': n,
              'factor_forms': [_cont(v) for v in (z, r, n)]}
        if rng.random() < 0.7:
            _call(ctx, 'sd_nzs==c_h*T^2*Z*N*R', ws, ds.sd_nzs, parg, sc, z, r, n)
        else:
            _call(ctx, 'sd_nzs==c_h*T^2*Z*N*R', ws, ds.sd_nzs, period=parg, site_class=sc, z_factor=z, r_factor=r,
                  n_factor=n)
        if c % 2 == 0:
            arg, form = gen_period_container(rng, sc)
            ctx.case(core.digest('period-container', sc, form, np.asarray(arg)), nontrivial=True,
                     cls='spectra-container-' + form)
            rel_array_scalar(ctx, eqsig, arg, sc)
            if c % 12 == 0:
                # the same container object again, and a different one of the same shape in between
                other = [float(t) + 0.25 for t in arg]
                _call(ctx, 'c_h.array==scalar', {'fn': 'c_h_factor', 'period': other, 'period_container': 'list',
                                                 'site_class': sc}, ds.c_h_factor, other, sc)
                rel_array_scalar(ctx, eqsig, arg, sc)
        # effective period: inside (0, 3], at the corner (two-sided), above the corner (must be rejected)
        u = rng.random()
        if u < 0.72:
            Te = float(rng.uniform(0, 3))
        elif u < 0.86:
            Te = 3.0 * (1.0 - float(10.0 ** rng.uniform(-11, -3)))          # within 1e-3 of the corner, below it
        else:
            Te = float(rng.choice([3.0 * (1 - 1e-9), 1.5, 1e-6, 0.56, 2.999, 1e-12]))
        if Te > 0:
            rel_t_eff_roundtrip(ctx, eqsig, Te, sc, z, r, n, kw=rng.random() < 0.3,
                                form=['float', 'float', 'float64', 'float32', 'ndarray'][int(rng.integers(5))])
        if c % 4 == 1:
            rel_t_eff_above(ctx, eqsig, 1.0 + float(10.0 ** (rng.uniform(-6, 0.5) if rng.random() < 0.5 else
                                                              rng.uniform(-11, -3))), sc, z, r, n)
        if c % 16 == 2:
            rel_t_eff_above(ctx, eqsig, 1.0, sc, z, r, n)       # exactly the corner: either outcome is consistent
        if c % 16 == 3:
            d0 = [0.0, 0, np.float64(0.0), np.int64(0), np.array(0.0), np.float32(0.0), np.array(0)][int(rng.integers(7))]
            wit = {'fn': 't_eff', 'displacement': 0.0, 'displacement_form': _cont(d0), 'site_class': sc, 'z': z, 'r': r,
                   'n': n}
            _call(ctx, 't_eff==T_c*d/d_c', wit, ds.t_eff, d0, sc, z, r, n)


def drive_spectra_long(ctx, eqsig, rng):
    """One period array past 2**16 (shards 0..3 of each group of eight)."""
    sc = SITE_CLASSES[ctx.shard % 3]
    n = 2 ** 16 + int(rng.integers(1, 6))
    arg = rng.uniform(0, 6, size=n) if ctx.shard % 2 else rng.integers(0, 12, size=n).astype(np.int16)
    ctx.case(core.digest('period-long', sc, arg), cls='spectra-container-long-' + str(arg.dtype))
    _call(ctx, 'c_h_factor*T^2==sd_nzs(unit)', {'fn': 'c_h_factor', 'period': arg, 'period_container': 'ndarray',
                                               'site_class': sc}, eqsig.design_spectra.c_h_factor, arg, sc)


# ============================================================================================== results depend on the arguments only
MAIN_CLAUSE = {'interp2d': 'interp2d.inside==columnwise-linear', 'interp_left': 'interp_left==value-at-greatest-node<=q',
               'calc_roll_av_vals': 'rollav.forward==window-mean', 'calc_step_fn_vals_error': 'stepfit.error(p=1)==sum|dev|',
               'calc_step_fn_steps_vals': 'stepfit.levels==side-means', 'c_h_factor': 'c_h_factor*T^2==sd_nzs(unit)',
               'sd_nzs': 'sd_nzs==c_h*T^2*Z*N*R', 't_eff': 't_eff==T_c*d/d_c'}
FN_NAMES = list(MAIN_CLAUSE)


def _fn_map(eqsig):
    ds = eqsig.design_spectra
    return {'interp2d': eqsig.interp2d, 'interp_left': eqsig.interp_left, 'calc_roll_av_vals': eqsig.calc_roll_av_vals,
            'calc_step_fn_vals_error': eqsig.calc_step_fn_vals_error,
            'calc_step_fn_steps_vals': eqsig.calc_step_fn_steps_vals, 'c_h_factor': ds.c_h_factor, 'sd_nzs': ds.sd_nzs,
            't_eff': ds.t_eff}


def _same(a, b):
    """Bit-for-bit equality of two results (arrays: dtype, shape and bytes; tuples element-wise; scalars: type and value,
    nan == nan)."""
    if isinstance(a, tuple) or isinstance(b, tuple):
        return isinstance(a, tuple) and isinstance(b, tuple) and len(a) == len(b) and all(_same(u, v) for u, v in zip(a, b))
    if isinstance(a, np.ndarray) or isinstance(b, np.ndarray):
        return isinstance(a, np.ndarray) and isinstance(b, np.ndarray) and a.dtype == b.dtype and a.shape == b.shape \
            and a.tobytes() == b.tobytes()
    if type(a) is not type(b):
        return False
    try:
        return bool(a == b) or bool(a != a and b != b)
    except Exception:
        return False


def _freeze(r):
    if isinstance(r, np.ndarray):
        return r.copy()
    if isinstance(r, tuple):
        return tuple(_freeze(v) for v in r)
    return r


def _probe(ctx, label, fn, *args, **kwargs):
    """Call with an input the function may reject (outside the domain of the statement): an exception is counted, never
    judged as such; the purity of the arguments is judged by the monitors (post-hook on return, exception hook on raise)."""
    try:
        r = fn(*args, **kwargs)
    except Exception as e:
        ctx.observe('outside the domain: %s -> %s' % (label, type(e).__name__))
        return False, None
    ctx.observe('outside the domain: %s -> accepted (value not judged)' % label)
    return True, r


def _side(args, kwargs):
    return {'args': list(args), 'kwargs': dict(kwargs), 'forms': [_cont(v) for v in args],
            'kwforms': dict((k, _cont(v)) for k, v in kwargs.items())}


def triple(ctx, name, fn, A, B, kwA=None, kwB=None, pattern='', b_outside=None, inplace=None):
    """f(A); f(B); f(A): the third result equals the first bit-for-bit (the result depends on the arguments only: no
    memo keyed on too little, no mutable default, nothing kept from the previous call - also after a call that raised).
    Every one of the calls is judged by the monitors as usual. inplace = (position, values of A, values of B): ONE array
    object is passed in all three calls and refilled in place between them (a caller's work buffer)."""
    kwA, kwB = kwA or {}, kwB or {}
    clause = MAIN_CLAUSE[name]
    A, B = list(A), list(B)
    buf = None
    if inplace is not None:
        pos, va, vb = inplace
        buf = np.array(va)
        A[pos] = buf
        B[pos] = buf
    wit = lambda: {'fn': 'triple', 'name': name, 'A': _side(A if buf is None else A[:pos] + [np.array(va)] + A[pos + 1:], kwA),
                   'B': _side(B if buf is None else B[:pos] + [np.array(vb)] + B[pos + 1:], kwB), 'pattern': pattern,
                   'b_outside': b_outside, 'inplace_pos': None if buf is None else pos}
    ok1, r1 = _call(ctx, clause, wit, fn, *A, **kwA)
    if not ok1:
        return
    first = _freeze(r1)
    if buf is not None:
        buf[...] = vb
    if b_outside:
        _probe(ctx, '%s / %s' % (name, b_outside), fn, *B, **kwB)
    else:
        _call(ctx, clause, wit, fn, *B, **kwB)
    if buf is not None:
        buf[...] = va
    ok3, r3 = _call(ctx, clause, wit, fn, *A, **kwA)
    if not ok3:
        return
    ctx.check(_same(first, r3), C_REPEAT, lambda: dict(wit(), first=first, third=r3),
              '%s: the same arguments gave another result after a call with other arguments (%s%s): first %r, third %r'
              % (name, pattern, ', which was rejected / outside the domain: ' + b_outside if b_outside else '',
                 first if not isinstance(first, np.ndarray) else first[:8], r3 if not isinstance(r3, np.ndarray) else r3[:8]))


def _corner_of(ctx, eqsig, sc, z, r, n):
    okc, sd3 = _call(ctx, 't_eff==T_c*d/d_c', {'fn': 'sd_nzs', 'period': O.T_CORNER, 'period_form': 'float', 'site_class': sc,
                                               'z': z, 'r': r, 'n': n}, eqsig.design_spectra.sd_nzs, O.T_CORNER, sc, z, r, n)
    return O.corner_displacement(float(sd3)) if okc else None


def recipe(ctx, eqsig, rng, name, size):
    """One in-domain argument list of function `name` (positional, every parameter given) drawn from the recipe of that
    function; `size` = (n, m, nq, ncol) fixes the shapes so that two draws have the same shapes. Options take their
    non-default values as often as the default ones."""
    n, m, nq, ncol = size
    if name == 'interp2d':
        nodes, _ = gen_nodes(rng, m_fixed=m)
        nodes = np.asarray(nodes, dtype=float)
        return [gen_queries(rng, nodes, nq=nq), nodes, np.asarray(gen_table(rng, m, ncol=ncol), dtype=float)]
    if name == 'interp_left':
        nodes, _ = gen_nodes(rng, m_fixed=m)
        nodes = np.asarray(nodes, dtype=float)
        y = [rng.normal(size=m), None, rng.integers(-9, 10, size=m).tolist()][int(rng.integers(3))]
        return [gen_queries(rng, nodes, nq=nq, below=False), nodes, y]
    if name == 'calc_roll_av_vals':
        x = gen_roll_series(rng, n)[0]
        return [x if rng.random() < 0.7 else x.tolist(), int(rng.integers(1, n + 1)), MODES[int(rng.integers(4))]]
    if name == 'calc_step_fn_vals_error':
        x = (gen_step_series(rng, n) if rng.random() < 0.7 else shape11(rng, n))[0]
        if rng.random() < 0.3:
            x = x * float(10.0 ** rng.uniform(-12, 12))
        return [x if rng.random() < 0.7 else x.tolist(), 1 + int(rng.integers(2)), [None, None, 'up', 'down'][int(rng.integers(4))]]
    if name == 'calc_step_fn_steps_vals':
        x = (gen_step_series(rng, n) if rng.random() < 0.7 else shape11(rng, n))[0]
        return [x, int(rng.integers(1, n - 1)) if rng.random() < 0.75 else None]
    sc = SITE_CLASSES[int(rng.integers(3))]
    if name == 'c_h_factor':
        per = [gen_period(rng, sc) for _ in range(nq)]
        return [[np.array(per), per, tuple(per)][int(rng.integers(3))] if rng.random() < 0.8 else per[0], sc]
    z, r, nn = gen_factors(rng)
    if name == 'sd_nzs':
        return [gen_period(rng, sc), sc, z, r, nn]
    dc = _corner_of(ctx, eqsig, sc, z, r, nn)
    return [(dc if dc is not None else 0.1) * float(rng.uniform(0.01, 0.45)), sc, z, r, nn]


def _draw_size(rng, name):
    return (int(rng.integers(3, 41)) if rng.random() < 0.9 else int(rng.choice([63, 64, 65, 128, 129])), int(rng.integers(2, 9)),
            int(rng.integers(1, 7)), int(rng.integers(1, 4)))


def _split_kw(rng, name, args):
    """Pass the trailing parameters by keyword in a third of the calls."""
    names = SIGS[name][0]
    if rng.random() < 0.67:
        return list(args), {}
    k = int(rng.integers(1, len(args)))
    return list(args[:k]), dict(zip(names[k:], args[k:]))


def drive_repeat(ctx, eqsig, rng, n_cases):
    """Checklist item 25: f(A); f(B); f(A) for every function. B: another draw of the same recipe with the same shapes, with
    other shapes, equal to A except for ONE argument (a memo keyed on too little), or written into the very array object
    that held A (a caller's work buffer: a memo keyed on the identity of the argument)."""
    fns = _fn_map(eqsig)
    for c in range(n_cases):
        name = FN_NAMES[c % len(FN_NAMES)]
        size = _draw_size(rng, name)
        A = recipe(ctx, eqsig, rng, name, size)
        u = rng.random()
        inplace = None
        if u < 0.35:
            B, pattern = recipe(ctx, eqsig, rng, name, size), 'same-shapes'
        elif u < 0.50:
            B, pattern = recipe(ctx, eqsig, rng, name, _draw_size(rng, name)), 'other-shapes'
        elif u < 0.85:
            other = recipe(ctx, eqsig, rng, name, size)
            j = int(rng.integers(len(A)))
            B = list(A)
            B[j] = other[j]
            if name == 'calc_roll_av_vals' and j == 1:
                B[1] = 1 + (A[1] % size[0])                                     # another window width, in 1..len
            pattern = 'one-argument-differs:' + SIGS[name][0][j]
        else:
            other = recipe(ctx, eqsig, rng, name, size)
            pos = [j for j, v in enumerate(A) if isinstance(v, np.ndarray) and isinstance(other[j], np.ndarray)
                   and other[j].shape == v.shape and other[j].dtype == v.dtype]
            if pos:
                j = pos[int(rng.integers(len(pos)))]
                B = list(A)
                inplace = (j, A[j].copy(), other[j].copy())
                pattern = 'buffer-refilled-in-place:' + SIGS[name][0][j]
            else:
                B, pattern = other, 'same-shapes'
        ctx.case(core.digest('repeat', name, pattern, [np.asarray(v) if isinstance(v, (list, tuple)) else v for v in A],
                             [np.asarray(v) if isinstance(v, (list, tuple)) else v for v in B]),
                 nontrivial=True, cls='repeat-%s-%s' % (name, pattern.split(':')[0]))
        ctx.observe('repeat pattern: ' + pattern.split(':')[0])
        a, kwa = _split_kw(rng, name, A)
        b, kwb = _split_kw(rng, name, B)
        if inplace is not None:
            a, kwa, b, kwb = A, {}, B, {}
        triple(ctx, name, fns[name], a, b, kwa, kwb, pattern=pattern, inplace=inplace)
        if c % 5 == 0 and inplace is None:
            # temporaries: fresh copies of the arguments that nobody keeps (the memory - and the id() - of a freed
            # argument is handed to a later one of the same size)
            for rep_ in range(3):
                t = recipe(ctx, eqsig, rng, name, size)
                _call(ctx, MAIN_CLAUSE[name], {'fn': 'triple', 'name': name, 'A': _side(t, {}), 'B': _side(t, {}),
                                               'pattern': 'temporaries', 'b_outside': None, 'inplace_pos': None},
                      fns[name], *[np.array(v) if isinstance(v, np.ndarray) else v for v in t])


C_OWN_MEM = 'result-owned(no-memory-shared-with-arguments)'
C_OWN_AGAIN = 'result-owned(overwritten;same-call==first;arguments-intact)'
OWN_FNS = ['interp2d', 'interp_left', 'calc_roll_av_vals', 'calc_step_fn_vals_error', 'c_h_factor']


def _arrays_in(v):
    if isinstance(v, np.ndarray):
        yield v
    elif isinstance(v, (list, tuple)):
        for t in v:
            if isinstance(t, (np.ndarray, list, tuple)):
                for a in _arrays_in(t):
                    yield a


def _scribble(r):
    """Overwrite every entry of a result array in place with other values (deterministic)."""
    if r.dtype.kind == 'b':
        r[...] = ~r
    elif r.dtype.kind in 'iu':
        r[...] = r ^ 0x55
    else:
        with np.errstate(all='ignore'):
            r[...] = np.where(np.isfinite(r), r * -3.0 + 7.5, 0.0)


def own_case(ctx, name, fn, args, kwargs=None, pattern=''):
    """Checklist item 32 - a result belongs to the caller: the array returned by f(A) shares no memory with A; after every
    entry of it has been overwritten, A is bit-for-bit what it was and f(A) gives the first value again (no table handed out
    by reference from a cache, no argument returned as the result where nothing needs doing)."""
    kwargs = kwargs or {}
    clause = MAIN_CLAUSE[name]
    wit = lambda: {'fn': 'own', 'name': name, 'A': _side(args, kwargs), 'pattern': pattern}
    held = list(args) + list(kwargs.values())
    snap = [_snap(v) for v in held]
    ok1, r1 = _call(ctx, clause, wit, fn, *args, **kwargs)
    if not ok1:
        return
    if not isinstance(r1, np.ndarray) or r1.ndim < 1 or r1.size == 0:
        ctx.observe('ownership: %s returned no array (nothing to overwrite)' % name)
        return
    first = r1.copy()
    shared = [k for k, v in enumerate(held) if any(np.shares_memory(r1, a) for a in _arrays_in(v))]
    ctx.check(not shared, C_OWN_MEM, lambda: dict(wit(), shared_with=shared, first=first),
              '%s (%s): the returned array shares memory with argument(s) %s' % (name, pattern, shared))
    HELD.pop(name, None)                       # the overwrite below is ours, not the library's
    if r1.flags.writeable:
        _scribble(r1)
    else:
        ctx.observe('ownership: result array is not writeable (overwrite skipped)')
    changed = [k for k, v in enumerate(held) if not _unchanged(v, snap[k])]
    for k in changed:                          # put the caller's values back so that the second call gets A again
        try:
            for a, b in zip(_arrays_in(held[k]), _arrays_in(snap[k])):
                a[...] = b
        except Exception:
            pass
    ok2, r2 = _call(ctx, clause, wit, fn, *args, **kwargs)
    if not ok2:
        return
    ctx.check(not changed and _same(first, r2), C_OWN_AGAIN, lambda: dict(wit(), first=first, second=r2, changed=changed),
              '%s (%s): after the first result was overwritten by the caller %s' % (
                  name, pattern, 'argument(s) %s changed' % changed if changed else
                  'the same call returned %r, first %r' % (r2[:8] if isinstance(r2, np.ndarray) else r2, first[:8])))
    HELD.pop(name, None)
    if isinstance(r2, np.ndarray) and r2.ndim >= 1 and r2.size and r2.flags.writeable:
        _scribble(r2)                          # and the second one too: a later call (monitored) must not see it


def drive_ownership(ctx, eqsig, rng, n_cases):
    """Checklist item 32 (and 12: option values where nothing needs doing): random draws of the recipes and the identity
    cases - window 1 (the average IS the series), queries equal to the nodes (the result IS the table / the values), a
    constant series, the same tuple of periods again (hashable: what an lru_cache would key on)."""
    fns = _fn_map(eqsig)
    for c in range(n_cases):
        name = OWN_FNS[c % len(OWN_FNS)]
        size = _draw_size(rng, name)
        A = recipe(ctx, eqsig, rng, name, size)
        pattern = 'random-draw'
        if rng.random() < 0.5:
            pattern = 'nothing-to-do'
            if name == 'calc_roll_av_vals':
                A = [np.asarray(A[0], dtype=float) if rng.random() < 0.8 else A[0], int_form(rng, 1, extra=('float', 'bool')), A[2]]
            elif name == 'interp2d':
                A = [A[1] if rng.random() < 0.5 else A[1].copy(), A[1], A[2]]
            elif name == 'interp_left':
                y = rng.normal(size=len(A[1])) if (A[2] is None or rng.random() < 0.5) else np.asarray(A[2])
                A = [A[1] if rng.random() < 0.5 else A[1].copy(), A[1], [y, None][int(rng.integers(2))]]
            elif name == 'calc_step_fn_vals_error':
                A = [np.full(size[0], float(rng.normal())), A[1], None]
            else:
                per = tuple(float(gen_period(rng, A[1])) for _ in range(size[2]))
                A = [per if rng.random() < 0.7 else np.array(per), A[1]]
        elif name == 'c_h_factor' and _is_float(A[0]):
            A[0] = [A[0]]
        ctx.case(core.digest('own', name, pattern, [np.asarray(v) if isinstance(v, (list, tuple)) else v for v in A]),
                 nontrivial=True, cls='own-%s-%s' % (name, pattern))
        a, kwa = _split_kw(rng, name, A)
        own_case(ctx, name, fns[name], a, kwa, pattern=pattern)


def spoil(rng, name, A):
    """An argument list the statement does not cover, derived from the in-domain list A: inputs the clean code rejects
    (exception) and inputs it accepts silently (non-finite entries, windows / split samples outside their range, unknown
    options). Returns (label, args). Checklist items 19 and 24."""
    B = [v.copy() if isinstance(v, np.ndarray) else (list(v) if isinstance(v, list) else v) for v in A]

    def poison(v, val):
        a = np.array(v, dtype=float)
        a[int(rng.integers(a.size))] = val
        return a if isinstance(v, np.ndarray) or rng.random() < 0.5 else a.tolist()
    bad = float(rng.choice([np.nan, np.inf, -np.inf]))
    k = int(rng.integers(6))
    if name == 'interp2d':
        if k == 0:
            B[0] = poison(B[0], bad)
            return 'non-finite query', B
        if k == 1:
            B[2] = poison(B[2].ravel(), bad).reshape(B[2].shape) if isinstance(B[2], np.ndarray) else B[2]
            return 'non-finite table entry', B
        if k == 2:
            B[2] = B[2][:-1]
            return 'table with fewer rows than nodes', B
        if k == 3:
            B[1] = B[1][:-1]
            return 'table with more rows than nodes', B
        if k == 4:
            B[0] = B[0][:0]
            return 'no queries', B
        B[1] = poison(B[1], np.nan)
        return 'nan node', B
    if name == 'interp_left':
        q, nodes = np.array(B[0], dtype=float), B[1]
        if k <= 2:
            # some queries below the first node (rejected by an assert), in array / list / tuple form
            span = float(nodes[-1] - nodes[0]) or 1.0
            q[int(rng.integers(q.size))] = nodes[0] - span * float(10.0 ** rng.uniform(-9, 1))
            B[0] = [q, q.tolist(), tuple(q.tolist())][k]
            return 'queries below the first node (%s)' % _cont(B[0]), B
        if k == 3:
            B[0] = poison(q, np.nan)
            return 'nan query', B
        if k == 4:
            B[0] = q[:0]
            return 'no queries', B
        if B[2] is not None:
            B[2] = B[2][:-1]
            return 'values shorter than nodes', B
        B[1] = poison(nodes, np.nan)
        return 'nan node', B
    if name == 'calc_roll_av_vals':
        n = len(B[0])
        if k == 0:
            B[1] = int(rng.choice([0, -1, -n]))
            return 'window <= 0', B
        if k == 1:
            B[1] = n + int(rng.integers(1, 5))
            return 'window > len', B
        if k == 2:
            B[1] = float(B[1]) + 0.5
            return 'window not integer-valued', B
        if k == 3:
            B[2] = str(rng.choice(['middle', 'Forward', '', 'central']))
            return 'unknown mode', B
        if k == 4:
            B[0] = poison(B[0], bad)
            return 'non-finite sample', B
        B[0] = np.asarray(B[0], dtype=float)[:0] if rng.random() < 0.5 else np.asarray(B[0], dtype=float).reshape(1, -1)
        return 'empty or 2-d series', B
    if name == 'calc_step_fn_vals_error':
        if k <= 1:
            B[0] = poison(B[0], bad)
            return 'non-finite sample', B
        if k == 2:
            B[0] = np.asarray(B[0], dtype=float)[:0]
            return 'no samples', B
        if k == 3:
            B[1] = [0, 3, 0.5, -1][int(rng.integers(4))]
            return 'power outside {1, 2}', B
        if k == 4:
            B[2] = str(rng.choice(['UP', 'left', '']))
            return 'unknown direction', B
        B[0] = np.asarray(B[0], dtype=float).reshape(1, -1)
        return '2-d series', B
    if name == 'calc_step_fn_steps_vals':
        n = len(B[0])
        if k <= 3:
            B[1] = [0, n - 1, n + int(rng.integers(0, 5)), -1][k]
            return 'split sample without samples on both sides', B
        B[0] = poison(B[0], bad)
        B[1] = int(rng.integers(1, n - 1))
        return 'non-finite sample', B
    if name == 'c_h_factor':
        per = B[0]
        if k <= 1 and not _is_float(per):
            a = np.array(per, dtype=float)
            a[int(rng.integers(a.size))] = -float(10.0 ** rng.uniform(-9, 1))
            B[0] = a if isinstance(per, np.ndarray) or k == 0 else a.tolist()
            return 'negative period in a %s' % _cont(B[0]), B
        if k == 2:
            B[1] = [None, 'A', 'B', 'c', 'CD'][int(rng.integers(5))]
            return 'unknown site class', B
        if k == 3 and not _is_float(per):
            B[0] = poison(per, bad)
            return 'non-finite period', B
        if k == 4:
            B[0] = [2, np.float32(0.5), np.array(0.5), np.int64(1)][int(rng.integers(4))]
            return 'scalar form outside the signature (%s)' % _cont(B[0]), B
        B[0] = -1.0 if _is_float(per) else []
        return 'negative scalar / empty container', B
    if name == 'sd_nzs':
        if k == 0:
            B[0] = -float(10.0 ** rng.uniform(-9, 1))
            return 'negative period', B
        if k == 1:
            B[1] = [None, 'A', 'B', 'c'][int(rng.integers(4))]
            return 'unknown site class', B
        if k == 2:
            B[0] = bad
            return 'non-finite period', B
        if k == 3:
            B[0] = np.array([0.5, 1.0])
            return 'array of periods', B
        if k == 4:
            B[0] = [B[0]]
            return 'list of one period', B
        B[2] = [bad, 'z'][int(rng.integers(2))]
        return 'non-finite / non-numeric factor', B
    if k == 0:
        B[1] = [None, 'A', 'B', 'c'][int(rng.integers(4))]
        return 'unknown site class', B
    if k == 1:
        B[0] = bad
        return 'non-finite displacement', B
    if k == 2:
        B[0] = -B[0]
        return 'negative displacement', B
    if k == 3:
        B[0] = B[0] * 1e3
        return 'displacement above the corner', B
    if k == 4:
        B[2] = 0.0
        return 'zero hazard factor', B
    B[0] = np.array([B[0], B[0]])
    return 'array of displacements', B


def drive_rejected(ctx, eqsig, rng, n_cases):
    """Checklist items 19 / 24: inputs outside the domain - rejected with an exception or accepted silently - for every
    function: the arguments stay bit-for-bit as they were (also after the raise) and the call leaves nothing behind:
    f(A); f(outside); f(A) gives the first result again."""
    fns = _fn_map(eqsig)
    for c in range(n_cases):
        name = FN_NAMES[c % len(FN_NAMES)]
        size = _draw_size(rng, name)
        A = recipe(ctx, eqsig, rng, name, size)
        label, B = spoil(rng, name, A)
        ctx.case(core.digest('outside', name, label, [np.asarray(v) if isinstance(v, (list, tuple)) else v for v in A]),
                 nontrivial=True, cls='outside-domain-%s' % name)
        b, kwb = _split_kw(rng, name, B)
        triple(ctx, name, fns[name], A, b, {}, kwb, pattern='after-outside-domain-call', b_outside=label)



def drive_ind_top(ctx, eqsig, rng):
    """The split index as a narrow numpy integer at the top of its dtype (ind + 1 does not fit it): in domain as a scalar form
    of an in-range index (checklist item 28); the clean tree takes the level after the split from a wrong slice - routed to a
    pending finding by the monitor (two calls per shard), one index below the top is judged as usual."""
    for dt in (np.uint8, np.int8):
        top = int(np.iinfo(dt).max)
        n = top + int(rng.integers(3, 40))
        x = gen_step_series(rng, n)[0]
        ctx.case(core.digest('stepfit-ind-top', x, np.dtype(dt).name), nontrivial=True, cls='stepfit-ind-top-of-dtype')
        for k in (top - 1, top):
            iarg = dt(k)
            _call(ctx, 'stepfit.levels==side-means',
                  lambda: {'fn': 'calc_step_fn_steps_vals', 'values': x, 'container': 'ndarray', 'ind': k,
                           'ind_form': _cont(iarg)}, eqsig.calc_step_fn_steps_vals, x, iarg)


def scan_grid(tier):
    f = 1 if tier == 'quick' else 4
    a = np.arange(0, 600 * f + 1) * (2e-4 / f)                       # 0 ... 0.12
    b = 0.12 + np.arange(1, 6380 * f + 1) * (1e-3 / f)                # ... 6.5
    return np.concatenate([a, b])


def drive_continuity(ctx, eqsig):
    # one-sided limits at the segment boundaries of the tables (and at T -> 0+)
    n = 0
    for sc in SITE_CLASSES:
        for tb in [0.0] + O.BOUNDARIES[sc]:
            a, b = (0.0, 1e-12) if tb == 0 else (tb * (1 - 1e-12), tb)
            rel_continuity(ctx, eqsig, 'c_h', sc, a, b, 'c_h.continuous(boundaries)')
            rel_continuity(ctx, eqsig, 'sd', sc, a, b, 'sd_nzs.continuous(boundaries)')
            if tb > 0:
                rel_continuity(ctx, eqsig, 'c_h', sc, tb, tb * (1 + 1e-12), 'c_h.continuous(boundaries)')
                rel_continuity(ctx, eqsig, 'sd', sc, tb, tb * (1 + 1e-12), 'sd_nzs.continuous(boundaries)')
            n += 2
    if ctx.shard == 0:
        ctx.cases_enumerated(n, n, cls='continuity-boundaries')
    # scan: every grid interval, bisected wherever the change exceeds the table precision
    grid = scan_grid(ctx.tier)
    n = 0
    for k in core.split_range(len(grid) - 1, ctx.shard, ctx.nshards):
        a, b = float(grid[k]), float(grid[k + 1])
        for sc in SITE_CLASSES:
            rel_continuity(ctx, eqsig, 'c_h', sc, a, b, 'c_h.continuous(scan)')
            rel_continuity(ctx, eqsig, 'sd', sc, a, b, 'sd_nzs.continuous(scan)')
            n += 2
    ctx.cases_enumerated(n, n, cls='continuity-scan')
    ctx.exhaustive['continuity_scan_intervals_x_class_x_function'] = n


def run_shard(ctx):
    eqsig = core.import_eqsig()
    install(ctx)
    warnings.simplefilter('ignore')
    np.seterr(all='ignore')
    rng = ctx.rng
    quick = ctx.tier == 'quick'
    per = lambda total: total // ctx.nshards + 1
    drive_continuity(ctx, eqsig)
    drive_interp(ctx, eqsig, rng, per(8000 if quick else 80000))
    drive_rollav_all_widths(ctx, eqsig, rng)
    drive_rollav(ctx, eqsig, rng, per(8000 if quick else 80000))
    drive_stepfit(ctx, eqsig, rng, per(6400 if quick else 64000))
    drive_spectra_random(ctx, eqsig, rng, per(4800 if quick else 48000))
    drive_repeat(ctx, eqsig, rng, per(9600 if quick else 96000))
    drive_rejected(ctx, eqsig, rng, per(6400 if quick else 64000))
    drive_ownership(ctx, eqsig, rng, per(4800 if quick else 48000))
    drive_ind_top(ctx, eqsig, rng)
    if ctx.shard in (6, 7, 10, 11) or not quick:
        drive_big_products(ctx, eqsig, rng)
    # a few inputs past 2**16 (quick: one kind per shard; thorough: several of each)
    for rep in range(1 if quick else 4):
        which = (ctx.shard // 4 + rep) % 4 if quick else rep
        if which == 0:
            drive_interp_long(ctx, eqsig, rng)
        elif which == 1:
            drive_rollav_long(ctx, eqsig, rng)
        elif which == 2:
            drive_spectra_long(ctx, eqsig, rng)
        else:
            drive_rollav_long(ctx, eqsig, rng)
            drive_interp_long(ctx, eqsig, rng)
    ctx.note('monitored_calls', dict(attach.CALLS))
    ctx.note('tolerance', 'rtol %g of: column range (interp2d), largest partial sum / window (rolling average), n*max|x|^p '
                          '(step-fit error), max|x| (levels), the reference value (design spectra); exact for interp_left; '
                          'jump <= 0.5 %% + 1e-9 (continuity)' % RTOL)


# ============================================================================================== replay
def _as_container(v, name):
    if name == 'list':
        return np.asarray(v).tolist() if isinstance(v, np.ndarray) else list(v)
    if name == 'tuple':
        return tuple(v.tolist()) if isinstance(v, np.ndarray) else tuple(v)
    if name == 'ndarray':
        return np.asarray(v)
    return v


def replay(w):
    """Re-execute one witness against the current tree; return the list of violation messages."""
    global CTX
    eqsig = core.import_eqsig()
    ctx = core.Ctx(PROP_ID, 'quick', 0, 0, 1)
    install(ctx)
    CTX = ctx
    warnings.simplefilter('ignore')
    np.seterr(all='ignore')
    ds = eqsig.design_spectra
    fn = w.get('fn')
    clause = 'replay'
    lay = w.get('layout') or {}

    def arr(key, cont_key=None, lkey=None):
        v = w.get(key)
        if v is None:
            return None
        v = _as_container(v, w.get(cont_key)) if cont_key else np.asarray(v)
        return _relayout(v, lay.get(lkey or key, []))
    def form(key, fkey, default):
        fm = w.get(fkey, default)
        return _to_form(w[key], fm) if fm in SCALAR_FORMS else w[key]

    def factors():
        fms = w.get('factor_forms') or ['float', 'float', 'float']
        return [_to_form(w[k], fm) if fm in SCALAR_FORMS else w[k] for k, fm in zip(('z', 'r', 'n'), fms)]

    def run(f, *a, **k):
        # the witness of a call that raised (purity after the raise): the raise itself is not judged again
        if w.get('raised') is not None:
            return _probe(ctx, 'replay', f, *a, **k)
        return _call(ctx, clause, w, f, *a, **k)
    if fn == 'interp2d':
        run(eqsig.interp2d, arr('x', 'x_container' if w.get('x_container') else None),
              arr('xf', 'xf_container' if w.get('xf_container') else None),
              arr('f', 'f_container' if w.get('f_container') else None))
    elif fn == 'interp_left':
        xc = w.get('x0_container')
        x0 = _to_form(w['x0'], xc) if xc in SCALAR_FORMS and xc != 'ndarray' else arr('x0', 'x0_container')
        run(eqsig.interp_left, x0, arr('x', 'x_container'), arr('y', 'y_container'))
    elif fn == 'calc_roll_av_vals':
        run(eqsig.calc_roll_av_vals, arr('values', 'container'), form('steps', 'steps_form', 'int'), mode=w['mode'])
    elif fn == 'calc_step_fn_vals_error':
        run(eqsig.calc_step_fn_vals_error, arr('values', 'container'), pow=form('pow', 'pow_form', 'int'))
    elif fn == 'calc_step_fn_steps_vals':
        vals = arr('values', 'container')
        if w.get('ind') is None:
            run(eqsig.calc_step_fn_steps_vals, vals)
        else:
            run(eqsig.calc_step_fn_steps_vals, vals, form('ind', 'ind_form', 'int'))
    elif fn == 'c_h_factor':
        pc = w.get('period_container')
        p = float(w['period']) if pc in ('float', 'float64') else arr('period', 'period_container')
        run(ds.c_h_factor, p, w['site_class'])
    elif fn == 'sd_nzs':
        run(ds.sd_nzs, _to_form(w['period'], w.get('period_form', 'float')), w['site_class'], *factors())
    elif fn == 't_eff':
        run(ds.t_eff, _to_form(w['displacement'], w.get('displacement_form', 'float')), w['site_class'], *factors())
    elif fn == 'triple':
        f = _fn_map(eqsig).get(w['name'])
        if f is None:
            return ['unknown function %r in triple witness' % w['name']]

        def side(sd):
            return ([_to_form(v, fm) if fm in SCALAR_FORMS and fm != 'ndarray' else v for v, fm in zip(sd['args'], sd['forms'])],
                    dict((k, _to_form(v, sd.get('kwforms', {}).get(k)) if sd.get('kwforms', {}).get(k) in SCALAR_FORMS
                          and sd.get('kwforms', {}).get(k) != 'ndarray' else v) for k, v in sd['kwargs'].items()))
        (a, kwa), (b, kwb) = side(w['A']), side(w['B'])
        pos = w.get('inplace_pos')
        HELD.clear()
        triple(ctx, w['name'], f, a, b, kwa, kwb, pattern=w.get('pattern', ''), b_outside=w.get('b_outside'),
               inplace=None if pos is None else (pos, np.array(a[pos]), np.array(b[pos])))
    elif fn == 'own':
        f = _fn_map(eqsig).get(w['name'])
        if f is None:
            return ['unknown function %r in own witness' % w['name']]
        sd = w['A']

        def conv(v, fm):
            if fm in SCALAR_FORMS and fm != 'ndarray':
                return _to_form(v, fm)
            if fm == 'ndarray':
                return np.asarray(v)
            return tuple(v) if fm == 'tuple' and isinstance(v, list) else v
        HELD.clear()
        own_case(ctx, w['name'], f, [conv(v, fm) for v, fm in zip(sd['args'], sd['forms'])],
                 dict((k, conv(v, sd.get('kwforms', {}).get(k))) for k, v in sd['kwargs'].items()), pattern=w.get('pattern', ''))
    elif fn == 'held_result':
        f = _fn_map(eqsig).get(w['name'])
        if f is None:
            return ['unknown function %r in held_result witness' % w['name']]
        HELD.clear()
        _call(ctx, clause, w, f, *w['first']['args'], **w['first']['kwargs'])
        _call(ctx, clause, w, f, *w['second']['args'], **w['second']['kwargs'])
    elif fn == 'continuity':
        rel_continuity(ctx, eqsig, w['which'], w['site_class'], float(w['a']), float(w['b']), w.get('clause', 'continuity'))
    elif fn == 'c_h_array_scalar':
        rel_array_scalar(ctx, eqsig, _as_container(w['periods'], w.get('container')), w['site_class'])
    elif fn == 't_eff_roundtrip':
        rel_t_eff_roundtrip(ctx, eqsig, float(w['T']), w['site_class'], *factors(), kw=w.get('kw', False),
                            form=w.get('form', 'float'))
    elif fn == 't_eff_above':
        rel_t_eff_above(ctx, eqsig, float(w['factor']), w['site_class'], *factors())
    else:
        return ['unknown witness kind %r' % fn]
    return ['%s: %s' % (v['clause'], v['msg']) for v in ctx.violations if not v.get('finding')]
