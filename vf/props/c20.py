"""C20 - interpolation, averaging, step-fit and design-spectrum helpers match their definitions.

Monitors: post-conditions on every call of interp2d, interp_left, calc_roll_av_vals, calc_step_fn_vals_error,
calc_step_fn_steps_vals (eqsig.fns) and c_h_factor, sd_nzs, t_eff (eqsig.design_spectra) against the scalar reference
models of vf/oracles/helpers.py. Relations between executions (continuity across segment boundaries, array vs scalar
form, t_eff round trip) are evaluated by the driver over the results of monitored calls.
"""
import math
import warnings

import numpy as np

from vf import attach, core, gen, tol
from vf.oracles import helpers as O

PROP_ID = 'C20'
TECHNIQUE = ('runtime post-condition monitors with scalar reference oracles (clamped linear interpolation, greatest '
             'node <= query, clamped-index window means, per-split deviation sums, side means) + cross-function '
             'identity / one-sided-limit / bisection-scan relations for the NZS 1170.5 functions')
RULE = ('cases = calls of the real functions through the public names. Interpolation: strictly increasing node sets '
        '(sorted random, integer grids, log-spaced, very uneven, offset with spacing << magnitude, 1..8 nodes, 1..4 columns, overall scale 10^U(-12,6), '
        'float and int32/int64 dtype for nodes, queries and tables) with queries inside / on nodes / a hair (1 ulp, 1e-15..1e-9) next to nodes / below / above; distinct = digest(queries, '
        'nodes, table), non-trivial = some query strictly inside a non-constant table. Rolling average: record classes '
        'of gen.record, 1..40 (some up to 400) samples in five containers, every window 1..len drawn at random, the four '
        'mode strings; non-trivial = non-constant series and window > 1. Step fit: 2..30 (some up to 120) samples, '
        'positive / negative / mixed-sign / step-like data, float64 / float32 / integer dtype, lists, tuples, p in {1,2}, dir=None; '
        'non-trivial = non-constant series. Design spectra: T in {0, every boundary*(1 -+ 1e-12), U(0,6), 10^U(-6,3)} as '
        'float / np.float64 / float and integer arrays (int32, int64, arange) / lists and tuples of floats, ints or both, classes C D E, Z R N uniform in their code ranges; a fixed grid of [0, 6.5] '
        '(distinct by construction) is scanned for jumps with bisection down to 1e-12.')
ASSUMPTIONS = ['node sets strictly increasing and finite (duplicates / unsorted nodes are counted, not judged)',
               'interp2d arguments are numpy arrays with a 2-d table (its documented signature)',
               'interp_left queries below the first node are rejected by the function (outside the domain)',
               'centred window of even size: the statement does not fix the side of the extra sample, either is accepted '
               '(odd sizes decide the centring)',
               'step-fit: float64, float32 (judged to 64 eps32: the result is float32) or integer dtype, p in {1,2}, dir=None; integer-dtype truncation is the open finding '
               'C20/int-dtype-truncation and is attributed to it only when result == trunc(expected) element-wise',
               'step levels are judged for 1 <= ind <= n-2 (both sides non-empty)',
               'periods are Python/numpy floats; c_h_factor also takes containers (arrays, lists, tuples) of float or integer-typed periods, a bare int scalar is outside its signature; g = 9.81 m/s2 and corner '
               'period 3 s in the corner-displacement relation d_c = S_d(3 s) * g / (2 pi)^2',
               '"continuous to table precision" = one-sided jump <= 0.5 % (three significant digits in the tables)',
               'oracle vf/oracles/helpers.py is correct (scalar code from the definitions)']
_MIN_QUICK = {'interp2d.inside==columnwise-linear': 3000, 'interp2d.on-node==table-row': 2000,
              'interp2d.outside==end-row': 2800, 'interp_left==value-at-greatest-node<=q': 2800,
              'interp_left.on-node-query': 4500, 'interp_left.scalar-query': 4000, 'interp_left.y=None->node-index': 4000,
              'rollav.forward==window-mean': 4000, 'rollav.backward==window-mean': 4000,
              'rollav.centre==window-mean': 8000, 'rollav.length-kept': 16000, 'rollav.constant-preserved': 2000,
              'stepfit.error(p=1)==sum|dev|': 2500, 'stepfit.error(p=2)==sum|dev|^2': 2000,
              'stepfit.no-split-entry==whole-series-error': 5000, 'stepfit.levels==side-means': 9000,
              'sd_nzs==c_h*T^2*Z*N*R': 30000, 'c_h_factor*T^2==sd_nzs(unit)': 25000, 'c_h.array==scalar': 1100,
              'c_h.continuous(boundaries)': 200, 'sd_nzs.continuous(boundaries)': 200, 'c_h.continuous(scan)': 10000,
              'sd_nzs.continuous(scan)': 10000, 't_eff==T_c*d/d_c': 2600, 't_eff(d_c*T/3)==T': 2400,
              't_eff.rejects-above-corner': 600}
# thorough = 10 x the random workload of quick and a 4 x finer continuity scan
_MIN_THOROUGH = {k: 10 * v for k, v in _MIN_QUICK.items()}
_MIN_THOROUGH.update({'c_h.continuous(boundaries)': 200, 'sd_nzs.continuous(boundaries)': 200,
                      'c_h.continuous(scan)': 40000, 'sd_nzs.continuous(scan)': 40000,
                      'sd_nzs==c_h*T^2*Z*N*R': 120000, 'c_h_factor*T^2==sd_nzs(unit)': 120000})
MIN_EVALS = {'quick': _MIN_QUICK, 'thorough': _MIN_THOROUGH}
EXHAUSTIVE = {'quick': 'continuity scan: every interval of the grid 0(2e-4)0.12(1e-3)6.5 s x classes C,D,E x '
                       '{c_h_factor, sd_nzs}, bisected to 1e-12 wherever the change exceeds 0.5 %',
              'thorough': 'continuity scan: every interval of the grid 0(5e-5)0.12(2.5e-4)6.5 s x classes C,D,E x '
                          '{c_h_factor, sd_nzs}, bisected to 1e-12 wherever the change exceeds 0.5 %'}

CTX = None
K5 = 'C20/int-dtype-truncation'
RTOL = 1e-9
SITE_CLASSES = ('C', 'D', 'E')
MODES = ('forward', 'backward', 'centre', 'center')


def n_shards(tier):
    return 16


def _mark(e):
    """Tag an exception that a monitor has already judged, so that the driver does not judge it again."""
    try:
        e._vf_seen = True
    except Exception:
        pass


def _cont(v):
    return type(v).__name__


EPS32 = float(np.finfo(np.float32).eps)


def _rtol_for(arr, k):
    """1e-9 for float64 / integer data. float32 data may legitimately be processed and returned in float32, where
    correct code cannot be closer than a few float32 roundings: k * eps32."""
    return k * EPS32 if arr.dtype == np.float32 else RTOL


def _floats(a):
    return [float(v) for v in np.asarray(a).ravel().tolist()]


# ============================================================================================== monitors: interpolation
def _nodes_ok(nodes):
    return len(nodes) >= 1 and all(math.isfinite(v) for v in nodes) and all(b > a for a, b in zip(nodes, nodes[1:]))


def check_interp2d(ctx, x, xf, f, result):
    if not (isinstance(x, np.ndarray) and isinstance(xf, np.ndarray) and isinstance(f, np.ndarray)) \
            or x.ndim != 1 or xf.ndim != 1 or f.ndim != 2 or f.shape[0] != xf.shape[0] \
            or x.dtype.kind not in 'fiu' or xf.dtype.kind not in 'fiu' or f.dtype.kind not in 'fiu':
        ctx.observe('interp2d: call outside the documented signature (not judged)')
        return
    nodes = _floats(xf)
    qs = _floats(x)
    if not _nodes_ok(nodes) or not all(math.isfinite(q) for q in qs) or not np.all(np.isfinite(f)):
        ctx.observe('interp2d: nodes not strictly increasing / non-finite input (not judged)')
        return
    table = [[float(v) for v in row] for row in f.tolist()]
    ref = np.array(O.interp_table(qs, nodes, table), dtype=float).reshape(len(qs), f.shape[1])
    got = np.asarray(result)
    wit = lambda: {'fn': 'interp2d', 'x': x, 'xf': xf, 'f': f, 'got': got, 'expected': ref}
    if got.shape != ref.shape:
        ctx.violation('interp2d.inside==columnwise-linear', wit(),
                      'interp2d returned shape %s, expected %s' % (got.shape, ref.shape))
        return
    got = got.astype(float)
    colscale = np.max(np.abs(np.asarray(table, dtype=float)), axis=0)     # value range of each column
    classes = [O.query_class(q, nodes) for q in qs]
    for names, clause in ((('inside',), 'interp2d.inside==columnwise-linear'), (('node',), 'interp2d.on-node==table-row'),
                          (('below', 'above'), 'interp2d.outside==end-row')):
        rows = [i for i, c in enumerate(classes) if c in names]
        if not rows:
            continue
        okk, idx, err, allowed = tol.worst(got[rows], ref[rows], scale=colscale[np.newaxis, :], rtol=RTOL)
        ctx.check(okk, clause, wit,
                  'interp2d(x, xf, f): query %r (%s) column %s: got %r expected %r (|diff| %.3g > %.3g); nodes %s'
                  % ((qs[rows[idx[0]]], classes[rows[idx[0]]], idx[1], got[rows][idx], ref[rows][idx], err, allowed,
                      nodes[:8]) if idx else (None, names, None, None, None, err, allowed, nodes[:8])))


def _parse_interp_left(args, kwargs):
    x0 = args[0] if args else kwargs['x0']
    x = args[1] if len(args) > 1 else kwargs['x']
    y = args[2] if len(args) > 2 else kwargs.get('y', None)
    return x0, x, y


def _interp_left_domain(x0, x):
    """(scalar?, queries, nodes) as floats, or None when the call is outside the domain."""
    scalar = not hasattr(x0, '__len__')
    try:
        qs = [float(x0)] if scalar else _floats(x0)
        nodes = _floats(x)
    except Exception:
        return None
    if not qs or not _nodes_ok(nodes) or not all(math.isfinite(q) for q in qs):
        return None
    return scalar, qs, nodes


def check_interp_left(ctx, x0, x, y, result):
    dom = _interp_left_domain(x0, x)
    if dom is None:
        ctx.observe('interp_left: nodes not strictly increasing / malformed call (not judged)')
        return
    scalar, qs, nodes = dom
    idx = O.left_values(qs, nodes, None)
    wit = lambda: {'fn': 'interp_left', 'x0': x0, 'x0_container': _cont(x0), 'x': x, 'x_container': _cont(x), 'y': y,
                   'y_container': _cont(y), 'got': np.asarray(result), 'expected_index': idx}
    if scalar:
        clause = 'interp_left.scalar-query'
    elif y is None:
        clause = 'interp_left.y=None->node-index'
    else:
        clause = 'interp_left==value-at-greatest-node<=q'
    if any(j is None for j in idx):
        # no node <= query: the statement defines no value there (eqsig rejects such calls today)
        ctx.observe('interp_left: query below the first node accepted (outside the domain, not judged)')
        return
    ylist = None if y is None else np.array(y).ravel().tolist()
    exp = O.left_values(qs, nodes, ylist)
    r = np.asarray(result)
    shape_ok = (r.ndim == 0) if scalar else (r.shape == (len(qs),))
    gl = r.ravel().tolist()
    okk = shape_ok and gl == exp
    msg = 'interp_left(%s, nodes %s, y %s) -> %s expected %s' % (qs[:8], nodes[:8], None if ylist is None else ylist[:8],
                                                               gl[:8], exp[:8])
    ctx.check(okk, clause, wit, msg)
    on = [i for i, q in enumerate(qs) if q == nodes[idx[i]]]
    if on and shape_ok:
        ctx.check(all(gl[i] == exp[i] for i in on), 'interp_left.on-node-query', wit, 'query on a node: ' + msg)


def _post_interp2d(args, kwargs, result, pre):
    x = args[0] if args else kwargs['x']
    xf = args[1] if len(args) > 1 else kwargs['xf']
    f = args[2] if len(args) > 2 else kwargs['f']
    check_interp2d(CTX, x, xf, f, result)


def _post_interp_left(args, kwargs, result, pre):
    x0, x, y = _parse_interp_left(args, kwargs)
    check_interp_left(CTX, x0, x, y, result)


def _exc_interp_left(args, kwargs, e, pre):
    x0, x, y = _parse_interp_left(args, kwargs)
    dom = _interp_left_domain(x0, x)
    if dom is None:
        CTX.observe('interp_left: nodes not strictly increasing / malformed call (not judged)')
        _mark(e)
        return
    scalar, qs, nodes = dom
    if isinstance(e, AssertionError) and min(qs) < nodes[0]:
        CTX.observe('interp_left: query below the first node rejected (outside the domain)')
    else:
        CTX.exception('interp_left.scalar-query' if scalar else 'interp_left==value-at-greatest-node<=q',
                      {'fn': 'interp_left', 'x0': x0, 'x0_container': _cont(x0), 'x': x, 'x_container': _cont(x), 'y': y,
                       'y_container': _cont(y)}, e)
    _mark(e)


# ============================================================================================== monitors: rolling average
def check_rollav(ctx, values, steps, mode, result):
    try:
        arr = np.asarray(values)
        st = int(steps)
    except Exception:
        arr, st = None, 0
    if arr is None or arr.ndim != 1 or arr.size == 0 or arr.dtype.kind not in 'fiu' or not np.all(np.isfinite(arr)) \
            or not (1 <= st <= arr.size) or st != steps or mode not in MODES:
        ctx.observe('calc_roll_av_vals: call outside the domain (window not in 1..len, unknown mode, ...; not judged)')
        return
    n = arr.size
    x = _floats(arr)
    got = np.asarray(result)
    wit = lambda: {'fn': 'calc_roll_av_vals', 'values': values, 'container': _cont(values), 'steps': st, 'mode': mode,
                   'got': got}
    if not ctx.check(got.shape == (n,), 'rollav.length-kept', wit,
                     'calc_roll_av_vals(%d samples, steps=%d, %r) returned shape %s' % (n, st, mode, got.shape)):
        return
    got = got.astype(float)
    mkey = 'centre' if mode in ('centre', 'center') else mode
    # rounding of the stated algorithm (differences of a running sum) is relative to the largest partial sum
    scale = (math.fsum(abs(v) for v in x) + (st - 1) * max(abs(x[0]), abs(x[-1]))) / st
    ref = np.array(O.rolling_mean(x, st, mkey))
    rt = _rtol_for(arr, 64)
    okk, idx, err, allowed = tol.worst(got, ref, scale=scale, rtol=rt)
    which = 'extra sample before'
    if not okk and mkey == 'centre' and st % 2 == 0:
        ref2 = np.array(O.rolling_mean(x, st, mkey, alt=True))
        ok2 = tol.worst(got, ref2, scale=scale, rtol=rt)[0]
        if ok2:
            okk, which = True, 'extra sample after'
    if mkey == 'centre' and st % 2 == 0 and okk:
        ctx.observe('rollav: even centred window, ' + which)
    ctx.check(okk, 'rollav.%s==window-mean' % mkey, wit,
              'calc_roll_av_vals(%s..., steps=%d, mode=%r)[%s] = %r, window mean with replicated edges = %r (|diff| %.3g > '
              '%.3g)' % (x[:8], st, mode, idx, got[idx] if idx is not None else None,
                         ref[idx] if idx is not None else None, err, allowed))
    if all(v == x[0] for v in x):
        ctx.check(bool(np.all(np.abs(got - x[0]) <= rt * abs(x[0]) * (n + st) / st)), 'rollav.constant-preserved', wit,
                  'constant series %r not preserved: %s' % (x[0], got[:8]))


def _post_rollav(args, kwargs, result, pre):
    values = args[0] if args else kwargs['values']
    steps = args[1] if len(args) > 1 else kwargs['steps']
    mode = args[2] if len(args) > 2 else kwargs.get('mode', 'forward')
    check_rollav(CTX, values, steps, mode, result)


# ============================================================================================== monitors: step fit
def _step_domain(values):
    try:
        arr = np.asarray(values)
    except Exception:
        return None
    if arr.ndim != 1 or arr.size < 2 or not (arr.dtype in (np.float64, np.float32) or arr.dtype.kind in 'iu'):
        return None
    if arr.dtype.kind == 'f' and not np.all(np.isfinite(arr)):
        return None
    return arr


def check_step_error(ctx, values, p, direction, result):
    arr = _step_domain(values)
    if arr is None or p not in (1, 2) or isinstance(p, bool):
        ctx.observe('calc_step_fn_vals_error: outside the domain (dtype / length / power; not judged)')
        return
    if direction is not None:
        ctx.observe('calc_step_fn_vals_error: dir given (direction penalty is not part of the statement; not judged)')
        return
    n = arr.size
    x = _floats(arr)
    exp = O.step_errors(x, int(p))
    got = np.asarray(result)
    wit = lambda: {'fn': 'calc_step_fn_vals_error', 'values': values, 'container': _cont(values), 'pow': int(p),
                   'got': got, 'expected': np.array(exp)}
    c_split = 'stepfit.error(p=1)==sum|dev|' if p == 1 else 'stepfit.error(p=2)==sum|dev|^2'
    c_last = 'stepfit.no-split-entry==whole-series-error'
    if got.shape != (n,):
        ctx.violation(c_split, wit(), 'calc_step_fn_vals_error returned shape %s for %d samples' % (got.shape, n))
        return
    gl = got.tolist()
    m = max(abs(v) for v in x)
    scale = n * m ** int(p)              # global scale of the series: n terms of size <= (2 max|x|)^p
    int_in = arr.dtype.kind in 'iu'
    for clause, sl in ((c_split, slice(0, n - 1)), (c_last, slice(n - 1, n))):
        g, e = gl[sl], exp[sl]
        okk, idx, err, allowed = tol.worst(np.array(g, dtype=float), np.array(e), scale=scale, rtol=_rtol_for(arr, 64))
        fin = None
        if not okk and int_in and got.dtype.kind in 'iu' and O.trunc_explains(g, e):
            fin = K5      # mechanism: float result stored into an array that inherited the integer dtype of the input
        i = idx[0] if idx else 0
        ctx.check(okk, clause, wit,
                  'calc_step_fn_vals_error(%s%s, pow=%d)[%d] = %r, sum of |deviation|^p of both sides from their own '
                  'means = %r (|diff| %.3g > %.3g)' % (x[:10], '...' if n > 10 else '', p, i + sl.start, g[i], e[i], err,
                                                       allowed), finding=fin)


def check_levels(ctx, values, ind, result, ind_given=True):
    arr = _step_domain(values)
    if arr is None:
        ctx.observe('calc_step_fn_steps_vals: outside the domain (not judged)')
        return
    n = arr.size
    try:
        i = int(ind)
    except Exception:
        i = -1
    if i != ind or not (1 <= i <= n - 2):
        ctx.observe('calc_step_fn_steps_vals: split sample without samples on both sides (not judged)')
        return
    x = _floats(arr)
    ref = O.step_levels(x, i)
    wit = lambda: {'fn': 'calc_step_fn_steps_vals', 'values': values, 'container': _cont(values),
                   'ind': i if ind_given else None, 'got': result, 'expected': ref}
    try:
        got = np.array([float(result[0]), float(result[1])])
        shape_ok = len(result) == 2
    except Exception:
        got, shape_ok = np.zeros(2), False
    m = max(abs(v) for v in x)
    okk = shape_ok and tol.close(got, np.array(ref), scale=m, rtol=_rtol_for(arr, 32))
    ctx.check(okk, 'stepfit.levels==side-means', wit,
              'calc_step_fn_steps_vals(%s%s, ind=%d) = %r, means before/after the split sample = %r'
              % (x[:10], '...' if n > 10 else '', i, result, ref))


def _post_step_error(args, kwargs, result, pre):
    values = args[0] if args else kwargs['values']
    p = args[1] if len(args) > 1 else kwargs.get('pow', 1)
    d = args[2] if len(args) > 2 else kwargs.get('dir', None)
    check_step_error(CTX, values, p, d, result)


def _post_levels(args, kwargs, result, pre):
    import eqsig
    values = args[0] if args else kwargs['values']
    ind = args[1] if len(args) > 1 else kwargs.get('ind', None)
    given = ind is not None
    if ind is None:
        # the split sample the function chose itself: arg-min of its own (monitored elsewhere) error function
        try:
            with attach.paused(), warnings.catch_warnings():
                warnings.simplefilter('ignore')
                ind = int(np.argmin(eqsig.fns.average.calc_step_fn_vals_error(values)))
            CTX.observe('calc_step_fn_steps_vals: ind=None (split = argmin of the error function)')
        except Exception:
            CTX.observe('calc_step_fn_steps_vals: outside the domain (not judged)')
            return
    check_levels(CTX, values, ind, result, ind_given=given)


# ============================================================================================== monitors: design spectra
def _ds():
    import eqsig
    return eqsig.design_spectra


def _is_float(v):
    return isinstance(v, float) and not isinstance(v, bool)


def _is_real(v):
    """Python / numpy real number (int or float), not bool."""
    return isinstance(v, (int, float, np.integer, np.floating)) and not isinstance(v, (bool, np.bool_))


def check_c_h(ctx, period, site_class, result):
    if site_class not in SITE_CLASSES:
        ctx.observe('c_h_factor: unknown site class (not judged)')
        return
    single = _is_float(period)
    try:
        ts = [period] if single else list(period)
    except Exception:
        ctx.observe('c_h_factor: period neither float nor sequence (not judged)')
        return
    # a container may hold integer-valued periods (list of ints, np.arange, int32 array ...): T = 1, 2, 3 s are periods
    # like any other; only a bare int scalar is outside the signature (len() of an int)
    if not ts or not all(_is_real(t) and math.isfinite(t) and t >= 0 for t in ts):
        ctx.observe('c_h_factor: periods outside T >= 0 as real numbers (not judged)')
        return
    if not single and any(not _is_float(t) for t in ts):
        ctx.observe('c_h_factor: container with integer-typed periods (judged)')
    wit = lambda: {'fn': 'c_h_factor', 'period': period, 'period_container': _cont(period), 'site_class': site_class,
                   'got': np.asarray(result)}
    r = np.asarray(result)
    if (r.ndim != 0) if single else (r.shape != (len(ts),)):
        ctx.violation('c_h_factor*T^2==sd_nzs(unit)', wit(), 'c_h_factor returned shape %s for %s period(s)'
                      % (r.shape, 'a scalar' if single else len(ts)))
        return
    chs = [float(v) for v in r.ravel().tolist()]
    ds = _ds()
    for t, ch in zip(ts, chs):
        t = float(t)
        try:
            with attach.paused():
                sd = float(ds.sd_nzs(t, site_class, 1.0, 1.0, 1.0))
        except Exception as e:
            ctx.exception('c_h_factor*T^2==sd_nzs(unit)', {'fn': 'sd_nzs', 'period': t, 'site_class': site_class,
                                                            'z': 1.0, 'r': 1.0, 'n': 1.0}, e)
            continue
        mine = O.sd_from_shape(ch, t, 1.0, 1.0, 1.0)
        okk = math.isfinite(ch) and tol.close(mine, sd, scale=max(abs(sd), abs(mine)) if math.isfinite(mine) else 1.0,
                                               rtol=RTOL)
        ctx.check(okk, 'c_h_factor*T^2==sd_nzs(unit)',
                  lambda: {'fn': 'c_h_factor', 'period': period, 'period_container': _cont(period),
                           'site_class': site_class, 'got': np.asarray(result), 'element': t, 'c_h': ch, 'sd_nzs_unit': sd},
                  'class %s T=%r (argument: %s%s): c_h_factor=%r -> C_h*T^2 = %r but sd_nzs(T, Z=N=R=1) = %r'
                  % (site_class, t, _cont(period), '' if single else ' of %d, dtype %s' % (len(ts), np.asarray(period).dtype),
                     ch, mine, sd))


def check_sd(ctx, period, site_class, z, r, n, result):
    if site_class not in SITE_CLASSES or not _is_float(period) or not math.isfinite(period) or period < 0:
        ctx.observe('sd_nzs: outside T >= 0 as float / classes C D E (not judged)')
        return
    t = float(period)
    wit = lambda: {'fn': 'sd_nzs', 'period': t, 'site_class': site_class, 'z': z, 'r': r, 'n': n, 'got': result}
    try:
        with attach.paused():
            ch = float(_ds().c_h_factor(t, site_class))
    except Exception as e:
        ctx.exception('sd_nzs==c_h*T^2*Z*N*R', wit(), e)
        return
    ref = O.sd_from_shape(ch, t, float(z), float(n), float(r))
    try:
        got = float(result)
    except Exception:
        got = float('nan')
    ctx.check(tol.close(got, ref, scale=abs(ref), rtol=RTOL), 'sd_nzs==c_h*T^2*Z*N*R', wit,
              'class %s T=%r Z=%r R=%r N=%r: sd_nzs = %r but c_h_factor(T)*T^2*Z*N*R = %r (c_h=%r)'
              % (site_class, t, z, r, n, got, ref, ch))


def _parse_teff(args, kwargs):
    names = ('displacement', 'site_class', 'z_factor', 'r_factor', 'n_factor')
    vals = list(args) + [kwargs[k] for k in names[len(args):]]
    return vals[0], vals[1], vals[2], vals[3], vals[4]


def _corner(site_class, z, r, n):
    with attach.paused():
        sd3 = float(_ds().sd_nzs(O.T_CORNER, site_class, z, r, n))
    return O.corner_displacement(sd3)


EDGE = 1e-12     # |d/d_c - 1| below this: the comparison "d > d_c" is within rounding of the two ways of forming d_c


def check_t_eff(ctx, d, site_class, z, r, n, result=None, exc=None):
    if site_class not in SITE_CLASSES or not all(isinstance(v, (float, int)) and not isinstance(v, bool)
                                                 and math.isfinite(v) for v in (d, z, r, n)) \
            or d < 0 or min(z, r, n) <= 0:
        ctx.observe('t_eff: outside the domain (not judged)')
        return
    wit = lambda: {'fn': 't_eff', 'displacement': float(d), 'site_class': site_class, 'z': z, 'r': r, 'n': n,
                   'got': result if exc is None else repr(exc)}
    try:
        dc = _corner(site_class, float(z), float(r), float(n))
    except Exception as e:
        ctx.exception('t_eff==T_c*d/d_c', wit(), e)
        return
    ratio = float(d) / dc
    if exc is not None:
        if isinstance(exc, ValueError) and ratio >= 1 - EDGE:
            if ratio > 1 + EDGE:
                ctx.ok('t_eff.rejects-above-corner')
            else:
                ctx.observe('t_eff: displacement within rounding of the corner (either outcome accepted)')
        else:
            ctx.exception('t_eff==T_c*d/d_c', wit(), exc)
        return
    if ratio > 1 + EDGE:
        ctx.violation('t_eff.rejects-above-corner', wit(),
                      't_eff(d=%r) returned %r although d exceeds the corner displacement d_c=%r (class %s Z=%r R=%r N=%r)'
                      % (d, result, dc, site_class, z, r, n))
        return
    ref = O.t_eff_reference(float(d), dc)
    try:
        got = float(result)
    except Exception:
        got = float('nan')
    ctx.check(tol.close(got, ref, scale=abs(ref), rtol=RTOL), 't_eff==T_c*d/d_c', wit,
              't_eff(d=%r, %s, Z=%r, R=%r, N=%r) = %r but T_c*d/d_c = %r with d_c = sd_nzs(3)*g/(2pi)^2 = %r'
              % (d, site_class, z, r, n, got, ref, dc))


def _post_c_h(args, kwargs, result, pre):
    period = args[0] if args else kwargs['period']
    sc = args[1] if len(args) > 1 else kwargs.get('site_class', 'C')
    check_c_h(CTX, period, sc, result)


def _post_sd(args, kwargs, result, pre):
    names = ('period', 'site_class', 'z_factor', 'r_factor', 'n_factor')
    vals = list(args) + [kwargs[k] for k in names[len(args):]]
    check_sd(CTX, vals[0], vals[1], vals[2], vals[3], vals[4], result)


def _post_teff(args, kwargs, result, pre):
    d, sc, z, r, n = _parse_teff(args, kwargs)
    check_t_eff(CTX, d, sc, z, r, n, result=result)


def _exc_teff(args, kwargs, e, pre):
    try:
        d, sc, z, r, n = _parse_teff(args, kwargs)
    except Exception:
        return
    check_t_eff(CTX, d, sc, z, r, n, exc=e)
    _mark(e)


def install(ctx):
    """Attach the C20 monitors to the imported eqsig (idempotent per process: wrap() appends to an existing wrapper, so
    install() must be called once per process)."""
    global CTX
    first = CTX is None
    CTX = ctx
    if not first:
        return
    import eqsig
    g = eqsig.fns.generic
    a = eqsig.fns.average
    d = eqsig.design_spectra
    attach.wrap(g, 'interp2d', _post_interp2d)
    attach.wrap(g, 'interp_left', _post_interp_left, on_exception=_exc_interp_left)
    attach.wrap(a, 'calc_roll_av_vals', _post_rollav)
    attach.wrap(a, 'calc_step_fn_vals_error', _post_step_error)
    attach.wrap(a, 'calc_step_fn_steps_vals', _post_levels)
    attach.wrap(d, 'c_h_factor', _post_c_h)
    attach.wrap(d, 'sd_nzs', _post_sd)
    attach.wrap(d, 't_eff', _post_teff, on_exception=_exc_teff)


# ============================================================================================== relations (driver side)
def _call(ctx, clause, wit, fn, *args, **kwargs):
    """Call a monitored public function; an exception the monitors have not judged is a violation of `clause`."""
    try:
        return True, fn(*args, **kwargs)
    except Exception as e:
        if not getattr(e, '_vf_seen', False):
            ctx.exception(clause, wit() if callable(wit) else wit, e)
        return False, None


def _spec_fn(eqsig, which, sc):
    ds = eqsig.design_spectra
    if which == 'c_h':
        return lambda t: float(ds.c_h_factor(float(t), sc))
    return lambda t: float(ds.sd_nzs(float(t), sc, 1.0, 1.0, 1.0))


def _jump_allowed(fa, fb):
    return O.TABLE_PRECISION * max(abs(fa), abs(fb)) + 1e-9


def find_jump(f, a, b, fa, fb, budget):
    """Search [a, b] for a sub-interval narrower than 1e-12 (relative) across which f changes by more than the table
    precision. Both halves are searched whenever the change over the interval exceeds the allowance (a smooth change
    halves with the interval and dies out after a few levels; a jump does not). Returns (a, b, fa, fb) or None."""
    if not (math.isfinite(fa) and math.isfinite(fb)):
        return (a, b, fa, fb)
    if abs(fb - fa) <= _jump_allowed(fa, fb):
        return None
    if b - a <= 2e-12 * max(1.0, abs(a)) or budget[0] <= 0:
        return (a, b, fa, fb) if b - a <= 2e-12 * max(1.0, abs(a)) else None
    m = 0.5 * (a + b)
    budget[0] -= 1
    fm = f(m)
    return find_jump(f, a, m, fa, fm, budget) or find_jump(f, m, b, fm, fb, budget)


def rel_continuity(ctx, eqsig, which, sc, a, b, clause):
    """One evaluation of the continuity clause on [a, b] for c_h_factor ('c_h') or sd_nzs with unit factors ('sd')."""
    f = _spec_fn(eqsig, which, sc)
    wit = {'fn': 'continuity', 'which': which, 'site_class': sc, 'a': a, 'b': b, 'clause': clause}
    budget = [4000]
    try:
        fa, fb = f(a), f(b)
        j = find_jump(f, a, b, fa, fb, budget)
    except Exception as e:
        ctx.exception(clause, wit, e)
        return
    if j is None and budget[0] <= 0:
        ctx.observe('continuity: bisection budget exhausted, interval not decided')
        return
    if j is not None:
        wit = dict(wit, jump_at=j[0], jump_to=j[1], f_left=j[2], f_right=j[3])
    ctx.check(j is None, clause, wit,
              '%s class %s jumps from %r at T=%r to %r at T=%r (%.2f %% > table precision 0.5 %%)'
              % ('c_h_factor' if which == 'c_h' else 'sd_nzs', sc, j[2], j[0], j[3], j[1],
                 100 * abs(j[3] - j[2]) / max(abs(j[2]), abs(j[3]), 1e-300)) if j is not None else '')


def rel_array_scalar(ctx, eqsig, arg, sc):
    """c_h_factor(container)[i] == c_h_factor(float(container[i])) for any container of real periods."""
    ds = eqsig.design_spectra
    periods = [float(t) for t in arg]
    wit = {'fn': 'c_h_array_scalar', 'periods': arg, 'container': _cont(arg), 'site_class': sc}
    okc, arr = _call(ctx, 'c_h.array==scalar', wit, ds.c_h_factor, arg, sc)
    if not okc:
        return
    sc_vals = []
    for t in periods:
        okc, v = _call(ctx, 'c_h.array==scalar', wit, ds.c_h_factor, t, sc)
        if not okc:
            return
        sc_vals.append(float(v))
    arr = np.asarray(arr, dtype=float)
    ctx.check(arr.shape == (len(periods),) and tol.close(arr, np.array(sc_vals), rtol=RTOL), 'c_h.array==scalar',
              dict(wit, got_array=arr, got_scalar=np.array(sc_vals)),
              'c_h_factor(%s %s, %r) = %s but element-wise c_h_factor(float(T)) gives %s'
              % (_cont(arg), list(arg)[:8], sc, arr[:8], sc_vals[:8]))


def rel_t_eff_roundtrip(ctx, eqsig, T, sc, z, r, n):
    """t_eff(d_c*T/3) == T with d_c from the (monitored) sd_nzs at the corner period."""
    ds = eqsig.design_spectra
    wit = {'fn': 't_eff_roundtrip', 'T': T, 'site_class': sc, 'z': z, 'r': r, 'n': n}
    okc, sd3 = _call(ctx, 't_eff(d_c*T/3)==T', wit, ds.sd_nzs, O.T_CORNER, sc, z, r, n)
    if not okc:
        return
    d = O.corner_displacement(float(sd3)) * T / O.T_CORNER
    okc, t = _call(ctx, 't_eff(d_c*T/3)==T', wit, ds.t_eff, d, sc, z, r, n)
    if not okc:
        return
    try:
        t = float(t)
    except Exception:
        t = float('nan')
    ctx.check(tol.close(t, T, scale=T, rtol=RTOL), 't_eff(d_c*T/3)==T', dict(wit, displacement=d, got=t),
              't_eff(d_c*T/3) = %r for T = %r (class %s Z=%r R=%r N=%r, d=%r)' % (t, T, sc, z, r, n, d))


def rel_t_eff_above(ctx, eqsig, factor, sc, z, r, n):
    """Displacements above the corner must be rejected with ValueError (judged by the t_eff monitor)."""
    ds = eqsig.design_spectra
    wit = {'fn': 't_eff_above', 'factor': factor, 'site_class': sc, 'z': z, 'r': r, 'n': n}
    okc, sd3 = _call(ctx, 't_eff.rejects-above-corner', wit, ds.sd_nzs, O.T_CORNER, sc, z, r, n)
    if not okc:
        return
    d = O.corner_displacement(float(sd3)) * factor
    _call(ctx, 't_eff.rejects-above-corner', wit, ds.t_eff, d, sc, z, r, n)


# ============================================================================================== workload generators
def gen_nodes(rng):
    """Strictly increasing node set (float64 or int64) and the name of its class."""
    for _ in range(20):
        m = int(rng.choice([1, 2, 3, 4, 5, 6, 7, 8], p=[.03, .17, .15, .15, .15, .15, .1, .1]))
        k = int(rng.integers(0, 6))
        if k == 5:
            # spacing far below the magnitude of the nodes (but >= 1e3 ulp, so the nodes stay distinct)
            off = float(rng.choice([-1.0, 1.0])) * 10.0 ** rng.uniform(-2, 3)
            nodes = off + np.cumsum(rng.uniform(0.5, 2.0, size=m)) * abs(off) * 10.0 ** rng.uniform(-12, -4)
            if np.all(np.isfinite(nodes)) and (m == 1 or np.all(np.diff(nodes) > 0)):
                return nodes, 'offset-fine-spacing'
            continue
        if k == 0:
            base = np.sort(rng.uniform(-5, 5, size=m))
            name = 'sorted-random'
        elif k == 1:
            base = np.arange(m, dtype=float) * float(rng.integers(1, 5)) + float(rng.integers(-3, 4))
            name = 'integer-grid'
        elif k == 2:
            base = np.sort(10.0 ** rng.uniform(-2, 1.5, size=m))
            name = 'log-spaced'
        elif k == 3:
            base = np.cumsum(10.0 ** rng.uniform(-5, 1, size=m)) - float(rng.uniform(0, 2))
            name = 'uneven'
        else:
            a = float(rng.uniform(-3, 3))
            base = np.linspace(a, a + float(10.0 ** rng.uniform(-1, 1)), m) if m > 1 else np.array([a])
            name = 'linspace'
        u = rng.random()
        if u < 0.55:
            s = 10.0 ** rng.uniform(-12, 6)
        elif u < 0.65:
            s = 2.0 ** int(rng.integers(-40, 20))
        else:
            s = 1.0
        nodes = base * s
        if name == 'integer-grid' and s == 1.0 and rng.random() < 0.5:
            idt = [np.int64, np.int32][int(rng.integers(2))]
            nodes = nodes.astype(idt)
            name = 'integer-grid-' + np.dtype(idt).name
        if np.all(np.isfinite(nodes)) and (m == 1 or np.all(np.diff(nodes) > 0)):
            return nodes, name
    return np.array([0.0, 1.0, 2.0]), 'integer-grid'


def gen_queries(rng, nodes, nq=None, below=True):
    """Query points: inside, on nodes, one ulp next to nodes, bracket mid-points, below and above."""
    nf = np.asarray(nodes, dtype=float)
    m = len(nf)
    span = float(nf[-1] - nf[0]) if m > 1 else max(1.0, abs(float(nf[0])))
    if nq is None:
        nq = int(rng.choice([1, 2, 3, 4, 5, 6, 30], p=[.1, .15, .2, .2, .15, .15, .05]))
    q = []
    for _ in range(nq):
        r = rng.random()
        if r < 0.34 and m > 1:
            j = int(rng.integers(0, m - 1))
            q.append(float(rng.uniform(nf[j], nf[j + 1])))
        elif r < 0.54:
            q.append(float(nf[int(rng.integers(0, m))]))
        elif r < 0.60:
            j = int(rng.integers(0, m))
            q.append(float(np.nextafter(nf[j], np.inf if rng.random() < 0.5 else -np.inf)))
        elif r < 0.66:
            # a hair (1e-9 .. 1e-15, relative or absolute) below / above a node
            j = int(rng.integers(0, m))
            h = float(10.0 ** rng.uniform(-15, -9)) * float(rng.choice([-1.0, 1.0]))
            q.append(float(nf[j] * (1.0 + h)) if rng.random() < 0.5 else float(nf[j] + h))
        elif r < 0.71 and m > 1:
            j = int(rng.integers(0, m - 1))
            q.append(float(0.5 * (nf[j] + nf[j + 1])))
        elif r < 0.85:
            q.append(float(nf[0] - span * (10.0 ** rng.uniform(-3, 1))))
        else:
            q.append(float(nf[-1] + span * (10.0 ** rng.uniform(-3, 1))))
    q = np.array(q, dtype=float)
    if not below:
        q = np.where(q < nf[0], nf[0] + (nf[0] - q) % max(span, 1e-300), q)
        q = np.maximum(q, nf[0])
    return q


def gen_table(rng, m):
    ncol = int(rng.integers(1, 5))
    k = int(rng.integers(0, 4))
    if k == 0:
        f = rng.normal(size=(m, ncol))
    elif k == 1:
        f = rng.integers(-9, 10, size=(m, ncol)).astype(float)
    elif k == 2:
        f = np.cumsum(np.abs(rng.normal(size=(m, ncol))), axis=0)
    else:
        f = rng.normal(size=(m, ncol))
        f[:, int(rng.integers(ncol))] = float(rng.normal())
    if k != 1 and rng.random() < 0.5:
        f = f * 10.0 ** rng.uniform(-3, 3, size=(1, ncol))
    if k == 1 and rng.random() < 0.5:
        f = f.astype([np.int64, np.int32][int(rng.integers(2))])
    return f


def gen_int_nodes(rng):
    """Integer-dtype node set with uneven integer spacing 1..4 (so that integer queries fall on and between nodes)."""
    m = int(rng.integers(1, 9))
    idt = [np.int64, np.int32][int(rng.integers(2))]
    nodes = (np.cumsum(rng.integers(1, 5, size=m)) + int(rng.integers(-6, 4))).astype(idt)
    return nodes, 'all-integer-' + np.dtype(idt).name


def gen_int_queries(rng, nodes, below=True):
    lo = int(nodes[0]) - (3 if below else 0)
    q = rng.integers(lo, int(nodes[-1]) + 4, size=int(rng.integers(1, 9)))
    return q.astype([np.int64, np.int32][int(rng.integers(2))])


def drive_interp(ctx, eqsig, rng, n_cases):
    for c in range(n_cases):
        all_int = rng.random() < 0.15
        if all_int:
            nodes, ncls = gen_int_nodes(rng)
        else:
            nodes, ncls = gen_nodes(rng)
        m = len(nodes)
        f = gen_table(rng, m)
        if all_int:
            q = gen_int_queries(rng, nodes)
            if rng.random() < 0.6:
                f = rng.integers(-9, 10, size=f.shape).astype([np.int64, np.int32][int(rng.integers(2))])
        else:
            q = gen_queries(rng, nodes)
        if not all_int and nodes.dtype.kind == 'i' and rng.random() < 0.5:
            q = np.round(q).astype(np.int64)
        nf = nodes.astype(float)
        inside = bool(np.any((q > nf[0]) & (q < nf[-1]) & ~np.isin(q, nf)))
        nontriv = inside and bool(np.any(np.ptp(np.asarray(f, dtype=float), axis=0) > 0))
        ctx.case(core.digest('interp', q, nodes, f), nontrivial=nontriv, cls='interp-' + ncls,
                 sample={'fn': 'interp2d+interp_left', 'nodes': nodes, 'queries': q[:6], 'table_shape': list(f.shape)})
        _call(ctx, 'interp2d.inside==columnwise-linear', lambda: {'fn': 'interp2d', 'x': q, 'xf': nodes, 'f': f},
              eqsig.interp2d, q, nodes, f)
        # left interpolation on the same node set (queries at or above the first node)
        ql = gen_int_queries(rng, nodes, below=False) if all_int else gen_queries(rng, nodes, below=False)
        yk = int(rng.integers(0, 5))
        y = [rng.normal(size=m), rng.integers(-9, 10, size=m), rng.normal(size=m).tolist(), None,
             rng.integers(-9, 10, size=m).tolist()][yk]
        xk = int(rng.integers(0, 3))
        xarg = [nodes, nodes.tolist(), nodes][xk]
        qarg = ql if rng.random() < 0.7 else ql.tolist()
        wl = lambda: {'fn': 'interp_left', 'x0': qarg, 'x0_container': _cont(qarg), 'x': xarg, 'x_container': _cont(xarg),
                      'y': y, 'y_container': _cont(y)}
        _call(ctx, 'interp_left==value-at-greatest-node<=q', wl, eqsig.interp_left, qarg, xarg, y)
        if y is not None:
            _call(ctx, 'interp_left.y=None->node-index', lambda: dict(wl(), y=None, y_container='NoneType'),
                  eqsig.interp_left, qarg, xarg)
        s = ql[int(rng.integers(len(ql)))]
        if all_int:
            s = [int(s), np.int64(s), float(s)][int(rng.integers(3))]
        else:
            s = [float(s), np.float64(s)][int(rng.integers(2))]
        _call(ctx, 'interp_left.scalar-query', lambda: dict(wl(), x0=s, x0_container=_cont(s)),
              eqsig.interp_left, s, xarg, y)
        if c % 25 == 0 and m > 1:
            # information only: a query below the first node is rejected
            _call(ctx, 'interp_left.scalar-query', None, eqsig.interp_left, float(nf[0] - (nf[-1] - nf[0])), xarg, y)


def gen_series(rng, n):
    x, cls = gen.record(rng, n)
    return x, cls


def drive_rollav(ctx, eqsig, rng, n_cases):
    for c in range(n_cases):
        n = int(rng.integers(1, 41)) if rng.random() < 0.93 else int(rng.integers(41, 401))
        x, cls = gen_series(rng, n)
        cont, kind = gen.container(rng, x)
        steps = int(rng.integers(1, n + 1))
        if n > 60:
            steps = int(rng.choice([1, 2, 3, 5, 8, 16, 33, n]))
        if rng.random() < 0.15:
            steps = min(n, [1, 2, n, max(1, n - 1)][int(rng.integers(4))])
        arr = np.asarray(cont)
        nontriv = steps > 1 and len(set(arr.tolist())) > 1
        ctx.case(core.digest('rollav', arr, steps), nontrivial=nontriv, cls='rollav-%s-%s' % (cls, kind),
                 sample={'fn': 'calc_roll_av_vals', 'n': n, 'class': cls, 'container': kind, 'steps': steps,
                         'head': arr[:8]})
        sarg = steps if rng.random() < 0.8 else np.int64(steps)
        for mode in MODES:
            w = lambda: {'fn': 'calc_roll_av_vals', 'values': cont, 'container': _cont(cont), 'steps': steps, 'mode': mode}
            if mode == 'forward' and rng.random() < 0.5:
                _call(ctx, 'rollav.forward==window-mean', w, eqsig.calc_roll_av_vals, cont, sarg)
            else:
                _call(ctx, 'rollav.%s==window-mean' % ('centre' if mode == 'center' else mode), w,
                      eqsig.calc_roll_av_vals, cont, sarg, mode=mode)


def gen_step_series(rng, n):
    k = int(rng.integers(0, 7))
    if k <= 2:      # noise around a positive / negative / zero level
        x = rng.normal(size=n) + [3.0, -3.0, 0.0][k]
        cls = ['positive', 'negative', 'mixed'][k]
    elif k == 3:    # a real step (the use case) with noise, either sign
        x = rng.normal(size=n) * 0.3
        j = int(rng.integers(0, n))
        x[j:] += float(rng.choice([-4.0, -1.0, 1.0, 4.0]))
        x += float(rng.choice([-5.0, 0.0, 5.0]))
        cls = 'step'
    elif k == 4:
        x, c = gen.record(rng, n, amp=1.0)
        cls = 'record-' + c
    elif k == 5:    # all-negative with large spread
        x = -np.abs(rng.normal(size=n)) * 10.0 - 0.5
        cls = 'negative'
    else:           # few levels
        x = rng.choice(np.array([-2.0, -1.0, 0.0, 1.0, 4.0]), size=n)
        cls = 'levels'
    return x, cls


def drive_stepfit(ctx, eqsig, rng, n_cases):
    for c in range(n_cases):
        n = int(rng.integers(2, 31)) if rng.random() < 0.95 else int(rng.integers(31, 121))
        x, cls = gen_step_series(rng, n)
        u = rng.random()
        if u < 0.3:
            vals = np.round(x * (1.0 if np.max(np.abs(x)) > 2 else 3.0)).astype([np.int64, np.int64, np.int32][int(rng.integers(3))])
            if rng.random() < 0.15 and np.all(vals >= 0):
                vals = vals.astype(np.uint16)
            kind = str(vals.dtype)
            if rng.random() < 0.3:
                vals = [int(v) for v in vals.tolist()]
                kind = 'list-int'
        else:
            if rng.random() < 0.3:
                x = x * 10.0 ** rng.uniform(-6, 6)
            vals = np.array(x, dtype=float)
            kind = 'float64'
            v = rng.random()
            if v < 0.2:
                vals = vals.tolist()
                kind = 'list-float'
            elif v < 0.3:
                vals = tuple(vals.tolist())
                kind = 'tuple-float'
            elif v < 0.45:
                vals = vals.astype(np.float32)
                kind = 'float32'
        arr = np.asarray(vals)
        nontriv = len(set(arr.tolist())) > 1
        ctx.case(core.digest('stepfit', arr), nontrivial=nontriv, cls='stepfit-%s-%s' % (cls, kind),
                 sample={'fn': 'calc_step_fn_vals_error+calc_step_fn_steps_vals', 'n': n, 'class': cls, 'dtype': kind,
                         'head': arr[:8]})
        for p in (1, 2):
            w = lambda: {'fn': 'calc_step_fn_vals_error', 'values': vals, 'container': _cont(vals), 'pow': p}
            if p == 1 and rng.random() < 0.5:
                _call(ctx, 'stepfit.error(p=1)==sum|dev|', w, eqsig.calc_step_fn_vals_error, vals)
            else:
                _call(ctx, 'stepfit.error(p=%d)==sum|dev|%s' % (p, '' if p == 1 else '^2'), w,
                      eqsig.calc_step_fn_vals_error, vals, pow=p)
        if n >= 3:
            for ind in set([1, n - 2, int(rng.integers(1, n - 1))]):
                _call(ctx, 'stepfit.levels==side-means',
                      lambda: {'fn': 'calc_step_fn_steps_vals', 'values': vals, 'container': _cont(vals), 'ind': ind},
                      eqsig.calc_step_fn_steps_vals, vals, ind)
            if c % 4 == 0:
                _call(ctx, 'stepfit.levels==side-means',
                      lambda: {'fn': 'calc_step_fn_steps_vals', 'values': vals, 'container': _cont(vals), 'ind': None},
                      eqsig.calc_step_fn_steps_vals, vals)
        if c % 10 == 0:
            # information only: the direction penalty is not part of the statement
            _call(ctx, 'stepfit.error(p=1)==sum|dev|', None, eqsig.calc_step_fn_vals_error, vals, 1,
                  ['up', 'down'][int(rng.integers(2))])


def gen_period(rng, sc):
    r = rng.random()
    if r < 0.05:
        return 0.0
    if r < 0.30:
        b = float(rng.choice(O.BOUNDARIES[sc]))
        return float(b * (1.0 + float(rng.choice([-1e-12, 0.0, 1e-12, -1e-6, 1e-6]))))
    if r < 0.80:
        return float(rng.uniform(0, 6))
    if r < 0.95:
        return float(10.0 ** rng.uniform(-6, 3))
    return float(rng.choice([0.05, 0.2, 0.5, 0.75, 1.0, 2.0, 3.0, 4.0, 10.0]))


INT_PERIODS = [0, 1, 2, 3, 4, 5, 6, 10]


def gen_period_container(rng, sc):
    """A container of 1..8 periods in the forms c_h_factor accepts: float / integer arrays, lists, tuples, mixed."""
    n = int(rng.integers(1, 9))
    k = int(rng.integers(0, 10))
    fl = [gen_period(rng, sc) for _ in range(n)]
    it = [int(v) for v in rng.choice(INT_PERIODS, size=n, p=[.06, .22, .2, .2, .1, .1, .06, .06])]
    if k == 0:
        return np.array(fl, dtype=float), 'f64-array'
    if k == 1:
        return fl, 'float-list'
    if k == 2:
        return tuple(fl), 'float-tuple'
    if k == 3:
        return it, 'int-list'
    if k == 4:
        return tuple(it), 'int-tuple'
    if k == 5:
        a = int(rng.integers(0, 3))
        return np.arange(a, a + n), 'arange'
    if k == 6:
        dt = [np.int32, np.int64, np.uint8, np.int16][int(rng.integers(4))]
        return np.array(it, dtype=dt), 'int-array-' + np.dtype(dt).name
    if k == 7:
        return [it[i] if rng.random() < 0.5 else fl[i] for i in range(n)], 'mixed-list'
    if k == 8:
        return [np.int64(v) for v in it], 'numpy-int-list'
    return [float(v) for v in it], 'integer-valued-float-list'


def gen_factors(rng):
    """Z, R, N in their NZS 1170.5 ranges."""
    return float(rng.uniform(0.13, 0.6)), float(rng.uniform(0.25, 1.8)), float(rng.uniform(1.0, 1.72))


def drive_spectra_random(ctx, eqsig, rng, n_cases):
    ds = eqsig.design_spectra
    for c in range(n_cases):
        sc = SITE_CLASSES[int(rng.integers(3))]
        T = gen_period(rng, sc)
        z, r, n = gen_factors(rng)
        if rng.random() < 0.1:
            z, r, n = 1.0, 1.0, 1.0
        ctx.case(core.digest('spectra', sc, T, z, r, n), nontrivial=T > 0, cls='spectra-%s' % sc,
                 sample={'fn': 'c_h_factor+sd_nzs+t_eff', 'site_class': sc, 'T': T, 'Z': z, 'R': r, 'N': n})
        targ = T if rng.random() < 0.5 else np.float64(T)
        _call(ctx, 'c_h_factor*T^2==sd_nzs(unit)',
              {'fn': 'c_h_factor', 'period': T, 'period_container': 'float', 'site_class': sc}, ds.c_h_factor, targ, sc)
        _call(ctx, 'sd_nzs==c_h*T^2*Z*N*R', {'fn': 'sd_nzs', 'period': T, 'site_class': sc, 'z': z, 'r': r, 'n': n},
              ds.sd_nzs, targ, sc, z, r, n)
        if c % 2 == 0:
            arg, form = gen_period_container(rng, sc)
            ctx.case(core.digest('period-container', sc, form, np.asarray(arg)), nontrivial=True,
                     cls='spectra-container-' + form)
            rel_array_scalar(ctx, eqsig, arg, sc)
        # effective period: inside (0, 3], at the corner (two-sided), above the corner (must be rejected)
        Te = float(rng.uniform(0, 3)) if rng.random() < 0.8 else float(rng.choice([3.0 * (1 - 1e-9), 1.5, 1e-6, 0.56, 2.999]))
        if Te > 0:
            rel_t_eff_roundtrip(ctx, eqsig, Te, sc, z, r, n)
        if c % 4 == 1:
            rel_t_eff_above(ctx, eqsig, 1.0 + float(10.0 ** rng.uniform(-6, 0.5)), sc, z, r, n)
        if c % 16 == 2:
            rel_t_eff_above(ctx, eqsig, 1.0, sc, z, r, n)       # exactly the corner: either outcome is consistent
        if c % 16 == 3:
            wit = {'fn': 't_eff', 'displacement': 0.0, 'site_class': sc, 'z': z, 'r': r, 'n': n}
            _call(ctx, 't_eff==T_c*d/d_c', wit, ds.t_eff, 0.0, sc, z, r, n)


def scan_grid(tier):
    f = 1 if tier == 'quick' else 4
    a = np.arange(0, 600 * f + 1) * (2e-4 / f)                       # 0 ... 0.12
    b = 0.12 + np.arange(1, 6380 * f + 1) * (1e-3 / f)                # ... 6.5
    return np.concatenate([a, b])


def drive_continuity(ctx, eqsig):
    # one-sided limits at the segment boundaries of the tables (and at T -> 0+)
    n = 0
    for sc in SITE_CLASSES:
        for tb in [0.0] + O.BOUNDARIES[sc]:
            a, b = (0.0, 1e-12) if tb == 0 else (tb * (1 - 1e-12), tb)
            rel_continuity(ctx, eqsig, 'c_h', sc, a, b, 'c_h.continuous(boundaries)')
            rel_continuity(ctx, eqsig, 'sd', sc, a, b, 'sd_nzs.continuous(boundaries)')
            if tb > 0:
                rel_continuity(ctx, eqsig, 'c_h', sc, tb, tb * (1 + 1e-12), 'c_h.continuous(boundaries)')
                rel_continuity(ctx, eqsig, 'sd', sc, tb, tb * (1 + 1e-12), 'sd_nzs.continuous(boundaries)')
            n += 2
    if ctx.shard == 0:
        ctx.cases_enumerated(n, n, cls='continuity-boundaries')
    # scan: every grid interval, bisected wherever the change exceeds the table precision
    grid = scan_grid(ctx.tier)
    n = 0
    for k in core.split_range(len(grid) - 1, ctx.shard, ctx.nshards):
        a, b = float(grid[k]), float(grid[k + 1])
        for sc in SITE_CLASSES:
            rel_continuity(ctx, eqsig, 'c_h', sc, a, b, 'c_h.continuous(scan)')
            rel_continuity(ctx, eqsig, 'sd', sc, a, b, 'sd_nzs.continuous(scan)')
            n += 2
    ctx.cases_enumerated(n, n, cls='continuity-scan')
    ctx.exhaustive['continuity_scan_intervals_x_class_x_function'] = n


def run_shard(ctx):
    eqsig = core.import_eqsig()
    install(ctx)
    warnings.simplefilter('ignore')
    np.seterr(all='ignore')
    rng = ctx.rng
    quick = ctx.tier == 'quick'
    per = lambda total: total // ctx.nshards + 1
    drive_continuity(ctx, eqsig)
    drive_interp(ctx, eqsig, rng, per(8000 if quick else 80000))
    drive_rollav(ctx, eqsig, rng, per(8000 if quick else 80000))
    drive_stepfit(ctx, eqsig, rng, per(6400 if quick else 64000))
    drive_spectra_random(ctx, eqsig, rng, per(4800 if quick else 48000))
    ctx.note('monitored_calls', dict(attach.CALLS))
    ctx.note('tolerance', 'rtol %g of: column range (interp2d), largest partial sum / window (rolling average), n*max|x|^p '
                          '(step-fit error), max|x| (levels), the reference value (design spectra); exact for interp_left; '
                          'jump <= 0.5 %% + 1e-9 (continuity)' % RTOL)


# ============================================================================================== replay
def _as_container(v, name):
    if name == 'list':
        return np.asarray(v).tolist() if isinstance(v, np.ndarray) else list(v)
    if name == 'tuple':
        return tuple(v.tolist()) if isinstance(v, np.ndarray) else tuple(v)
    if name == 'ndarray':
        return np.asarray(v)
    return v


def replay(w):
    """Re-execute one witness against the current tree; return the list of violation messages."""
    global CTX
    eqsig = core.import_eqsig()
    ctx = core.Ctx(PROP_ID, 'quick', 0, 0, 1)
    install(ctx)
    CTX = ctx
    warnings.simplefilter('ignore')
    np.seterr(all='ignore')
    ds = eqsig.design_spectra
    fn = w.get('fn')
    clause = 'replay'
    if fn == 'interp2d':
        _call(ctx, clause, w, eqsig.interp2d, np.asarray(w['x']), np.asarray(w['xf']), np.asarray(w['f']))
    elif fn == 'interp_left':
        x0 = w['x0']
        xc = w.get('x0_container')
        x0 = float(x0) if xc in ('float', 'float64') else (int(x0) if xc in ('int', 'int64', 'int32') else _as_container(x0, xc))
        y = w.get('y')
        y = None if y is None else _as_container(y, w.get('y_container'))
        _call(ctx, clause, w, eqsig.interp_left, x0, _as_container(w['x'], w.get('x_container')), y)
    elif fn == 'calc_roll_av_vals':
        _call(ctx, clause, w, eqsig.calc_roll_av_vals, _as_container(w['values'], w.get('container')), w['steps'],
              mode=w['mode'])
    elif fn == 'calc_step_fn_vals_error':
        _call(ctx, clause, w, eqsig.calc_step_fn_vals_error, _as_container(w['values'], w.get('container')), pow=w['pow'])
    elif fn == 'calc_step_fn_steps_vals':
        vals = _as_container(w['values'], w.get('container'))
        if w.get('ind') is None:
            _call(ctx, clause, w, eqsig.calc_step_fn_steps_vals, vals)
        else:
            _call(ctx, clause, w, eqsig.calc_step_fn_steps_vals, vals, w['ind'])
    elif fn == 'c_h_factor':
        p = w['period']
        p = float(p) if w.get('period_container') in ('float', 'float64') else _as_container(p, w.get('period_container'))
        _call(ctx, clause, w, ds.c_h_factor, p, w['site_class'])
    elif fn == 'sd_nzs':
        _call(ctx, clause, w, ds.sd_nzs, float(w['period']), w['site_class'], w['z'], w['r'], w['n'])
    elif fn == 't_eff':
        _call(ctx, clause, w, ds.t_eff, float(w['displacement']), w['site_class'], w['z'], w['r'], w['n'])
    elif fn == 'continuity':
        rel_continuity(ctx, eqsig, w['which'], w['site_class'], float(w['a']), float(w['b']), w.get('clause', 'continuity'))
    elif fn == 'c_h_array_scalar':
        rel_array_scalar(ctx, eqsig, _as_container(w['periods'], w.get('container')), w['site_class'])
    elif fn == 't_eff_roundtrip':
        rel_t_eff_roundtrip(ctx, eqsig, float(w['T']), w['site_class'], w['z'], w['r'], w['n'])
    elif fn == 't_eff_above':
        rel_t_eff_above(ctx, eqsig, float(w['factor']), w['site_class'], w['z'], w['r'], w['n'])
    else:
        return ['unknown witness kind %r' % fn]
    return ['%s: %s' % (v['clause'], v['msg']) for v in ctx.violations if not v.get('finding')]
