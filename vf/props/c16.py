"""C16 - saved signals load back unchanged (to the precision of the eqsig text format).

Monitor: a stateful runtime monitor over the save/load *pair*.  Post-conditions on save_values_and_dt / save_signal keep
a model of what was last saved to every path (values, dt, label as held in memory by the caller - never parsed from the
file; the bytes of the file are read for the witness only).  Post-conditions on load_values_and_dt / load_signal /
load_sig / load_asig (wherever the call comes from, nested calls included) compare what was returned with that model:
number of points, dt to 4 decimals, values to 6 decimals times m, label when requested, exact object type.
Workload: one-shot round trips to fresh paths, HISTORIES on one path (save -> load -> save another signal -> load ...),
interleaved histories on several paths, and a sweep of the 4-decimal time steps k/10000.
"""
import os
import shutil
import string
import tempfile

import numpy as np

from vf import attach, core, gen
from vf.oracles import eqsig_format as O

PROP_ID = 'C16'
TECHNIQUE = ('stateful runtime monitor over the save/load pair (model of the last record saved to each path; '
             'post-conditions on all four loaders, nested calls included) with a decimal-rounding reference oracle; '
             'workload = one-shot round trips, same-path and interleaved save/load histories (refused and out-of-domain '
             'calls in between), object histories with Python copies, A;B;A blocks, sweep of 4-decimal dt')
RULE = ('case = one block of save_/load_ calls of the real functions on 1-3 temporary paths. one-shot: a record '
        '(1..2000 samples incl. 2**p and 2**p+-1; classes noise/walk/quake/plateau/..., extreme at first/last sample, flat '
        'ends, ending after a sign change; |v| 1e-12..1e20 (some to 1e300), small signal on offsets to 1e9, half-way '
        'points of the 6th decimal incl. exact dyadic ties; float64/float32/float16, int64/int32/int16/int8/uint8/uint16/'
        'uint32 over the full range of the type, lists/tuples of floats, of ints and mixed; strided, reversed and '
        'read-only views, a Signal whose own array is read-only) saved with save_signal (Signal/AccSignal) or '
        'save_values_and_dt (positional and keyword) to a fresh path and read by every loader entry point '
        '(load_values_and_dt, load_signal default/sig/signal/acc_sig, load_sig m, load_asig load_label x m; every option '
        'positionally and by keyword, ffp by keyword, m incl. 0, -0.0, 1, 1e-12..1e12, numpy scalar types). history: 3..6 '
        'rounds of save(different record, length, dt, label, saver) -> loads on the SAME path, incl. same-size '
        'overwrites, re-saving the loaded object and saving the SAME argument object (array / Signal) a second time; '
        'interleaved: the same on 2-3 paths incl. two same-shape records on two paths read back to back. objhist: ONE '
        'Signal object saved again and again between reset_values (same/shorter/longer), in-place edits, label changes '
        'and cache reads, through save_signal(obj) and save_values_and_dt(obj.values, ...). dt: design list, k/10000 over '
        'six decades, dt>=1 with 5-6 significant digits, 100 < dt <= 1000, log-uniform raw in [1e-4,1000], half-way '
        'points of the 4th decimal incl. exact dyadic ties (odd/32), int/float32/float64; dt < 1e-4 and > 1000 are driven '
        'but only counted. labels: default, spaces, digits, header look-alikes, empty, comma, #, random printable ASCII. '
        'sweep: save/load of every dt=k/10000 in the enumerated range. long: npts in {65535, 65536, 65537, 70001, 131072, '
        '131073, 200003} (thorough: also 2**p, 2**p+-1 and random lengths around 2**p for p=10..18, and up to 524289 '
        'points), each through both savers and every loader entry point. distinct = digest of (all saved records, dt, '
        'labels, layouts, call list); non-trivial = some saved record has a value that does not round to 0. Audit 2: '
        'block-boundary lengths 4095..50001 (2**p+-1, decimal blocks, k blocks + 1; thorough to 250001), dt with awkward '
        'float quotients (gen.awkward_dt), raw reciprocals 1/k and steps within 1 % of them; records with one sample 1e3..1e12 '
        'times the steps of the others, monotone, one-sided, tail-heavy, constant-magnitude alternating, single step, '
        'exact zeros inside; m as 0-d / one-element array; results edited in place by the caller and the path read '
        'again; objhist objects that are warm (spectra, series, peaks cached), deep copies, and objects made by the '
        'library itself (interp_to_approx_dt, resample_to_approx_dt, Cluster.signal_by_index); a complex fas2signal record '
        'is saved as an observation only. Round 3 (checklist 22-27): copy.copy (rebound at once) / copy.deepcopy / pickle '
        'round trips of cold and warm objects, copy and original then mutated and saved in both orders (objhist), and of '
        'the object a loader returned, which is then saved again; obj.values = list/tuple/ndarray with 1, 2, 3 entries or '
        'the current length (ignored by the clean tree) and obj.dt = x (raises) between saves; records handed to the '
        'Signal constructor as list / tuple, label passed positionally; m as one-element list / tuple; saves that the '
        'library refuses (None or a str inside the values, at the first / middle / last position, dt None or str, values '
        'None, a Signal without dt) on a path that holds a record, followed by loads of that path; records with nan / inf '
        'and dt = nan (written silently; not judged) and loads of missing / empty / header-only files (not judged) in the '
        'middle of histories; A;B;A blocks (case kind aba): the same loader call with the same, also non-default, options '
        'on record A before and after a record B that differs from A in the values only / dt only / label only / is a '
        'same-size twin / is unrelated went through the savers and loaders, on two paths and on one path; dt within a '
        'fraction 1e-3 of 1e-4, 100 and 1000 and steps J - 5e-5 + e that round up into a new leading digit; values '
        'J - 5e-7 + e likewise (carry6); strictly positive records. Round 4 (spelling of the options): load_label of '
        'load_asig, positionally and by keyword, as Python bool, numpy bool scalar (made directly, by a comparison, taken '
        'from a bool array), 0-d bool array (also the kept result of a reduction), int 0 / 1, numpy integers of four '
        'widths and 0-d integer array, both truth values, in one-shot, history, objhist, A;B;A blocks and the dt sweep; '
        'm as numpy scalars float16/32/64, int8..int64, uint8 and 0-d arrays float16/32/64, int64, uint16; dt of both '
        'savers and of the Signal constructor as 0-d arrays (float64 / float32 / float16 / six integer dtypes, int8 / '
        'uint8) and numpy scalars float16, int8..uint64 next to float32 / float64. Round 5 (checklist 28-33): every loader '
        'option is snapshotted at call entry (a 0-d / one-element array or list m, a 0-d flag is the caller\'s MUTABLE '
        'object; the shared objects of M_LIST go through many consecutive calls) - the values are judged with the factor '
        'as it was at entry and the option objects are compared after the call; m as True / np.True_ / np.bool_(False) / '
        '0-d bool array, negative 0-d and one-element factors; bool-dtype records (random on/off, one rectangular pulse, a '
        'lone on sample, all on, on at both ends; 1 sample and up) as ndarray, list / tuple of Python bools and through '
        'the Signal constructor; records given as list(arr) / tuple(arr), i.e. entries that are numpy scalars (float64 / '
        'float32 / float16 / every integer width / bool); objhist objects with user-given settings (smooth_fa_freqs '
        'with 1..30 entries up to 4 x Nyquist, response_times below 2 dt incl. the lone [0.0], as list and ndarray, an '
        'explicit gen_fa_spectrum(n=2..1024)) saved again and again; A;B;A blocks in which the caller overwrites every '
        'array of the first results (zero / scale / first sample) before the same calls are made again.')
ASSUMPTIONS = ['the format holds values to 6 and dt to 4 decimals: "same to nd decimals" = the multiple of 10**-nd nearest '
               'to the saved number; within 4 ulps of a half-way point (exact ties included) either neighbour is accepted',
               'finite real values, length >= 1, single-line str label; dt in [1e-4, 1000] is judged (every step the '
               '4-decimal header represents; the quantifier names [1e-4, 100]), dt < 1e-4 (not representable) and > 1000 '
               'are driven and counted, not judged',
               'every load is judged against a snapshot of the values/dt/label the saver was given, taken at the entry of '
               'the save call (never against the object later, never against derived caches)',
               '"unchanged" also covers the caller\'s side: a save must leave its arguments bit-for-bit as they were '
               '(clause save.leaves-arguments-unchanged) and a result handed out by a loader must not change when later '
               'calls run (clause earlier-result-intact-after-later-call)',
               'save_signal must leave EVERY attribute of the object as it was (values, dt, label, options, cached series, '
               'spectra and cache flags), compared bit for bit; two results handed out by loaders never share memory (nor are '
               'the same object): clause returned-objects-share-no-memory',
               'a load factor m given as a 0-d or one-element array is judged like the scalar; longer arrays and complex '
               'records (fas2signal) are outside the format and only counted',
               'requested type is judged exactly: Signal requested -> type is Signal (not the subclass AccSignal)',
               'a save that raises is outside the quantifier, but the record the path held before it is not: the loads that '
               'follow are judged against that record (clause refused-save.leaves-previous-record). One mechanism is only '
               'counted (coordinator ruling: the statement says what a load returns after a save of a signal with a label; a '
               'label that is not a str is no label of the format and nothing is promised about a path after such a call): '
               'it makes the clean writer raise after open(ffp, "w") has emptied the file',
               'the object a loader returns is an ordinary Signal: copy.copy / copy.deepcopy / a pickle round trip of it give '
               'the same type, npts, dt, values (bit for bit) and label (clause loaded-object.copy/deepcopy/pickle==loaded)',
               'results depend on the arguments only: the same loader call on the same saved record returns the same bits '
               'before and after other records were processed (clause A;B;A.third==first)',
               'an attribute that a save ATTACHES to the signal counts as a change of the signal',
               'the label is judged only when requested (load_asig(load_label=True))',
               '"requested" = the flag is true, however it is spelt: np.bool_(True), a 0-d bool array, the int 1 and numpy '
               'integers equal to 1 request the label exactly as the Python singleton True does (the parameter is documented '
               'as bool, the clean tree tests its truth value); the loaded label must be the saved str (clause label==saved('
               'true flag that is not a Python bool), a sub-count of label==saved(load_label=True)). A false flag in any '
               'spelling is no request: the label is then not judged by the model, only by A;B;A',
               'a time step or load factor given as a numpy scalar or 0-d array is the number it holds (float(x)); a witness '
               'records the numpy type of scalar options (np_types) and the replay casts them back',
               'a loader leaves the options it was given as they were (clause load.leaves-arguments-unchanged, evaluated '
               'when an option is a mutable object: ndarray or list), and every judgement uses the options as they were at '
               'call entry',
               'a bool-dtype record is the record of its 0.0 / 1.0 values (the library casts kinds i, u, b to float on '
               'purpose); a list whose entries are numpy scalars is the record np.asarray gives; m = True / False is the '
               'factor 1.0 / 0.0',
               'save_signal leaves the settings a user gave to the object (smoothing frequencies, response periods, the grid '
               'of an explicitly requested spectrum) as they were, also when they lie outside the band of the data: clause '
               'save_signal.leaves-user-settings-unchanged, a named sub-count of save.leaves-arguments-unchanged',
               'a result belongs to the caller: after the caller overwrote the arrays of a result, the same call returns '
               'what the first call returned (clause earlier-result-overwritten.same-call-again==first)',
               'checklist 33: at a half-way point (within 4 ulps) both neighbours are "the saved number to nd decimals" by the '
               'statement itself (each is within half a unit of the last decimal); this is a per-value tolerance, not a '
               'choice between conventions of the tree - nothing to fix per tree, no record satisfies it trivially '
               '(non-trivial = some value does not round to 0)',
               'files are written and read within one process on a local temporary directory; nothing else touches them',
               'oracle vf/oracles/eqsig_format.py is correct (formatter and exact Decimal arithmetic cross-checked)']
EXHAUSTIVE = {'quick': 'every time step dt = k/10000, k = 1..20000 (all 4-decimal dt up to 2 s), one save + one load each '
                       '(loader and saver cycle with k); above that every 61st k up to 1000000',
              'thorough': 'every time step dt = k/10000, k = 1..1000000 (all 4-decimal dt in [1e-4, 100]), one save + one '
                          'load each (loader and saver cycle with k)'}
MIN_EVALS = {'quick': {'npts': 120000, 'dt==round4(saved)': 120000, 'values==m*round6(saved)': 120000,
                       'dt.within-half-4th-decimal': 120000, 'values.within-half-6th-decimal': 120000,
                       'label==saved(load_label=True)': 10000, 'call-returns': 100000,
                       'type.load_values_and_dt->(ndarray,float)': 65000, 'type.load_signal(default|sig)->Signal': 11000,
                       'type.load_signal(signal)->Signal': 10000, 'type.load_signal(acc_sig)->AccSignal': 10000,
                       'type.load_sig->Signal': 11000, 'type.load_asig->AccSignal': 14000,
                       'history.same-path-reload': 20000, 'long-record(>65536).reload': 40,
                       'save.leaves-arguments-unchanged': 50000, 'earlier-result-intact-after-later-call': 100000,
                       'returned-objects-share-no-memory': 90000, 'block-boundary-record(4095..65536).reload': 60,
                       'refused-save.leaves-previous-record': 2600, 'A;B;A.third==first': 1200,
                       'loaded-object.copy/deepcopy/pickle==loaded': 1000,
                       'label==saved(true flag that is not a Python bool)': 12000, 'dt-given-as-0-d-array.reload': 2000,
                       'dt-given-as-numpy-scalar.reload': 5000, 'm-given-as-numpy-scalar|0-d-array': 11000,
                       'load.leaves-arguments-unchanged': 9000, 'save_signal.leaves-user-settings-unchanged': 500,
                       'earlier-result-overwritten.same-call-again==first': 400, 'bool-dtype-record.reload': 700,
                       'record-given-as-list-of-numpy-scalars.reload': 1400},
             'thorough': {'npts': 2200000, 'dt==round4(saved)': 2200000, 'values==m*round6(saved)': 2200000,
                          'dt.within-half-4th-decimal': 2200000, 'values.within-half-6th-decimal': 2200000,
                          'label==saved(load_label=True)': 200000, 'call-returns': 2000000,
                          'type.load_values_and_dt->(ndarray,float)': 1200000,
                          'type.load_signal(default|sig)->Signal': 200000, 'type.load_signal(signal)->Signal': 180000,
                          'type.load_signal(acc_sig)->AccSignal': 180000, 'type.load_sig->Signal': 200000,
                          'type.load_asig->AccSignal': 250000, 'history.same-path-reload': 300000,
                          'long-record(>65536).reload': 150, 'save.leaves-arguments-unchanged': 1000000,
                          'earlier-result-intact-after-later-call': 1500000,
                          'returned-objects-share-no-memory': 1000000, 'block-boundary-record(4095..65536).reload': 300,
                          'refused-save.leaves-previous-record': 29000, 'A;B;A.third==first': 12000,
                          'loaded-object.copy/deepcopy/pickle==loaded': 11000,
                          'label==saved(true flag that is not a Python bool)': 240000, 'dt-given-as-0-d-array.reload': 24000,
                          'dt-given-as-numpy-scalar.reload': 60000, 'm-given-as-numpy-scalar|0-d-array': 200000,
                          'load.leaves-arguments-unchanged': 135000, 'save_signal.leaves-user-settings-unchanged': 5500,
                          'earlier-result-overwritten.same-call-again==first': 5000, 'bool-dtype-record.reload': 8000,
                          'record-given-as-list-of-numpy-scalars.reload': 16000}}

CTX = None
REG = {}        # realpath -> {'saved': op dict of the last successful save (None = unknown), 'pid': int, 'n_saves': int}
PIDS = {}       # realpath -> small integer id used in witnesses
LOG = []        # outermost calls of the current case, in order (the witness of every violation)
LOG_CAP = 64
LOG_STATE = {'truncated': False, 'cases_done': 0}
PRELUDE = []    # the calls of the first block this process executed: replayed before the witness block, so that a fault
                # living in process-wide state set by the first calls (a cache, a remembered dt) reproduces too


def n_shards(tier):
    return 16


# ------------------------------------------------------------------------------------------- describing calls
BIG = 20000      # records longer than this are not written value by value into a witness


def _layout_of(arr):
    """Memory-layout traits of an observed array that a witness must reproduce."""
    lay = []
    if arr.ndim == 1 and arr.size > 1:
        if arr.strides[0] < 0:
            lay.append('reversed')
        if abs(arr.strides[0]) != arr.itemsize:
            lay.append('strided')
    if not arr.flags.writeable:
        lay.append('readonly')
    return lay


def _apply_layout(arr, lay):
    """A view with the given traits whose logical content is arr (a fresh contiguous array)."""
    if not lay:
        return arr
    v = arr
    if arr.ndim == 1 and arr.size > 1:
        rev = 'reversed' in lay
        src = arr[::-1] if rev else arr
        if 'strided' in lay:
            base = np.zeros(2 * arr.size, dtype=arr.dtype)
            base[::2] = src
            v = base[::2]
        else:
            v = src.copy()
        if rev:
            v = v[::-1]
    if 'readonly' in lay:
        v.flags.writeable = False
    return v


def _describe_values(values):
    """(snapshot array, container name, extras) of a values argument as observed at call entry."""
    extra = {}
    if isinstance(values, np.ndarray):
        lay = _layout_of(values)
        if lay:
            extra['layout'] = lay
        return np.array(values), 'ndarray', extra
    if isinstance(values, (list, tuple)):
        if len(values) <= BIG and all(type(x) in (int, float) for x in values):
            extra['raw'] = list(values)        # element types (Python int / float) exactly as passed
        elif len(values) and isinstance(values[0], np.generic) and all(isinstance(x, np.generic) for x in values):
            extra['np_elems'] = True           # list(arr): the entries are numpy scalars (np.float32, np.int16, np.bool_ ...)
        return np.asarray(values), ('list' if isinstance(values, list) else 'tuple'), extra
    return np.asarray(values), type(values).__name__, extra


NP_DT_SCALARS = ('float16', 'float32', 'float64', 'int8', 'int16', 'int32', 'int64', 'uint8', 'uint16', 'uint32', 'uint64')
DT_TYPES_OK = ('float', 'int') + NP_DT_SCALARS + tuple('0d-' + t for t in NP_DT_SCALARS)


def _describe_dt(dt):
    """(plain Python value, form) of a time step as the caller gave it: Python float / int, numpy scalar of a named
    dtype, or 0-d array ('0d-<dtype>'). The value is exact (float(np.float32(x)) is the float32 number)."""
    if isinstance(dt, np.ndarray) and dt.ndim == 0 and dt.dtype.name in NP_DT_SCALARS:
        return dt.item(), '0d-' + dt.dtype.name
    if isinstance(dt, np.floating) and dt.dtype.name in NP_DT_SCALARS:
        return float(dt), dt.dtype.name
    if isinstance(dt, (bool, np.bool_)):
        return bool(dt), 'bool'
    if isinstance(dt, np.integer) and dt.dtype.name in NP_DT_SCALARS:
        return int(dt), dt.dtype.name
    if isinstance(dt, int):
        return int(dt), 'int'
    if isinstance(dt, float):
        return dt, 'float'
    return dt, type(dt).__name__


def _pack(arr):
    import base64
    import zlib
    arr = np.ascontiguousarray(arr)
    return {'packed_b64': base64.b64encode(zlib.compress(arr.tobytes(), 1)).decode('ascii'), 'dtype': str(arr.dtype),
            'n': int(arr.size)}


def _unpack(d):
    import base64
    import zlib
    return np.frombuffer(zlib.decompress(base64.b64decode(d['packed_b64'])), dtype=d['dtype']).copy()


def _rebuild_values(op):
    v = op['values']
    if isinstance(v, dict) and 'packed_b64' in v:
        v = _unpack(v)
    c = op.get('container', 'ndarray')
    if c in ('list', 'tuple') and op.get('raw') is not None:
        return list(op['raw']) if c == 'list' else tuple(op['raw'])
    arr = np.asarray(v)
    if c in ('list', 'tuple') and op.get('np_elems'):      # what list(arr) gives: numpy scalars of the array's dtype
        return list(arr) if c == 'list' else tuple(arr)
    if c == 'list':
        return arr.tolist()
    if c == 'tuple':
        return tuple(arr.tolist())
    return np.array(arr)


def _rebuild_dt(op):
    t = op.get('dt_type', 'float')
    if t.startswith('0d-') and t[3:] in NP_DT_SCALARS:
        return np.array(op['dt'], dtype=t[3:])
    if t in NP_DT_SCALARS:
        return np.dtype(t).type(op['dt'])
    if t == 'int':
        return int(op['dt'])
    return float(op['dt'])


_KEYS = {}


def _key(ffp):
    k = _KEYS.get(ffp) if isinstance(ffp, str) else None
    if k is None:
        k = os.path.realpath(os.fspath(ffp))
        if isinstance(ffp, str):
            _KEYS[ffp] = k
    return k


def _begin(ffp, op):
    """pre-hook part shared by all monitored functions: name the path, log outermost calls."""
    key = _key(ffp)
    pid = PIDS.setdefault(key, len(PIDS))
    op['pid'] = pid
    outer = attach.STATE['depth'] == 0
    if outer:
        if len(LOG) >= LOG_CAP:
            del LOG[0]
            LOG_STATE['truncated'] = True
        LOG.append(op)
    return key, op, outer


def _witness(key, **extra):
    # the file as it is on disk now = what the judged loader has just read (nothing else writes to these paths)
    try:
        with open(key, 'rb') as f:
            raw = f.read()
    except OSError:
        raw = None
    w = {'ops': [_wit_op(o) for o in LOG], 'log_truncated': LOG_STATE['truncated'], 'pid': PIDS.get(key),
         'prelude_ops': [_wit_op(o) for o in PRELUDE] if LOG_STATE['cases_done'] else [],
         'file_text_head': (raw or b'')[:400].decode('utf-8', 'replace')}
    if raw is not None and len(raw) > 8 * BIG:     # long file: size, line count and hash instead of the bytes
        import hashlib
        w.update(file_bytes=None, file_size=len(raw), file_lines=raw.count(b'\n') + 1,
                 file_sha1=hashlib.sha1(raw).hexdigest(), file_text_tail=raw[-200:].decode('utf-8', 'replace'))
    else:
        w['file_bytes'] = raw
    if RECIPE:
        w['recipe'] = dict(RECIPE)     # the driver's deterministic generator of this block: replay regenerates the ops
    w.update(extra)
    return w


RECIPE = {}


def _wit_op(o):
    d = {k: v for k, v in o.items() if not k.startswith('_')}
    v = d.get('values')
    if isinstance(v, np.ndarray) and v.size > BIG:
        if RECIPE:
            d['values'] = {'omitted_long_values': int(v.size), 'head': v[:5], 'tail': v[-5:], 'see': 'recipe'}
        else:
            d['values'] = _pack(v)
    return d


def end_case(remove=True):
    """Driver hook: the block of calls is over; forget its paths (and delete the files)."""
    if remove:
        for key in list(REG):
            try:
                os.remove(key)
            except OSError:
                pass
    if LOG and not LOG_STATE['cases_done']:
        PRELUDE[:] = [dict(o) for o in LOG]
    if LOG:
        LOG_STATE['cases_done'] += 1
    REG.clear()
    PIDS.clear()
    _KEYS.clear()
    del LOG[:]
    LOG_STATE['truncated'] = False
    _LAST.clear()
    _LASTSAVE.clear()
    USER_SETTINGS.clear()
    del HELD[:]


# ------------------------------------------------------------------------------------------- save monitors
USER_SETTINGS = {}     # driver hook: id(signal) -> signal for objects whose settings (smoothing frequencies, response
                       # periods, the N of the Fourier spectrum) were given by the user and not left at their defaults
SETTINGS_KEYS = ('_smooth_fa_freqs', '_smooth_freq_range', '_response_times', '_fa_freqs', '_fa_spectrum', '_cached_fa',
                 '_cached_smooth_fa', '_cached_response_spectra', '_smooth_fa_spectrum')


_LASTSAVE = {}     # monitor side: id(argument object) -> (token, object) of the outermost save calls of this block;
                   # a witness names the objects by token so that the replay saves the SAME object where the run did


def _token(obj):
    t = _LASTSAVE.get(id(obj))
    if t is None or t[1] is not obj:
        t = (len(_LASTSAVE), obj)          # the reference keeps the object alive, so ids stay unique within the block
        _LASTSAVE[id(obj)] = t
    return t[0]


def _save_values_args(args, kwargs):
    return (args[0] if args else kwargs['ffp'], args[1] if len(args) > 1 else kwargs['values'],
            args[2] if len(args) > 2 else kwargs['dt'], args[3] if len(args) > 3 else kwargs['label'])


def _pre_save_values(args, kwargs):
    ffp, values, dt, label = _save_values_args(args, kwargs)
    try:
        arr, cont, extra = _describe_values(values)
    except Exception:
        arr, cont, extra = None, type(values).__name__, {}
    dtv, dtt = _describe_dt(dt)
    op = {'op': 'save_values_and_dt', 'values': arr, 'container': cont, 'dt': dtv, 'dt_type': dtt, 'label': label}
    op.update(extra)
    if 'ffp' in kwargs:
        op['kw'] = True
    if attach.STATE['depth'] == 0:
        op['obj'] = _token(values)
    return _begin(ffp, op)


def _pre_save_signal(args, kwargs):
    ffp = args[0] if args else kwargs['ffp']
    sig = args[1] if len(args) > 1 else kwargs['signal']
    dtv, dtt = _describe_dt(sig.dt)
    op = {'op': 'save_signal', 'sigtype': type(sig).__name__, 'values': np.array(sig.values),
          'container': 'ndarray', 'dt': dtv, 'dt_type': dtt, 'label': sig.label}
    lay = _layout_of(sig.values) if isinstance(sig.values, np.ndarray) else []
    if lay:
        op['layout'] = lay
    if 'ffp' in kwargs:
        op['kw'] = True
    if attach.STATE['depth'] == 0:
        op['obj'] = _token(sig)
    op['_state'] = _obj_state(sig)
    return _begin(ffp, op)


def _fingerprint(v):
    if isinstance(v, np.ndarray):
        return ('ndarray', str(v.dtype), v.shape, v.tobytes())
    if isinstance(v, dict):
        return ('dict', repr(sorted((repr(k), _fingerprint(x)) for k, x in v.items())))
    if isinstance(v, (list, tuple)) and len(v) < 64:
        return (type(v).__name__, tuple(_fingerprint(x) for x in v))
    return ('repr', type(v).__name__, repr(v)[:200])


def _obj_state(sig):
    """Every attribute the object carries (values, dt, label, options, cached series and spectra, cache flags)."""
    try:
        return {k: _fingerprint(v) for k, v in vars(sig).items()}
    except Exception:
        return {}


def _same_bits(now, snap):
    return (isinstance(now, np.ndarray) and now.dtype == snap.dtype and now.shape == snap.shape
            and now.tobytes() == snap.tobytes())


def _arguments_unchanged(op, args, kwargs):
    """Bit-for-bit comparison of the caller's arguments after the save with the snapshot taken at call entry."""
    try:
        if op['op'] == 'save_signal':
            sig = args[1] if len(args) > 1 else kwargs['signal']
            now = sig.values if isinstance(sig.values, np.ndarray) else np.asarray(sig.values)   # (a list on old trees)
            after = _obj_state(sig)
            before = op.get('_state', {})
            changed = [k for k, f in before.items() if after.get(k) != f]
            changed += [k for k in after if k not in before]      # an attribute the save attached to the object
            if changed:
                op['_changed'] = changed
            return (_same_bits(now, op['values']) and _describe_dt(sig.dt) == (op['dt'], op['dt_type'])
                    and sig.label == op['label'] and type(sig).__name__ == op['sigtype'] and not changed)
        ffp, values, dt, label = _save_values_args(args, kwargs)
        if isinstance(values, np.ndarray):
            same = _same_bits(values, op['values'])
        elif op.get('raw') is not None:
            same = (len(values) == len(op['raw'])       # repr: exact for int / float, tells -0.0 from 0.0, nan == nan
                    and all(type(a) is type(b) and repr(a) == repr(b) for a, b in zip(values, op['raw'])))
        else:
            same = _same_bits(np.asarray(values), op['values'])
        return same and _describe_dt(dt) == (op['dt'], op['dt_type']) and label == op['label']
    except Exception:
        return False


def _post_save(args, kwargs, result, pre):
    key, op, outer = pre
    prev = REG.get(key)
    n_saves = (prev['n_saves'] if prev else 0) + (1 if outer else 0)
    REG[key] = {'saved': dict(op), 'pid': op['pid'], 'n_saves': n_saves}
    CTX.observe('monitored-' + op['op'])
    if op.get('values') is not None:
        CTX.check(_arguments_unchanged(op, args, kwargs), 'save.leaves-arguments-unchanged',
                  lambda: _witness(key, saver=op['op'], changed_attributes=op.get('_changed')),
                  '%s changed the signal it was given (values/dt/label/attributes %s differ bit-for-bit from their state '
                  'at call entry)' % (op['op'], op.get('_changed') or ''))
        if op['op'] == 'save_signal':
            sig = args[1] if len(args) > 1 else kwargs['signal']
            if USER_SETTINGS.get(id(sig)) is sig:       # writing a file is no reason to tidy the user's settings
                bad = [k for k in (op.get('_changed') or []) if k in SETTINGS_KEYS]
                CTX.check(not bad, 'save_signal.leaves-user-settings-unchanged',
                          lambda: _witness(key, saver=op['op'], changed_settings=bad),
                          'save_signal changed settings the user had given to the signal (%s): smoothing frequencies / '
                          'response periods / spectrum grid are not what they were' % bad)
    if outer:
        _recheck_held(key)


PENDING_LABEL = 'ruled outside the statement: a save with a label that is not a str raises after the file was opened for writing (previous content lost)'


def _save_failed(args, kwargs, exc, pre):
    """A save that raised. The path must still hold what it held (a refused operation leaves the file as it was): the
    model of the path stays the record saved before, and the loads that follow are judged against it (clause
    refused-save.leaves-previous-record). One mechanism is routed to an observation until it is ruled on: a label that
    is not a str makes the clean writer fail in '\\n'.join AFTER open(ffp, 'w') has emptied the file."""
    key, op, outer = pre
    prev = REG.get(key)
    e = {'saved': prev['saved'] if prev else None, 'pid': op['pid'], 'n_saves': (prev['n_saves'] if prev else 0) + 1,
         'after_refused_save': True,
         'refused_label_not_str': bool((prev or {}).get('refused_label_not_str')) or not isinstance(op.get('label'), str)}
    REG[key] = e
    CTX.observe('refused-' + op['op'])
    v = op.get('values')
    if isinstance(v, np.ndarray) and v.dtype.kind in 'fiub':      # purity is judged for refused arguments as well
        CTX.check(_arguments_unchanged(op, args, kwargs), 'save.leaves-arguments-unchanged',
                  lambda: _witness(key, saver=op['op'], refused=True, changed_attributes=op.get('_changed')),
                  '%s raised and left the signal it was given changed (attributes %s)' % (op['op'], op.get('_changed') or ''))
    if outer:
        _recheck_held(key)


# ------------------------------------------------------------------------------------------- the model
def _expected(saved):
    """What the format can hold of the saved record (cached on the model entry). None = outside the quantifier."""
    if '_exp' in saved:
        return saved['_exp']
    exp = None
    arr = saved.get('values')
    dt = saved.get('dt')
    label = saved.get('label')
    okk = (isinstance(arr, np.ndarray) and arr.ndim == 1 and arr.size >= 1 and arr.dtype.kind in 'fiub'
           and saved.get('dt_type') in DT_TYPES_OK)
    if okk and arr.dtype.kind == 'f':
        okk = bool(np.all(np.isfinite(arr)))
    if okk and arr.dtype.kind in 'iu':
        okk = bool(np.all(np.abs(arr.astype(float)) < 2.0 ** 53))
    if okk:
        okk = O.dt_in_domain(dt) and O.label_in_domain(label)
    if okk:
        fl = [float(v) for v in arr.tolist()]
        if len(fl) >= 4096:      # long records: same reference, per-value work vectorised (cross-checked in the oracle)
            prim, alts = O.round_series_fast(np.array(fl, dtype=float), 6)
        else:
            prim, alts = O.round_series(fl, 6)
        dprim, dalt = O.round_decimals(float(dt), 4)
        exp = {'n': len(fl), 'v': np.array(fl, dtype=float), 'prim': np.array(prim, dtype=float), 'alts': alts,
               'dt': float(dt), 'dt_prim': dprim, 'dt_alt': dalt, 'label': label}
    saved['_exp'] = exp
    return exp


def _judge_numbers(ctx, key, loader, exp, n_got, dt_got, vals_got, m):
    """Clauses npts / dt / values for one loader result."""
    n_ok = ctx.check(n_got == exp['n'], 'npts',
                     lambda: _witness(key, loader=loader, got_npts=n_got, expected_npts=exp['n']),
                     '%s: %r points loaded, %d saved' % (loader, n_got, exp['n']))
    # -- dt
    try:
        d = float(dt_got)
    except Exception:
        d = float('nan')
    okk = abs(d - exp['dt_prim']) <= O.DT_ATOL
    if not okk and exp['dt_alt'] is not None and abs(d - exp['dt_alt']) <= O.DT_ATOL:
        okk = True
        ctx.observe('dt-tie-resolved-to-other-neighbour')
    ctx.check(okk, 'dt==round4(saved)',
              lambda: _witness(key, loader=loader, got_dt=dt_got, saved_dt=exp['dt'], expected_dt=exp['dt_prim']),
              '%s: saved dt=%r loaded dt=%r expected %r' % (loader, exp['dt'], dt_got, exp['dt_prim']))
    lit = abs(d - exp['dt']) <= 0.5e-4 * (1 + 1e-9) + O.DT_ATOL
    ctx.check(lit, 'dt.within-half-4th-decimal',
              lambda: _witness(key, loader=loader, got_dt=dt_got, saved_dt=exp['dt']),
              '%s: saved dt=%r loaded dt=%r differ by more than half a unit of the 4th decimal' % (loader, exp['dt'], dt_got))
    # -- values
    if not n_ok:
        ctx.observe('values-not-compared(length-differs)')
        return
    try:
        got = np.asarray(vals_got, dtype=float)
        ma = np.asarray(m, dtype=float)
        if ma.size != 1:
            ctx.observe('array-valued-m(not-judged)')
            return
        mf = float(ma.reshape(-1)[0])
    except Exception:
        got = None
    if got is None or got.shape != exp['prim'].shape:
        ctx.violation('values==m*round6(saved)', _witness(key, loader=loader, m=m, got=repr(vals_got)[:300]),
                      '%s: loaded values are not a real 1-d series of the saved length' % loader)
        return
    with np.errstate(over='ignore', invalid='ignore'):
        ref = exp['prim'] * mf
        allow = 1e-12 * np.maximum(1.0, np.abs(ref))
    with np.errstate(invalid='ignore'):
        bad = np.flatnonzero(~((np.abs(got - ref) <= allow) | (got == ref)))      # got == ref: both +-inf (overflow)
    worst = None
    for i in bad.tolist():
        a = exp['alts'].get(i)
        if a is not None and abs(got[i] - a * mf) <= O.value_allowance(a * mf):
            ctx.observe('value-tie-resolved-to-other-neighbour')
            continue
        worst = i
        break
    ctx.check(worst is None, 'values==m*round6(saved)',
              lambda: _witness(key, loader=loader, m=m, index=worst, got_value=float(got[worst]),
                               saved_value=float(exp['v'][worst]), expected_value=float(ref[worst])),
              '%s(m=%r): value %s: saved %r -> loaded %r, expected %r'
              % (loader, m, worst, None if worst is None else float(exp['v'][worst]),
                 None if worst is None else float(got[worst]), None if worst is None else float(ref[worst])))
    # literal reading of the statement, independent of the rounding oracle
    with np.errstate(over='ignore', invalid='ignore'):
        mv = exp['v'] * mf
        lim = (abs(mf) * (0.5e-6 * (1 + 1e-9) + O.TIE_ULPS * np.spacing(np.abs(exp['v'])))
               + 1e-12 * np.maximum(1.0, np.abs(mv)))
    with np.errstate(invalid='ignore'):
        badl = np.flatnonzero(~((np.abs(got - mv) <= lim) | (got == mv)))
    j = int(badl[0]) if badl.size else None
    ctx.check(j is None, 'values.within-half-6th-decimal',
              lambda: _witness(key, loader=loader, m=m, index=j, got_value=float(got[j]), saved_value=float(exp['v'][j])),
              '%s(m=%r): value %s: saved %r loaded %r differ by more than half a unit of the 6th decimal (times |m|)'
              % (loader, m, j, None if j is None else float(exp['v'][j]), None if j is None else float(got[j])))


def _n_refuted(ctx):
    return sum(ctx.viol_counts.values()) + sum(ctx.finding_counts.values())


def _after_refused(ctx, key, loader, e, nv0):
    """The load just judged read a path whose last save was refused (raised): everything must still be the record the
    path held before (the judgement against that record has just been made by the ordinary clauses)."""
    if e is not None and e.get('after_refused_save'):
        ctx.check(_n_refuted(ctx) == nv0, 'refused-save.leaves-previous-record',
                  lambda: _witness(key, loader=loader),
                  '%s: after a save that raised, the path no longer loads as the record it held before' % loader)


def _model(key):
    """Return (exp, entry) for a path, or (None, entry) when the load cannot be judged."""
    e = REG.get(key)
    if e is None:
        CTX.observe('load-of-a-file-not-saved-under-monitoring')
        return None, None
    if e.get('after_refused_save') and e.get('refused_label_not_str'):
        CTX.observe(PENDING_LABEL)       # ruled outside the statement (see _save_failed)
        return None, e
    if e['saved'] is None:
        CTX.observe('load-after-failed-save')
        return None, e
    exp = _expected(e['saved'])
    if exp is None:
        CTX.observe('load-of-out-of-domain-record')
    return exp, e


HELD = []       # the last results returned to the caller in this block, with a bitwise snapshot taken at return time


def _snapshot(result):
    import eqsig
    if isinstance(result, tuple) and len(result) == 2 and isinstance(result[0], np.ndarray):
        return {'kind': 'tuple', 'values': np.array(result[0]), 'dt': result[1]}
    if isinstance(result, eqsig.Signal):
        return {'kind': 'signal', 'values': np.array(result.values), 'dt': result.dt, 'label': result.label,
                'npts': result.npts}
    return None


def _values_of(result):
    return result[0] if isinstance(result, tuple) else result.values


def forget_held(obj):
    """Driver hook: the caller is about to edit this result in place; it is no longer expected to stay as returned."""
    HELD[:] = [h for h in HELD if h[2] is not obj]


def _hold(key, loader, result):
    snap = _snapshot(result)
    if snap is None:
        return
    for hkey, hloader, hres, hsnap in HELD:
        try:      # the very same object handed out twice is sharing too
            shared = hres is result or bool(np.may_share_memory(_values_of(result), _values_of(hres)))
        except Exception:
            shared = False
        CTX.check(not shared, 'returned-objects-share-no-memory',
                  lambda: _witness(key, loader=loader, earlier_loader=hloader, earlier_pid=PIDS.get(hkey)),
                  'the values returned by %s share memory with the values %s returned earlier' % (loader, hloader))
    HELD.append((key, loader, result, snap))
    if len(HELD) > 2:
        del HELD[0]


def _recheck_held(key_now):
    """After a later call returned: results handed out earlier must still be what they were (no shared scratch)."""
    for key, loader, result, snap in HELD:
        try:
            if snap['kind'] == 'tuple':
                same = _same_bits(result[0], snap['values']) and result[1] == snap['dt']
            else:
                same = (_same_bits(result.values, snap['values']) and result.dt == snap['dt']
                        and result.label == snap['label'] and result.npts == snap['npts'])
        except Exception:
            same = False
        CTX.check(same, 'earlier-result-intact-after-later-call',
                  lambda: _witness(key_now, earlier_loader=loader, earlier_pid=PIDS.get(key),
                                   earlier_values_at_return=snap['values'][:50]),
                  'the result %s returned earlier changed after a later save/load call' % loader)


LONG_N = 65536


def _history_tick(e):
    """Counts loads that read a path which has been overwritten at least once (the HISTORY regime), and loads of
    long records (more than 2**16 points)."""
    if e is not None and attach.STATE['depth'] == 0:
        if e.get('n_saves', 0) >= 2:
            CTX.ok('history.same-path-reload')
        sv = e.get('saved')
        dtt = str((sv or {}).get('dt_type'))
        if dtt.startswith('0d-'):
            CTX.ok('dt-given-as-0-d-array.reload')
        elif dtt in NP_DT_SCALARS:
            CTX.ok('dt-given-as-numpy-scalar.reload')
        if sv and isinstance(sv.get('values'), np.ndarray) and sv['values'].dtype.kind == 'b':
            CTX.ok('bool-dtype-record.reload')
        if sv and sv.get('np_elems'):
            CTX.ok('record-given-as-list-of-numpy-scalars.reload')
        if sv and isinstance(sv.get('values'), np.ndarray) and sv['values'].size > LONG_N:
            CTX.ok('long-record(>65536).reload')
        elif sv and isinstance(sv.get('values'), np.ndarray) and sv['values'].size >= 4095:
            CTX.ok('block-boundary-record(4095..65536).reload')


# ------------------------------------------------------------------------------------------- load monitors
def _frozen(v):
    """A private copy of an option that the callee could change in place (0-d / one-element arrays, lists); immutable
    values (Python numbers, numpy scalars, str, tuples of those) are returned as they are."""
    if isinstance(v, np.ndarray):
        return np.array(v)
    if isinstance(v, list):
        return [_frozen(x) for x in v]
    return v


def _option_same(now, snap):
    if isinstance(snap, np.ndarray):
        return _same_bits(now, snap)
    if isinstance(snap, list):
        return (isinstance(now, list) and len(now) == len(snap)
                and all(type(a) is type(b) and _option_same(a, b) for a, b in zip(now, snap)))
    return now is snap


def _pre_load(name):
    def pre(args, kwargs):
        ffp = args[0] if args else kwargs['ffp']
        live_a = list(args[1:])
        live_k = {k: v for k, v in kwargs.items() if k != 'ffp'}
        # the options as they are at call entry: a 0-d array or a list is MUTABLE, the callee could change the caller's
        # factor / flag in place - every judgement below uses these copies, never the objects after the call
        op = {'op': name, 'args': [_frozen(a) for a in live_a], 'kwargs': {k: _frozen(v) for k, v in live_k.items()}}
        if any(isinstance(v, (np.ndarray, list)) for v in live_a) or any(isinstance(v, (np.ndarray, list)) for v in live_k.values()):
            op['_live'] = (live_a, live_k)
        kw = op['kwargs']
        tags = {str(i): a.dtype.name for i, a in enumerate(op['args']) if isinstance(a, np.generic)}
        tags.update({k: v.dtype.name for k, v in kw.items() if isinstance(v, np.generic)})
        if tags:       # a witness is JSON: np.bool_ / np.float32 ... come back as Python numbers; the replay re-casts
            op['np_types'] = tags
        if not args:
            op['ffp_kw'] = True
        return _begin(ffp, op)
    return pre


def _load_purity(key, op):
    """A loader must leave the options it was given as they were (a factor or flag handed over as a 0-d / one-element
    array or a list is the caller's object)."""
    live = op.get('_live')
    if live is None:
        return
    try:
        same = (all(_option_same(a, b) for a, b in zip(live[0], op['args']))
                and all(_option_same(live[1][k], v) for k, v in op['kwargs'].items()))
    except Exception:
        same = False
    CTX.check(same, 'load.leaves-arguments-unchanged',
              lambda: _witness(key, loader=op['op'], options_at_entry=[op['args'], op['kwargs']],
                               options_after=[live[0], live[1]]),
              '%s changed an option it was given (at entry %r %r, after the call %r %r)'
              % (op['op'], op['args'], op['kwargs'], live[0], live[1]))


def _post_load_values_and_dt(args, kwargs, result, pre):
    key, op, outer = pre
    _load_purity(key, op)
    exp, e = _model(key)
    if exp is None:
        return
    ctx = CTX
    loader = 'load_values_and_dt'
    t_ok = (isinstance(result, tuple) and len(result) == 2 and isinstance(result[0], np.ndarray)
            and result[0].ndim == 1 and result[0].dtype.kind == 'f' and isinstance(result[1], float))
    ctx.check(t_ok, 'type.load_values_and_dt->(ndarray,float)',
              lambda: _witness(key, loader=loader, got=repr(result)[:300]),
              'load_values_and_dt returned %s, expected (1-d float ndarray, float)' % _tdesc(result))
    if not t_ok:
        ctx.observe('numbers-not-compared(wrong-type)')
        return
    nv0 = _n_refuted(ctx)
    _judge_numbers(ctx, key, loader, exp, len(result[0]), result[1], result[0], 1.0)
    _after_refused(ctx, key, loader, e, nv0)
    if outer:
        _history_tick(e)
        _recheck_held(key)
        _hold(key, loader, result)


def _tdesc(r):
    if isinstance(r, tuple):
        return '(' + ', '.join(_tdesc(x) for x in r) + ')'
    if isinstance(r, np.ndarray):
        return 'ndarray(shape=%s, dtype=%s)' % (r.shape, r.dtype)
    return type(r).__name__


def flag_form(v):
    """How a boolean-like option was given: 'bool', 'np.bool_', '0d-bool', 'int', 'np.int64', '0d-int64' ..."""
    if isinstance(v, np.ndarray):
        return '%dd-%s' % (v.ndim, v.dtype.name)
    if isinstance(v, np.generic):
        return 'np.' + type(v).__name__
    return type(v).__name__


def _m_tick(m):
    if isinstance(m, np.generic) or (isinstance(m, np.ndarray) and m.ndim == 0):
        CTX.ok('m-given-as-numpy-scalar|0-d-array')


def _judge_object(loader, clause, want_name, key, exp, e, result, m, label_requested, outer, flag=None):
    import eqsig
    ctx = CTX
    want = getattr(eqsig, want_name)
    t_ok = type(result) is want
    ctx.check(t_ok, clause, lambda: _witness(key, loader=loader, got_type=type(result).__name__, expected_type=want_name),
              '%s returned %s, expected %s' % (loader, type(result).__name__, want_name))
    if not isinstance(result, eqsig.Signal):
        ctx.observe('numbers-not-compared(wrong-type)')
        return
    try:
        n_got = result.npts
        vals = result.values
        if n_got != len(vals):
            n_got = ('npts=%r' % n_got, 'len(values)=%d' % len(vals))
        dt_got = result.dt
    except Exception as ex:
        ctx.exception('npts', _witness(key, loader=loader), ex)
        return
    nv0 = _n_refuted(ctx)
    _judge_numbers(ctx, key, loader, exp, n_got, dt_got, vals, m)
    if label_requested:
        got_label = getattr(result, 'label', None)
        l_ok = isinstance(got_label, str) and got_label == exp['label']      # the saved label is a str (domain)
        ctx.check(l_ok, 'label==saved(load_label=True)',
                  lambda: _witness(key, loader=loader, got_label=got_label, saved_label=exp['label']),
                  '%s: saved label %r, loaded label %r' % (loader, exp['label'], got_label))
        if flag is not None and type(flag) is not bool:
            # "when requested": a request is a true flag, however it is spelt (np.bool_ from a bool array or a
            # comparison, a 0-d bool array, the int 1 ...), not only the Python singleton True
            ctx.check(l_ok, 'label==saved(true flag that is not a Python bool)',
                      lambda: _witness(key, loader=loader, flag_form=flag_form(flag), got_label=got_label,
                                       saved_label=exp['label']),
                      '%s: label requested with a true %s: saved label %r, loaded label %r'
                      % (loader, flag_form(flag), exp['label'], got_label))
    _after_refused(ctx, key, loader, e, nv0)
    if outer:
        _history_tick(e)
        _recheck_held(key)
        _hold(key, loader, result)


def _post_load_signal(args, kwargs, result, pre):
    key, op, outer = pre
    _load_purity(key, op)
    exp, e = _model(key)
    if exp is None:
        return
    args, kwargs = [None] + op['args'], op['kwargs']       # the options as they were at call entry
    if len(args) > 1:
        astype, given = args[1], True
    elif 'astype' in kwargs:
        astype, given = kwargs['astype'], True
    else:
        astype, given = 'sig', False
    if astype in ('sig',) or not given:
        clause, want = 'type.load_signal(default|sig)->Signal', 'Signal'
    elif astype == 'signal':
        clause, want = 'type.load_signal(signal)->Signal', 'Signal'
    elif astype == 'acc_sig':
        clause, want = 'type.load_signal(acc_sig)->AccSignal', 'AccSignal'
    else:
        CTX.observe('load_signal-with-undocumented-astype')
        return
    name = 'load_signal(%s)' % (('astype=%r' % astype) if given else '')
    _judge_object(name, clause, want, key, exp, e, result, 1.0, False, outer)


def _post_load_sig(args, kwargs, result, pre):
    key, op, outer = pre
    _load_purity(key, op)
    exp, e = _model(key)
    if exp is None:
        return
    args, kwargs = [None] + op['args'], op['kwargs']       # the options as they were at call entry
    m = args[1] if len(args) > 1 else kwargs.get('m', 1.0)
    if outer:
        _m_tick(m)
    _judge_object('load_sig', 'type.load_sig->Signal', 'Signal', key, exp, e, result, m, False, outer)


def _post_load_asig(args, kwargs, result, pre):
    key, op, outer = pre
    _load_purity(key, op)
    exp, e = _model(key)
    if exp is None:
        return
    args, kwargs = [None] + op['args'], op['kwargs']       # the options as they were at call entry
    load_label = args[1] if len(args) > 1 else kwargs.get('load_label', False)
    m = args[2] if len(args) > 2 else kwargs.get('m', 1.0)
    try:
        requested = bool(load_label)
    except Exception:        # a flag without a truth value (array with several entries): no request to judge
        CTX.observe('load_label-without-truth-value(not-judged)')
        requested = False
    if not requested:
        CTX.observe('label-not-requested(not-judged)')
    if outer:
        _m_tick(m)
        CTX.observe('load_label-form:%s=%s' % (flag_form(load_label), requested))
    _judge_object('load_asig(load_label=%r)' % (load_label,), 'type.load_asig->AccSignal', 'AccSignal', key, exp, e, result, m,
                  requested, outer, flag=load_label)


def install(ctx):
    """Attach the C16 monitors to the imported eqsig (idempotent per process)."""
    global CTX
    first = CTX is None
    CTX = ctx
    import eqsig
    if not first:
        return
    ld = eqsig.loader
    attach.wrap(ld, 'save_values_and_dt', _post_save, pre=_pre_save_values, on_exception=_save_failed)
    attach.wrap(ld, 'save_signal', _post_save, pre=_pre_save_signal, on_exception=_save_failed)
    attach.wrap(ld, 'load_values_and_dt', _post_load_values_and_dt, pre=_pre_load('load_values_and_dt'))
    attach.wrap(ld, 'load_signal', _post_load_signal, pre=_pre_load('load_signal'))
    attach.wrap(ld, 'load_sig', _post_load_sig, pre=_pre_load('load_sig'))
    attach.wrap(ld, 'load_asig', _post_load_asig, pre=_pre_load('load_asig'))


# ------------------------------------------------------------------------------------------- executing one call
_LAST = {}      # driver side: objects of the current block (last loaded Signal, last saved values / Signal, held object)


def _values_object(op):
    """The values argument of a save op; the SAME object as in the previous save when the op says so."""
    tok = op.get('obj')
    store = _LAST.setdefault('objs', {})
    prev = store.get(('v', tok)) if tok is not None else (_LAST.get('values_obj') if op.get('same_object_as_prev_save') else None)
    vals = _rebuild_values(op)
    if prev is not None:
        if isinstance(prev, np.ndarray) and isinstance(vals, np.ndarray) and not _same_bits(np.array(prev), vals):
            if prev.shape == vals.shape and prev.dtype == vals.dtype and prev.flags.writeable:
                prev[...] = vals          # the caller edited its array in place between the two saves
                return prev
        else:
            return prev
    if isinstance(vals, np.ndarray):
        vals = _apply_layout(vals, op.get('layout'))
    _LAST['values_obj'] = vals
    if tok is not None:
        store[('v', tok)] = vals
    return vals


def _signal_object(eqsig, op):
    tok = op.get('obj')
    store = _LAST.setdefault('objs', {})
    prev = store.get(('s', tok)) if tok is not None else (_LAST.get('sig_obj') if op.get('same_object_as_prev_save') else None)
    cls = getattr(eqsig, op['sigtype'])
    vals, dt = _rebuild_values(op), _rebuild_dt(op)
    if prev is not None and type(prev) is cls:
        if not _same_bits(np.array(prev.values), np.asarray(vals)):      # the object was edited between the two saves
            if prev.values.shape == np.shape(vals) and prev.values.dtype == np.asarray(vals).dtype and prev.values.flags.writeable:
                prev.values[...] = vals
            else:
                prev.reset_values(vals)
        if 'label' in op and prev.label != op['label']:
            prev.label = op['label']
        return prev
    if isinstance(vals, np.ndarray):
        vals = _apply_layout(vals, op.get('ctor_layout'))
        if op.get('ctor_container') in ('list', 'tuple'):      # the record itself as a Python list / tuple
            vals = vals.tolist() if op['ctor_container'] == 'list' else tuple(vals.tolist())
    if op.get('default_label'):
        sig = cls(vals, dt)
    elif op.get('label_positional'):
        sig = cls(vals, dt, op['label'])
    else:
        sig = cls(vals, dt, label=op['label'])
    if 'readonly' in (op.get('layout') or []):
        sig.values.flags.writeable = False        # the object's own array, read-only: a writer must not need to write
    _LAST['sig_obj'] = sig
    if tok is not None:
        store[('s', tok)] = sig
    return sig


def _mutate(eqsig, ctx, op):
    """Public mutators / cache reads on the held object between two saves (not judged here: other properties)."""
    obj = _LAST.get('sig_obj')
    if obj is None:
        return
    kind = op['kind']
    try:
        if kind == 'reset_values':
            obj.reset_values(_rebuild_values(op))
        elif kind == 'inplace':
            for i, x in zip(op['index'], op['new']):
                if i < len(obj.values):
                    obj.values[i] = x
        elif kind == 'label':
            obj.label = op['label']
        elif kind == 'read-cache':
            obj.npts, obj.time, obj.dt
            if isinstance(obj, eqsig.AccSignal) and obj.npts >= 3:
                obj.velocity, obj.displacement
        elif kind == 'warm':             # an analysed object: spectra, series and peak values cached on it
            if obj.npts >= 4 and obj.values.dtype.kind == 'f':
                obj.fa_spectrum, obj.fa_frequencies
                if isinstance(obj, eqsig.AccSignal):
                    obj.velocity, obj.displacement, obj.pga, obj.pgv
        elif kind in ('deepcopy', 'copy', 'pickle'):   # continue with a copy of the (possibly warm) object; the
            import copy                                 # original stays reachable through 'swap'
            import pickle
            if kind == 'deepcopy':
                new = copy.deepcopy(obj)
            elif kind == 'copy':
                new = copy.copy(obj)
            else:
                new = pickle.loads(pickle.dumps(obj, protocol=int(op.get('protocol', pickle.HIGHEST_PROTOCOL))))
            _LAST['sig_other'] = obj
            _LAST['sig_obj'] = new
        elif kind == 'swap':             # go on with the other one of (original, copy)
            other = _LAST.get('sig_other')
            if other is None:
                ctx.observe('objhist-swap-skipped(no-copy)')
                return
            _LAST['sig_other'], _LAST['sig_obj'] = obj, other
        elif kind == 'settings':         # user-given settings, also outside the band of the data (smoothing targets above
            d = float(obj.dt)            # the Nyquist frequency, periods below 2 dt, a lone zero period, an explicit N)
            fr = np.asarray(op['freqs_rel'], dtype=float) * (0.5 / d)
            obj.smooth_fa_freqs = fr.tolist() if op.get('as_list') else fr
            if isinstance(obj, eqsig.AccSignal):
                per = [float(x) * d for x in op['periods_rel']]
                obj.response_times = per if op.get('as_list') else np.array(per)
            if op.get('n') and obj.npts >= 2:
                with np.errstate(all='ignore'):
                    obj.gen_fa_spectrum(n=int(op['n']))
            USER_SETTINGS[id(obj)] = obj
        elif kind == 'assign-values':    # obj.values = <list / tuple / ndarray>: ignored or applied, never half of it
            v = _rebuild_values(op)
            obj.values = v
            if len(obj.values) != obj.npts:
                ctx.observe('objhist-assign-values:npts!=len(values)')
        elif kind == 'assign-dt':        # no setter in the clean tree: raises, the object stays as it was
            obj.dt = _rebuild_dt(op)
        elif kind == 'interp':           # objects made by the library itself from the held one
            if isinstance(obj, eqsig.AccSignal) and 2 <= obj.npts <= 400 and obj.values.dtype.kind == 'f':
                _LAST['sig_obj'] = eqsig.interp_to_approx_dt(obj, float(obj.dt) * op['ratio'])
        elif kind == 'resample':
            if isinstance(obj, eqsig.AccSignal) and 8 <= obj.npts <= 400 and obj.values.dtype.kind == 'f':
                _LAST['sig_obj'] = eqsig.resample_to_approx_dt(obj, float(obj.dt) * 2)
        elif kind == 'cluster-member':
            if obj.npts >= 2 and obj.values.dtype.kind == 'f':
                cl = eqsig.Cluster([obj.values, np.array(obj.values[::-1])], float(obj.dt))
                _LAST['sig_obj'] = cl.signal_by_index(int(op.get('member', 0)))
        ctx.observe('objhist-' + kind)
    except Exception:
        ctx.observe('objhist-mutator-raised(%s)' % kind)


BAD_KINDS = ['none-first', 'none-mid', 'none-last', 'str-last', 'dt-none', 'dt-str', 'values-none', 'signal-dt-none',
             'label-none', 'label-int', 'signal-label-none']


def _bad_save(eqsig, ctx, op, path):
    """A save the clean code refuses (raises): outside the quantifier, never judged itself. What IS judged: the path
    still loads as the record it held before (monitor, clause refused-save.leaves-previous-record)."""
    kind = op['bad']
    if kind not in BAD_KINDS:
        raise ValueError(kind)
    vals = [float(x) for x in op['good']]
    try:
        if kind in ('none-first', 'none-mid', 'none-last', 'str-last'):
            i = {'none-first': 0, 'none-mid': len(vals) // 2, 'none-last': len(vals) - 1, 'str-last': len(vals) - 1}[kind]
            vals[i] = 'gap' if kind == 'str-last' else None
            eqsig.save_values_and_dt(path, tuple(vals) if op.get('tuple') else vals, op['dt'], op['label'])
        elif kind == 'dt-none':
            eqsig.save_values_and_dt(path, np.array(vals), None, op['label'])
        elif kind == 'dt-str':
            eqsig.save_values_and_dt(path, np.array(vals), '%.4f' % op['dt'], op['label'])
        elif kind == 'values-none':
            eqsig.save_values_and_dt(path, None, op['dt'], op['label'])
        elif kind == 'signal-dt-none':
            eqsig.save_signal(path, eqsig.AccSignal(np.array(vals), None, label=op['label']))
        elif kind == 'label-none':
            eqsig.save_values_and_dt(path, np.array(vals), op['dt'], None)
        elif kind == 'label-int':
            eqsig.save_values_and_dt(path, np.array(vals), op['dt'], 7)
        elif kind == 'signal-label-none':
            eqsig.save_signal(path, eqsig.Signal(np.array(vals), op['dt'], label=None))
        ctx.observe('refused-save-probe-returned(%s)' % kind)
    except Exception:
        ctx.observe('refused-save-probe-raised(%s)' % kind)
    return None


def _sig_fields(sig):
    return (type(sig), sig.npts, repr(sig.dt), type(sig.dt), sig.label, np.array(sig.values))


def _same_fields(a, b):
    return a[:5] == b[:5] and _same_bits(a[5], b[5])


def _clone_result(eqsig, ctx, op, path):
    """copy.copy / copy.deepcopy / pickle round trip of the object a loader returned last: the copy is the same signal
    (type, npts, dt, values bit for bit, label) and, for deep copies, owns its values. The copy replaces the loaded
    object for a following re-save (save_signal from_last_load)."""
    import copy
    import pickle
    sig = _LAST.get('sig')
    if sig is None:
        ctx.observe('clone-skipped(no-loaded-signal)')
        return None
    how = op['how']
    clause = 'loaded-object.copy/deepcopy/pickle==loaded'
    wit = lambda: _witness(_key(path), protocol=how)      # noqa
    try:
        before = _sig_fields(sig)
        if how == 'copy':
            new = copy.copy(sig)
        elif how == 'deepcopy':
            new = copy.deepcopy(sig)
        else:
            new = pickle.loads(pickle.dumps(sig, protocol=int(op.get('protocol', pickle.HIGHEST_PROTOCOL))))
        ok = _same_fields(_sig_fields(new), before) and _same_fields(_sig_fields(sig), before) and new is not sig
        if how != 'copy':
            ok = ok and not np.may_share_memory(new.values, sig.values)
    except Exception as e:   # noqa
        ctx.exception(clause, wit(), e)
        return None
    ctx.check(ok, clause, wit, '%s of the loaded %s is not the same signal (type, npts, dt, values, label), or shares its '
                               'values' % (how, type(sig).__name__))
    if how == 'copy':
        new.reset_values(np.array(new.values))      # a shallow copy shares the buffer by definition: rebind before use
    _LAST['sig'] = new
    return None


def _res_fields(r):
    if isinstance(r, tuple):
        return ('tuple', len(r[0]), repr(r[1]), type(r[1]), None, np.array(r[0]))
    return _sig_fields(r)


def _aba(ctx, op, path, r):
    """Results depend on the arguments only: the SAME loader call (same options) on the same saved record before and
    after another record went through the library must return the same thing, bit for bit."""
    tag, slot = op['aba']
    store = _LAST.setdefault('aba', {})
    if tag == 'first':
        store[slot] = _res_fields(r)
    elif slot in store:
        first = store[slot]
        now = _res_fields(r)
        if op.get('aba_after_edit'):
            ctx.check(_same_fields(now, first), 'earlier-result-overwritten.same-call-again==first',
                      lambda: _witness(_key(path), loader=op['op'], first_values=first[5][:50], third_values=now[5][:50]),
                      '%s(%r %r): the caller overwrote the arrays of the first result; the same call again does not '
                      'return what the first call returned' % (op['op'], op.get('args'), op.get('kwargs')))
        ctx.check(_same_fields(now, first), 'A;B;A.third==first',
                  lambda: _witness(_key(path), loader=op['op'], first_values=first[5][:50], third_values=now[5][:50],
                                   first_dt=first[2], third_dt=now[2], first_label=first[4], third_label=now[4]),
                  '%s(%r %r): the result for record A changed after record B was processed (npts %r -> %r, dt %r -> %r, '
                  'label %r -> %r)' % (op['op'], op.get('args'), op.get('kwargs'), first[1], now[1], first[2], now[2],
                                       first[4], now[4]))


def _retyped(op):
    """(args, kwargs) of a loader op; options that were numpy scalars in the run and came back from a JSON witness as
    Python numbers are cast to their numpy type again (np.bool_(True) is not True - that is the point of the class)."""
    args, kw = list(op.get('args', [])), dict(op.get('kwargs', {}))
    for k, t in (op.get('np_types') or {}).items():
        try:
            if str(k).isdigit():
                if int(k) < len(args) and not isinstance(args[int(k)], (np.generic, np.ndarray)):
                    args[int(k)] = np.dtype(t).type(args[int(k)])
            elif k in kw and not isinstance(kw[k], (np.generic, np.ndarray)):
                kw[k] = np.dtype(t).type(kw[k])
        except Exception:
            pass
    return args, kw


LOADER_PARAMS = {'load_values_and_dt': [], 'load_signal': ['astype'], 'load_sig': ['m'], 'load_asig': ['load_label', 'm']}


def execute(eqsig, ctx, op, path):
    """Run one op (driver- or witness-format) through the PUBLIC eqsig names. Exceptions on these in-domain calls are
    violations of the statement (a saved signal must load)."""
    import warnings
    with warnings.catch_warnings():
        warnings.simplefilter('ignore')       # genfromtxt warns about the empty files of the refused-call probes
        return _execute(eqsig, ctx, op, path)


def _execute(eqsig, ctx, op, path):
    k = op['op']
    try:
        if k == 'save_values_and_dt' and op.get('from_held'):
            obj = _LAST.get('sig_obj')      # the object's own array, handed out by its property, goes to the writer
            eqsig.save_values_and_dt(path, obj.values, obj.dt, obj.label)
            r = None
        elif k == 'save_values_and_dt':
            vals, dt = _values_object(op), _rebuild_dt(op)
            if op.get('kw'):
                eqsig.save_values_and_dt(ffp=path, values=vals, dt=dt, label=op['label'])
            else:
                eqsig.save_values_and_dt(path, vals, dt, op['label'])
            r = None
        elif k == 'save_signal' and op.get('from_last_load'):
            sig = _LAST.get('sig')         # the object a loader returned earlier in this block is saved again
            if sig is None:
                ctx.observe('resave-skipped(no-loaded-signal)')
                return None
            eqsig.save_signal(path, sig)
            r = None
        elif k == 'save_signal' and op.get('from_held'):
            eqsig.save_signal(path, _LAST['sig_obj'])
            r = None
        elif k == 'save_signal':
            sig = _signal_object(eqsig, op)
            if op.get('kw'):
                eqsig.save_signal(ffp=path, signal=sig)
            else:
                eqsig.save_signal(path, sig)
            r = None
        elif k in ('load_values_and_dt', 'load_signal', 'load_sig', 'load_asig'):
            l_args, l_kw = _retyped(op)
            if op.get('ffp_kw'):     # everything by keyword (a keyword ffp cannot be followed by positional options)
                kw = dict(l_kw)
                kw.update(zip(LOADER_PARAMS[k], l_args))
                r = getattr(eqsig, k)(ffp=path, **kw)
            else:
                r = getattr(eqsig, k)(path, *l_args, **l_kw)
            if isinstance(r, eqsig.Signal):
                _LAST['sig'] = r
            _LAST['res'] = r
            if op.get('aba'):
                _aba(ctx, op, path, r)
        elif k == 'bad_save':
            return _bad_save(eqsig, ctx, op, path)
        elif k == 'touch':            # a file that is not in the format (not saved under monitoring; loads only counted)
            with open(path, 'w') as f:
                f.write(op.get('text', ''))
            return None
        elif k == 'clone_result':
            return _clone_result(eqsig, ctx, op, path)
        elif k == 'new_signal':
            _LAST.pop('sig_obj', None)
            _signal_object(eqsig, dict(op, same_object_as_prev_save=False))
            return None
        elif k == 'mutate':
            _mutate(eqsig, ctx, op)
            return None
        elif k == 'edit_result':      # the caller corrects, in place, the result a loader gave it; the library's own
            res = _LAST.get('res')    # state (a cache, a scratch buffer) and earlier results must not notice
            arr = None if res is None else (res[0] if isinstance(res, tuple) else getattr(res, 'values', None))
            if isinstance(arr, np.ndarray) and arr.flags.writeable and arr.ndim == 1 and arr.size:
                forget_held(res)
                if op.get('how') == 'zero':
                    arr[...] = 0.0
                elif op.get('how') == 'first':
                    arr[0] = arr[0] + 1234.5
                else:
                    arr[...] = arr * 2.0 + 1.0
                ctx.observe('result-edited-in-place')
            return None
        elif k == 'complex_probe':    # a complex record made by the library (fas2signal): outside the format, counted
            obj = _LAST.get('sig_obj')
            try:
                with np.errstate(all='ignore'):
                    import warnings
                    with warnings.catch_warnings():
                        warnings.simplefilter('ignore')
                        cs = eqsig.fns.frequency.fas2signal(obj.fa_spectrum, float(obj.dt), stype='acc_sig')
                        eqsig.save_signal(path + '.cplx', cs)
                        eqsig.load_asig(path + '.cplx')
                ctx.observe('complex-record-probe-returned')
            except Exception:
                ctx.observe('complex-record-probe-raised')
            return None
        else:
            raise ValueError('unknown op %r' % (k,))
    except O.OracleError:     # the reference disagrees with itself: crash the shard (inconclusive), never a verdict
        raise
    except Exception as e:   # noqa
        if op.get('out_of_domain'):
            ctx.observe('out-of-domain-call-raised')
            return None
        ent = REG.get(_key(path)) or {}
        if k.startswith('load_') and ent.get('saved') is not None and _expected(ent['saved']) is None:
            ctx.observe('load-of-out-of-domain-record-raised')      # e.g. a non-finite record: outside the quantifier
            return None
        if k == 'save_signal' and op.get('from_last_load') and _LAST.get('sig') is not None:
            try:
                fin = bool(np.all(np.isfinite(np.asarray(_LAST['sig'].values, dtype=float)))) and O.dt_in_domain(_LAST['sig'].dt)
            except Exception:
                fin = True
            if not fin:
                ctx.observe('out-of-domain-call-raised')
                return None
        if ent.get('after_refused_save') and k.startswith('load_'):
            if ent.get('refused_label_not_str'):
                ctx.observe(PENDING_LABEL)        # ruled outside the statement (see _save_failed)
                return None
            if ent.get('saved') is not None and _expected(ent['saved']) is not None:
                ctx.exception('refused-save.leaves-previous-record', _witness(_key(path), failed_op=k), e)
                return None
        ctx.exception('call-returns', _witness(_key(path), failed_op=k), e)
        return None
    if op.get('out_of_domain'):
        ctx.observe('out-of-domain-call-returned')
    else:
        ctx.ok('call-returns')
    return r


# ------------------------------------------------------------------------------------------- generators
DT_LIST = [0.0001, 0.0001, 1000, 1000.0, 0.005, 0.01, 0.02, 0.5, 0.9999, 1, 1.0, 1.5, 2.5, 10, 10.0, 12, 12.0, 99.9999, 100, 100.0,
           1.0005, 12.3456, 1.0001, 9.9999, 10.0001, 50.505, 7.0707, 3.1416, 0.1, 0.2, 0.025, 0.0025, 2, 20, 60]
VALUE_CLASSES = ['record', 'record', 'record', 'tiny', 'halfway6', 'tie6', 'huge', 'manydigit', 'mixed', 'int', 'f32',
                 'zeros', 'micro', 'offset', 'edges', 'edges', 'narrow-int', 'narrow-int', 'f16', 'spike-dynamic', 'shape',
                 'shape', 'carry6', 'bool']
NARROW = [np.int8, np.uint8, np.int16, np.uint16, np.int32, np.uint32]
LABELS = ['a label with spaces', '123', '123 4', '12 0.5000', '3 0.0100', '', 'a,b', '1.5,2.5', '# hash', 'x#y',
          ' lead', 'trail ', 'two  spaces', '-1.5', '0.01', 'nan', 'm1', 'M1', 'label', 'dt=0.01 npts=100',
          'ChiChi_EW (scaled, 0.5g) #3']
_LABEL_CHARS = ''.join(c for c in string.printable if c not in '\t\n\r\x0b\x0c')
M_LIST = [1, 1.0, 2, 2.0, 0.5, -1, -1.0, 9.81, 0, 0.0, -0.0, np.float64(2.5), np.float32(9.81), np.int64(3), 1e-12, 1e12,
          -1e-9, 1e9, np.array(2.5), np.array([0.5]), np.array(-1.0), [0.5], (2.0,), [3],
          # round 4: numpy scalars of every width and 0-d arrays of other dtypes
          np.float16(0.5), np.int32(2), np.uint8(3), np.int8(-1), np.int16(-4), np.float64(-0.0), np.float32(0.0),
          np.array(2), np.array(0.5, dtype=np.float32), np.array(3, dtype=np.uint16), np.array(-2.5, dtype=np.float16),
          np.array(1), np.float64(1.0), np.int64(0),
          # round 5: boolean forms of a numeric option (a factor that is an on/off switch), mutable 0-d forms once more
          True, np.True_, np.array(True), np.bool_(False), np.array(-9.81), np.array([-2.0]), [-0.5]]


def gen_flag(rng, truth):
    """A boolean-like option (load_label) in every spelling a caller has: the Python bool, a numpy bool scalar (made
    directly, by a comparison, taken out of a bool array), a 0-d bool array, the ints 0 / 1, numpy integers, a 0-d
    integer array. Same truth value, other object."""
    truth = bool(truth)
    if rng.random() < 0.35:
        return truth
    r = int(rng.integers(3, 12))
    if r == 3:
        return np.bool_(truth)
    if r == 4:       # what a comparison of numpy numbers gives
        return np.float64(2.0) > (1.0 if truth else 3.0)
    if r == 5:       # an entry of a boolean option array
        return np.array([truth, not truth, truth])[int(rng.choice([0, 2]))]
    if r == 6:
        return np.array(truth)
    if r == 7:       # 0-d result of a reduction kept as an array
        return np.asarray(np.array([truth, truth]).all())
    if r == 8:
        return int(truth)
    if r == 9:
        return [np.int64, np.int32, np.uint8, np.int8][int(rng.integers(4))](int(truth))
    if r == 10:
        return np.array(int(truth))
    return int(truth) if rng.random() < 0.5 else np.bool_(truth)


def gen_dt(rng):
    """Returns (dt, class). Every dt is inside the judged range [1e-4, 1000]."""
    k = int(rng.choice(15, p=[.09, .10, .15, .09, .07, .05, .04, .04, .07, .05, .05, .05, .04, .05, .06]))
    if k == 14:  # the same steps as numpy scalars of every width and as 0-d arrays
        return gen_dt_numpy(rng)
    if k == 13:  # edges: within 1e-3 of the ends of the range, and steps that round UP into a new leading digit
        return gen_dt_edge(rng)
    if k == 10:  # awkward float quotients: dt/(dt/k) != k, (dt/k)*k != dt ...
        return gen.awkward_dt(rng, int(rng.integers(2, 200))), 'awkward-quotient'
    if k == 11:  # raw reciprocals of an integer rate (1/49, 1/93, 1/128 ...): many decimals, int(1/dt) one off for some
        rate = int(rng.choice([int(rng.integers(2, 5000)), 49, 93, 98, 99, 103, 107, 128, 161, 186, 196, 198, 256]))
        return 1.0 / rate, 'recip-raw'
    if k == 12:  # within 1 % of such a step (a step that is merely NEAR a standard sampling rate)
        d = (1.0 / int(rng.integers(1, 2000))) * (1.0 + rng.uniform(-0.009, 0.009))
        return float(max(1e-4, d)), 'near-recip'

    if k == 0:
        return DT_LIST[int(rng.integers(len(DT_LIST)))], 'list'
    if k == 1:   # 4-decimal steps over six decades
        kk = max(1, min(1000000, int(round(10.0 ** rng.uniform(0, 6)))))
        return kk / 10000.0, 'dec4'
    if k == 2:   # >= 1 s with 5-6 significant digits
        kk = int(rng.integers(10001, 1000000))
        if kk % 10 == 0:
            kk += int(rng.integers(1, 10))
        return kk / 10000.0, 'dec4>=1,5+digits'
    if k == 3:   # raw log-uniform (more than 4 decimals -> rounding)
        return float(min(1000.0, max(1e-4, 10.0 ** rng.uniform(-4, 3)))), 'log'
    if k == 4:   # half-way points of the 4th decimal (inexact in binary) and their neighbours
        kk = int(round(10.0 ** rng.uniform(0.4, 6)))
        d = (kk + 0.5) / 10000.0 + float(rng.choice([0.0, 0.0, 1e-9, -1e-9]))
        return float(min(100.0, max(1e-4, d))), 'halfway4'
    if k == 5:
        kk = int(rng.integers(1, 1000000))
        return np.float64(kk / 10000.0), 'np.float64'
    if k == 6:
        d = np.float32(10.0 ** rng.uniform(-3.9, 2.99))
        return d, 'np.float32'
    if k == 7:
        return int(rng.integers(1, 1001)), 'int'
    if k == 8:   # above 100 s: 7-8 significant digits in the header
        if rng.random() < 0.3:
            return [1000, 1000.0, 123.4567, 999.9999, 100.0001, 500.5, 101][int(rng.integers(7))], 'dt>100'
        return int(rng.integers(1000001, 10000000)) / 10000.0, 'dt>100'
    # exact ties of the 4th decimal: odd multiples of 1/32 (5 decimals ending in 5), optionally plus whole seconds
    return (2 * int(rng.integers(0, 16)) + 1) / 32.0 + int(rng.integers(0, 100)) * int(rng.random() < 0.5), 'tie4-dyadic'


def gen_dt_numpy(rng):
    """A time step given as a 0-d array (float64 / float32 / float16 / integer dtypes) or as a numpy scalar other than
    float64 / float32 (those are classes of their own): what dt = arr.mean(), dt = np.asarray(cfg['dt']), dt =
    np.diff(t)[0].astype(...) or an integer number of seconds read from an integer array hand over."""
    r = int(rng.integers(0, 8))
    if r == 0:
        kk = max(1, min(1000000, int(round(10.0 ** rng.uniform(0, 6)))))
        return np.array(kk / 10000.0), '0d-float64(dec4)'
    if r == 1:
        return np.array(float(min(1000.0, max(1e-4, 10.0 ** rng.uniform(-4, 3))))), '0d-float64(log)'
    if r == 2:
        return np.array(10.0 ** rng.uniform(-3.9, 2.99), dtype=np.float32), '0d-float32'
    if r == 3:
        t = [np.int64, np.int32, np.int16, np.uint16, np.uint32, np.uint64][int(rng.integers(6))]
        return np.array(int(rng.integers(1, 1001)), dtype=t), '0d-integer'
    if r == 4:
        t = [np.int8, np.uint8][int(rng.integers(2))]
        v = int(rng.integers(1, 128 if t is np.int8 else 256))
        return (np.array(v, dtype=t) if rng.random() < 0.5 else t(v)), 'int8/uint8(0-d or scalar)'
    if r == 5:
        t = [np.int64, np.int32, np.int16, np.uint16, np.uint32, np.uint64][int(rng.integers(6))]
        return t(int(rng.integers(1, 1001))), 'numpy-integer-scalar'
    if r == 6:
        d = np.float16(10.0 ** rng.uniform(-2.9, 2.9))
        return (d if rng.random() < 0.5 else np.array(d)), 'float16(0-d or scalar)'
    kk = int(round(10.0 ** rng.uniform(0.4, 6)))      # half-way point of the 4th decimal, as a 0-d array
    return np.array(float(min(100.0, max(1e-4, (kk + 0.5) / 10000.0)))), '0d-float64(halfway4)'


CARRY_J = [1, 1, 2, 3, 5, 10, 10, 12, 37, 60, 99, 100, 100, 256, 999, 1000]


def gen_dt_edge(rng):
    """Edges of the continuous parameter dt: within a fraction 1e-3 of the ends of the stated ([1e-4, 100]) and of the
    judged (1000) range, and steps just below a whole number J, a tenth, a hundredth ... that round UP to it in the
    4th decimal (J - 5e-5 + e: every 9 carries, possibly into one more digit before the point)."""
    r = int(rng.integers(0, 6))
    u = float(rng.uniform(0, 1e-3))
    if r == 0:
        return 1e-4 * (1 + u), 'edge-low(1e-4*(1+<1e-3))'
    if r == 1:
        return float(100.0 * (1 + u * float(rng.choice([-1.0, 1.0])))), 'edge-100(1+-<1e-3)'
    if r == 2:
        return 1000.0 * (1 - u), 'edge-high(1000*(1-<1e-3))'
    e = float(rng.choice([1e-9, 2e-5, 4.9e-5, 1e-12]))
    if r == 3:     # rounds up to J.0000
        return float(CARRY_J[int(rng.integers(len(CARRY_J)))] - 5e-5 + e), 'carry4-to-integer'
    if r == 4:     # rounds up to 0.1000 / 0.0100 / 0.0010 (+ whole seconds)
        base = 10.0 ** -int(rng.integers(1, 4)) + int(rng.integers(0, 3))
        return float(base - 5e-5 + e), 'carry4-fraction'
    # just below the carry: stays J-1 .9999
    return float(CARRY_J[int(rng.integers(len(CARRY_J)))] - 5e-5 - float(rng.choice([1e-9, 2e-5]))), 'below-carry4'


def gen_dt_out_of_domain(rng):
    """Steps the format cannot represent (below 1e-4 s) or beyond the judged range: driven, counted, never judged."""
    if rng.random() < 0.7:
        return float(10.0 ** rng.uniform(-9, -4.1)), 'dt<1e-4(not judged)'
    return float(10.0 ** rng.uniform(3.01, 4)), 'dt>1000(not judged)'


def gen_values(rng, n, cls=None):
    """Returns (array, class): finite reals; int64 for 'int', float32 for 'f32'."""
    if cls is None:
        cls = VALUE_CLASSES[int(rng.integers(len(VALUE_CLASSES)))]
    sign = rng.choice([-1.0, 1.0], size=n)
    if cls == 'record':
        x, sub = gen.record(rng, n)
        return x, 'record-' + sub
    if cls == 'tiny':        # around the smallest magnitudes the format can hold: rounds to 0 or +-0.000001 ...
        return sign * 10.0 ** rng.uniform(-6.6, -5.0, size=n), cls
    if cls == 'halfway6':    # (k+0.5)e-6: inexact half-way points, written three ways, and their neighbours
        k = np.floor(10.0 ** rng.uniform(0, 9, size=n))
        how = rng.integers(0, 3, size=n)
        x = np.where(how == 0, (k + 0.5) / 1e6, np.where(how == 1, k * 1e-6 + 5e-7, (2 * k + 1) * 5e-7))
        x = x + rng.choice([0.0, 0.0, 1e-12, -1e-12], size=n)
        return sign * x, cls
    if cls == 'tie6':        # exact dyadic ties i/128 (7 decimals, last one 5), optionally plus an integer
        i = 2 * rng.integers(0, 64, size=n) + 1
        x = i / 128.0 + rng.integers(0, 1000, size=n) * (rng.random(size=n) < 0.5)
        return sign * x, cls
    if cls == 'huge':
        e = rng.uniform(6, 20, size=n)
        if rng.random() < 0.15:      # far beyond the design range: "every magnitude"
            e = rng.uniform(20, 300, size=n)
        return sign * 10.0 ** e, cls
    if cls == 'manydigit':
        return rng.uniform(-1, 1, size=n) * 10.0 ** rng.uniform(0, 10, size=n), cls
    if cls == 'mixed':
        parts = [gen_values(rng, n, c)[0].astype(float) for c in ('tiny', 'halfway6', 'tie6', 'huge', 'manydigit', 'zeros')]
        parts.append(rng.normal(size=n))
        pick = rng.integers(0, len(parts), size=n)
        return np.choose(pick, parts), cls
    if cls == 'int':
        hi = int(rng.choice([3, 100, 10 ** 6, 10 ** 12]))
        return rng.integers(-hi, hi + 1, size=n).astype(np.int64), cls
    if cls == 'f32':
        return (rng.normal(size=n) * 10.0 ** rng.uniform(-3, 6)).astype(np.float32), cls
    if cls == 'zeros':
        x = np.zeros(n)
        if rng.random() < 0.5:
            x[rng.random(size=n) < 0.5] = -0.0
        return x, cls
    if cls == 'micro':       # micro-amplitude record: every sample far below the 6th decimal
        return sign * 10.0 ** rng.uniform(-12, -8, size=n), cls
    if cls == 'offset':      # small signal on a large offset
        off = float(rng.choice([1e3, -1e3, 1e6, -1e6, 1e9, 123456.0]))
        return off + rng.normal(size=n) * 10.0 ** rng.uniform(-6, -3), cls
    if cls == 'edges':       # extreme at the first / last sample, plateaus at the ends, ending right after a sign change
        x = rng.normal(size=n) * 10.0 ** rng.uniform(-2, 3)
        how = int(rng.integers(0, 5))
        big = 10.0 * (np.max(np.abs(x)) + 1.0) * float(rng.choice([-1.0, 1.0]))
        if how == 0:
            x[0] = big
        elif how == 1:
            x[-1] = big
        elif how == 2:
            kk = int(rng.integers(1, max(2, n // 3 + 1)))
            x[:kk] = x[kk - 1]
            x[n - kk:] = x[n - kk]
        elif how == 3 and n >= 2:
            x[-2] = abs(x[-2]) + 1.0
            x[-1] = -1e-6 * float(rng.integers(1, 10))
        else:
            x[0] = big
            x[-1] = -big
        return x, cls + '-%d' % how
    if cls == 'narrow-int':  # narrow and unsigned integer dtypes using the whole range of the type
        t = NARROW[int(rng.integers(len(NARROW)))]
        ii = np.iinfo(t)
        x = rng.integers(ii.min, ii.max, size=n, endpoint=True, dtype=np.int64).astype(t)
        if n >= 2:
            x[0], x[-1] = ii.max, ii.min
        return x, np.dtype(t).name
    if cls == 'spike-dynamic':   # one sample 1e3..1e12 times larger than the steps between the others
        x = np.cumsum(rng.normal(size=n)) * 10.0 ** rng.uniform(-5, -1)
        x[int(rng.integers(n))] = float(rng.choice([-1.0, 1.0])) * (np.max(np.abs(x)) + 1e-6) * 10.0 ** rng.uniform(3, 12)
        return x, cls
    if cls == 'shape':           # shapes the statement does not forbid
        how = int(rng.integers(0, 7))
        amp = 10.0 ** rng.uniform(-3, 3)
        if how == 0:             # monotone / trend dominated, non-zero at both ends
            x = (5.0 + np.cumsum(np.abs(rng.normal(size=n)))) * float(rng.choice([-1.0, 1.0]))
        elif how == 1:           # one-sided: all the action at negative values
            x = -np.abs(rng.normal(size=n)) - 0.001
        elif how == 2:           # tail-heavy: everything in the last tenth
            x = np.zeros(n)
            kk = max(1, n // 10)
            x[n - kk:] = rng.normal(size=kk)
        elif how == 3:           # constant magnitude, alternating sign (energy at the Nyquist frequency)
            x = np.where(np.arange(n) % 2 == 0, 1.0, -1.0) * float(rng.uniform(0.1, 9.9))
        elif how == 4:           # a single step between two non-zero levels, ends above any threshold
            x = np.full(n, 7.25)
            x[int(rng.integers(n)):] = -3.5
        elif how == 6:           # strictly one-signed, positive: no zero, no sign change
            x = np.abs(rng.normal(size=n)) + 0.001
        else:                    # exact zeros inside an otherwise busy record, non-zero first and last sample
            x = rng.normal(size=n) + 0.5
            x[rng.random(size=n) < 0.3] = 0.0
            x[0], x[-1] = 1.5, -2.5
        return x * amp, 'shape-%d' % how
    if cls == 'carry6':      # just below J, J/10 ...: every 9 of the 6 decimals carries (J - 5e-7 + e rounds up to J)
        j = np.where(rng.random(size=n) < 0.5, 10.0 ** rng.integers(-5, 7, size=n),
                     rng.integers(1, 1001, size=n).astype(float))
        e = rng.choice([1e-10, 2e-7, 4.9e-7, -1e-10, -2e-7], size=n)     # negative: stays at J - 0.000001
        return sign * (j - 5e-7 + e), cls
    if cls == 'bool':        # on/off record (bool dtype): random switching, one rectangular pulse, a lone on sample, all on
        how = int(rng.integers(0, 5))
        x = np.zeros(n, dtype=bool)
        if how == 0:
            x = rng.random(size=n) < 0.5
        elif how == 1:
            i0 = int(rng.integers(0, n))
            x[i0:i0 + int(rng.integers(1, n + 1))] = True
        elif how == 2:
            x[int(rng.integers(0, n))] = True
        elif how == 3:
            x[:] = True
        else:                # off except at both ends
            x[0] = x[-1] = True
        return x, 'bool-%d' % how
    if cls == 'f16':
        return np.clip(rng.normal(size=n) * 10.0 ** rng.uniform(-2, 3), -6e4, 6e4).astype(np.float16), cls
    raise ValueError(cls)


def gen_label(rng):
    """Returns (label, default_label flag, class)."""
    r = rng.random()
    if r < 0.2:
        return 'm1', True, 'default'
    if r < 0.75:
        return LABELS[int(rng.integers(len(LABELS)))], False, 'listed'
    L = int(rng.integers(1, 41))
    idx = rng.integers(0, len(_LABEL_CHARS), size=L)
    s = ''.join(_LABEL_CHARS[i] for i in idx)
    if rng.random() < 0.5:   # make sure blanks occur
        j = int(rng.integers(0, L))
        s = s[:j] + ' ' + s[j + 1:]
    return s, False, 'random-ascii'


def gen_m(rng):
    if rng.random() < 0.75:
        return M_LIST[int(rng.integers(len(M_LIST)))]
    return float(rng.choice([-1.0, 1.0]) * 10.0 ** rng.uniform(-3, 3))


LEN_CHOICES = [1, 2, 3, 5, 10, 30, 100, 300, 1000, 2000]
LEN_P = [.09, .06, .05, .10, .15, .15, .16, .10, .09, .05]


LAYOUTS = [['strided'], ['reversed'], ['readonly'], ['strided', 'reversed'], ['strided', 'readonly'],
           ['reversed', 'readonly']]


def gen_save(rng, n=None, maxlen=2000):
    """One save op (driver format) with its classes."""
    if n is None:
        if rng.random() < 0.15:                  # around every power of two
            n = min(maxlen, 2 ** int(rng.integers(2, 12)) + int(rng.integers(-1, 2)))
        else:
            n = int(rng.choice(LEN_CHOICES, p=LEN_P))
            while n > maxlen:
                n = int(rng.choice(LEN_CHOICES, p=LEN_P))
            if n >= 10 and rng.random() < 0.5:     # spread lengths between the anchors
                n = int(rng.integers(n // 2 + 1, n + 1))
    vals, vcls = gen_values(rng, n)
    dt, dcls = gen_dt(rng)
    dtv, dtt = _describe_dt(dt)
    label, deflabel, lcls = gen_label(rng)
    lay = LAYOUTS[int(rng.integers(len(LAYOUTS)))] if rng.random() < 0.2 else None
    if rng.random() < 0.5:
        op = {'op': 'save_signal', 'sigtype': 'AccSignal' if rng.random() < 0.6 else 'Signal', 'values': vals,
              'container': 'ndarray', 'dt': dtv, 'dt_type': dtt, 'label': label, 'default_label': deflabel,
              'kw': bool(rng.random() < 0.1)}
        if not lay and rng.random() < 0.15:        # the record itself as a Python list / tuple (floats or ints)
            op['ctor_container'] = 'list' if rng.random() < 0.6 else 'tuple'
            vcls += '+ctor-' + op['ctor_container']
        if not deflabel and rng.random() < 0.15:
            op['label_positional'] = True
        if lay:
            op['ctor_layout'] = lay                # what the constructor is given
            if 'readonly' in lay and rng.random() < 0.7:
                op['layout'] = ['readonly']        # and the object's own array made read-only before saving
            vcls += '+view'
    else:
        cont = 'ndarray'
        r = rng.random()
        if r < 0.15:
            cont = 'list'
        elif r < 0.25:
            cont = 'tuple'
        op = {'op': 'save_values_and_dt', 'values': vals, 'container': cont, 'dt': dtv, 'dt_type': dtt, 'label': label,
              'kw': bool(rng.random() < 0.2)}
        if cont != 'ndarray' and rng.random() < 0.3:
            op['np_elems'] = True                  # list(arr) / tuple(arr): entries are numpy scalars of the record's dtype
            vcls += '+numpy-scalar-entries'
        elif cont != 'ndarray':
            if vals.dtype.kind == 'f' and vals.dtype != np.float64:
                op['values'] = vals = vals.astype(float)
            raw = vals.tolist()                    # Python floats (float arrays) or Python ints (integer arrays)
            if vals.dtype.kind == 'f' and rng.random() < 0.4:      # mixed list: some whole numbers as Python ints
                raw = [int(round(v)) if (i % 3 == 0 and abs(v) < 1e15) else v for i, v in enumerate(raw)]
                op['values'] = vals = np.array([float(v) for v in raw])
                vcls += '+mixed-int/float'
            op['raw'] = raw
        elif lay:
            op['layout'] = lay
            vcls += '+view'
    info = {'values': vcls, 'dt': dcls, 'label': lcls, 'n': n}
    op['_info'] = info
    return op, info


def gen_twin(rng, a):
    """A second save op that produces a file of exactly the same size as that of `a` (same length, label, printed widths)
    with different numbers - what a cache keyed on path+size/length, or a partial overwrite, would not notice."""
    n = len(a['values'])
    a['values'] = rng.uniform(1.0, 9.999, size=n)
    a['_info'] = dict(a['_info'], values='fixedwidth')
    b = dict(a)
    b['values'] = rng.uniform(1.0, 9.999, size=n)
    d = float(a['dt'])
    if d < 9.9999:
        kk = int(rng.integers(1, 99999))
    elif d < 99.9999:
        kk = int(rng.integers(100000, 999999))
    elif d < 999.9999:
        kk = int(rng.integers(1000000, 9999999))
    else:
        kk = 10000000
    b['dt'], b['dt_type'] = kk / 10000.0, 'float'
    for k in ('raw', 'layout', 'ctor_layout', 'same_object_as_prev_save'):
        a.pop(k, None)
        b.pop(k, None)
    if a.get('container') in ('list', 'tuple'):
        a['raw'], b['raw'] = a['values'].tolist(), b['values'].tolist()
    b['_info'] = dict(a['_info'], dt='twin-same-width')
    return b


def _pk(rng, name, value, p_kw=0.5):
    """One option either positionally or by keyword."""
    return ({'kwargs': {name: value}} if rng.random() < p_kw else {'args': [value]})


def all_loads(rng):
    """The loader calls of a one-shot round trip: every entry point, every astype (positional and keyword), label both
    ways, m (positional, keyword, default; boundary values 0 and 1), ffp positional and by keyword."""
    m1, m2 = gen_m(rng), gen_m(rng)
    ops = [{'op': 'load_values_and_dt'},
           {'op': 'load_signal'},
           dict({'op': 'load_signal'}, **_pk(rng, 'astype', 'signal')),
           dict({'op': 'load_signal'}, **_pk(rng, 'astype', 'acc_sig')),
           dict({'op': 'load_sig'}, **_pk(rng, 'm', m1, 0.6)),
           {'op': 'load_asig', 'kwargs': {'load_label': gen_flag(rng, True), 'm': m2}} if rng.random() < 0.6 else
           ({'op': 'load_asig', 'args': [gen_flag(rng, True), m2]} if rng.random() < 0.6 else
            {'op': 'load_asig', 'args': [gen_flag(rng, True)], 'kwargs': {'m': m2}})]
    r = rng.random()
    if r < 0.2:
        ops.append({'op': 'load_asig'})
    elif r < 0.4:
        ops.append({'op': 'load_asig', 'kwargs': {'load_label': gen_flag(rng, False), 'm': gen_m(rng)}} if rng.random() < 0.5 else
                   {'op': 'load_asig', 'args': [gen_flag(rng, False), gen_m(rng)]})
    elif r < 0.5:
        ops.append({'op': 'load_asig', 'kwargs': {'m': gen_m(rng)}})
    elif r < 0.65:
        ops.append(dict({'op': 'load_asig'}, **_pk(rng, 'load_label', gen_flag(rng, True))))
    elif r < 0.8:
        ops.append({'op': 'load_sig'})
    else:
        ops.append(dict({'op': 'load_signal'}, **_pk(rng, 'astype', 'sig')))
    for o in ops:
        if rng.random() < 0.1:
            o['ffp_kw'] = True
    order = rng.permutation(len(ops))
    return [ops[i] for i in order]


def some_loads(rng, k):
    pool = all_loads(rng)
    out = pool[:k]
    if k >= 2 and rng.random() < 0.25:      # the same loader twice in a row
        out.append(dict(out[-1]))
    return out


def _nontrivial(save_ops):
    for op in save_ops:
        v = np.asarray(op['values'], dtype=float)
        if v.size and np.any(np.abs(v) >= 5e-7):
            return True
    return False


def _digest(ops):
    parts = []
    for op in ops:
        parts.append(op['op'])
        parts.append(op.get('pid_local', 0))
        for k in ('from_last_load', 'from_held', 'same_object_as_prev_save', 'kind', 'ffp_kw', 'kw', 'out_of_domain',
                  'ctor_container', 'label_positional', 'bad', 'good', 'tuple', 'text', 'aba', 'protocol', 'np_elems',
                  'freqs_rel', 'periods_rel', 'as_list', 'n', 'aba_after_edit'):
            if op.get(k):
                parts.append('%s=%r' % (k, op[k]))
        if 'values' in op:
            parts += [op['values'], repr(op.get('dt')), op.get('dt_type'), op.get('label'), op.get('sigtype'),
                      op.get('container'), repr(op.get('layout')), repr(op.get('ctor_layout')),
                      repr([type(x).__name__[0] for x in op['raw']]) if op.get('raw') is not None else None]
        else:
            parts += [repr(op.get('args')), repr(sorted((op.get('kwargs') or {}).items())), repr(op.get('index')),
                      repr(op.get('new')), op.get('label'), op.get('how'), repr(op.get('ratio')), op.get('member')]
    return core.digest(*parts)


# ------------------------------------------------------------------------------------------- workload
def _run_case(eqsig, ctx, tmpd, ops, cls, info, counter, recipe=None):
    """Execute one block of ops on fresh paths, register it, clean up. recipe: how the driver regenerates the block."""
    paths = {}
    RECIPE.clear()
    if recipe:
        RECIPE.update(recipe)
    try:
        for op in ops:
            pl = op.get('pid_local', 0)
            if pl not in paths:
                counter[0] += 1
                paths[pl] = os.path.join(tmpd, 'c%d_%d.txt' % (counter[0], pl))
            execute(eqsig, ctx, op, paths[pl])
    finally:
        RECIPE.clear()
    saves = [o for o in ops if 'values' in o]
    ctx.case(_digest(ops), nontrivial=_nontrivial(saves), cls=cls,
             sample={'class': cls, 'calls': [o['op'] for o in ops][:12], 'first_save_classes': info,
                     'label': saves[0]['label'], 'dt': saves[0]['dt'], 'head': np.asarray(saves[0]['values'])[:5]})
    for o in ops:
        if o['op'] == 'load_asig':
            a, kw = o.get('args') or [], o.get('kwargs') or {}
            if a or 'load_label' in kw:
                sub = 'load_label:' + flag_form(a[0] if a else kw['load_label'])
                ctx.classes[sub] = ctx.classes.get(sub, 0) + 1
        if o['op'] in ('load_asig', 'load_sig'):
            a, kw = o.get('args') or [], o.get('kwargs') or {}
            i = 1 if o['op'] == 'load_asig' else 0
            mm = a[i] if len(a) > i else kw.get('m')
            if mm is not None and not isinstance(mm, (int, float)):
                sub = 'm:' + flag_form(mm)
                ctx.classes[sub] = ctx.classes.get(sub, 0) + 1
    for sv in saves:
        inf = sv.get('_info') or {}
        for sub in ('values:' + str(inf.get('values')), 'dt:' + str(inf.get('dt')), 'label:' + str(inf.get('label')),
                    'saver:' + sv['op'] + ('(%s)' % sv['sigtype'] if 'sigtype' in sv else '(%s)' % sv.get('container'))):
            ctx.classes[sub] = ctx.classes.get(sub, 0) + 1
    end_case()
    for p in paths.values():     # files of failed saves are not in the model
        if os.path.exists(p):
            os.remove(p)


def case_oneshot(rng):
    sv, info = gen_save(rng)
    ops = [sv] + all_loads(rng)
    if rng.random() < 0.02:      # a time step outside the judged range: driven and counted, no verdict
        d, dcls = gen_dt_out_of_domain(rng)
        sv['dt'], sv['dt_type'] = d, 'float'
        info['dt'] = dcls
        for o in ops:
            o['out_of_domain'] = True
    return ops, info


def case_history(rng, npaths=1):
    """save -> load(s) -> save(another record) -> load(s) ... on the same path(s)."""
    rounds = int(rng.integers(3, 7))
    ops = []
    info0 = None
    last_n = {}
    for r in range(rounds * npaths):
        pl = int(rng.integers(npaths)) if npaths > 1 else 0
        # a different length every time: shorter and longer than what the path held before
        prev = last_n.get(pl)
        n = None
        if prev is not None:
            if rng.random() < 0.5 and prev > 1:
                n = int(rng.integers(1, prev))
            else:
                n = int(prev + rng.integers(1, 60))
        sv, info = gen_save(rng, n=n, maxlen=300)
        last_n[pl] = len(sv['values'])
        sv['pid_local'] = pl
        if info0 is None:
            info0 = info
        ops.append(sv)
        last_sv = sv
        r_tw = rng.random()
        if r_tw < 0.25:               # same-size overwrite: save A, read, save twin B, (read below)
            tw = gen_twin(rng, sv)
            for ld in some_loads(rng, int(rng.integers(1, 3))):
                ld['pid_local'] = pl
                ops.append(ld)
            ops.append(tw)
            last_sv = tw
        elif r_tw < 0.45 and npaths > 1:
            # two different records of the same shape on two paths, read back to back; the first result is still held
            # (and re-checked by the monitor) when the second and third loads return
            po = (pl + 1) % npaths
            tw = gen_twin(rng, sv)
            tw['pid_local'] = po
            last_n[po] = len(tw['values'])
            ops.append(tw)
            for q in (pl, po, pl):
                for ld in some_loads(rng, 1):
                    ld['pid_local'] = q
                    ops.append(ld)
            last_sv = tw
        if rng.random() < 0.12:       # overwritten again before anything is read
            sv2, _ = gen_save(rng, maxlen=300)
            sv2['pid_local'] = pl
            last_n[pl] = len(sv2['values'])
            ops.append(sv2)
            last_sv = sv2
        if npaths > 1 and rng.random() < 0.5:
            # read ANOTHER live path first (stale/global state would show)
            others = [p for p in last_n if p != pl]
            if others:
                po = others[int(rng.integers(len(others)))]
                for ld in some_loads(rng, 1):
                    ld['pid_local'] = po
                    ops.append(ld)
        for ld in some_loads(rng, int(rng.integers(1, 5))):
            ld['pid_local'] = pl
            ops.append(ld)
        if rng.random() < 0.2:        # the caller edits the last result in place, then reads the same path again
            ops.append({'op': 'edit_result', 'how': ['scale', 'zero', 'first'][int(rng.integers(3))], 'pid_local': pl})
            for ld in some_loads(rng, int(rng.integers(1, 3))):
                ld['pid_local'] = pl
                ops.append(ld)
        if rng.random() < 0.15:       # the SAME argument object (array / Signal) is saved a second time, here or elsewhere
            again = dict(last_sv, same_object_as_prev_save=True)
            again['pid_local'] = int(rng.integers(npaths)) if npaths > 1 else pl
            last_n[again['pid_local']] = len(again['values'])
            ops.append(again)
            for ld in some_loads(rng, int(rng.integers(1, 3))):
                ld['pid_local'] = again['pid_local']
                ops.append(ld)
            pl = again['pid_local']
        r_re = rng.random()
        if r_re < 0.25:               # the loaded object itself - or a copy / deep copy / unpickled copy of it - is saved
            if r_re < 0.13:           # again (same path) and read back
                ops.append({'op': 'clone_result', 'how': ['copy', 'deepcopy', 'pickle'][int(rng.integers(3))],
                            'protocol': int(rng.integers(2, 6)), 'pid_local': pl})
            ops.append({'op': 'save_signal', 'from_last_load': True, 'pid_local': pl})
            for ld in some_loads(rng, int(rng.integers(1, 4))):
                ld['pid_local'] = pl
                ops.append(ld)
        r_bad = rng.random()
        if r_bad < 0.12:              # a save that is refused (raises): the path must still hold the record it held
            n_good = int(rng.integers(1, 40))
            ops.append({'op': 'bad_save', 'bad': BAD_KINDS[int(rng.integers(len(BAD_KINDS)))], 'pid_local': pl,
                        'good': [float(x) for x in np.round(rng.normal(size=n_good) * 10.0, 4)],
                        'dt': float(gen_dt(rng)[0]), 'label': gen_label(rng)[0], 'tuple': bool(rng.random() < 0.3)})
            for ld in some_loads(rng, int(rng.integers(1, 4))):
                ld['pid_local'] = pl
                ops.append(ld)
        elif r_bad < 0.18:            # a non-finite record / time step (written silently by the clean code): outside the
            nf, _ = gen_save(rng, maxlen=100)         # quantifier, not judged - what follows on this path and elsewhere is
            v = np.array(nf['values'], dtype=float)
            how = int(rng.integers(0, 4))
            if how < 3:
                v[int(rng.integers(len(v)))] = [np.nan, np.inf, -np.inf][how]
                if rng.random() < 0.3:
                    v[...] = v[int(np.flatnonzero(~np.isfinite(v))[0])]
            else:
                nf['dt'], nf['dt_type'] = float('nan'), 'float'
            nf['values'] = v
            for k in ('raw', 'layout', 'ctor_layout', 'ctor_container'):
                nf.pop(k, None)
            if nf.get('container') in ('list', 'tuple'):
                nf['raw'] = v.tolist()
            nf['_info'] = dict(nf['_info'], values='non-finite(not judged)')
            nf['pid_local'] = pl
            nf['out_of_domain'] = True
            ops.append(nf)
            last_n[pl] = len(v)
            for ld in some_loads(rng, int(rng.integers(1, 3))):
                ld['pid_local'] = pl
                ld['out_of_domain'] = True
                ops.append(ld)
        elif r_bad < 0.22:            # a load that is refused: missing file, empty file, header only (counted), and then
            bp = 90 + int(rng.integers(0, 3))         # loads of the live paths again
            txt = [None, '', 'only a label', 'label\n3 0.0100'][int(rng.integers(4))]
            if txt is not None:
                ops.append({'op': 'touch', 'text': txt, 'pid_local': bp})
            for ld in some_loads(rng, 1):
                ld['pid_local'] = bp
                ld['out_of_domain'] = True
                ops.append(ld)
            for q in list(last_n):
                for ld in some_loads(rng, 1):
                    ld['pid_local'] = q
                    ops.append(ld)
    return ops, info0


def case_history_seeded(case_seed, kind):
    """case_history from its own seed, so that a witness can regenerate the driver's block (in-place edits of results
    included, which are not library calls and therefore not in the recorded call list)."""
    rng = np.random.default_rng([16, 780, int(case_seed)])
    return case_history(rng, 1 if kind == 'history' else int(rng.integers(2, 4)))


def case_objhist(case_seed):
    """One Signal/AccSignal object saved again and again between public mutations: same/shorter/longer reset_values,
    in-place edits of obj.values, label changes, reads of cached quantities; by save_signal(obj) and by
    save_values_and_dt(obj.values, obj.dt, obj.label). Every load is judged against the object's values at the entry of
    the save that wrote the file. Deterministic in case_seed (the witness carries it)."""
    rng = np.random.default_rng([16, 779, int(case_seed)])
    n = int(rng.choice([1, 2, 3, 4, 7, 8, 9, 31, 64, 100, 257]))
    vals, vcls = gen_values(rng, n)
    dt, dcls = gen_dt(rng)
    dtv, dtt = _describe_dt(dt)
    label, deflabel, lcls = gen_label(rng)
    info = {'values': vcls, 'dt': dcls, 'label': lcls, 'n': n}
    ops = [{'op': 'new_signal', 'sigtype': 'AccSignal' if rng.random() < 0.6 else 'Signal', 'values': vals,
            'container': 'ndarray', 'dt': dtv, 'dt_type': dtt, 'label': label, 'default_label': deflabel, '_info': info}]
    npaths = int(rng.integers(1, 3))
    for r in range(int(rng.integers(3, 7))):
        pl = int(rng.integers(npaths))
        if rng.random() < 0.6:
            ops.append({'op': 'save_signal', 'from_held': True, 'pid_local': pl})
        else:
            ops.append({'op': 'save_values_and_dt', 'from_held': True, 'pid_local': pl})
        for ld in some_loads(rng, int(rng.integers(1, 4))):
            ld['pid_local'] = pl
            ops.append(ld)
        k = int(rng.integers(0, 17))
        if k in (12, 13, 14):
            # Python object protocols: a shallow copy (rebound at once), a deep copy or an unpickled copy of the object in
            # its current cache state (cold, or warm after reads) goes on; copy and original are then mutated and saved in
            # both orders, each save judged against the values of the object that was saved
            if rng.random() < 0.6:
                ops.append({'op': 'mutate', 'kind': 'warm'})
            how = ['copy', 'deepcopy', 'pickle'][k - 12]
            ops.append({'op': 'mutate', 'kind': how, 'protocol': int(rng.integers(2, 6))})
            if how == 'copy' or rng.random() < 0.5:
                ops.append({'op': 'mutate', 'kind': 'reset_values', 'values': gen_values(rng, n)[0], 'container': 'ndarray'})
            else:
                ops.append({'op': 'mutate', 'kind': 'inplace', 'index': [0, max(0, n - 1)],
                            'new': [float(np.round(x, 3)) for x in rng.normal(size=2) * 50]})
            first_copy = bool(rng.random() < 0.5)
            for turn in (0, 1):
                if (turn == 0) != first_copy:
                    ops.append({'op': 'mutate', 'kind': 'swap'})
                pq = int(rng.integers(npaths))
                ops.append({'op': 'save_signal' if rng.random() < 0.7 else 'save_values_and_dt', 'from_held': True,
                            'pid_local': pq})
                for ld in some_loads(rng, int(rng.integers(1, 3))):
                    ld['pid_local'] = pq
                    ops.append(ld)
                if (turn == 0) != first_copy:
                    ops.append({'op': 'mutate', 'kind': 'swap'})
            if rng.random() < 0.5:          # go on with the original; the copy stays alive
                ops.append({'op': 'mutate', 'kind': 'swap'})
        elif k == 15:
            # assignment through the public names after construction: values as list / tuple / ndarray with 1, 2, 3
            # entries or the current length (ignored by the clean tree), dt (no setter: raises), label
            m_ = int(rng.choice([1, 2, 3, n]))
            ops.append({'op': 'mutate', 'kind': 'assign-values', 'values': np.round(rng.normal(size=m_) * 20.0, 3),
                        'container': ['list', 'tuple', 'ndarray'][int(rng.integers(3))]})
            if rng.random() < 0.5:
                ops.append({'op': 'mutate', 'kind': 'label', 'label': gen_label(rng)[0]})
        elif k == 16:
            d_, _ = gen_dt(rng)
            dv_, dt_ = _describe_dt(d_)
            ops.append({'op': 'mutate', 'kind': 'assign-dt', 'dt': dv_, 'dt_type': dt_})
        if rng.random() < 0.3:          # settings given by the user (round 5, item 31): the saves that follow must leave them
            nf_ = int(rng.choice([1, 2, 3, 5, 30]))
            fr_ = np.sort(rng.uniform(0.01, 1.0, size=nf_)) * float(rng.choice([1.0, 1.0, 4.0]))     # x Nyquist: some above it
            if rng.random() < 0.3:
                fr_[-1] = 1.0 + float(rng.uniform(0.001, 3.0))
            pr_ = [0.0] if rng.random() < 0.15 else [float(x) for x in np.round(rng.uniform(0.25, 40.0, size=int(rng.choice([1, 2, 7]))), 3)]
            ops.append({'op': 'mutate', 'kind': 'settings', 'freqs_rel': [float(x) for x in fr_], 'periods_rel': pr_,
                        'as_list': bool(rng.random() < 0.5),
                        'n': int(rng.choice([0, 0, 2, 3, 16, 100, 1024]))})
        if k == 7:
            ops.append({'op': 'mutate', 'kind': 'warm'})
        elif k == 8:
            ops.append({'op': 'mutate', 'kind': 'warm'})
            ops.append({'op': 'mutate', 'kind': 'deepcopy'})
            ops.append({'op': 'mutate', 'kind': 'inplace', 'index': [0, max(0, n - 1)],
                        'new': [float(np.round(x, 3)) for x in rng.normal(size=2) * 50]})
        elif k == 9:
            ops.append({'op': 'mutate', 'kind': 'interp', 'ratio': float(rng.choice([0.3, 0.5, 0.7, 1.0 / 3, 0.9]))})
        elif k == 10:
            ops.append({'op': 'mutate', 'kind': 'resample'})
        elif k == 11:
            ops.append({'op': 'mutate', 'kind': 'cluster-member', 'member': int(rng.integers(0, 2))})
        if k == 0:
            ops.append({'op': 'mutate', 'kind': 'reset_values', 'values': gen_values(rng, n)[0], 'container': 'ndarray'})
        elif k == 1:
            n = max(1, n - int(rng.integers(1, max(2, n))))
            ops.append({'op': 'mutate', 'kind': 'reset_values', 'values': gen_values(rng, n)[0],
                        'container': 'list' if rng.random() < 0.3 else 'ndarray'})
        elif k == 2:
            n = n + int(rng.integers(1, 40))
            ops.append({'op': 'mutate', 'kind': 'reset_values', 'values': gen_values(rng, n)[0], 'container': 'ndarray'})
        elif k == 3:
            idx = sorted(set(int(i) for i in rng.integers(0, n, size=min(n, 3))) | {0, n - 1})
            ops.append({'op': 'mutate', 'kind': 'inplace', 'index': idx,
                        'new': [float(np.round(x, 3)) for x in rng.normal(size=len(idx)) * 50]})
        elif k == 4:
            ops.append({'op': 'mutate', 'kind': 'label', 'label': gen_label(rng)[0]})
        elif k == 5:
            ops.append({'op': 'mutate', 'kind': 'read-cache'})
        # k == 6: saved again unchanged
    pl = int(rng.integers(npaths))
    ops.append({'op': 'save_signal', 'from_held': True, 'pid_local': pl})
    for ld in all_loads(rng):
        ld['pid_local'] = pl
        ops.append(ld)
    if rng.random() < 0.3:
        ops.append({'op': 'clone_result', 'how': ['copy', 'deepcopy', 'pickle'][int(rng.integers(3))],
                    'protocol': int(rng.integers(2, 6)), 'pid_local': pl})
        ops.append({'op': 'save_signal', 'from_last_load': True, 'pid_local': pl})
        for ld in some_loads(rng, 2):
            ld['pid_local'] = pl
            ops.append(ld)
    if rng.random() < 0.1:
        ops.append({'op': 'complex_probe', 'pid_local': pl})
    return ops, info


ABA_LOADS = [lambda rng: {'op': 'load_values_and_dt'},
             lambda rng: {'op': 'load_signal'},
             lambda rng: dict({'op': 'load_signal'}, **_pk(rng, 'astype', ['signal', 'acc_sig', 'sig'][int(rng.integers(3))])),
             lambda rng: dict({'op': 'load_sig'}, **_pk(rng, 'm', gen_m(rng))),
             lambda rng: {'op': 'load_sig'},
             lambda rng: {'op': 'load_asig', 'kwargs': {'load_label': gen_flag(rng, True), 'm': gen_m(rng)}},
             lambda rng: {'op': 'load_asig', 'args': [gen_flag(rng, rng.random() < 0.5), gen_m(rng)]},
             lambda rng: {'op': 'load_asig'}]


def _variant_of(rng, a, how):
    """Record B for an A;B;A pattern. 'values' / 'dt' / 'label': a record of the same shape that differs from A in that one
    argument only (what a memo keyed on too little cannot tell apart); 'twin': same file size, other numbers; 'other':
    an unrelated record of another shape."""
    if how == 'other':
        b, _ = gen_save(rng, maxlen=300)
        return b
    if how == 'twin':
        return gen_twin(rng, a)
    b = dict(a)
    for k in ('same_object_as_prev_save',):
        b.pop(k, None)
    if how == 'values':
        v = np.array(a['values'])
        if v.dtype.kind == 'f':
            with np.errstate(over='ignore'):
                nv = (v.astype(float) * 0.5 + 1.0 + rng.normal(size=len(v))).astype(v.dtype)
        elif v.dtype.kind == 'b':
            nv = ~v
        else:
            nv = v[::-1].copy()
            if np.array_equal(nv, v):
                nv = (v // 2 + 1).astype(v.dtype)
        b['values'] = nv
        if b.get('raw') is not None:
            b['raw'] = [float(x) for x in nv.tolist()]
            b['values'] = np.array(b['raw'])
    elif how == 'dt':
        d, _ = gen_dt(rng)
        b['dt'], b['dt_type'] = _describe_dt(d)
    else:
        lab = a['label']
        b['label'] = (lab[:-1] + ('x' if lab[-1:] != 'x' else 'y')) if lab else 'x'
        b.pop('default_label', None)
    b['_info'] = dict(a.get('_info') or {}, values=(a.get('_info') or {}).get('values', '?') + '/aba-' + how)
    return b


def case_aba(case_seed):
    """Results depend on the arguments only. load side: A -> p0, B -> p1, then L(p0), L(p1), L(p0) with the SAME loader
    call L (non-default options included) - third == first bit for bit. save side: A -> p0, L; B -> p0, L; A -> p0 (and
    A -> p2), L: the results for A before and after B are the same. Every load is also judged against the model."""
    rng = np.random.default_rng([16, 781, int(case_seed)])
    a, info = gen_save(rng, maxlen=300)
    how = ['values', 'values', 'dt', 'label', 'twin', 'other', 'other'][int(rng.integers(7))]
    if how == 'twin':
        b = gen_twin(rng, a)
    else:
        b = _variant_of(rng, a, how)
    a2 = dict(a)                      # A once more, as an equal but distinct argument object
    a2.pop('same_object_as_prev_save', None)
    pick = [int(i) for i in rng.choice(len(ABA_LOADS), size=int(rng.integers(2, 5)), replace=False)]
    if rng.random() < 0.5:            # a call that asks for the label next to one that does not (what is not requested must
        pick = [i for i in pick if i not in (5, 6, 7)][:2] + [5, int(rng.choice([6, 7]))]     # not depend on earlier calls)
        pick = [pick[int(i)] for i in rng.permutation(len(pick))]
    loads = [ABA_LOADS[i](rng) for i in pick]
    ops = []

    # a result belongs to the caller (round 5, item 32): every array of the FIRST results is overwritten by the caller
    # right after it was handed out; the same call with the same arguments must still give the first value
    edit = ['scale', 'zero', 'first'][int(rng.integers(3))] if rng.random() < 0.4 else None

    def L(pl, tag):
        for i, ld in enumerate(loads):
            o = dict(ld, pid_local=pl)
            if tag:
                o['aba'] = (tag, i)
            if tag == 'third' and edit:
                o['aba_after_edit'] = True
            ops.append(o)
            if tag == 'first' and edit:
                ops.append({'op': 'edit_result', 'how': edit, 'pid_local': pl})

    if rng.random() < 0.5:            # load side
        ops.append(dict(a, pid_local=0))
        ops.append(dict(b, pid_local=1))
        L(0, 'first')
        L(1, None)
        L(0, 'third')
        if rng.random() < 0.5:
            L(1, None)
            L(0, 'third')
    else:                             # save side
        ops.append(dict(a, pid_local=0))
        L(0, 'first')
        ops.append(dict(b, pid_local=0))
        L(0, None)
        ops.append(dict(a2, pid_local=0))
        L(0, 'third')
        if rng.random() < 0.5:
            ops.append(dict(a2, pid_local=2))
            L(2, 'third')
    info = dict(info, aba=how)
    return ops, info


SWEEP_LOADS = [{'op': 'load_values_and_dt'}, {'op': 'load_signal'}, {'op': 'load_sig', 'kwargs': {'m': 2.0}},
               {'op': 'load_asig', 'kwargs': {'load_label': True}}, {'op': 'load_signal', 'kwargs': {'astype': 'acc_sig'}},
               {'op': 'load_signal', 'kwargs': {'astype': 'signal'}},
               {'op': 'load_asig', 'kwargs': {'load_label': np.bool_(True), 'm': np.float32(0.5)}},
               {'op': 'load_asig', 'args': [np.array(True), np.array(2.0)]}, {'op': 'load_asig', 'args': [1]}]


def sweep_ks(tier, seed):
    if tier == 'quick':
        return list(range(1, 20001)) + list(range(20001 + seed % 61, 1000001, 61)), 20000
    return list(range(1, 1000001)), 1000000


def run_sweep(eqsig, ctx, tmpd):
    ks, n_exh = sweep_ks(ctx.tier, ctx.seed)
    vals = [np.array([0.25, -1.5]), np.array([3.0]), np.array([1e-6, 2.0, -0.5])]
    n_done = 0
    for j in core.split_range(len(ks), ctx.shard, ctx.nshards):
        k = ks[j]
        dt = k / 10000.0
        v = vals[k % 3]
        path = os.path.join(tmpd, 'sweep_%d.txt' % k)
        if k % 2:
            sv = {'op': 'save_values_and_dt', 'values': v, 'container': 'ndarray', 'dt': dt, 'dt_type': 'float', 'label': 'k%d' % k}
        else:
            sv = {'op': 'save_signal', 'sigtype': 'AccSignal' if k % 4 else 'Signal', 'values': v, 'container': 'ndarray',
                  'dt': dt, 'dt_type': 'float', 'label': 'k%d' % k}
        execute(eqsig, ctx, sv, path)
        execute(eqsig, ctx, SWEEP_LOADS[(k // 2) % len(SWEEP_LOADS)], path)
        end_case()
        if os.path.exists(path):
            os.remove(path)
        n_done += 1
        if n_done % 4096 == 0 and ctx.out_of_time():
            ctx.observe('sweep-cut-by-budget')
            break
    ctx.cases_enumerated(n_done, n_done, cls='sweep-dt=k/10000')
    ctx.exhaustive['dt_sweep_cases'] = n_done


# ------------------------------------------------------------------------------------------- long records
LONG_QUICK = [65535, 65536, 65537, 70001, 131072, 131073, 200003]
# block boundaries below 2**16: powers of two +-1, decimal blocks, several blocks plus one
MEDIUM_QUICK = [4095, 4096, 4097, 8191, 8192, 8193, 10000, 10001, 12289, 16383, 16384, 16385, 20001, 32767, 32768, 32769,
                50001]
MEDIUM_THOROUGH = [5000, 5001, 9999, 24576, 24577, 30001, 40960, 40961, 49152, 49153, 60001, 100000, 100001, 250001]
LONG_VALUE_CLASSES = ['record', 'record', 'record', 'manydigit', 'f32', 'int', 'mixed']


def long_plan(tier, seed):
    """Deterministic list of (npts, saver) of the long round trips of a run: both savers for every length."""
    lens = list(LONG_QUICK)
    if tier != 'quick':
        r = np.random.default_rng([int(seed), 16, 778])
        for p in range(10, 19):
            lens += [2 ** p - 1, 2 ** p, 2 ** p + 1, 2 ** p + int(r.integers(2, 2 ** (p - 1))),
                     2 ** p - int(r.integers(2, 2 ** (p - 2)))]
        lens += [196608, 196609, 300007, 393217, 500000, 524287, 524288, 524289]
    plan = []
    for n in lens:
        plan.append((n, 'save_signal'))
        plan.append((n, 'save_values_and_dt'))
    for i, n in enumerate(MEDIUM_QUICK):
        if tier == 'quick':      # one saver per length, alternating (both savers share the writer)
            plan.append((n, 'save_signal' if (i + int(seed)) % 2 else 'save_values_and_dt'))
        else:
            plan.append((n, 'save_signal'))
            plan.append((n, 'save_values_and_dt'))
    if tier != 'quick':
        for n in MEDIUM_THOROUGH:
            plan.append((n, 'save_signal'))
            plan.append((n, 'save_values_and_dt'))
    plan.sort(key=lambda t: -t[0])      # round robin over the shards in order of cost
    return plan


def case_long(tier, seed, idx):
    """Ops of long round trip number idx of the plan: one save, then every loader entry point. Deterministic."""
    n, saver = long_plan(tier, seed)[idx]
    rng = np.random.default_rng([int(seed), 16, 777, int(idx)])
    vals, vcls = gen_values(rng, n, LONG_VALUE_CLASSES[int(rng.integers(len(LONG_VALUE_CLASSES)))])
    dt, dcls = gen_dt(rng)
    dtv, dtt = _describe_dt(dt)
    label, deflabel, lcls = gen_label(rng)
    if saver == 'save_signal':
        sv = {'op': 'save_signal', 'sigtype': 'AccSignal' if idx % 4 < 2 else 'Signal', 'values': vals,
              'container': 'ndarray', 'dt': dtv, 'dt_type': dtt, 'label': label, 'default_label': deflabel}
    else:
        cont = 'list' if (idx % 8 == 5 and vals.dtype != np.float32) else 'ndarray'
        sv = {'op': 'save_values_and_dt', 'values': vals, 'container': cont, 'dt': dtv, 'dt_type': dtt, 'label': label,
              'kw': False}
    info = {'values': vcls, 'dt': dcls, 'label': lcls, 'n': n}
    sv['_info'] = info
    return [sv] + all_loads(rng), info


def run_long(eqsig, ctx, tmpd, counter):
    plan = long_plan(ctx.tier, ctx.seed)
    off = ctx.seed % ctx.nshards          # which shards get the long records moves with the seed
    for idx in range(len(plan)):
        if (idx + off) % ctx.nshards != ctx.shard:
            continue
        ops, info = case_long(ctx.tier, ctx.seed, idx)
        _run_case(eqsig, ctx, tmpd, ops, 'long(npts=%s)' % ('2^16+-1' if abs(plan[idx][0] - 65536) <= 1 else
                                                           ('>2^16' if plan[idx][0] > 65536 else
                                                            ('<2^16' if plan[idx][0] > 50001 else '4095..50001'))),
                  info, counter, recipe={'kind': 'long', 'tier': ctx.tier, 'seed': int(ctx.seed), 'idx': idx})


N_CASES = {'quick': {'oneshot': 5200, 'history': 1800, 'interleaved': 500, 'objhist': 800, 'aba': 480},
           'thorough': {'oneshot': 60000, 'history': 20000, 'interleaved': 6000, 'objhist': 8000, 'aba': 5000}}


def run_shard(ctx):
    eqsig = core.import_eqsig()
    install(ctx)
    rng = ctx.rng
    tmpd = tempfile.mkdtemp(prefix='vf_c16_')
    counter = [0]
    try:
        plan = N_CASES[ctx.tier]
        for kind in ('oneshot', 'history', 'interleaved', 'objhist', 'aba'):
            n = plan[kind] // ctx.nshards + 1
            for c in range(n):
                recipe = None
                if kind == 'oneshot':
                    ops, info = case_oneshot(rng)
                elif kind in ('history', 'interleaved'):
                    cs = int(rng.integers(0, 2 ** 62))
                    ops, info = case_history_seeded(cs, kind)
                    recipe = {'kind': kind, 'case_seed': cs, 'digest': _digest(ops)}
                elif kind == 'aba':
                    cs = int(rng.integers(0, 2 ** 62))
                    ops, info = case_aba(cs)
                    recipe = {'kind': 'aba', 'case_seed': cs, 'digest': _digest(ops)}
                else:
                    cs = int(rng.integers(0, 2 ** 62))
                    ops, info = case_objhist(cs)
                    recipe = {'kind': 'objhist', 'case_seed': cs, 'digest': _digest(ops)}
                _run_case(eqsig, ctx, tmpd, ops, kind, info, counter, recipe)
                if c % 64 == 0 and ctx.out_of_time():
                    ctx.observe('random-part-cut-by-budget')
                    break
        run_sweep(eqsig, ctx, tmpd)
        run_long(eqsig, ctx, tmpd, counter)      # last, so that the prelude of a witness is never a long record
        ctx.note('monitored_calls', dict(attach.CALLS))
    finally:
        end_case()
        shutil.rmtree(tmpd, ignore_errors=True)


def replay(w):
    """Re-execute the recorded block of calls (complete inputs) on fresh temporary paths against the current tree."""
    eqsig = core.import_eqsig()
    ctx = core.Ctx(PROP_ID, 'quick', 0, 0, 1)
    install(ctx)
    end_case()
    tmpd = tempfile.mkdtemp(prefix='vf_c16_replay_')
    try:
        if w.get('prelude_ops'):
            for op in w['prelude_ops']:
                execute(eqsig, ctx, op, os.path.join(tmpd, 'pre%s.txt' % op.get('pid', 0)))
            end_case()
            ctx = core.Ctx(PROP_ID, 'quick', 0, 0, 1)      # only the witness block is judged by the replay
            install(ctx)
        ops = w['ops']
        rc = w.get('recipe') or {}
        if rc.get('kind') in ('objhist', 'history', 'interleaved', 'aba'):
            # regenerate the driver's block (mutators and in-place edits included)
            regen = (case_objhist(rc['case_seed'])[0] if rc['kind'] == 'objhist'
                     else case_aba(rc['case_seed'])[0] if rc['kind'] == 'aba'
                     else case_history_seeded(rc['case_seed'], rc['kind'])[0])
            if _digest(regen) == rc.get('digest'):
                ops = regen                  # else: the generator changed since; fall back to the recorded calls
        elif rc:                             # long record: regenerate the block from the driver's deterministic recipe
            ops = case_long(rc['tier'], rc['seed'], rc['idx'])[0]
        for op in ops:
            path = os.path.join(tmpd, 'p%s.txt' % op.get('pid', op.get('pid_local', 0)))
            execute(eqsig, ctx, op, path)
    finally:
        end_case()
        shutil.rmtree(tmpd, ignore_errors=True)
    return ['%s: %s' % (v['clause'], v['msg'].splitlines()[0] if v['msg'] else '') for v in ctx.violations]
