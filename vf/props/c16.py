"""C16 - saved signals load back unchanged (to the precision of the eqsig text format).

Monitor: a stateful runtime monitor over the save/load *pair*.  Post-conditions on save_values_and_dt / save_signal keep
a model of what was last saved to every path (values, dt, label as held in memory by the caller - never parsed from the
file; the bytes of the file are read for the witness only).  Post-conditions on load_values_and_dt / load_signal /
load_sig / load_asig (wherever the call comes from, nested calls included) compare what was returned with that model:
number of points, dt to 4 decimals, values to 6 decimals times m, label when requested, exact object type.
Workload: one-shot round trips to fresh paths, HISTORIES on one path (save -> load -> save another signal -> load ...),
interleaved histories on several paths, and a sweep of the 4-decimal time steps k/10000.
"""
import os
import shutil
import string
import tempfile

import numpy as np

from vf import attach, core, gen
from vf.oracles import eqsig_format as O

PROP_ID = 'C16'
TECHNIQUE = ('stateful runtime monitor over the save/load pair (model of the last record saved to each path; '
             'post-conditions on all four loaders, nested calls included) with a decimal-rounding reference oracle; '
             'workload = one-shot round trips, same-path and interleaved save/load histories, sweep of 4-decimal dt')
RULE = ('case = one block of save_/load_ calls of the real functions on 1-3 temporary paths. one-shot: a record '
        '(1..2000 samples; classes noise/walk/quake/..., |v| 4e-7..1e20 (some to 1e300), half-way points of the 6th '
        'decimal incl. exact dyadic ties, integers, float32, list/tuple) saved with save_signal (Signal/AccSignal) or '
        'save_values_and_dt to a fresh path and read by every loader entry point (load_values_and_dt, load_signal '
        'default/sig/signal/acc_sig, load_sig m, load_asig load_label x m). history: 3..6 rounds of save(different '
        'record, length, dt, label, saver) -> loads on the SAME path, incl. same-size overwrites and re-saving the '
        'loaded object; interleaved: the same on 2-3 paths. dt: design list, k/10000 over six decades, dt>=1 with 5-6 '
        'significant digits, log-uniform raw in [1e-4,100], half-way points of the 4th decimal, int/float32/float64. '
        'labels: default, spaces, digits, header look-alikes, empty, comma, #, random printable ASCII. m in '
        '{1,2,0.5,-1,9.81,random}. sweep: save/load of every dt=k/10000 in the enumerated range. distinct = digest of '
        '(all saved records, dt, labels, call list); long: npts in {65535, 65536, 65537, 70001, 131072, 131073, 200003} '
        '(thorough: also 2**p and 2**p+-1 and random lengths around 2**p for p=10..18, and up to 524289 points), each '
        'through both savers and every loader entry point; non-trivial = some saved record has a value that does not round '
        'to 0.')
ASSUMPTIONS = ['the format holds values to 6 and dt to 4 decimals: "same to nd decimals" = the multiple of 10**-nd nearest '
               'to the saved number; within 4 ulps of a half-way point (exact ties included) either neighbour is accepted',
               'finite real values, length >= 1, dt in [1e-4, 100], single-line str label (others counted, not judged)',
               'requested type is judged exactly: Signal requested -> type is Signal (not the subclass AccSignal)',
               'the label is judged only when requested (load_asig(load_label=True))',
               'files are written and read within one process on a local temporary directory; nothing else touches them',
               'oracle vf/oracles/eqsig_format.py is correct (formatter and exact Decimal arithmetic cross-checked)']
EXHAUSTIVE = {'quick': 'every time step dt = k/10000, k = 1..20000 (all 4-decimal dt up to 2 s), one save + one load each '
                       '(loader and saver cycle with k); above that every 61st k up to 1000000',
              'thorough': 'every time step dt = k/10000, k = 1..1000000 (all 4-decimal dt in [1e-4, 100]), one save + one '
                          'load each (loader and saver cycle with k)'}
MIN_EVALS = {'quick': {'npts': 120000, 'dt==round4(saved)': 120000, 'values==m*round6(saved)': 120000,
                       'dt.within-half-4th-decimal': 120000, 'values.within-half-6th-decimal': 120000,
                       'label==saved(load_label=True)': 10000, 'call-returns': 100000,
                       'type.load_values_and_dt->(ndarray,float)': 65000, 'type.load_signal(default|sig)->Signal': 11000,
                       'type.load_signal(signal)->Signal': 10000, 'type.load_signal(acc_sig)->AccSignal': 10000,
                       'type.load_sig->Signal': 11000, 'type.load_asig->AccSignal': 14000,
                       'history.same-path-reload': 20000, 'long-record(>65536).reload': 40},
             'thorough': {'npts': 2200000, 'dt==round4(saved)': 2200000, 'values==m*round6(saved)': 2200000,
                          'dt.within-half-4th-decimal': 2200000, 'values.within-half-6th-decimal': 2200000,
                          'label==saved(load_label=True)': 200000, 'call-returns': 2000000,
                          'type.load_values_and_dt->(ndarray,float)': 1200000,
                          'type.load_signal(default|sig)->Signal': 200000, 'type.load_signal(signal)->Signal': 180000,
                          'type.load_signal(acc_sig)->AccSignal': 180000, 'type.load_sig->Signal': 200000,
                          'type.load_asig->AccSignal': 250000, 'history.same-path-reload': 300000,
                          'long-record(>65536).reload': 150}}

CTX = None
REG = {}        # realpath -> {'saved': op dict of the last successful save (None = unknown), 'pid': int, 'n_saves': int}
PIDS = {}       # realpath -> small integer id used in witnesses
LOG = []        # outermost calls of the current case, in order (the witness of every violation)
LOG_CAP = 64
LOG_STATE = {'truncated': False, 'cases_done': 0}
PRELUDE = []    # the calls of the first block this process executed: replayed before the witness block, so that a fault
                # living in process-wide state set by the first calls (a cache, a remembered dt) reproduces too


def n_shards(tier):
    return 16


# ------------------------------------------------------------------------------------------- describing calls
def _describe_values(values):
    if isinstance(values, np.ndarray):
        return np.array(values), 'ndarray'
    if isinstance(values, list):
        return np.asarray(values), 'list'
    if isinstance(values, tuple):
        return np.asarray(values), 'tuple'
    return np.asarray(values), type(values).__name__


def _describe_dt(dt):
    if isinstance(dt, np.float32):
        return float(dt), 'float32'
    if isinstance(dt, np.float64):
        return float(dt), 'float64'
    if isinstance(dt, bool):
        return dt, 'bool'
    if isinstance(dt, (int, np.integer)):
        return int(dt), 'int'
    if isinstance(dt, float):
        return dt, 'float'
    return dt, type(dt).__name__


BIG = 20000      # records longer than this are not written value by value into a witness


def _pack(arr):
    import base64
    import zlib
    arr = np.ascontiguousarray(arr)
    return {'packed_b64': base64.b64encode(zlib.compress(arr.tobytes(), 1)).decode('ascii'), 'dtype': str(arr.dtype),
            'n': int(arr.size)}


def _unpack(d):
    import base64
    import zlib
    return np.frombuffer(zlib.decompress(base64.b64decode(d['packed_b64'])), dtype=d['dtype']).copy()


def _rebuild_values(op):
    v = op['values']
    if isinstance(v, dict) and 'packed_b64' in v:
        v = _unpack(v)
    arr = np.asarray(v)
    c = op.get('container', 'ndarray')
    if c == 'list':
        return arr.tolist()
    if c == 'tuple':
        return tuple(arr.tolist())
    return np.array(arr)


def _rebuild_dt(op):
    t = op.get('dt_type', 'float')
    if t == 'float32':
        return np.float32(op['dt'])
    if t == 'float64':
        return np.float64(op['dt'])
    if t == 'int':
        return int(op['dt'])
    return float(op['dt'])


_KEYS = {}


def _key(ffp):
    k = _KEYS.get(ffp) if isinstance(ffp, str) else None
    if k is None:
        k = os.path.realpath(os.fspath(ffp))
        if isinstance(ffp, str):
            _KEYS[ffp] = k
    return k


def _begin(ffp, op):
    """pre-hook part shared by all monitored functions: name the path, log outermost calls."""
    key = _key(ffp)
    pid = PIDS.setdefault(key, len(PIDS))
    op['pid'] = pid
    outer = attach.STATE['depth'] == 0
    if outer:
        if len(LOG) >= LOG_CAP:
            del LOG[0]
            LOG_STATE['truncated'] = True
        LOG.append(op)
    return key, op, outer


def _witness(key, **extra):
    # the file as it is on disk now = what the judged loader has just read (nothing else writes to these paths)
    try:
        with open(key, 'rb') as f:
            raw = f.read()
    except OSError:
        raw = None
    w = {'ops': [_wit_op(o) for o in LOG], 'log_truncated': LOG_STATE['truncated'], 'pid': PIDS.get(key),
         'prelude_ops': [_wit_op(o) for o in PRELUDE] if LOG_STATE['cases_done'] else [],
         'file_text_head': (raw or b'')[:400].decode('utf-8', 'replace')}
    if raw is not None and len(raw) > 8 * BIG:     # long file: size, line count and hash instead of the bytes
        import hashlib
        w.update(file_bytes=None, file_size=len(raw), file_lines=raw.count(b'\n') + 1,
                 file_sha1=hashlib.sha1(raw).hexdigest(), file_text_tail=raw[-200:].decode('utf-8', 'replace'))
    else:
        w['file_bytes'] = raw
    if RECIPE:
        w['recipe'] = dict(RECIPE)     # the driver's deterministic generator of this block: replay regenerates the ops
    w.update(extra)
    return w


RECIPE = {}


def _wit_op(o):
    d = dict(o)
    v = d.get('values')
    if isinstance(v, np.ndarray) and v.size > BIG:
        if RECIPE:
            d['values'] = {'omitted_long_values': int(v.size), 'head': v[:5], 'tail': v[-5:], 'see': 'recipe'}
        else:
            d['values'] = _pack(v)
    return d


def end_case(remove=True):
    """Driver hook: the block of calls is over; forget its paths (and delete the files)."""
    if remove:
        for key in list(REG):
            try:
                os.remove(key)
            except OSError:
                pass
    if LOG and not LOG_STATE['cases_done']:
        PRELUDE[:] = [dict(o) for o in LOG]
    if LOG:
        LOG_STATE['cases_done'] += 1
    REG.clear()
    PIDS.clear()
    _KEYS.clear()
    del LOG[:]
    LOG_STATE['truncated'] = False
    _LAST.clear()


# ------------------------------------------------------------------------------------------- save monitors
def _pre_save_values(args, kwargs):
    ffp = args[0] if args else kwargs['ffp']
    values = args[1] if len(args) > 1 else kwargs['values']
    dt = args[2] if len(args) > 2 else kwargs['dt']
    label = args[3] if len(args) > 3 else kwargs['label']
    try:
        arr, cont = _describe_values(values)
    except Exception:
        arr, cont = None, type(values).__name__
    dtv, dtt = _describe_dt(dt)
    return _begin(ffp, {'op': 'save_values_and_dt', 'values': arr, 'container': cont, 'dt': dtv, 'dt_type': dtt,
                        'label': label})


def _pre_save_signal(args, kwargs):
    ffp = args[0] if args else kwargs['ffp']
    sig = args[1] if len(args) > 1 else kwargs['signal']
    dtv, dtt = _describe_dt(sig.dt)
    return _begin(ffp, {'op': 'save_signal', 'sigtype': type(sig).__name__, 'values': np.array(sig.values),
                        'container': 'ndarray', 'dt': dtv, 'dt_type': dtt, 'label': sig.label})


def _post_save(args, kwargs, result, pre):
    key, op, outer = pre
    prev = REG.get(key)
    n_saves = (prev['n_saves'] if prev else 0) + (1 if outer else 0)
    REG[key] = {'saved': dict(op), 'pid': op['pid'], 'n_saves': n_saves}
    CTX.observe('monitored-' + op['op'])


def _save_failed(args, kwargs, exc, pre):
    key, op, outer = pre
    prev = REG.get(key)
    REG[key] = {'saved': None, 'pid': op['pid'], 'n_saves': (prev['n_saves'] if prev else 0) + 1}


# ------------------------------------------------------------------------------------------- the model
def _expected(saved):
    """What the format can hold of the saved record (cached on the model entry). None = outside the quantifier."""
    if '_exp' in saved:
        return saved['_exp']
    exp = None
    arr = saved.get('values')
    dt = saved.get('dt')
    label = saved.get('label')
    okk = (isinstance(arr, np.ndarray) and arr.ndim == 1 and arr.size >= 1 and arr.dtype.kind in 'fiu'
           and saved.get('dt_type') in ('float', 'int', 'float32', 'float64'))
    if okk and arr.dtype.kind == 'f':
        okk = bool(np.all(np.isfinite(arr)))
    if okk and arr.dtype.kind in 'iu':
        okk = bool(np.all(np.abs(arr.astype(float)) < 2.0 ** 53))
    if okk:
        okk = O.dt_in_domain(dt) and O.label_in_domain(label)
    if okk:
        fl = [float(v) for v in arr.tolist()]
        if len(fl) >= 4096:      # long records: same reference, per-value work vectorised (cross-checked in the oracle)
            prim, alts = O.round_series_fast(np.array(fl, dtype=float), 6)
        else:
            prim, alts = O.round_series(fl, 6)
        dprim, dalt = O.round_decimals(float(dt), 4)
        exp = {'n': len(fl), 'v': np.array(fl, dtype=float), 'prim': np.array(prim, dtype=float), 'alts': alts,
               'dt': float(dt), 'dt_prim': dprim, 'dt_alt': dalt, 'label': label}
    saved['_exp'] = exp
    return exp


def _judge_numbers(ctx, key, loader, exp, n_got, dt_got, vals_got, m):
    """Clauses npts / dt / values for one loader result."""
    n_ok = ctx.check(n_got == exp['n'], 'npts',
                     lambda: _witness(key, loader=loader, got_npts=n_got, expected_npts=exp['n']),
                     '%s: %r points loaded, %d saved' % (loader, n_got, exp['n']))
    # -- dt
    try:
        d = float(dt_got)
    except Exception:
        d = float('nan')
    okk = abs(d - exp['dt_prim']) <= O.DT_ATOL
    if not okk and exp['dt_alt'] is not None and abs(d - exp['dt_alt']) <= O.DT_ATOL:
        okk = True
        ctx.observe('dt-tie-resolved-to-other-neighbour')
    ctx.check(okk, 'dt==round4(saved)',
              lambda: _witness(key, loader=loader, got_dt=dt_got, saved_dt=exp['dt'], expected_dt=exp['dt_prim']),
              '%s: saved dt=%r loaded dt=%r expected %r' % (loader, exp['dt'], dt_got, exp['dt_prim']))
    lit = abs(d - exp['dt']) <= 0.5e-4 * (1 + 1e-9) + O.DT_ATOL
    ctx.check(lit, 'dt.within-half-4th-decimal',
              lambda: _witness(key, loader=loader, got_dt=dt_got, saved_dt=exp['dt']),
              '%s: saved dt=%r loaded dt=%r differ by more than half a unit of the 4th decimal' % (loader, exp['dt'], dt_got))
    # -- values
    if not n_ok:
        ctx.observe('values-not-compared(length-differs)')
        return
    try:
        got = np.asarray(vals_got, dtype=float)
        mf = float(m)
    except Exception:
        got = None
    if got is None or got.shape != exp['prim'].shape:
        ctx.violation('values==m*round6(saved)', _witness(key, loader=loader, m=m, got=repr(vals_got)[:300]),
                      '%s: loaded values are not a real 1-d series of the saved length' % loader)
        return
    ref = exp['prim'] * mf
    allow = 1e-12 * np.maximum(1.0, np.abs(ref))
    with np.errstate(invalid='ignore'):
        bad = np.flatnonzero(~(np.abs(got - ref) <= allow))
    worst = None
    for i in bad.tolist():
        a = exp['alts'].get(i)
        if a is not None and abs(got[i] - a * mf) <= O.value_allowance(a * mf):
            ctx.observe('value-tie-resolved-to-other-neighbour')
            continue
        worst = i
        break
    ctx.check(worst is None, 'values==m*round6(saved)',
              lambda: _witness(key, loader=loader, m=m, index=worst, got_value=float(got[worst]),
                               saved_value=float(exp['v'][worst]), expected_value=float(ref[worst])),
              '%s(m=%r): value %s: saved %r -> loaded %r, expected %r'
              % (loader, m, worst, None if worst is None else float(exp['v'][worst]),
                 None if worst is None else float(got[worst]), None if worst is None else float(ref[worst])))
    # literal reading of the statement, independent of the rounding oracle
    mv = exp['v'] * mf
    lim = abs(mf) * (0.5e-6 * (1 + 1e-9) + O.TIE_ULPS * np.spacing(np.abs(exp['v']))) + 1e-12 * np.maximum(1.0, np.abs(mv))
    with np.errstate(invalid='ignore'):
        badl = np.flatnonzero(~(np.abs(got - mv) <= lim))
    j = int(badl[0]) if badl.size else None
    ctx.check(j is None, 'values.within-half-6th-decimal',
              lambda: _witness(key, loader=loader, m=m, index=j, got_value=float(got[j]), saved_value=float(exp['v'][j])),
              '%s(m=%r): value %s: saved %r loaded %r differ by more than half a unit of the 6th decimal (times |m|)'
              % (loader, m, j, None if j is None else float(exp['v'][j]), None if j is None else float(got[j])))


def _model(key):
    """Return (exp, entry) for a path, or (None, entry) when the load cannot be judged."""
    e = REG.get(key)
    if e is None:
        CTX.observe('load-of-a-file-not-saved-under-monitoring')
        return None, None
    if e['saved'] is None:
        CTX.observe('load-after-failed-save')
        return None, e
    exp = _expected(e['saved'])
    if exp is None:
        CTX.observe('load-of-out-of-domain-record')
    return exp, e


LONG_N = 65536


def _history_tick(e):
    """Counts loads that read a path which has been overwritten at least once (the HISTORY regime), and loads of
    long records (more than 2**16 points)."""
    if e is not None and attach.STATE['depth'] == 0:
        if e.get('n_saves', 0) >= 2:
            CTX.ok('history.same-path-reload')
        sv = e.get('saved')
        if sv and isinstance(sv.get('values'), np.ndarray) and sv['values'].size > LONG_N:
            CTX.ok('long-record(>65536).reload')


# ------------------------------------------------------------------------------------------- load monitors
def _pre_load(name):
    def pre(args, kwargs):
        ffp = args[0] if args else kwargs['ffp']
        kw = {k: v for k, v in kwargs.items() if k != 'ffp'}
        return _begin(ffp, {'op': name, 'args': list(args[1:]), 'kwargs': kw})
    return pre


def _post_load_values_and_dt(args, kwargs, result, pre):
    key, op, outer = pre
    exp, e = _model(key)
    if exp is None:
        return
    ctx = CTX
    loader = 'load_values_and_dt'
    t_ok = (isinstance(result, tuple) and len(result) == 2 and isinstance(result[0], np.ndarray)
            and result[0].ndim == 1 and result[0].dtype.kind == 'f' and isinstance(result[1], float))
    ctx.check(t_ok, 'type.load_values_and_dt->(ndarray,float)',
              lambda: _witness(key, loader=loader, got=repr(result)[:300]),
              'load_values_and_dt returned %s, expected (1-d float ndarray, float)' % _tdesc(result))
    if not t_ok:
        ctx.observe('numbers-not-compared(wrong-type)')
        return
    _judge_numbers(ctx, key, loader, exp, len(result[0]), result[1], result[0], 1.0)
    if outer:
        _history_tick(e)


def _tdesc(r):
    if isinstance(r, tuple):
        return '(' + ', '.join(_tdesc(x) for x in r) + ')'
    if isinstance(r, np.ndarray):
        return 'ndarray(shape=%s, dtype=%s)' % (r.shape, r.dtype)
    return type(r).__name__


def _judge_object(loader, clause, want_name, key, exp, e, result, m, label_requested, outer):
    import eqsig
    ctx = CTX
    want = getattr(eqsig, want_name)
    t_ok = type(result) is want
    ctx.check(t_ok, clause, lambda: _witness(key, loader=loader, got_type=type(result).__name__, expected_type=want_name),
              '%s returned %s, expected %s' % (loader, type(result).__name__, want_name))
    if not isinstance(result, eqsig.Signal):
        ctx.observe('numbers-not-compared(wrong-type)')
        return
    try:
        n_got = result.npts
        vals = result.values
        if n_got != len(vals):
            n_got = ('npts=%r' % n_got, 'len(values)=%d' % len(vals))
        dt_got = result.dt
    except Exception as ex:
        ctx.exception('npts', _witness(key, loader=loader), ex)
        return
    _judge_numbers(ctx, key, loader, exp, n_got, dt_got, vals, m)
    if label_requested:
        got_label = getattr(result, 'label', None)
        ctx.check(got_label == exp['label'], 'label==saved(load_label=True)',
                  lambda: _witness(key, loader=loader, got_label=got_label, saved_label=exp['label']),
                  '%s: saved label %r, loaded label %r' % (loader, exp['label'], got_label))
    if outer:
        _history_tick(e)


def _post_load_signal(args, kwargs, result, pre):
    key, op, outer = pre
    exp, e = _model(key)
    if exp is None:
        return
    if len(args) > 1:
        astype, given = args[1], True
    elif 'astype' in kwargs:
        astype, given = kwargs['astype'], True
    else:
        astype, given = 'sig', False
    if astype in ('sig',) or not given:
        clause, want = 'type.load_signal(default|sig)->Signal', 'Signal'
    elif astype == 'signal':
        clause, want = 'type.load_signal(signal)->Signal', 'Signal'
    elif astype == 'acc_sig':
        clause, want = 'type.load_signal(acc_sig)->AccSignal', 'AccSignal'
    else:
        CTX.observe('load_signal-with-undocumented-astype')
        return
    name = 'load_signal(%s)' % (('astype=%r' % astype) if given else '')
    _judge_object(name, clause, want, key, exp, e, result, 1.0, False, outer)


def _post_load_sig(args, kwargs, result, pre):
    key, op, outer = pre
    exp, e = _model(key)
    if exp is None:
        return
    m = args[1] if len(args) > 1 else kwargs.get('m', 1.0)
    _judge_object('load_sig', 'type.load_sig->Signal', 'Signal', key, exp, e, result, m, False, outer)


def _post_load_asig(args, kwargs, result, pre):
    key, op, outer = pre
    exp, e = _model(key)
    if exp is None:
        return
    load_label = args[1] if len(args) > 1 else kwargs.get('load_label', False)
    m = args[2] if len(args) > 2 else kwargs.get('m', 1.0)
    if not load_label:
        CTX.observe('label-not-requested(not-judged)')
    _judge_object('load_asig(load_label=%r)' % (load_label,), 'type.load_asig->AccSignal', 'AccSignal', key, exp, e, result, m,
                  bool(load_label), outer)


def install(ctx):
    """Attach the C16 monitors to the imported eqsig (idempotent per process)."""
    global CTX
    first = CTX is None
    CTX = ctx
    import eqsig
    if not first:
        return
    ld = eqsig.loader
    attach.wrap(ld, 'save_values_and_dt', _post_save, pre=_pre_save_values, on_exception=_save_failed)
    attach.wrap(ld, 'save_signal', _post_save, pre=_pre_save_signal, on_exception=_save_failed)
    attach.wrap(ld, 'load_values_and_dt', _post_load_values_and_dt, pre=_pre_load('load_values_and_dt'))
    attach.wrap(ld, 'load_signal', _post_load_signal, pre=_pre_load('load_signal'))
    attach.wrap(ld, 'load_sig', _post_load_sig, pre=_pre_load('load_sig'))
    attach.wrap(ld, 'load_asig', _post_load_asig, pre=_pre_load('load_asig'))


# ------------------------------------------------------------------------------------------- executing one call
_LAST = {}      # driver side: the last Signal object a loader returned in the current block


def execute(eqsig, ctx, op, path):
    """Run one op (driver- or witness-format) through the PUBLIC eqsig names. Exceptions on these in-domain calls are
    violations of the statement (a saved signal must load)."""
    k = op['op']
    try:
        if k == 'save_values_and_dt':
            vals, dt = _rebuild_values(op), _rebuild_dt(op)
            if op.get('kw'):
                eqsig.save_values_and_dt(ffp=path, values=vals, dt=dt, label=op['label'])
            else:
                eqsig.save_values_and_dt(path, vals, dt, op['label'])
            r = None
        elif k == 'save_signal' and op.get('from_last_load'):
            sig = _LAST.get('sig')         # the object a loader returned earlier in this block is saved again
            if sig is None:
                ctx.observe('resave-skipped(no-loaded-signal)')
                return None
            eqsig.save_signal(path, sig)
            r = None
        elif k == 'save_signal':
            cls = getattr(eqsig, op['sigtype'])
            vals, dt = _rebuild_values(op), _rebuild_dt(op)
            if op.get('default_label'):
                sig = cls(vals, dt)
            else:
                sig = cls(vals, dt, label=op['label'])
            eqsig.save_signal(path, sig)
            r = None
        elif k in ('load_values_and_dt', 'load_signal', 'load_sig', 'load_asig'):
            r = getattr(eqsig, k)(path, *op.get('args', []), **op.get('kwargs', {}))
            if isinstance(r, eqsig.Signal):
                _LAST['sig'] = r
        else:
            raise ValueError('unknown op %r' % (k,))
    except O.OracleError:     # the reference disagrees with itself: crash the shard (inconclusive), never a verdict
        raise
    except Exception as e:   # noqa
        ctx.exception('call-returns', _witness(_key(path), failed_op=k), e)
        return None
    ctx.ok('call-returns')
    return r


# ------------------------------------------------------------------------------------------- generators
DT_LIST = [0.0001, 0.005, 0.01, 0.02, 0.5, 0.9999, 1, 1.0, 1.5, 2.5, 10, 10.0, 12, 12.0, 99.9999, 100, 100.0,
           1.0005, 12.3456, 1.0001, 9.9999, 10.0001, 50.505, 7.0707, 3.1416, 0.1, 0.2, 0.025, 0.0025, 2, 20, 60]
VALUE_CLASSES = ['record', 'record', 'record', 'tiny', 'halfway6', 'tie6', 'huge', 'manydigit', 'mixed', 'int', 'f32',
                 'zeros']
LABELS = ['a label with spaces', '123', '123 4', '12 0.5000', '3 0.0100', '', 'a,b', '1.5,2.5', '# hash', 'x#y',
          ' lead', 'trail ', 'two  spaces', '-1.5', '0.01', 'nan', 'm1', 'M1', 'label', 'dt=0.01 npts=100',
          'ChiChi_EW (scaled, 0.5g) #3']
_LABEL_CHARS = ''.join(c for c in string.printable if c not in '\t\n\r\x0b\x0c')
M_LIST = [1, 1.0, 2, 2.0, 0.5, -1, -1.0, 9.81]


def gen_dt(rng):
    """Returns (dt, class). Every dt is inside [1e-4, 100]."""
    k = int(rng.choice(8, p=[.14, .16, .22, .16, .12, .08, .06, .06]))
    if k == 0:
        return DT_LIST[int(rng.integers(len(DT_LIST)))], 'list'
    if k == 1:   # 4-decimal steps over six decades
        kk = max(1, min(1000000, int(round(10.0 ** rng.uniform(0, 6)))))
        return kk / 10000.0, 'dec4'
    if k == 2:   # >= 1 s with 5-6 significant digits
        kk = int(rng.integers(10001, 1000000))
        if kk % 10 == 0:
            kk += int(rng.integers(1, 10))
        return kk / 10000.0, 'dec4>=1,5+digits'
    if k == 3:   # raw log-uniform (more than 4 decimals -> rounding)
        return float(min(100.0, max(1e-4, 10.0 ** rng.uniform(-4, 2)))), 'log'
    if k == 4:   # half-way points of the 4th decimal (inexact in binary) and their neighbours
        kk = int(round(10.0 ** rng.uniform(0.4, 6)))
        d = (kk + 0.5) / 10000.0 + float(rng.choice([0.0, 0.0, 1e-9, -1e-9]))
        return float(min(100.0, max(1e-4, d))), 'halfway4'
    if k == 5:
        kk = int(rng.integers(1, 1000000))
        return np.float64(kk / 10000.0), 'np.float64'
    if k == 6:
        d = np.float32(10.0 ** rng.uniform(-3.9, 1.99))
        return d, 'np.float32'
    return int(rng.integers(1, 101)), 'int'


def gen_values(rng, n, cls=None):
    """Returns (array, class): finite reals; int64 for 'int', float32 for 'f32'."""
    if cls is None:
        cls = VALUE_CLASSES[int(rng.integers(len(VALUE_CLASSES)))]
    sign = rng.choice([-1.0, 1.0], size=n)
    if cls == 'record':
        x, sub = gen.record(rng, n)
        return x, 'record-' + sub
    if cls == 'tiny':        # around the smallest magnitudes the format can hold: rounds to 0 or +-0.000001 ...
        return sign * 10.0 ** rng.uniform(-6.6, -5.0, size=n), cls
    if cls == 'halfway6':    # (k+0.5)e-6: inexact half-way points, written three ways, and their neighbours
        k = np.floor(10.0 ** rng.uniform(0, 9, size=n))
        how = rng.integers(0, 3, size=n)
        x = np.where(how == 0, (k + 0.5) / 1e6, np.where(how == 1, k * 1e-6 + 5e-7, (2 * k + 1) * 5e-7))
        x = x + rng.choice([0.0, 0.0, 1e-12, -1e-12], size=n)
        return sign * x, cls
    if cls == 'tie6':        # exact dyadic ties i/128 (7 decimals, last one 5), optionally plus an integer
        i = 2 * rng.integers(0, 64, size=n) + 1
        x = i / 128.0 + rng.integers(0, 1000, size=n) * (rng.random(size=n) < 0.5)
        return sign * x, cls
    if cls == 'huge':
        e = rng.uniform(6, 20, size=n)
        if rng.random() < 0.15:      # far beyond the design range: "every magnitude"
            e = rng.uniform(20, 300, size=n)
        return sign * 10.0 ** e, cls
    if cls == 'manydigit':
        return rng.uniform(-1, 1, size=n) * 10.0 ** rng.uniform(0, 10, size=n), cls
    if cls == 'mixed':
        parts = [gen_values(rng, n, c)[0].astype(float) for c in ('tiny', 'halfway6', 'tie6', 'huge', 'manydigit', 'zeros')]
        parts.append(rng.normal(size=n))
        pick = rng.integers(0, len(parts), size=n)
        return np.choose(pick, parts), cls
    if cls == 'int':
        hi = int(rng.choice([3, 100, 10 ** 6, 10 ** 12]))
        return rng.integers(-hi, hi + 1, size=n).astype(np.int64), cls
    if cls == 'f32':
        return (rng.normal(size=n) * 10.0 ** rng.uniform(-3, 6)).astype(np.float32), cls
    if cls == 'zeros':
        x = np.zeros(n)
        if rng.random() < 0.5:
            x[rng.random(size=n) < 0.5] = -0.0
        return x, cls
    raise ValueError(cls)


def gen_label(rng):
    """Returns (label, default_label flag, class)."""
    r = rng.random()
    if r < 0.2:
        return 'm1', True, 'default'
    if r < 0.75:
        return LABELS[int(rng.integers(len(LABELS)))], False, 'listed'
    L = int(rng.integers(1, 41))
    idx = rng.integers(0, len(_LABEL_CHARS), size=L)
    s = ''.join(_LABEL_CHARS[i] for i in idx)
    if rng.random() < 0.5:   # make sure blanks occur
        j = int(rng.integers(0, L))
        s = s[:j] + ' ' + s[j + 1:]
    return s, False, 'random-ascii'


def gen_m(rng):
    if rng.random() < 0.75:
        return M_LIST[int(rng.integers(len(M_LIST)))]
    return float(rng.choice([-1.0, 1.0]) * 10.0 ** rng.uniform(-3, 3))


LEN_CHOICES = [1, 2, 3, 5, 10, 30, 100, 300, 1000, 2000]
LEN_P = [.09, .06, .05, .10, .15, .15, .16, .10, .09, .05]


def gen_save(rng, n=None, maxlen=2000):
    """One save op (driver format) with its classes."""
    if n is None:
        n = int(rng.choice(LEN_CHOICES, p=LEN_P))
        while n > maxlen:
            n = int(rng.choice(LEN_CHOICES, p=LEN_P))
        if n >= 10 and rng.random() < 0.5:     # spread lengths between the anchors
            n = int(rng.integers(n // 2 + 1, n + 1))
    vals, vcls = gen_values(rng, n)
    dt, dcls = gen_dt(rng)
    dtv, dtt = _describe_dt(dt)
    label, deflabel, lcls = gen_label(rng)
    if rng.random() < 0.5:
        op = {'op': 'save_signal', 'sigtype': 'AccSignal' if rng.random() < 0.6 else 'Signal', 'values': vals,
              'container': 'ndarray', 'dt': dtv, 'dt_type': dtt, 'label': label, 'default_label': deflabel}
    else:
        cont = 'ndarray'
        r = rng.random()
        if r < 0.15:
            cont = 'list'
        elif r < 0.25:
            cont = 'tuple'
        if cont != 'ndarray' and vals.dtype == np.float32:
            vals = vals.astype(float)
        op = {'op': 'save_values_and_dt', 'values': vals, 'container': cont, 'dt': dtv, 'dt_type': dtt, 'label': label,
              'kw': bool(rng.random() < 0.2)}
    info = {'values': vcls, 'dt': dcls, 'label': lcls, 'n': n}
    op['_info'] = info
    return op, info


def gen_twin(rng, a):
    """A second save op that produces a file of exactly the same size as that of `a` (same length, label, printed widths)
    with different numbers - what a cache keyed on path+size/length, or a partial overwrite, would not notice."""
    n = len(a['values'])
    a['values'] = rng.uniform(1.0, 9.999, size=n)
    a['_info'] = dict(a['_info'], values='fixedwidth')
    b = dict(a)
    b['values'] = rng.uniform(1.0, 9.999, size=n)
    d = float(a['dt'])
    if d < 9.9999:
        kk = int(rng.integers(1, 99999))
    elif d < 99.9999:
        kk = int(rng.integers(100000, 999999))
    else:
        kk = 1000000
    b['dt'], b['dt_type'] = kk / 10000.0, 'float'
    b['_info'] = dict(a['_info'], dt='twin-same-width')
    return b


def all_loads(rng):
    """The loader calls of a one-shot round trip: every entry point, every astype, label both ways, m."""
    m1, m2 = gen_m(rng), gen_m(rng)
    ops = [{'op': 'load_values_and_dt'},
           {'op': 'load_signal'},
           {'op': 'load_signal', 'kwargs': {'astype': 'signal'}},
           {'op': 'load_signal', 'args': ['acc_sig']} if rng.random() < 0.5 else {'op': 'load_signal', 'kwargs': {'astype': 'acc_sig'}},
           {'op': 'load_sig', 'kwargs': {'m': m1}} if rng.random() < 0.6 else {'op': 'load_sig', 'args': [m1]},
           {'op': 'load_asig', 'kwargs': {'load_label': True, 'm': m2}} if rng.random() < 0.7 else {'op': 'load_asig', 'args': [True, m2]}]
    r = rng.random()
    if r < 0.3:
        ops.append({'op': 'load_asig'})
    elif r < 0.5:
        ops.append({'op': 'load_asig', 'kwargs': {'load_label': False, 'm': gen_m(rng)}})
    elif r < 0.65:
        ops.append({'op': 'load_asig', 'kwargs': {'load_label': True}})
    elif r < 0.8:
        ops.append({'op': 'load_sig'})
    else:
        ops.append({'op': 'load_signal', 'kwargs': {'astype': 'sig'}})
    order = rng.permutation(len(ops))
    return [ops[i] for i in order]


def some_loads(rng, k):
    pool = all_loads(rng)
    out = pool[:k]
    if k >= 2 and rng.random() < 0.25:      # the same loader twice in a row
        out.append(dict(out[-1]))
    return out


def _nontrivial(save_ops):
    for op in save_ops:
        v = np.asarray(op['values'], dtype=float)
        if v.size and np.any(np.abs(v) >= 5e-7):
            return True
    return False


def _digest(ops):
    parts = []
    for op in ops:
        parts.append(op['op'])
        parts.append(op.get('pid_local', 0))
        if op.get('from_last_load'):
            parts.append('resave-loaded')
        elif 'values' in op:
            parts += [op['values'], repr(op['dt']), op['dt_type'], op['label'], op.get('sigtype'), op.get('container')]
        else:
            parts += [repr(op.get('args')), repr(sorted((op.get('kwargs') or {}).items()))]
    return core.digest(*parts)


# ------------------------------------------------------------------------------------------- workload
def _run_case(eqsig, ctx, tmpd, ops, cls, info, counter):
    """Execute one block of ops on fresh paths, register it, clean up."""
    paths = {}
    for op in ops:
        pl = op.get('pid_local', 0)
        if pl not in paths:
            counter[0] += 1
            paths[pl] = os.path.join(tmpd, 'c%d_%d.txt' % (counter[0], pl))
        execute(eqsig, ctx, op, paths[pl])
    saves = [o for o in ops if 'values' in o]
    ctx.case(_digest(ops), nontrivial=_nontrivial(saves), cls=cls,
             sample={'class': cls, 'calls': [o['op'] for o in ops][:12], 'first_save_classes': info,
                     'label': saves[0]['label'], 'dt': saves[0]['dt'], 'head': np.asarray(saves[0]['values'])[:5]})
    for sv in saves:
        inf = sv.get('_info') or {}
        for sub in ('values:' + str(inf.get('values')), 'dt:' + str(inf.get('dt')), 'label:' + str(inf.get('label')),
                    'saver:' + sv['op'] + ('(%s)' % sv['sigtype'] if 'sigtype' in sv else '(%s)' % sv.get('container'))):
            ctx.classes[sub] = ctx.classes.get(sub, 0) + 1
    end_case()
    for p in paths.values():     # files of failed saves are not in the model
        if os.path.exists(p):
            os.remove(p)


def case_oneshot(rng):
    sv, info = gen_save(rng)
    return [sv] + all_loads(rng), info


def case_history(rng, npaths=1):
    """save -> load(s) -> save(another record) -> load(s) ... on the same path(s)."""
    rounds = int(rng.integers(3, 7))
    ops = []
    info0 = None
    last_n = {}
    for r in range(rounds * npaths):
        pl = int(rng.integers(npaths)) if npaths > 1 else 0
        # a different length every time: shorter and longer than what the path held before
        prev = last_n.get(pl)
        n = None
        if prev is not None:
            if rng.random() < 0.5 and prev > 1:
                n = int(rng.integers(1, prev))
            else:
                n = int(prev + rng.integers(1, 60))
        sv, info = gen_save(rng, n=n, maxlen=300)
        last_n[pl] = len(sv['values'])
        sv['pid_local'] = pl
        if info0 is None:
            info0 = info
        ops.append(sv)
        if rng.random() < 0.25:       # same-size overwrite: save A, read, save twin B, (read below)
            tw = gen_twin(rng, sv)
            for ld in some_loads(rng, int(rng.integers(1, 3))):
                ld['pid_local'] = pl
                ops.append(ld)
            ops.append(tw)
        if rng.random() < 0.12:       # overwritten again before anything is read
            sv2, _ = gen_save(rng, maxlen=300)
            sv2['pid_local'] = pl
            last_n[pl] = len(sv2['values'])
            ops.append(sv2)
        if npaths > 1 and rng.random() < 0.5:
            # read ANOTHER live path first (stale/global state would show)
            others = [p for p in last_n if p != pl]
            if others:
                po = others[int(rng.integers(len(others)))]
                for ld in some_loads(rng, 1):
                    ld['pid_local'] = po
                    ops.append(ld)
        for ld in some_loads(rng, int(rng.integers(1, 5))):
            ld['pid_local'] = pl
            ops.append(ld)
        if rng.random() < 0.15:       # the loaded object itself is saved again (same path) and read back
            ops.append({'op': 'save_signal', 'from_last_load': True, 'pid_local': pl})
            for ld in some_loads(rng, int(rng.integers(1, 4))):
                ld['pid_local'] = pl
                ops.append(ld)
    return ops, info0


SWEEP_LOADS = [{'op': 'load_values_and_dt'}, {'op': 'load_signal'}, {'op': 'load_sig', 'kwargs': {'m': 2.0}},
               {'op': 'load_asig', 'kwargs': {'load_label': True}}, {'op': 'load_signal', 'kwargs': {'astype': 'acc_sig'}},
               {'op': 'load_signal', 'kwargs': {'astype': 'signal'}}]


def sweep_ks(tier, seed):
    if tier == 'quick':
        return list(range(1, 20001)) + list(range(20001 + seed % 61, 1000001, 61)), 20000
    return list(range(1, 1000001)), 1000000


def run_sweep(eqsig, ctx, tmpd):
    ks, n_exh = sweep_ks(ctx.tier, ctx.seed)
    vals = [np.array([0.25, -1.5]), np.array([3.0]), np.array([1e-6, 2.0, -0.5])]
    n_done = 0
    for j in core.split_range(len(ks), ctx.shard, ctx.nshards):
        k = ks[j]
        dt = k / 10000.0
        v = vals[k % 3]
        path = os.path.join(tmpd, 'sweep_%d.txt' % k)
        if k % 2:
            sv = {'op': 'save_values_and_dt', 'values': v, 'container': 'ndarray', 'dt': dt, 'dt_type': 'float', 'label': 'k%d' % k}
        else:
            sv = {'op': 'save_signal', 'sigtype': 'AccSignal' if k % 4 else 'Signal', 'values': v, 'container': 'ndarray',
                  'dt': dt, 'dt_type': 'float', 'label': 'k%d' % k}
        execute(eqsig, ctx, sv, path)
        execute(eqsig, ctx, SWEEP_LOADS[(k // 2) % len(SWEEP_LOADS)], path)
        end_case()
        if os.path.exists(path):
            os.remove(path)
        n_done += 1
        if n_done % 4096 == 0 and ctx.out_of_time():
            ctx.observe('sweep-cut-by-budget')
            break
    ctx.cases_enumerated(n_done, n_done, cls='sweep-dt=k/10000')
    ctx.exhaustive['dt_sweep_cases'] = n_done


# ------------------------------------------------------------------------------------------- long records
LONG_QUICK = [65535, 65536, 65537, 70001, 131072, 131073, 200003]
LONG_VALUE_CLASSES = ['record', 'record', 'record', 'manydigit', 'f32', 'int', 'mixed']


def long_plan(tier, seed):
    """Deterministic list of (npts, saver) of the long round trips of a run: both savers for every length."""
    lens = list(LONG_QUICK)
    if tier != 'quick':
        r = np.random.default_rng([int(seed), 16, 778])
        for p in range(10, 19):
            lens += [2 ** p - 1, 2 ** p, 2 ** p + 1, 2 ** p + int(r.integers(2, 2 ** (p - 1))),
                     2 ** p - int(r.integers(2, 2 ** (p - 2)))]
        lens += [196608, 196609, 300007, 393217, 500000, 524287, 524288, 524289]
    plan = []
    for n in lens:
        plan.append((n, 'save_signal'))
        plan.append((n, 'save_values_and_dt'))
    plan.sort(key=lambda t: -t[0])      # round robin over the shards in order of cost
    return plan


def case_long(tier, seed, idx):
    """Ops of long round trip number idx of the plan: one save, then every loader entry point. Deterministic."""
    n, saver = long_plan(tier, seed)[idx]
    rng = np.random.default_rng([int(seed), 16, 777, int(idx)])
    vals, vcls = gen_values(rng, n, LONG_VALUE_CLASSES[int(rng.integers(len(LONG_VALUE_CLASSES)))])
    dt, dcls = gen_dt(rng)
    dtv, dtt = _describe_dt(dt)
    label, deflabel, lcls = gen_label(rng)
    if saver == 'save_signal':
        sv = {'op': 'save_signal', 'sigtype': 'AccSignal' if idx % 4 < 2 else 'Signal', 'values': vals,
              'container': 'ndarray', 'dt': dtv, 'dt_type': dtt, 'label': label, 'default_label': deflabel}
    else:
        cont = 'list' if (idx % 8 == 5 and vals.dtype != np.float32) else 'ndarray'
        sv = {'op': 'save_values_and_dt', 'values': vals, 'container': cont, 'dt': dtv, 'dt_type': dtt, 'label': label,
              'kw': False}
    info = {'values': vcls, 'dt': dcls, 'label': lcls, 'n': n}
    sv['_info'] = info
    return [sv] + all_loads(rng), info


def run_long(eqsig, ctx, tmpd, counter):
    plan = long_plan(ctx.tier, ctx.seed)
    off = ctx.seed % ctx.nshards          # which shards get the long records moves with the seed
    for idx in range(len(plan)):
        if (idx + off) % ctx.nshards != ctx.shard:
            continue
        RECIPE.update(tier=ctx.tier, seed=int(ctx.seed), idx=idx)
        try:
            ops, info = case_long(ctx.tier, ctx.seed, idx)
            _run_case(eqsig, ctx, tmpd, ops, 'long(npts=%s)' % ('2^16+-1' if abs(plan[idx][0] - 65536) <= 1 else
                                                               ('>2^16' if plan[idx][0] > 65536 else '<2^16')),
                      info, counter)
        finally:
            RECIPE.clear()


N_CASES = {'quick': {'oneshot': 6000, 'history': 2400, 'interleaved': 800},
           'thorough': {'oneshot': 90000, 'history': 36000, 'interleaved': 12000}}


def run_shard(ctx):
    eqsig = core.import_eqsig()
    install(ctx)
    rng = ctx.rng
    tmpd = tempfile.mkdtemp(prefix='vf_c16_')
    counter = [0]
    try:
        plan = N_CASES[ctx.tier]
        for kind in ('oneshot', 'history', 'interleaved'):
            n = plan[kind] // ctx.nshards + 1
            for c in range(n):
                if kind == 'oneshot':
                    ops, info = case_oneshot(rng)
                elif kind == 'history':
                    ops, info = case_history(rng, 1)
                else:
                    ops, info = case_history(rng, int(rng.integers(2, 4)))
                _run_case(eqsig, ctx, tmpd, ops, kind, info, counter)
                if c % 64 == 0 and ctx.out_of_time():
                    ctx.observe('random-part-cut-by-budget')
                    break
        run_sweep(eqsig, ctx, tmpd)
        run_long(eqsig, ctx, tmpd, counter)      # last, so that the prelude of a witness is never a long record
        ctx.note('monitored_calls', dict(attach.CALLS))
    finally:
        end_case()
        shutil.rmtree(tmpd, ignore_errors=True)


def replay(w):
    """Re-execute the recorded block of calls (complete inputs) on fresh temporary paths against the current tree."""
    eqsig = core.import_eqsig()
    ctx = core.Ctx(PROP_ID, 'quick', 0, 0, 1)
    install(ctx)
    end_case()
    tmpd = tempfile.mkdtemp(prefix='vf_c16_replay_')
    try:
        if w.get('prelude_ops'):
            for op in w['prelude_ops']:
                execute(eqsig, ctx, op, os.path.join(tmpd, 'pre%s.txt' % op.get('pid', 0)))
            end_case()
            ctx = core.Ctx(PROP_ID, 'quick', 0, 0, 1)      # only the witness block is judged by the replay
            install(ctx)
        ops = w['ops']
        if w.get('recipe'):          # long record: regenerate the block from the driver's deterministic recipe
            ops = case_long(w['recipe']['tier'], w['recipe']['seed'], w['recipe']['idx'])[0]
        for op in ops:
            path = os.path.join(tmpd, 'p%s.txt' % op.get('pid', op.get('pid_local', 0)))
            execute(eqsig, ctx, op, path)
    finally:
        end_case()
        shutil.rmtree(tmpd, ignore_errors=True)
    return ['%s: %s' % (v['clause'], v['msg'].splitlines()[0] if v['msg'] else '') for v in ctx.violations]
