"""C03 - response spectra are peak responses with consistent pseudo-spectral relations.

Monitors: post-conditions on pseudo_response_spectra, true_response_spectra, calc_resp_uke_spectrum,
calc_input_energy_spectrum and on AccSignal.gen_response_spectrum / the lazy s_a, s_v, s_d reads. Oracles: peaks recomputed
from the library's own response series on the same arguments (that series is what C01 monitors), w = 2*pi/T from the
statement, the 6*dt rule decided in exact rational arithmetic, and for the object API an own integer refinement of the
record searched over admissible factors.
"""
import weakref
from fractions import Fraction

import numpy as np

from vf import attach, core, gen

PROP_ID = 'C03'
TECHNIQUE = ('runtime post-condition monitors: peaks recomputed from the monitored response series, exact-rational 6*dt knife edge, '
             'refinement search for the object API, defining sums for the energy spectra')
RULE = ('cases = calls of pseudo_/true_response_spectra, the two energy spectra and AccSignal spectrum generation/reads on records '
        'of 2..400 samples (14 shape classes, float64/float32/int64/list containers; 4 % extreme scales 1e+-165..1e+-220, spectra only) x dt (nice, 1/k, log-uniform, dyadic) x period '
        'lists of 1..8 entries (5%: 31..256 entries at and around powers of two) with/without a leading 0, T/dt in [0.2,300] with a third in [4,8] and the exact values 6*dt, its '
        'float neighbours and dyadic pairs such as dt=0.25,T=1.5; integer-valued period containers; xi in {0,.05,.3,.9,U(0,1)}; '
        'min_dt_ratio in {1,2,4,8}; object histories (lazy read, explicit regeneration with other ratio/xi/periods, value changes); '
        'ratio sweeps (one object, min_dt_ratio 1..8 in random order, first period below 2.4*dt so that every factor is really used, half of the '
        'steps drawn where dt/(dt/k) != k in floating point). '
        'distinct = digest of all inputs; non-trivial = record not identically zero.')
ASSUMPTIONS = ['the response series used to recompute the peaks is the library\'s own (decided separately by C01)',
               'object API: period lists are ascending (T_min = first non-zero entry, as the code reads it)',
               '6*dt knife edge: either branch is accepted only when 6*dt is not exactly representable and T is within one ulp of it',
               'calc_asi / calc_vsi are exercised but carry no verdict (not in the statement)']
MIN_EVALS = {'quick': {'pseudo.sd==max|u|': 1200, 'pseudo.sv==w*sd': 1200, 'pseudo.sa==w^2*sd|PGA(T<6dt)': 1200,
                       'true.peaks==max|series|': 900, 'true.sa==pseudo.sa(xi=0)': 100, 'spectra.finite+nonneg+shape': 2400,
                       'object.spectra==functions(refined record)': 500, 'object.never-below-raw': 500, 'object.periods==periods given': 400,
                       'uke==sum|d(v^2/2)|': 150, 'input-energy==sum(a*v*dt)': 150, 'input-energy.final>=0': 600,
                       'knife-edge(exact 6*dt)': 150},
             'thorough': {'pseudo.sd==max|u|': 24000, 'pseudo.sv==w*sd': 24000, 'pseudo.sa==w^2*sd|PGA(T<6dt)': 24000,
                          'true.peaks==max|series|': 18000, 'true.sa==pseudo.sa(xi=0)': 2000,
                          'spectra.finite+nonneg+shape': 48000, 'object.spectra==functions(refined record)': 10000,
                          'object.never-below-raw': 10000, 'object.periods==periods given': 8000, 'uke==sum|d(v^2/2)|': 3000, 'input-energy==sum(a*v*dt)': 3000,
                          'input-energy.final>=0': 6000, 'knife-edge(exact 6*dt)': 3000}}
K2 = 'C03/input-energy-rectangle'
K3 = 'C03/sa-pga-substitution'
CTX = None
LAST_GEN = weakref.WeakKeyDictionary()     # AccSignal -> (xi, min_dt_ratio) of the last generation seen by the monitor


def n_shards(tier):
    return 16


# ------------------------------------------------------------------------------------------------------ helpers
def below_6dt(T, dt):
    """(definitely_below, ambiguous): exact comparison of T with 6*dt in rationals; ambiguous only within one ulp of an
    inexact product."""
    if T == 0:
        return True, False
    ft, fd = Fraction(float(T)), Fraction(float(dt))
    exact_prod = 6 * fd
    prod = float(dt) * 6
    below = ft < exact_prod
    amb = False
    if Fraction(prod) != exact_prod:
        ulp = Fraction(float(np.spacing(prod)))
        if abs(ft - exact_prod) <= ulp:
            amb = True
    return below, amb


def _series(motion, dt, periods, xi):
    import eqsig
    with attach.paused():
        return eqsig.sdof.nigam_and_jennings_response(motion, dt, periods, xi)


def _wit(**kw):
    return kw


def absmax_rows(x):
    return np.max(np.abs(x), axis=1)


def parse4(args, kwargs, names):
    a = list(args) + [None] * len(names)
    return [kwargs.get(nm, a[i]) for i, nm in enumerate(names)]


# ------------------------------------------------------------------------------------------------------ function monitors
def judge_spectra(ctx, fn, motion, dt, periods, xi, result):
    try:
        rec = np.array(motion, dtype=float)
        per = np.array(periods, dtype=float)
        dt = float(dt)
        xi = float(xi)
    except Exception:
        ctx.observe('unparseable-arguments')
        return
    if rec.ndim != 1 or len(rec) < 2 or per.ndim != 1 or len(per) < 1 or not (0 <= xi < 1) or np.any(per < 0) or np.any(per[1:] == 0):
        ctx.observe('out-of-domain-call')
        return
    wit = lambda: _wit(fn=fn, motion=np.asarray(motion), motion_container=type(motion).__name__, dt=dt,
                       periods=np.asarray(periods), periods_container=type(periods).__name__, xi=xi)
    try:
        sd, sv, sa = [np.asarray(r, dtype=float) for r in result]
    except Exception as e:
        ctx.violation('spectra.finite+nonneg+shape', wit(), 'result is not a triple of arrays: %r' % (e,))
        return
    P = len(per)
    okk = sd.shape == (P,) and sv.shape == (P,) and sa.shape == (P,) and bool(np.all(np.isfinite(sd)) and np.all(np.isfinite(sv))
                                                                                and np.all(np.isfinite(sa))) \
        and bool(np.all(sd >= 0) and np.all(sv >= 0) and np.all(sa >= 0))
    if not ctx.check(okk, 'spectra.finite+nonneg+shape', wit, '%s: shapes %s %s %s for %d periods, or non-finite/negative entries'
                     % (fn, sd.shape, sv.shape, sa.shape, P)):
        return
    u, v, a3 = _series(rec, dt, per, xi)
    pga = float(np.max(np.abs(rec)))
    pu, pv, pa = absmax_rows(u), absmax_rows(v), absmax_rows(a3)
    w = np.where(per > 0, 2 * np.pi / np.where(per > 0, per, 1.0), 0.0)
    for j in range(P):
        T = per[j]
        below, amb = below_6dt(T, dt)
        exp_sd = pu[j]
        if fn == 'pseudo':
            ctx.check(abs(sd[j] - exp_sd) <= 1e-12 * max(exp_sd, 1e-300), 'pseudo.sd==max|u|', wit,
                      'row %d T=%g: S_d=%r, max|u|=%r' % (j, T, sd[j], exp_sd))
            exp_sv = w[j] * exp_sd
            if T > 0:
                ctx.check(abs(sv[j] - exp_sv) <= 1e-12 * max(exp_sv, 1e-300), 'pseudo.sv==w*sd', wit,
                          'row %d T=%g: PSV=%r, w*S_d=%r' % (j, T, sv[j], exp_sv))
            else:
                ctx.check(sd[j] == 0, 'pseudo.sd==max|u|', wit, 'T=0: S_d=%r' % sd[j])
            full = w[j] ** 2 * exp_sd
        else:
            ok3 = abs(sd[j] - pu[j]) <= 1e-12 * max(pu[j], 1e-300) and abs(sv[j] - pv[j]) <= 1e-12 * max(pv[j], 1e-300)
            ctx.check(ok3, 'true.peaks==max|series|', wit, 'row %d T=%g: (S_d,S_v)=(%r,%r) vs (max|u|,max|v|)=(%r,%r)'
                      % (j, T, sd[j], sv[j], pu[j], pv[j]))
            full = pa[j]
            if xi == 0 and T > 0 and not below and not amb:
                ps = w[j] ** 2 * pu[j]
                ctx.check(abs(sa[j] - ps) <= 1e-7 * max(ps, 1e-300), 'true.sa==pseudo.sa(xi=0)', wit,
                          'row %d T=%g xi=0: true S_a=%r, w^2*S_d=%r' % (j, T, sa[j], ps))
        m_full = abs(sa[j] - full) <= 1e-12 * max(full, 1e-300)
        m_pga = abs(sa[j] - pga) <= 1e-12 * max(pga, 1e-300)
        if amb:
            okk = m_full or m_pga
            ctx.observe('6dt-rule: ambiguous (within one ulp of an inexact 6*dt)')
        else:
            okk = m_pga if below else m_full
            if T > 0 and Fraction(float(T)) == 6 * Fraction(float(dt)):
                ctx.check(okk, 'knife-edge(exact 6*dt)', wit, 'T == 6*dt exactly (dt=%r, T=%r): S_a=%r, expected w^2*S_d=%r (PGA=%r)'
                          % (dt, T, sa[j], full, pga))
        clause = 'pseudo.sa==w^2*sd|PGA(T<6dt)' if fn == 'pseudo' else 'true.peaks==max|series|'
        ctx.check(okk, clause, wit, '%s row %d T=%g (T/dt=%.17g): S_a=%r, expected %s (full=%r, PGA=%r)'
                  % (fn, j, T, T / dt if dt else 0, sa[j], 'PGA' if below else 'peak response', full, pga))


def _post_pseudo(args, kwargs, result, pre):
    m, dt, p, xi = parse4(args, kwargs, ('motion', 'dt', 'periods', 'xi'))
    judge_spectra(CTX, 'pseudo', m, dt, p, xi, result)


def _post_true(args, kwargs, result, pre):
    m, dt, p, xi = parse4(args, kwargs, ('motion', 'dt', 'periods', 'xi'))
    judge_spectra(CTX, 'true', m, dt, p, xi, result)


def _energy_args(args, kwargs):
    a = list(args) + [None] * 4
    sig = kwargs.get('acc_signal', a[0])
    periods = kwargs.get('periods', a[1])
    xi = kwargs.get('xi', a[2])
    if periods is None:
        periods = sig.response_times
    if xi is None:
        xi = 0.05
    return sig, periods, xi, kwargs.get('series', a[3] if a[3] is not None else False)


def _post_uke(args, kwargs, result, pre):
    ctx = CTX
    sig, periods, xi, _ = _energy_args(args, kwargs)
    per = np.array(periods, dtype=float)
    wit = lambda: _wit(fn='uke', motion=np.asarray(sig.values), dt=sig.dt, periods=per, xi=xi)
    u, v, a3 = _series(sig.values, sig.dt, per, xi)
    exp = np.zeros(len(per))
    for j in range(len(per)):
        ke = 0.5 * v[j] * v[j]
        s = 0.0
        for i in range(1, len(ke)):
            s += abs(ke[i] - ke[i - 1])
        exp[j] = s
    got = np.asarray(result, dtype=float)
    okk = got.shape == exp.shape and bool(np.all(np.abs(got - exp) <= 1e-10 * np.maximum(exp, 1e-300)))
    ctx.check(okk, 'uke==sum|d(v^2/2)|', wit, 'kinetic-energy spectrum %s vs defining sum %s' % (got[:4], exp[:4]))


def _post_input_energy(args, kwargs, result, pre):
    ctx = CTX
    sig, periods, xi, series = _energy_args(args, kwargs)
    per = np.array(periods, dtype=float)
    vals = np.asarray(sig.values, dtype=float)
    wit = lambda: _wit(fn='input_energy', motion=vals, dt=sig.dt, periods=per, xi=xi, series=bool(series))
    u, v, a3 = _series(vals, sig.dt, per, xi)
    got = np.asarray(result, dtype=float)
    P, n = len(per), len(vals)
    exp_series = np.zeros((P, n))
    absum = np.zeros(P)
    for j in range(P):
        s = 0.0
        t = 0.0
        for i in range(n):
            s += vals[i] * v[j][i] * sig.dt
            t += abs(vals[i] * v[j][i] * sig.dt)
            exp_series[j, i] = s
        absum[j] = t
    tol = 1e-10 * np.maximum(absum, 1e-300)
    if series:
        okk = got.shape == exp_series.shape and bool(np.all(np.abs(got - exp_series) <= tol[:, None]))
        final = got[:, -1] if got.ndim == 2 and got.shape[1] else np.array([])
    else:
        okk = got.shape == (P,) and bool(np.all(np.abs(got - exp_series[:, -1]) <= tol))
        final = got
    ctx.check(okk, 'input-energy==sum(a*v*dt)', wit, 'input energy differs from its defining rectangle sum')
    for j in range(len(final)):
        neg = final[j] < 0
        fin = None
        if neg and abs(final[j] - exp_series[j, -1]) <= 1e-9 * max(absum[j], 1e-300):
            fin = K2      # the returned value IS the defining sum, and that sum is negative
        ctx.check(not neg, 'input-energy.final>=0', lambda: dict(wit(), row=j),
                  'input energy at the end of the record is %r for T=%g (T/dt=%.4g)' % (final[j], per[j], per[j] / sig.dt), finding=fin)


# ------------------------------------------------------------------------------------------------------ object API
def refine(values, k, tail):
    n = len(values)
    m = k * n if tail else (n - 1) * k + 1
    return np.interp(np.arange(m) / k, np.arange(n), values)


def judge_object(ctx, sig, xi, ratio, how):
    import eqsig
    rt = np.array(sig.response_times, dtype=float)
    vals = np.asarray(sig.values, dtype=float)
    dt = float(sig.dt)
    if len(rt) < 1 or (rt[0] == 0 and len(rt) < 2) or len(vals) < 2:
        ctx.observe('object: out-of-domain settings')
        return
    with attach.paused():
        got = [np.array(sig.s_d, dtype=float), np.array(sig.s_v, dtype=float), np.array(sig.s_a, dtype=float)]
    wit = lambda: _wit(fn='object', motion=vals, dt=dt, periods=rt, xi=xi, min_dt_ratio=ratio, how=how)
    tmin = rt[0] if rt[0] != 0 else rt[1]
    target = max(tmin / 20.0, dt / ratio)
    P = len(rt)
    cands = []
    if target >= dt * (1 - 1e-12):
        cands.append((1, dt))
    if target < dt * (1 + 1e-12):
        kmin = max(1, int(np.ceil(dt / target * (1 - 1e-9))))
        for k in range(kmin, 2 * kmin + 2):
            if dt / k <= target * (1 + 1e-9):
                cands.append((k, dt / k))
    accepted = False
    used = None
    with attach.paused():
        for k, d in cands:
            if k == 1:
                lo = hi = [np.asarray(r, dtype=float) for r in eqsig.sdof.pseudo_response_spectra(vals, dt, rt, xi)]
            else:
                r0 = [np.asarray(r, dtype=float) for r in eqsig.sdof.pseudo_response_spectra(refine(vals, k, False), d, rt, xi)]
                r1 = [np.asarray(r, dtype=float) for r in eqsig.sdof.pseudo_response_spectra(refine(vals, k, True), d, rt, xi)]
                lo = [np.minimum(a, b) for a, b in zip(r0, r1)]
                hi = [np.maximum(a, b) for a, b in zip(r0, r1)]
            okk = all(g.shape == (P,) and np.all(g >= l * (1 - 1e-9) - 1e-300) and np.all(g <= h * (1 + 1e-9) + 1e-300)
                      for g, l, h in zip(got, lo, hi))
            if okk:
                accepted = True
                used = (k, d)
                break
        raw = [np.asarray(r, dtype=float) for r in eqsig.sdof.pseudo_response_spectra(vals, dt, rt, xi)]
    ctx.check(accepted, 'object.spectra==functions(refined record)', wit,
              'AccSignal spectra (%s, xi=%g, min_dt_ratio=%g) do not equal the functions applied to any refinement with step <= %.6g '
              '(dt=%g, candidates k=%s); s_d=%s' % (how, xi, ratio, target, dt, [c[0] for c in cands], got[0][:4]))
    # never below the values computed from the raw samples
    for q, name in enumerate(('s_d', 's_v', 's_a')):
        for j in range(P):
            T = rt[j]
            okk = got[q][j] >= raw[q][j] * (1 - 1e-9) - 1e-300
            fin = None
            if not okk and q == 2 and T > 0 and used is not None:
                d_used = used[1]
                if 6 * d_used <= T * (1 + 1e-12) and T < 6 * dt * (1 + 1e-12):
                    w = 2 * np.pi / T
                    if got[2][j] >= w * w * raw[0][j] * (1 - 1e-9):
                        fin = K3
            ctx.check(okk, 'object.never-below-raw', lambda: dict(wit(), quantity=name, row=j),
                      'AccSignal.%s[%d]=%r for T=%g (T/dt=%.4g) is below the raw-sample value %r' % (name, j, got[q][j], T, T / dt, raw[q][j]),
                      finding=fin)


def _post_gen(args, kwargs, result, pre):
    self = args[0]
    a = list(args[1:]) + [None] * 3
    xi = kwargs.get('xi', a[1] if a[1] is not None else -1)
    ratio = kwargs.get('min_dt_ratio', a[2] if a[2] is not None else 4)
    if xi == -1:
        xi = getattr(self, '_cached_xi', 0.05)
    try:
        LAST_GEN[self] = (float(xi), float(ratio))
    except TypeError:
        pass
    if not (0 <= xi < 1):
        CTX.observe('object: out-of-domain xi')
        return
    judge_object(CTX, self, float(xi), float(ratio), 'gen_response_spectrum')


def _post_lazy(self, value):
    p = LAST_GEN.get(self)
    if p is None:
        return
    if attach.STATE['depth'] > 0:
        return
    judge_object(CTX, self, p[0], p[1], 'lazy read')


def install(ctx):
    global CTX
    CTX = ctx
    import eqsig
    attach.wrap(eqsig.sdof, 'pseudo_response_spectra', _post_pseudo)
    attach.wrap(eqsig.sdof, 'true_response_spectra', _post_true)
    attach.wrap(eqsig.sdof, 'calc_resp_uke_spectrum', _post_uke)
    attach.wrap(eqsig.sdof, 'calc_input_energy_spectrum', _post_input_energy)
    attach.wrap_method(eqsig.AccSignal, 'gen_response_spectrum', _post_gen)
    for nm in ('s_a', 's_v', 's_d'):
        attach.wrap_property(eqsig.AccSignal, nm, _post_lazy)


# ------------------------------------------------------------------------------------------------------ workload
XIS = [0.0, 0.05, 0.3, 0.9]
DYADIC = [(0.25, 1.5), (0.125, 0.75), (0.5, 3.0), (0.0625, 0.375), (0.03125, 0.1875), (1.0, 6.0), (2.0, 12.0)]


MANY = [31, 32, 33, 63, 64, 65, 100, 127, 128, 129, 192, 256]


def draw_periods(rng, dt, many=False):
    # period-list LENGTH is an input dimension of its own: besides 1..8, lengths at and around the block sizes a vectorised
    # implementation might use (powers of two and their neighbours)
    P = int(MANY[int(rng.integers(len(MANY)))]) if many else int(rng.integers(1, 9))
    r = rng.random(P)
    ratios = np.where(r < 0.34, rng.uniform(4, 8, size=P), 10 ** rng.uniform(np.log10(0.2), np.log10(300), size=P))
    per = ratios * dt
    for k in range(P):
        q = rng.random()
        if q < 0.08:
            per[k] = dt * 6
        elif q < 0.12:
            per[k] = np.nextafter(dt * 6, 0)
        elif q < 0.16:
            per[k] = np.nextafter(dt * 6, 10)
        elif q < 0.19:
            per[k] = 6 * dt * (1 + 1e-12)
    per = np.maximum(per, 0.2 * dt * (1 + 1e-12))
    if rng.random() < 0.7:
        per = np.sort(per)
    if rng.random() < 0.35:
        per = np.concatenate([[0.0], per])
    return per


def draw_case(rng):
    n = int(rng.choice([2, 3, 4, 5, 8])) if rng.random() < 0.12 else int(rng.integers(9, 401))
    x, cls = gen.record(rng, n, wide=True, extreme=True)
    r = rng.random()
    if r < 0.15:
        dt, T6 = DYADIC[int(rng.integers(len(DYADIC)))]
        per = draw_periods(rng, dt)
        per[-1] = T6
        if rng.random() < 0.5:
            per = np.sort(per)
    elif r < 0.25:
        # integer-valued period containers (with a step that keeps T/dt in range)
        dt = float(rng.choice([0.01, 0.02, 0.05, 0.1, 0.25]))
        k = int(rng.integers(1, 6))
        per = np.sort(rng.choice(np.arange(1, 7), size=k, replace=False)).astype(np.int64)
        if rng.random() < 0.6:
            per = np.concatenate([[0], per]).astype(np.int64)
    else:
        dt = gen.dt(rng)
        if rng.random() < 0.1:      # extreme time bases
            dt = float(10 ** (rng.uniform(-9, -3) if rng.random() < 0.6 else rng.uniform(0, 3)))
        many = rng.random() < 0.05
        if many and n > 120:
            x, n = x[:120], 120
        per = draw_periods(rng, dt, many=many)
        if many:
            cls += '/many-periods'
    if rng.random() < 0.02:
        per = np.array([0.0])            # the rigid oscillator alone
        cls += '/only-T0'
    xi = float(XIS[int(rng.integers(len(XIS)))]) if rng.random() < 0.7 else float(rng.uniform(0, 1))
    return x, cls, dt, per, xi


def period_container(rng, per):
    k = int(rng.integers(4))
    if per.dtype.kind == 'i':
        return [per, [int(t) for t in per], tuple(int(t) for t in per), per][k], ['intarray', 'intlist', 'inttuple', 'intarray'][k]
    return [per, [float(t) for t in per], tuple(float(t) for t in per), per][k], ['array', 'list', 'tuple', 'array'][k]


def run_shard(ctx):
    eqsig = core.import_eqsig()
    install(ctx)
    rng = ctx.rng
    ncase = (3200 if ctx.tier == 'quick' else 60000) // ctx.nshards + 1
    for c in range(ncase):
        x, cls, dt, per, xi = draw_case(rng)
        kind = int(rng.choice(5, p=[0.3, 0.2, 0.3, 0.1, 0.1]))
        cont, ck = gen.container(rng, x, kinds=('f64', 'f64', 'f64', 'f32', 'i64', 'list'))
        r = rng.random()
        if 'extreme-scale' in cls:
            # spectra are linear in the record and stay normal doubles; the energy measures are squares and legitimately
            # under/overflow at these scales, so the extreme class is driven through the spectra only
            kind = int(rng.choice(3, p=[0.4, 0.25, 0.35]))
            cont, ck = ([float(t) for t in x], 'list') if r < 0.3 else (np.array(x, dtype=float), 'f64')
        elif r < 0.05:
            cont, ck = gen.narrow_int(rng, len(x))
        elif r < 0.12:
            cont, ck = gen.view_form(rng, np.array(x, dtype=float))
        pc, pk = period_container(rng, per)
        xi_arg = 0 if (xi == 0.0 and rng.random() < 0.5) else xi
        # scalar forms of the step and the damping: numpy scalars and (mutable) 0-d arrays, which must come back unchanged
        dt_float = float(dt)
        r_dt = rng.random()
        if kind in (0, 1, 2) and r_dt < 0.12:
            dt = [np.float64(dt), np.array(float(dt)), np.array(float(dt))][int(rng.integers(3))]
            if xi_arg != 0 and rng.random() < 0.5:
                xi_arg = np.array(float(xi))
        dig0 = (core.digest(np.asarray(cont)), core.digest(np.asarray(pc)))
        nontriv = bool(np.any(np.asarray(cont, dtype=float) != 0))
        ctx.case(core.digest(np.asarray(cont, dtype=float), dt, np.asarray(per, dtype=float), xi, kind, pk), nontrivial=nontriv,
                 cls='%s/%s/%s' % (['pseudo', 'true', 'object', 'uke', 'input-energy'][kind], cls, pk),
                 sample={'fn': ['pseudo', 'true', 'object', 'uke', 'input-energy'][kind], 'class': cls, 'n': len(x), 'dt': dt,
                         'T/dt': np.asarray(per, dtype=float) / dt, 'xi': xi, 'periods_container': pk})
        try:
            if kind == 0:
                if rng.random() < 0.5:
                    eqsig.sdof.pseudo_response_spectra(cont, dt, pc, xi_arg)
                else:
                    eqsig.sdof.pseudo_response_spectra(motion=cont, dt=dt, periods=pc, xi=xi_arg)
            elif kind == 1:
                if rng.random() < 0.5:
                    eqsig.sdof.true_response_spectra(cont, dt, pc, xi_arg)
                else:
                    eqsig.sdof.true_response_spectra(motion=cont, dt=dt, periods=pc, xi=xi_arg)
            elif kind == 2:
                drive_object(ctx, eqsig, rng, cont, dt, per, xi)
            else:
                sig = eqsig.AccSignal(cont, dt, response_times=np.asarray(per, dtype=float))
                use_default = rng.random() < 0.3
                if kind == 3:
                    if use_default:
                        eqsig.sdof.calc_resp_uke_spectrum(sig)
                    else:
                        eqsig.sdof.calc_resp_uke_spectrum(sig, periods=pc, xi=xi_arg) if rng.random() < 0.5 else eqsig.sdof.calc_resp_uke_spectrum(sig, pc, xi_arg)
                else:
                    ser = bool(rng.random() < 0.5)
                    if use_default:
                        eqsig.sdof.calc_input_energy_spectrum(sig, series=ser)
                    else:
                        eqsig.sdof.calc_input_energy_spectrum(sig, periods=np.asarray(per, dtype=float), xi=xi_arg, series=ser)
                if c % 25 == 0:
                    try:
                        with attach.paused():
                            eqsig.im.calc_asi(sig)
                        ctx.observe('calc_asi exercised (no verdict)')
                    except Exception:
                        ctx.observe('calc_asi raised (no verdict)')
        except Exception as e:
            ctx.exception('spectra.finite+nonneg+shape',
                          _wit(fn=['pseudo', 'true', 'object', 'uke', 'input_energy'][kind], motion=np.asarray(cont), motion_container=type(cont).__name__,
                               dt=dt, periods=np.asarray(per), periods_container=pk, xi=xi), e)
        ctx.check((core.digest(np.asarray(cont)), core.digest(np.asarray(pc))) == dig0 and float(dt) == dt_float
                  and float(xi_arg) == xi, 'arguments-unchanged',
                  lambda: _wit(fn='purity', motion=np.asarray(cont), dt=dt, periods=np.asarray(per), xi=xi),
                  'record or period container modified by the call(s)')
    ctx.note('monitored_calls', dict(attach.CALLS))


def _form(rng, per):
    """the period list in one of the container forms the API accepts"""
    k = int(rng.integers(3))
    per = np.asarray(per, dtype=float)
    return [per, [float(t) for t in per], tuple(float(t) for t in per)][k]


def _periods_kept(ctx, sig, per, how):
    """the object must use exactly the periods the caller gave (ctor keyword, per call, attribute), in any container form"""
    per = np.asarray(per, dtype=float)
    try:
        have = np.asarray(sig.response_times, dtype=float)
        okk = np.array_equal(have, per)
        with attach.paused():
            okk = okk and all(len(np.atleast_1d(q)) == len(per) for q in (sig.s_d, sig.s_v, sig.s_a))
    except Exception:
        okk, have = False, None
    ctx.check(okk, 'object.periods==periods given', lambda: _wit(fn='object', motion=np.asarray(sig.values), dt=sig.dt, periods=per, how=how,
                                                                stored=have),
              'AccSignal holds periods %s (n=%s) after they were given as %s via %s'
              % (None if have is None else have[:4], None if have is None else len(have), per[:4], how))
    ctx.keyset('object periods (how given, count<=3)').add((how, min(len(per), 3)))


def drive_object(ctx, eqsig, rng, cont, dt, per, xi):
    per = np.sort(np.asarray(per, dtype=float))
    if per[0] == 0 and len(per) < 2:
        per = np.concatenate([per, [dt * 7.3]])
    ratio = int(rng.choice([1, 2, 4, 8]))
    mode = int(rng.integers(6))
    if mode == 5:
        # history: spectra generated or read, the record changed through the public API, then LAZY reads only (no explicit
        # regeneration, which would hide a spectrum that was not invalidated): judged against the object's current values
        sig = eqsig.AccSignal(cont, dt, response_times=_form(rng, per))
        if rng.random() < 0.5:
            sig.gen_response_spectrum(xi=xi, min_dt_ratio=ratio)
        else:
            sig.s_a
        n = sig.npts
        k = int(rng.integers(6))
        amp = float(np.max(np.abs(np.asarray(sig.values, dtype=float)))) or 1.0
        if k == 0:
            sig.reset_values(np.asarray(sig.values, dtype=float)[::-1] * 0.5)
        elif k == 1:
            sig.add_constant(0.3 * amp)
        elif k == 2:
            sig.add_series(amp * rng.normal(size=n))
        elif k == 3:
            sig.remove_average()
        elif k == 4:
            sig.reset_values(list(amp * rng.normal(size=n + 3)))
        else:
            sig.remove_poly(1)
        for nm in rng.permutation(['s_d', 's_v', 's_a']):
            getattr(sig, str(nm))
        _periods_kept(ctx, sig, per, 'ctor-kw')
        ctx.keyset('object lazy-read-after-mutator').add(k)
        return
    if mode == 4:
        # sweep: one object, every min_dt_ratio 1..8 in random order, first period short enough that the step rule really
        # selects that factor, and (half of the time) a step for which dt/(dt/k) != k in floating point
        k0 = int(rng.integers(2, 9))
        if rng.random() < 0.5:
            dt_new = gen.awkward_dt(rng, k0)
            per, dt = per / dt * dt_new, dt_new
        pp = per[per > 0]
        pp = pp * (rng.uniform(0.5, 2.4) * dt / pp[0])
        pp = pp[pp <= 300 * dt]      # the 1e-9 relations of this monitor are justified for T/dt <= 300 only (rounding, see C01 K1)
        sig = eqsig.AccSignal(cont, dt, response_times=_form(rng, pp))
        for r_ in rng.permutation([1, 2, 3, 4, 5, 6, 7, 8]):
            sig.gen_response_spectrum(xi=xi, min_dt_ratio=int(r_))
            ctx.keyset('object (min_dt_ratio, int(dt/(dt/r))==r)').add((int(r_), int(dt / (dt / int(r_))) == int(r_)))
        sig.s_a
        _periods_kept(ctx, sig, pp, 'ctor-kw')
        return
    if mode == 0:      # explicit response_times at construction, lazy read (default ratio 4, xi .05)
        sig = eqsig.AccSignal(cont, dt, response_times=_form(rng, per))
        sig.gen_response_spectrum()
        sig.s_a
        _periods_kept(ctx, sig, per, 'ctor-kw')
    elif mode == 1:    # explicit generation with periods / xi / ratio
        sig = eqsig.AccSignal(cont, dt)
        if rng.random() < 0.7:
            sig.gen_response_spectrum(response_times=_form(rng, per), xi=xi, min_dt_ratio=ratio)
            how = 'call-kw'
        else:
            sig.gen_response_spectrum(_form(rng, per), xi, ratio)
            how = 'call-pos'
        sig.s_d
        _periods_kept(ctx, sig, per, how)
    elif mode == 2:    # history: lazy read, then regenerate with another ratio / xi WITHOUT passing the periods again
        sig = eqsig.AccSignal(cont, dt, response_times=_form(rng, per))
        sig.s_a
        sig.gen_response_spectrum(min_dt_ratio=ratio)
        sig.s_v
        sig.generate_response_spectrum(xi=xi, min_dt_ratio=int(rng.choice([1, 2, 4, 8])))
        sig.s_d
        _periods_kept(ctx, sig, per, 'ctor-kw')
    else:              # history: generate, change values / periods through the public API, read again
        sig = eqsig.AccSignal(cont, dt, response_times=_form(rng, per))
        sig.gen_response_spectrum(xi=xi, min_dt_ratio=ratio)
        k = int(rng.integers(3))
        if k == 0:
            sig.reset_values(np.asarray(sig.values, dtype=float) * -1.5)
        elif k == 1:
            sig.add_constant(0.1 * float(np.max(np.abs(np.asarray(sig.values, dtype=float))) + 1))
        else:
            per = per * 1.3
            sig.response_times = _form(rng, per)
        sig.gen_response_spectrum(xi=xi, min_dt_ratio=ratio)
        sig.s_a
        _periods_kept(ctx, sig, per, 'attribute' if k == 2 else 'ctor-kw')


def replay(w):
    eqsig = core.import_eqsig()
    ctx = core.Ctx(PROP_ID, 'quick', 0, 0, 1)
    install(ctx)
    m = w['motion']
    if w.get('motion_container') == 'list':
        m = [float(t) for t in np.asarray(m).tolist()]
    per = w['periods']
    pc = w.get('periods_container', 'array')
    if pc in ('list', 'intlist'):
        per = [t.item() for t in np.asarray(per)]
    elif pc in ('tuple', 'inttuple'):
        per = tuple(t.item() for t in np.asarray(per))
    fn = w.get('fn')
    if fn == 'pseudo':
        eqsig.sdof.pseudo_response_spectra(m, w['dt'], per, w['xi'])
    elif fn == 'true':
        eqsig.sdof.true_response_spectra(m, w['dt'], per, w['xi'])
    elif fn == 'uke':
        eqsig.sdof.calc_resp_uke_spectrum(eqsig.AccSignal(m, w['dt']), periods=per, xi=w['xi'])
    elif fn == 'input_energy':
        eqsig.sdof.calc_input_energy_spectrum(eqsig.AccSignal(m, w['dt']), periods=np.asarray(per, dtype=float), xi=w['xi'], series=w.get('series', False))
    else:
        sig = eqsig.AccSignal(m, w['dt'], response_times=np.sort(np.asarray(w['periods'], dtype=float)))
        sig.s_a
        sig.gen_response_spectrum(xi=w['xi'], min_dt_ratio=w.get('min_dt_ratio', 4))
    return ['%s: %s' % (v['clause'], v['msg']) for v in ctx.violations if not v.get('finding')]
